(* C43: the pruning operations (project_by_ids, Projection::to_schema) return sub-forests of the
   schema, and exactly which root-to-field chains survive. *)
From LanceV Require Import Common.Base Meta.Model_Schema Meta.Proofs_Schema.
Local Open Scope N_scope.

(* ------------------------------------------------------------------ sub-forests and chains *)

(* g is f with some descendants removed: same attributes (id, parent id, name, type, nullability,
   metadata, encoding), children an order-preserving selection of pruned children *)
Inductive subfield : field -> field -> Prop :=
| SubF a ch' ch : subforest ch' ch -> subfield (Fld a ch') (Fld a ch)
with subforest : list field -> list field -> Prop :=
| sf_nil fs : subforest [] fs
| sf_skip gs f fs : subforest gs fs -> subforest gs (f :: fs)
| sf_keep g f gs fs : subfield g f -> subforest gs fs -> subforest (g :: gs) (f :: fs).

Lemma subfield_refl (f : field) : subfield f f.
Proof.
  induction f as [a ch IH] using field_ind'. constructor.
  induction ch as [|c r IHr]; [constructor|].
  inversion IH; subst. apply sf_keep; [assumption | apply IHr; assumption].
Qed.

Lemma subforest_refl (fs : list field) : subforest fs fs.
Proof. induction fs as [|f r IH]; [constructor | apply sf_keep; [apply subfield_refl | exact IH]]. Qed.

Lemma subfield_attrs (g f : field) : subfield g f -> fa g = fa f.
Proof. intros H; inversion H; reflexivity. Qed.

(* root-to-node chains of a forest, in pre-order *)
Fixpoint chains_f (f : field) : list (list field) :=
  match f with Fld a ch => [f] :: map (cons f) (flat_map chains_f ch) end.
Definition chains (fs : list field) : list (list field) := flat_map chains_f fs.
Definition achain (c : list field) : list attrs := map fa c.
Definition achains (fs : list field) : list (list attrs) := map achain (chains fs).

Definition dflt : field := Fld (mkA 0 0 [] LStruct false [] 0 false) [].

Lemma chains_f_head (f : field) (c : list field) : In c (chains_f f) -> exists t, c = f :: t.
Proof.
  destruct f as [a ch]. cbn [chains_f]. intros [<- | H]; [exists []; reflexivity|].
  apply in_map_iff in H as [t [<- _]]. exists t. reflexivity.
Qed.

Lemma chains_f_cases (a : attrs) (ch : list field) (c : list field) :
  In c (chains_f (Fld a ch)) <->
  c = [Fld a ch] \/ exists ci t, In ci ch /\ In t (chains_f ci) /\ c = Fld a ch :: t.
Proof.
  cbn [chains_f]. split.
  - intros [<- | H]; [left; reflexivity|]. right.
    apply in_map_iff in H as [t [<- Ht]]. apply in_flat_map in Ht as [ci [Hci Ht]]. exists ci, t. auto.
  - intros [-> | [ci [t [Hci [Ht ->]]]]]; [left; reflexivity|]. right.
    apply in_map. apply in_flat_map. exists ci. auto.
Qed.

Lemma chains_f_nonempty_tail (f : field) (t : list field) : In t (chains_f f) -> t <> [].
Proof. intros H. apply chains_f_head in H as [u ->]. discriminate. Qed.

Lemma omap_nil {A B} (g : A -> option B) (l : list A) : omap g l = [] <-> forall x, In x l -> g x = None.
Proof.
  unfold omap. induction l as [|x r IH]; cbn [flat_map].
  - split; [intros _ y [] | reflexivity].
  - destruct (g x) eqn:E.
    + split; [discriminate | intros H; specialize (H x (or_introl eq_refl)); congruence].
    + cbn [app]. rewrite IH. split.
      * intros H y [<- | Hy]; [exact E | apply H; exact Hy].
      * intros H y Hy. apply H. right. exact Hy.
Qed.

Lemma in_omap {A B} (g : A -> option B) (l : list A) (y : B) :
  In y (omap g l) <-> exists x, In x l /\ g x = Some y.
Proof.
  unfold omap. rewrite in_flat_map. split.
  - intros [x [Hx Hy]]. exists x. split; [exact Hx|]. destruct (g x); [destruct Hy as [<- | []]; reflexivity | destruct Hy].
  - intros [x [Hx E]]. exists x. split; [exact Hx|]. rewrite E. left. reflexivity.
Qed.

Lemma omap_subforest (g : field -> option field) (l : list field) :
  (forall x y, In x l -> g x = Some y -> subfield y x) -> subforest (omap g l) l.
Proof.
  unfold omap. induction l as [|x r IH]; intros H; cbn [flat_map]; [constructor|].
  destruct (g x) eqn:E; cbn [app].
  - apply sf_keep; [apply H; [left; reflexivity | exact E] | apply IH; intros; eapply H; [right|]; eassumption].
  - apply sf_skip. apply IH. intros; eapply H; [right|]; eassumption.
Qed.

Lemma last_cons_nonempty {A} (x : A) (t : list A) (d : A) : t <> [] -> last (x :: t) d = last t d.
Proof. destruct t; [contradiction | reflexivity]. Qed.

(* ------------------------------------------------------------------ D. project_by_ids *)

Section ByIds.
Variable I : list Z.

Definition sel (f : field) : bool := zmem (fid f) I.
(* some field of the subtree of f (f included) is selected *)
Fixpoint hits (f : field) : bool := match f with Fld a ch => zmem (a_id a) I || existsb hits ch end.
(* some proper descendant of f is selected *)
Definition dhits (f : field) : bool := existsb hits (fch f).

Lemma hits_unfold (f : field) : hits f = sel f || dhits f.
Proof. destruct f; reflexivity. Qed.

Lemma pbi_none_iff (b : bool) (f : field) : fproject_by_ids I b f = None <-> hits f = false.
Proof.
  induction f as [a ch IH] using field_ind'. cbn [fproject_by_ids hits].
  assert (Hnil : is_nil (omap (fproject_by_ids I b) ch) = negb (existsb hits ch)).
  { destruct (existsb hits ch) eqn:E.
    - apply existsb_exists in E as [c [Hc Hh]].
      destruct (omap (fproject_by_ids I b) ch) eqn:Eo; [|reflexivity]. exfalso.
      rewrite omap_nil in Eo. specialize (Eo c Hc).
      rewrite Forall_forall in IH. apply (IH c Hc) in Eo. congruence.
    - assert (Eo : omap (fproject_by_ids I b) ch = []).
      { apply omap_nil. intros c Hc. rewrite Forall_forall in IH. apply (IH c Hc).
        destruct (hits c) eqn:Eh; [|reflexivity]. exfalso.
        assert (existsb hits ch = true) by (apply existsb_exists; exists c; auto). congruence. }
      rewrite Eo. reflexivity. }
  rewrite Hnil. destruct (zmem (a_id a) I), (existsb hits ch), b; cbn; split; congruence.
Qed.

Lemma pbi_children_nil (b : bool) (ch : list field) :
  is_nil (omap (fproject_by_ids I b) ch) = negb (existsb hits ch).
Proof.
  destruct (existsb hits ch) eqn:E.
  - apply existsb_exists in E as [c [Hc Hh]].
    destruct (omap (fproject_by_ids I b) ch) eqn:Eo; [|reflexivity]. exfalso.
    rewrite omap_nil in Eo. specialize (Eo c Hc). apply pbi_none_iff in Eo. congruence.
  - assert (Eo : omap (fproject_by_ids I b) ch = []).
    { apply omap_nil. intros c Hc. apply pbi_none_iff.
      destruct (hits c) eqn:Eh; [|reflexivity]. exfalso.
      assert (existsb hits ch = true) by (apply existsb_exists; exists c; auto). congruence. }
    rewrite Eo. reflexivity.
Qed.

Lemma pbi_subfield (b : bool) (f r : field) : fproject_by_ids I b f = Some r -> subfield r f.
Proof.
  revert r. induction f as [a ch IH] using field_ind'. intros r H. cbn [fproject_by_ids] in H.
  destruct (zmem (a_id a) I && (is_nil (omap (fproject_by_ids I b) ch) || b)).
  - inversion H; subst. apply subfield_refl.
  - destruct (negb (is_nil (omap (fproject_by_ids I b) ch))); [|discriminate].
    inversion H; subst. constructor. apply omap_subforest.
    intros x y Hx Hy. rewrite Forall_forall in IH. apply (IH x Hx). exact Hy.
Qed.

Lemma project_by_ids_subforest (s : schema) (b : bool) : subforest (project_by_ids s I b) s.
Proof. unfold project_by_ids. apply omap_subforest. intros x y _ H. eapply pbi_subfield; eassumption. Qed.

(* fields of a chain below f lie in the subtree of f *)
Lemma hits_of_chain (f : field) (c : list field) :
  In c (chains_f f) -> forall x, In x c -> hits x = true -> hits f = true.
Proof.
  revert c. induction f as [a ch IH] using field_ind'. intros c Hc x Hx Hh.
  apply chains_f_cases in Hc as [-> | [ci [t [Hci [Ht ->]]]]].
  - destruct Hx as [<- | []]. exact Hh.
  - destruct Hx as [<- | Hx]; [exact Hh|].
    cbn [hits]. apply orb_true_iff. right. apply existsb_exists. exists ci. split; [exact Hci|].
    rewrite Forall_forall in IH. apply (IH ci Hci t Ht x Hx Hh).
Qed.

Lemma sel_hits (x : field) : sel x = true -> hits x = true.
Proof. intros H. rewrite hits_unfold, H. reflexivity. Qed.

Lemma dhits_hits (x : field) : dhits x = true -> hits x = true.
Proof. intros H. rewrite hits_unfold, H. apply orb_true_r. Qed.

Lemma last_in_chain (f : field) (c : list field) : In c (chains_f f) -> In (last c dflt) c.
Proof.
  intros H. apply chains_f_head in H as [t ->].
  assert (G : forall (l : list field) x, In (last (x :: l) dflt) (x :: l)).
  { induction l as [|y r IHl]; intros x; [left; reflexivity|]. right. apply IHl. }
  apply G.
Qed.

(* --- include_all_children = true: a field is kept iff it or an ancestor or a descendant is selected *)
Definition keepT (c : list field) : bool := existsb sel c || dhits (last c dflt).

Lemma keepT_cons (f : field) (t : list field) : t <> [] -> keepT (f :: t) = sel f || keepT t.
Proof.
  intros Hne. unfold keepT. cbn [existsb]. rewrite (last_cons_nonempty f t dflt Hne).
  rewrite orb_assoc. reflexivity.
Qed.

Lemma keepT_none (f : field) : hits f = false -> forall c, In c (chains_f f) -> keepT c = false.
Proof.
  intros Hf c Hc. unfold keepT. apply orb_false_iff. split.
  - destruct (existsb sel c) eqn:E; [|reflexivity]. exfalso.
    apply existsb_exists in E as [x [Hx Hs]]. apply sel_hits in Hs.
    rewrite (hits_of_chain f c Hc x Hx Hs) in Hf. discriminate.
  - destruct (dhits (last c dflt)) eqn:E; [|reflexivity]. exfalso.
    apply dhits_hits in E. rewrite (hits_of_chain f c Hc _ (last_in_chain f c Hc) E) in Hf. discriminate.
Qed.

Lemma flat_chains_omap (g : field -> option field) (ch : list field) (P : list field -> bool) :
  (forall ci ri, In ci ch -> g ci = Some ri ->
     forall ac, In ac (map achain (chains_f ri)) <-> exists c, In c (chains_f ci) /\ achain c = ac /\ P c = true) ->
  (forall ci, In ci ch -> g ci = None -> forall c, In c (chains_f ci) -> P c = false) ->
  forall ac, In ac (map achain (flat_map chains_f (omap g ch))) <->
             exists ci c, In ci ch /\ In c (chains_f ci) /\ achain c = ac /\ P c = true.
Proof.
  intros Hs Hn ac. rewrite in_map_iff. split.
  - intros [cr [Hac Hcr]]. apply in_flat_map in Hcr as [ri [Hri Hcr]].
    apply in_omap in Hri as [ci [Hci Hg]].
    destruct (proj1 (Hs ci ri Hci Hg ac)) as [c [Hc [Ha Hp]]].
    { apply in_map_iff. exists cr. auto. }
    exists ci, c. auto.
  - intros [ci [c [Hci [Hc [Ha Hp]]]]]. destruct (g ci) as [ri|] eqn:Hg.
    + pose proof (proj2 (Hs ci ri Hci Hg ac) (ex_intro _ c (conj Hc (conj Ha Hp)))) as Hcr.
      apply in_map_iff in Hcr. destruct Hcr as [cr' [Hcr1 Hcr2]].
      exists cr'. split; [exact Hcr1|]. apply in_flat_map. exists ri. split; [|exact Hcr2].
      apply in_omap. exists ci. auto.
    + rewrite (Hn ci Hci Hg c Hc) in Hp. discriminate.
Qed.

Lemma pbi_chains_all (f : field) :
  (forall r, fproject_by_ids I true f = Some r ->
     forall ac, In ac (map achain (chains_f r)) <-> exists c, In c (chains_f f) /\ achain c = ac /\ keepT c = true).
Proof.
  induction f as [a ch IH] using field_ind'. intros r H ac.
  cbn [fproject_by_ids] in H. rewrite orb_true_r, andb_true_r in H.
  destruct (zmem (a_id a) I) eqn:Es.
  - inversion H; subst r. split.
    + intros Hin. apply in_map_iff in Hin as [c [Hac Hc]]. exists c. split; [exact Hc|]. split; [exact Hac|].
      destruct (chains_f_head _ _ Hc) as [t ->]. unfold keepT. cbn [existsb]. unfold sel at 1. unfold fid; cbn [fa].
      rewrite Es. reflexivity.
    + intros [c [Hc [Hac _]]]. apply in_map_iff. exists c. auto.
  - rewrite pbi_children_nil, negb_involutive in H.
    destruct (existsb hits ch) eqn:Eh; [|discriminate]. inversion H; subst r. clear H.
    cbn [chains_f map]. split.
    + intros [Hin | Hin].
      * exists [Fld a ch]. split; [left; reflexivity|]. split; [exact Hin|].
        unfold keepT. cbn [existsb last]. unfold dhits; cbn [fch]. rewrite Eh. apply orb_true_r.
      * rewrite map_map in Hin. apply in_map_iff in Hin as [cr [Hac Hcr]].
        assert (Hx : In (achain cr) (map achain (flat_map chains_f (omap (fproject_by_ids I true) ch)))) by (apply in_map; exact Hcr).
        rewrite (flat_chains_omap (fproject_by_ids I true) ch keepT) in Hx.
        -- destruct Hx as [ci [c [Hci [Hc [Ha Hk]]]]].
           exists (Fld a ch :: c). split; [apply chains_f_cases; right; exists ci, c; auto|].
           split; [cbn [achain map] in *; rewrite <- Hac; cbn [map]; f_equal; exact Ha|].
           rewrite keepT_cons by (eapply chains_f_nonempty_tail; eassumption). rewrite Hk. apply orb_true_r.
        -- intros ci ri Hci Hg. rewrite Forall_forall in IH. apply (IH ci Hci ri Hg).
        -- intros ci Hci Hg. apply keepT_none. apply (pbi_none_iff true). exact Hg.
    + intros [c [Hc [Hac Hk]]]. apply chains_f_cases in Hc as [-> | [ci [t [Hci [Ht ->]]]]].
      * left. exact Hac.
      * right. rewrite map_map.
        rewrite keepT_cons in Hk by (eapply chains_f_nonempty_tail; eassumption).
        unfold sel in Hk at 1. unfold fid in Hk; cbn [fa] in Hk. rewrite Es in Hk. cbn [orb] in Hk.
        assert (Hx : In (achain t) (map achain (flat_map chains_f (omap (fproject_by_ids I true) ch)))).
        { rewrite (flat_chains_omap (fproject_by_ids I true) ch keepT).
          - exists ci, t. auto.
          - intros cj rj Hcj Hg. rewrite Forall_forall in IH. apply (IH cj Hcj rj Hg).
          - intros cj Hcj Hg. apply keepT_none. apply (pbi_none_iff true). exact Hg. }
        apply in_map_iff in Hx as [cr [Hcr1 Hcr2]]. apply in_map_iff. exists cr. split; [|exact Hcr2].
        cbn [achain map] in *. rewrite <- Hac. f_equal. exact Hcr1.
Qed.

(* --- include_all_children = false: kept iff it or a descendant is selected, or it lies below a
   selected field none of whose descendants is selected *)
Fixpoint keepF (c : list field) : bool :=
  match c with
  | [] => false
  | x :: rest =>
      match rest with
      | [] => hits x
      | _ :: _ => (sel x && negb (dhits x)) || keepF rest
      end
  end.

Lemma keepF_cons (f : field) (t : list field) : t <> [] -> keepF (f :: t) = (sel f && negb (dhits f)) || keepF t.
Proof. destruct t; [contradiction | reflexivity]. Qed.

Lemma keepF_none (f : field) : hits f = false -> forall c, In c (chains_f f) -> keepF c = false.
Proof.
  induction f as [a ch IH] using field_ind'. intros Hf c Hc.
  apply chains_f_cases in Hc as [-> | [ci [t [Hci [Ht ->]]]]].
  - exact Hf.
  - rewrite keepF_cons by (eapply chains_f_nonempty_tail; eassumption).
    cbn [hits] in Hf. apply orb_false_iff in Hf as [Hs Hd].
    unfold sel, fid; cbn [fa]. rewrite Hs. cbn [andb orb].
    rewrite Forall_forall in IH. apply (IH ci Hci); [|exact Ht].
    destruct (hits ci) eqn:E; [|reflexivity]. exfalso.
    assert (existsb hits ch = true) by (apply existsb_exists; exists ci; auto). congruence.
Qed.

Lemma pbi_chains_sel (f : field) :
  (forall r, fproject_by_ids I false f = Some r ->
     forall ac, In ac (map achain (chains_f r)) <-> exists c, In c (chains_f f) /\ achain c = ac /\ keepF c = true).
Proof.
  induction f as [a ch IH] using field_ind'. intros r H ac.
  cbn [fproject_by_ids] in H. rewrite orb_false_r in H. rewrite pbi_children_nil in H.
  destruct (existsb hits ch) eqn:Eh; cbn [negb] in H.
  - rewrite andb_false_r in H. inversion H; subst r. clear H.
    cbn [chains_f map]. split.
    + intros [Hin | Hin].
      * exists [Fld a ch]. split; [left; reflexivity|]. split; [exact Hin|].
        cbn [keepF hits]. rewrite Eh. apply orb_true_r.
      * rewrite map_map in Hin. apply in_map_iff in Hin as [cr [Hac Hcr]].
        assert (Hx : In (achain cr) (map achain (flat_map chains_f (omap (fproject_by_ids I false) ch)))) by (apply in_map; exact Hcr).
        rewrite (flat_chains_omap (fproject_by_ids I false) ch keepF) in Hx.
        -- destruct Hx as [ci [c [Hci [Hc [Ha Hk]]]]].
           exists (Fld a ch :: c). split; [apply chains_f_cases; right; exists ci, c; auto|].
           split; [cbn [achain map] in *; rewrite <- Hac; cbn [map]; f_equal; exact Ha|].
           rewrite keepF_cons by (eapply chains_f_nonempty_tail; eassumption). rewrite Hk. apply orb_true_r.
        -- intros ci ri Hci Hg. rewrite Forall_forall in IH. apply (IH ci Hci ri Hg).
        -- intros ci Hci Hg. apply keepF_none. apply (pbi_none_iff false). exact Hg.
    + intros [c [Hc [Hac Hk]]]. apply chains_f_cases in Hc as [-> | [ci [t [Hci [Ht ->]]]]].
      * left. exact Hac.
      * right. rewrite map_map.
        rewrite keepF_cons in Hk by (eapply chains_f_nonempty_tail; eassumption).
        unfold dhits in Hk; cbn [fch] in Hk. rewrite Eh in Hk. cbn [negb] in Hk. rewrite andb_false_r in Hk. cbn [orb] in Hk.
        assert (Hx : In (achain t) (map achain (flat_map chains_f (omap (fproject_by_ids I false) ch)))).
        { rewrite (flat_chains_omap (fproject_by_ids I false) ch keepF).
          - exists ci, t. auto.
          - intros cj rj Hcj Hg. rewrite Forall_forall in IH. apply (IH cj Hcj rj Hg).
          - intros cj Hcj Hg. apply keepF_none. apply (pbi_none_iff false). exact Hg. }
        apply in_map_iff in Hx as [cr [Hcr1 Hcr2]]. apply in_map_iff. exists cr. split; [|exact Hcr2].
        cbn [achain map] in *. rewrite <- Hac. f_equal. exact Hcr1.
  - rewrite andb_true_r in H. destruct (zmem (a_id a) I) eqn:Es; [|discriminate].
    inversion H; subst r. split.
    + intros Hin. apply in_map_iff in Hin as [c [Hac Hc]]. exists c. split; [exact Hc|]. split; [exact Hac|].
      destruct (chains_f_head _ _ Hc) as [t ->]. destruct t as [|y t'].
      * cbn [keepF hits]. rewrite Es. reflexivity.
      * rewrite keepF_cons by discriminate. unfold sel, fid, dhits; cbn [fa fch]. rewrite Es, Eh. reflexivity.
    + intros [c [Hc [Hac _]]]. apply in_map_iff. exists c. auto.
Qed.

End ByIds.

Lemma in_achains_flat (g : field -> option field) (s : list field) (P : list field -> bool) :
  (forall f r, In f s -> g f = Some r ->
     forall ac, In ac (map achain (chains_f r)) <-> exists c, In c (chains_f f) /\ achain c = ac /\ P c = true) ->
  (forall f, In f s -> g f = None -> forall c, In c (chains_f f) -> P c = false) ->
  forall ac, In ac (achains (omap g s)) <-> exists c, In c (chains s) /\ achain c = ac /\ P c = true.
Proof.
  intros Hs Hn ac. unfold achains, chains. rewrite (flat_chains_omap g s P Hs Hn). split.
  - intros [f [c [Hf [Hc H]]]]. exists c. split; [apply in_flat_map; exists f; auto | exact H].
  - intros [c [Hc H]]. apply in_flat_map in Hc as [f [Hf Hc]]. exists f, c. auto.
Qed.

Theorem project_by_ids_chains_all (s : schema) (I : list Z) (ac : list attrs) :
  In ac (achains (project_by_ids s I true)) <-> exists c, In c (chains s) /\ achain c = ac /\ keepT I c = true.
Proof.
  unfold project_by_ids. apply in_achains_flat.
  - intros f r _ H. apply pbi_chains_all. exact H.
  - intros f _ H. apply keepT_none. apply (pbi_none_iff I true). exact H.
Qed.

(* ------------------------------------------------------------------ F. Projection::to_schema *)

Section ApplyProjection.
Variable I : list Z.

(* the assertion of Field::apply_projection fires: a selected nested field none of whose
   descendants is selected *)
Fixpoint panics (f : field) : bool :=
  match f with
  | Fld a ch => (negb (is_nil ch) && zmem (a_id a) I && negb (existsb (hits I) ch)) || existsb panics ch
  end.

Fixpoint prune (f : field) : option field :=
  match f with
  | Fld a ch =>
      let ch' := omap prune ch in
      if is_nil ch' && negb (zmem (a_id a) I) then None else Some (Fld a ch')
  end.

Lemma prune_none_iff (f : field) : prune f = None <-> hits I f = false.
Proof.
  induction f as [a ch IH] using field_ind'. cbn [prune hits].
  assert (Hnil : is_nil (omap prune ch) = negb (existsb (hits I) ch)).
  { destruct (existsb (hits I) ch) eqn:E.
    - apply existsb_exists in E as [c [Hc Hh]].
      destruct (omap prune ch) eqn:Eo; [|reflexivity]. exfalso.
      rewrite omap_nil in Eo. specialize (Eo c Hc).
      rewrite Forall_forall in IH. apply (IH c Hc) in Eo. congruence.
    - assert (Eo : omap prune ch = []).
      { apply omap_nil. intros c Hc. rewrite Forall_forall in IH. apply (IH c Hc).
        destruct (hits I c) eqn:Eh; [|reflexivity]. exfalso.
        assert (existsb (hits I) ch = true) by (apply existsb_exists; exists c; auto). congruence. }
      rewrite Eo. reflexivity. }
  rewrite Hnil. destruct (zmem (a_id a) I), (existsb (hits I) ch); cbn; split; congruence.
Qed.

Lemma prune_children_nil (ch : list field) : is_nil (omap prune ch) = negb (existsb (hits I) ch).
Proof.
  destruct (existsb (hits I) ch) eqn:E.
  - apply existsb_exists in E as [c [Hc Hh]].
    destruct (omap prune ch) eqn:Eo; [|reflexivity]. exfalso.
    rewrite omap_nil in Eo. specialize (Eo c Hc). apply prune_none_iff in Eo. congruence.
  - assert (Eo : omap prune ch = []).
    { apply omap_nil. intros c Hc. apply prune_none_iff.
      destruct (hits I c) eqn:Eh; [|reflexivity]. exfalso.
      assert (existsb (hits I) ch = true) by (apply existsb_exists; exists c; auto). congruence. }
    rewrite Eo. reflexivity.
Qed.

Lemma prune_subfield (f r : field) : prune f = Some r -> subfield r f.
Proof.
  revert r. induction f as [a ch IH] using field_ind'. intros r H. cbn [prune] in H.
  destruct (is_nil (omap prune ch) && negb (zmem (a_id a) I)); [discriminate|].
  inversion H; subst. constructor. apply omap_subforest.
  intros x y Hx Hy. rewrite Forall_forall in IH. apply (IH x Hx). exact Hy.
Qed.

Definition keepP (c : list field) : bool := hits I (last c dflt).

Lemma keepP_none (f : field) : hits I f = false -> forall c, In c (chains_f f) -> keepP c = false.
Proof.
  intros Hf c Hc. unfold keepP. destruct (hits I (last c dflt)) eqn:E; [|reflexivity]. exfalso.
  rewrite (hits_of_chain I f c Hc _ (last_in_chain f c Hc) E) in Hf. discriminate.
Qed.

Lemma prune_chains (f : field) :
  forall r, prune f = Some r ->
    forall ac, In ac (map achain (chains_f r)) <-> exists c, In c (chains_f f) /\ achain c = ac /\ keepP c = true.
Proof.
  induction f as [a ch IH] using field_ind'. intros r H ac.
  assert (Hh : hits I (Fld a ch) = true).
  { destruct (hits I (Fld a ch)) eqn:E; [reflexivity|]. apply prune_none_iff in E. congruence. }
  cbn [prune] in H. destruct (is_nil (omap prune ch) && negb (zmem (a_id a) I)); [discriminate|].
  inversion H; subst r. clear H. cbn [chains_f map]. split.
  - intros [Hin | Hin].
    + exists [Fld a ch]. split; [left; reflexivity|]. split; [exact Hin | exact Hh].
    + rewrite map_map in Hin. apply in_map_iff in Hin as [cr [Hac Hcr]].
      assert (Hx : In (achain cr) (map achain (flat_map chains_f (omap prune ch)))) by (apply in_map; exact Hcr).
      rewrite (flat_chains_omap prune ch keepP) in Hx.
      * destruct Hx as [ci [c [Hci [Hc [Ha Hk]]]]].
        exists (Fld a ch :: c). split; [apply chains_f_cases; right; exists ci, c; auto|].
        split; [cbn [achain map] in *; rewrite <- Hac; cbn [map]; f_equal; exact Ha|].
        unfold keepP in *. rewrite last_cons_nonempty by (eapply chains_f_nonempty_tail; eassumption). exact Hk.
      * intros ci ri Hci Hg. rewrite Forall_forall in IH. apply (IH ci Hci ri Hg).
      * intros ci Hci Hg. apply keepP_none. apply prune_none_iff. exact Hg.
  - intros [c [Hc [Hac Hk]]]. apply chains_f_cases in Hc as [-> | [ci [t [Hci [Ht ->]]]]].
    + left. exact Hac.
    + right. rewrite map_map.
      unfold keepP in Hk. rewrite last_cons_nonempty in Hk by (eapply chains_f_nonempty_tail; eassumption).
      assert (Hx : In (achain t) (map achain (flat_map chains_f (omap prune ch)))).
      { rewrite (flat_chains_omap prune ch keepP).
        - exists ci, t. auto.
        - intros cj rj Hcj Hg. rewrite Forall_forall in IH. apply (IH cj Hcj rj Hg).
        - intros cj Hcj Hg. apply keepP_none. apply prune_none_iff. exact Hg. }
      apply in_map_iff in Hx as [cr [Hcr1 Hcr2]]. apply in_map_iff. exists cr. split; [|exact Hcr2].
      cbn [achain map] in *. rewrite <- Hac. f_equal. exact Hcr1.
Qed.

(* the implementation computes prune, or panics exactly when the assertion fires somewhere *)
Lemma fapply_projection_spec (f : field) :
  fapply_projection I f = if panics f then Panic else Ok (prune f).
Proof.
  induction f as [a ch IH] using field_ind'.
  assert (G : forall cs, Forall (fun c => fapply_projection I c = if panics c then Panic else Ok (prune c)) cs ->
            (fix go (cs : list field) : outcome (list field) :=
               match cs with
               | [] => Ok []
               | c :: r =>
                   match fapply_projection I c with
                   | Ok x => match go r with
                             | Ok l => Ok (match x with Some y => y :: l | None => l end)
                             | Err => Err
                             | Panic => Panic
                             end
                   | Err => Err
                   | Panic => Panic
                   end
               end) cs = if existsb panics cs then Panic else Ok (omap prune cs)).
  { induction cs as [|c r IHr]; intros Hall; [reflexivity|].
    inversion Hall as [|? ? Hc Hr]; subst. rewrite Hc. cbn [existsb].
    destruct (panics c); [reflexivity|]. cbn [orb]. rewrite (IHr Hr).
    destruct (existsb panics r); [reflexivity|]. unfold omap. cbn [flat_map].
    destruct (prune c); reflexivity. }
  cbn [fapply_projection panics prune]. rewrite (G ch IH).
  destruct (existsb panics ch) eqn:Ep; [rewrite orb_true_r; reflexivity|]. rewrite orb_false_r.
  rewrite prune_children_nil.
  destruct (is_nil ch), (zmem (a_id a) I), (existsb (hits I) ch); reflexivity.
Qed.

Lemma apply_projection_go_spec (fs : list field) :
  apply_projection_go I fs = if existsb panics fs then Panic else Ok (omap prune fs).
Proof.
  induction fs as [|f r IH]; [reflexivity|]. cbn [apply_projection_go existsb].
  rewrite fapply_projection_spec. destruct (panics f); [reflexivity|]. cbn [orb]. rewrite IH.
  destruct (existsb panics r); [reflexivity|]. unfold omap. cbn [flat_map]. destruct (prune f); reflexivity.
Qed.

End ApplyProjection.

Theorem to_bare_schema_spec (base : schema) (p : projection) :
  (existsb (panics (p_ids p)) base = true -> to_bare_schema base p = Panic) /\
  (existsb (panics (p_ids p)) base = false ->
     exists r, to_bare_schema base p = Ok r /\ subforest r base /\
       forall ac, In ac (achains r) <->
                  exists c, In c (chains base) /\ achain c = ac /\ hits (p_ids p) (last c dflt) = true).
Proof.
  unfold to_bare_schema. rewrite apply_projection_go_spec. split; intros H; rewrite H; [reflexivity|].
  exists (omap (prune (p_ids p)) base). split; [reflexivity|]. split.
  - apply omap_subforest. intros x y _ Hy. eapply prune_subfield; eassumption.
  - intros ac. apply (in_achains_flat (prune (p_ids p)) base (keepP (p_ids p))).
    + intros f r _ Hr. apply prune_chains. exact Hr.
    + intros f _ Hn. apply keepP_none. apply prune_none_iff. exact Hn.
Qed.

Theorem project_by_ids_chains_sel (s : schema) (I : list Z) (ac : list attrs) :
  In ac (achains (project_by_ids s I false)) <-> exists c, In c (chains s) /\ achain c = ac /\ keepF I c = true.
Proof.
  unfold project_by_ids. apply in_achains_flat.
  - intros f r _ H. apply pbi_chains_sel. exact H.
  - intros f _ H. apply keepF_none. apply (pbi_none_iff I false). exact H.
Qed.
