(* C43: the stored form.  Schema -> flat pb::Field list (pre-order, parent ids) -> Schema is the
   identity on well-identified schemas; Schema::try_from(&ArrowSchema) produces such schemas. *)
From LanceV Require Import Common.Base Meta.Model_Schema Meta.Proofs_Schema.
Local Open Scope N_scope.

Lemma NoDup_app_l {A} (l1 l2 : list A) : NoDup (l1 ++ l2) -> NoDup l1.
Proof.
  induction l1 as [|x r IH]; intros H; [constructor|]. cbn [app] in H. apply NoDup_cons_iff in H as [Hx Hr].
  constructor; [intros Hin; apply Hx; apply in_or_app; left; exact Hin | apply IH; exact Hr].
Qed.
Lemma NoDup_app_r {A} (l1 l2 : list A) : NoDup (l1 ++ l2) -> NoDup l2.
Proof.
  induction l1 as [|x r IH]; intros H; [exact H|]. cbn [app] in H. apply NoDup_cons_iff in H as [_ Hr]. apply IH. exact Hr.
Qed.

(* ------------------------------------------------------------------ metadata maps *)

Fixpoint meta_sortedb (m : meta) : bool :=
  match m with
  | [] => true
  | (k, _) :: r => forallb (fun kv => str_ltb k (fst kv)) r && meta_sortedb r
  end.

Lemma str_ltb_asym (a b : str) : str_ltb a b = true -> str_ltb b a = false.
Proof.
  revert b. induction a as [|x r IH]; intros [|y s] H; cbn [str_ltb] in *; try discriminate; try reflexivity.
  destruct (x <? y) eqn:E1.
  - apply N.ltb_lt in E1. destruct (y <? x) eqn:E2; [apply N.ltb_lt in E2; lia|].
    destruct (y =? x) eqn:E3; [apply N.eqb_eq in E3; lia | reflexivity].
  - destruct (x =? y) eqn:E2; [|discriminate]. apply N.eqb_eq in E2. subst y.
    rewrite N.ltb_irrefl, N.eqb_refl. apply IH. exact H.
Qed.

Lemma meta_get_in (k v : str) (m : meta) : meta_get k m = Some v -> In (k, v) m.
Proof.
  induction m as [|[k' v'] r IH]; cbn [meta_get]; [discriminate|].
  destruct (str_eqb k k') eqn:E.
  - intros H. inversion H; subst. apply str_eqb_eq in E. subst. left. reflexivity.
  - intros H. right. apply IH. exact H.
Qed.

Lemma meta_insert_same (k v : str) (m : meta) :
  meta_sortedb m = true -> meta_get k m = Some v -> meta_insert k v m = m.
Proof.
  induction m as [|[k' v'] r IH]; cbn [meta_sortedb meta_get meta_insert]; [discriminate|].
  intros Hs Hg. apply andb_true_iff in Hs as [Hk Hr].
  destruct (str_eqb k k') eqn:E.
  - inversion Hg; subst. apply str_eqb_eq in E. subst. reflexivity.
  - assert (Hlt : str_ltb k k' = false).
    { apply meta_get_in in Hg. eapply forallb_forall in Hk; [|exact Hg]. cbn [fst] in Hk.
      apply str_ltb_asym. exact Hk. }
    rewrite Hlt. f_equal. apply IH; assumption.
Qed.

(* ------------------------------------------------------------------ attributes survive pb *)

Definition attrs_canon (a : attrs) : bool := (a_enc a <=? 4) && meta_sortedb (a_meta a).

Lemma of_pb_to_pb (f : field) : attrs_canon (fa f) = true -> of_pb (to_pb f) = Fld (fa f) [].
Proof.
  unfold attrs_canon. intros H. apply andb_true_iff in H as [He Hm]. apply N.leb_le in He.
  unfold of_pb, to_pb. cbn.
  assert (E1 : (if 4 <? a_enc (fa f) then 0 else a_enc (fa f)) = a_enc (fa f)).
  { destruct (4 <? a_enc (fa f)) eqn:E; [apply N.ltb_lt in E; lia | reflexivity]. }
  rewrite E1.
  assert (E2 : match match meta_get EXT_KEY (a_meta (fa f)) with Some v => v | None => [] end with
               | [] => a_meta (fa f)
               | _ :: _ => meta_insert EXT_KEY match meta_get EXT_KEY (a_meta (fa f)) with Some v => v | None => [] end (a_meta (fa f))
               end = a_meta (fa f)).
  { destruct (meta_get EXT_KEY (a_meta (fa f))) as [v|] eqn:Eg; [|reflexivity].
    destruct v as [|c v']; [reflexivity|]. apply meta_insert_same; assumption. }
  rewrite E2. destruct (fa f). reflexivity.
Qed.

(* ------------------------------------------------------------------ grafting a field under a parent id *)

Lemma insert_child_f_unfold (pid : Z) (nf : field) (a : attrs) (ch : list field) :
  insert_child_f pid nf (Fld a ch) =
  if Z.eqb (a_id a) pid then Some (Fld a (ch ++ [nf]))
  else match insert_child pid nf ch with Some ch' => Some (Fld a ch') | None => None end.
Proof.
  cbn [insert_child_f]. destruct (Z.eqb (a_id a) pid); [reflexivity|].
  assert (E : (fix go (cs : list field) : option (list field) :=
                 match cs with
                 | [] => None
                 | c :: r =>
                     match insert_child_f pid nf c with
                     | Some c' => Some (c' :: r)
                     | None => match go r with Some r' => Some (c :: r') | None => None end
                     end
                 end) ch = insert_child pid nf ch).
  { induction ch as [|c r IH]; [reflexivity|]. cbn [insert_child]. rewrite IH. reflexivity. }
  rewrite E. reflexivity.
Qed.

Lemma field_ids_cons (f : field) (r : list field) : field_ids (f :: r) = fids f ++ field_ids r.
Proof. reflexivity. Qed.

Lemma field_ids_app (l1 l2 : list field) : field_ids (l1 ++ l2) = field_ids l1 ++ field_ids l2.
Proof. unfold field_ids. apply flat_map_app. Qed.

Lemma fids_unfold (a : attrs) (ch : list field) : fids (Fld a ch) = a_id a :: field_ids ch.
Proof. reflexivity. Qed.

(* found-ness depends only on whether the parent id occurs *)
Lemma insert_child_f_notin (pid : Z) (nf : field) (f : field) :
  ~ In pid (fids f) -> insert_child_f pid nf f = None.
Proof.
  induction f as [a ch IH] using field_ind'. rewrite insert_child_f_unfold, fids_unfold. intros H.
  cbn [In] in H.
  assert (E : Z.eqb (a_id a) pid = false) by (apply Z.eqb_neq; tauto). rewrite E.
  assert (G : insert_child pid nf ch = None).
  { assert (Hch : ~ In pid (field_ids ch)) by tauto. clear H E.
    induction ch as [|c r IHr]; [reflexivity|]. inversion IH as [|? ? Hc Hr]; subst.
    rewrite field_ids_cons, in_app_iff in Hch. cbn [insert_child].
    rewrite Hc by tauto. rewrite IHr by tauto. reflexivity. }
  rewrite G. reflexivity.
Qed.

Lemma insert_child_notin (pid : Z) (nf : field) (fs : list field) :
  ~ In pid (field_ids fs) -> insert_child pid nf fs = None.
Proof.
  induction fs as [|c r IHr]; intros H; [reflexivity|].
  rewrite field_ids_cons, in_app_iff in H. cbn [insert_child].
  rewrite insert_child_f_notin by tauto. rewrite IHr by tauto. reflexivity.
Qed.

Lemma insert_child_f_in (pid : Z) (nf : field) (f : field) :
  In pid (fids f) -> exists r, insert_child_f pid nf f = Some r.
Proof.
  induction f as [a ch IH] using field_ind'. rewrite insert_child_f_unfold, fids_unfold. intros H.
  destruct (Z.eqb (a_id a) pid) eqn:E; [eexists; reflexivity|].
  apply Z.eqb_neq in E. cbn [In] in H. destruct H as [H|H]; [contradiction|].
  assert (G : exists r, insert_child pid nf ch = Some r).
  { clear E. induction ch as [|c r IHr]; [destruct H|]. inversion IH as [|? ? Hc Hr]; subst.
    rewrite field_ids_cons, in_app_iff in H. cbn [insert_child].
    destruct (in_dec Z.eq_dec pid (fids c)) as [Hin|Hn].
    - destruct (Hc Hin) as [c' Hc']. rewrite Hc'. eexists; reflexivity.
    - rewrite (insert_child_f_notin pid nf c Hn). destruct H as [H|H]; [contradiction|].
      destruct (IHr Hr H) as [r' Hr']. rewrite Hr'. eexists; reflexivity. }
  destruct G as [r' Hr']. rewrite Hr'. eexists; reflexivity.
Qed.

Lemma insert_child_in (pid : Z) (nf : field) (fs : list field) :
  In pid (field_ids fs) -> exists r, insert_child pid nf fs = Some r.
Proof.
  induction fs as [|c r IHr]; intros H; [destruct H|].
  rewrite field_ids_cons, in_app_iff in H. cbn [insert_child].
  destruct (in_dec Z.eq_dec pid (fids c)) as [Hin|Hn].
  - destruct (insert_child_f_in pid nf c Hin) as [c' Hc']. rewrite Hc'. eexists; reflexivity.
  - rewrite (insert_child_f_notin pid nf c Hn). destruct H as [H|H]; [contradiction|].
    destruct (IHr H) as [r' Hr']. rewrite Hr'. eexists; reflexivity.
Qed.

Lemma insert_child_f_none (pid : Z) (nf : field) (f : field) :
  insert_child_f pid nf f = None <-> ~ In pid (fids f).
Proof.
  split; [|apply insert_child_f_notin]. intros H Hin.
  destruct (insert_child_f_in pid nf f Hin) as [r Hr]. congruence.
Qed.

Lemma insert_child_none (pid : Z) (nf : field) (fs : list field) :
  insert_child pid nf fs = None <-> ~ In pid (field_ids fs).
Proof.
  split; [|apply insert_child_notin]. intros H Hin.
  destruct (insert_child_in pid nf fs Hin) as [r Hr]. congruence.
Qed.

Lemma insert_child_app_skip (id : Z) (c : field) (l1 l2 : list field) :
  ~ In id (field_ids l1) ->
  insert_child id c (l1 ++ l2) = match insert_child id c l2 with Some r => Some (l1 ++ r) | None => None end.
Proof.
  induction l1 as [|f r IH]; intros H; cbn [app].
  - destruct (insert_child id c l2); reflexivity.
  - rewrite field_ids_cons, in_app_iff in H. cbn [insert_child].
    assert (E : insert_child_f id c f = None) by (apply insert_child_f_none; tauto).
    rewrite E, IH by tauto. destruct (insert_child id c l2); reflexivity.
Qed.

(* ids after a graft *)
Lemma insert_child_f_ids (pid : Z) (nf f r : field) :
  insert_child_f pid nf f = Some r -> forall x, In x (fids r) <-> In x (fids f) \/ In x (fids nf).
Proof.
  revert r. induction f as [a ch IH] using field_ind'. intros r H x. rewrite insert_child_f_unfold in H.
  assert (G : forall ch', insert_child pid nf ch = Some ch' ->
              (In x (field_ids ch') <-> In x (field_ids ch) \/ In x (fids nf))).
  { clear H. induction ch as [|c rr IHr]; intros ch' H; [discriminate|].
    inversion IH as [|? ? Hc Hr]; subst. cbn [insert_child] in H.
    destruct (insert_child_f pid nf c) eqn:E1.
    - inversion H; subst. rewrite !field_ids_cons, !in_app_iff, (Hc _ eq_refl x). tauto.
    - destruct (insert_child pid nf rr) eqn:E2; [|discriminate]. inversion H; subst.
      rewrite !field_ids_cons, !in_app_iff, (IHr Hr _ eq_refl). tauto. }
  destruct (Z.eqb (a_id a) pid).
  - inversion H; subst. rewrite !fids_unfold. cbn [In]. rewrite field_ids_app, in_app_iff.
    unfold field_ids at 2. cbn [flat_map]. rewrite app_nil_r. tauto.
  - destruct (insert_child pid nf ch) eqn:E; [|discriminate]. inversion H; subst.
    rewrite !fids_unfold. cbn [In]. rewrite (G _ eq_refl). tauto.
Qed.

Lemma insert_child_ids (pid : Z) (nf : field) (fs r : list field) :
  insert_child pid nf fs = Some r -> forall x, In x (field_ids r) <-> In x (field_ids fs) \/ In x (fids nf).
Proof.
  revert r. induction fs as [|c rr IHr]; intros r H x; [discriminate|]. cbn [insert_child] in H.
  destruct (insert_child_f pid nf c) eqn:E1.
  - inversion H; subst. rewrite !field_ids_cons, !in_app_iff, (insert_child_f_ids _ _ _ _ E1 x). tauto.
  - destruct (insert_child pid nf rr) eqn:E2; [|discriminate]. inversion H; subst.
    rewrite !field_ids_cons, !in_app_iff, (IHr _ eq_refl). tauto.
Qed.

Definition graft (pid : Z) (nf : field) (fs : list field) : option (list field) :=
  if Z.eqb pid (-1) then Some (fs ++ [nf]) else insert_child pid nf fs.

Lemma graft_ids (pid : Z) (nf : field) (fs r : list field) :
  graft pid nf fs = Some r -> forall x, In x (field_ids r) <-> In x (field_ids fs) \/ In x (fids nf).
Proof.
  unfold graft. destruct (Z.eqb pid (-1)).
  - intros H x. inversion H; subst. rewrite field_ids_app, in_app_iff. unfold field_ids at 2. cbn [flat_map].
    rewrite app_nil_r. tauto.
  - apply insert_child_ids.
Qed.

Lemma graft_payload (pid : Z) (x y : field) (fs r : list field) :
  graft pid x fs = Some r -> exists r', graft pid y fs = Some r'.
Proof.
  unfold graft. destruct (Z.eqb pid (-1)); [intros _; eexists; reflexivity|].
  intros H. destruct (insert_child pid y fs) eqn:E; [eexists; reflexivity|].
  apply insert_child_none in E. apply (insert_child_none pid x) in E. congruence.
Qed.

Lemma of_fields_step_graft (acc : schema) (p : pbfield) :
  of_fields_step (Ok acc) p = match graft (pb_pid p) (of_pb p) acc with Some s' => Ok s' | None => Panic end.
Proof. unfold of_fields_step, graft. destruct (Z.eqb (pb_pid p) (-1)); reflexivity. Qed.

(* growing the grafted field by one child: the child finds the grafted field first *)
Lemma insert_into_grafted_f (pid : Z) (a : attrs) (cs : list field) (c : field) (f f1 : field) :
  insert_child_f pid (Fld a cs) f = Some f1 ->
  ~ In (a_id a) (fids f) -> ~ In (a_id a) (field_ids cs) ->
  insert_child_f (a_id a) c f1 = insert_child_f pid (Fld a (cs ++ [c])) f.
Proof.
  revert f1. induction f as [b ch IH] using field_ind'. intros f1 H Hf Hcs.
  rewrite fids_unfold in Hf. cbn [In] in Hf.
  assert (G : forall ch1, insert_child pid (Fld a cs) ch = Some ch1 ->
              insert_child (a_id a) c ch1 = insert_child pid (Fld a (cs ++ [c])) ch).
  { assert (Hch : ~ In (a_id a) (field_ids ch)) by tauto. clear H Hf.
    induction ch as [|x r IHr]; intros ch1 H; [discriminate|].
    inversion IH as [|? ? Hx Hr]; subst. rewrite field_ids_cons, in_app_iff in Hch.
    cbn [insert_child] in H |- *.
    destruct (insert_child_f pid (Fld a cs) x) as [x1|] eqn:E1.
    - inversion H; subst ch1. cbn [insert_child]. rewrite (Hx x1 eq_refl) by tauto.
      destruct (insert_child_f pid (Fld a (cs ++ [c])) x) eqn:E3; [reflexivity|].
      apply insert_child_f_none in E3. apply (insert_child_f_none pid (Fld a cs)) in E3. congruence.
    - destruct (insert_child pid (Fld a cs) r) as [r1|] eqn:E2; [|discriminate]. inversion H; subst ch1.
      cbn [insert_child].
      assert (Ex : insert_child_f (a_id a) c x = None) by (apply insert_child_f_none; tauto).
      rewrite Ex. rewrite (IHr Hr) with (ch1 := r1) by tauto.
      assert (E3 : insert_child_f pid (Fld a (cs ++ [c])) x = None).
      { apply insert_child_f_none. apply (insert_child_f_none pid (Fld a cs)). exact E1. }
      rewrite E3. reflexivity. }
  rewrite insert_child_f_unfold in H. rewrite (insert_child_f_unfold pid (Fld a (cs ++ [c]))).
  destruct (Z.eqb (a_id b) pid) eqn:Eb.
  - inversion H; subst f1. rewrite insert_child_f_unfold.
    assert (E : Z.eqb (a_id b) (a_id a) = false) by (apply Z.eqb_neq; intros E; apply Hf; left; exact E).
    rewrite E. rewrite insert_child_app_skip by tauto.
    cbn [insert_child]. rewrite insert_child_f_unfold, Z.eqb_refl. reflexivity.
  - destruct (insert_child pid (Fld a cs) ch) as [ch1|] eqn:E1; [|discriminate]. inversion H; subst f1.
    rewrite insert_child_f_unfold.
    assert (E : Z.eqb (a_id b) (a_id a) = false) by (apply Z.eqb_neq; intros E; apply Hf; left; exact E).
    rewrite E. rewrite (G ch1 eq_refl). reflexivity.
Qed.

Lemma insert_into_grafted (pid : Z) (a : attrs) (cs : list field) (c : field) (fs fs1 : list field) :
  insert_child pid (Fld a cs) fs = Some fs1 ->
  ~ In (a_id a) (field_ids fs) -> ~ In (a_id a) (field_ids cs) ->
  insert_child (a_id a) c fs1 = insert_child pid (Fld a (cs ++ [c])) fs.
Proof.
  revert fs1. induction fs as [|x r IHr]; intros fs1 H Hfs Hcs; [discriminate|].
  rewrite field_ids_cons, in_app_iff in Hfs. cbn [insert_child] in H |- *.
  destruct (insert_child_f pid (Fld a cs) x) as [x1|] eqn:E1.
  - inversion H; subst fs1. cbn [insert_child]. rewrite (insert_into_grafted_f pid a cs c x x1 E1) by tauto.
    destruct (insert_child_f pid (Fld a (cs ++ [c])) x) eqn:E3; [reflexivity|].
    apply insert_child_f_none in E3. apply (insert_child_f_none pid (Fld a cs)) in E3. congruence.
  - destruct (insert_child pid (Fld a cs) r) as [r1|] eqn:E2; [|discriminate]. inversion H; subst fs1.
    cbn [insert_child].
    assert (Ex : insert_child_f (a_id a) c x = None) by (apply insert_child_f_none; tauto).
    rewrite Ex. rewrite (IHr r1 eq_refl) by tauto.
    assert (E3 : insert_child_f pid (Fld a (cs ++ [c])) x = None).
    { apply insert_child_f_none. apply (insert_child_f_none pid (Fld a cs)). exact E1. }
    rewrite E3. reflexivity.
Qed.

Lemma graft_into_grafted (pid : Z) (a : attrs) (cs : list field) (c : field) (acc acc1 : list field) :
  graft pid (Fld a cs) acc = Some acc1 ->
  ~ In (a_id a) (field_ids acc) -> ~ In (a_id a) (field_ids cs) -> a_id a <> (-1)%Z ->
  graft (a_id a) c acc1 = graft pid (Fld a (cs ++ [c])) acc.
Proof.
  unfold graft. intros H Hacc Hcs Hne.
  assert (E : Z.eqb (a_id a) (-1) = false) by (apply Z.eqb_neq; exact Hne). rewrite E.
  destruct (Z.eqb pid (-1)).
  - inversion H; subst acc1. rewrite insert_child_app_skip by exact Hacc.
    cbn [insert_child]. rewrite insert_child_f_unfold, Z.eqb_refl. reflexivity.
  - apply insert_into_grafted; assumption.
Qed.

(* ------------------------------------------------------------------ C. the round trip *)

(* every child records its parent's id *)
Fixpoint pids_ok (f : field) : bool :=
  match f with Fld a ch => forallb (fun c => Z.eqb (a_pid (fa c)) (a_id a) && pids_ok c) ch end.
Fixpoint canon_f (f : field) : bool :=
  match f with Fld a ch => attrs_canon a && forallb canon_f ch end.

Definition wf_schema (s : schema) : bool :=
  forallb (fun f => Z.eqb (a_pid (fa f)) (-1) && pids_ok f && canon_f f) s
  && nodup_by Z.eqb (field_ids s)
  && negb (zmem (-1) (field_ids s)).

Lemma nodup_by_Z (l : list Z) : nodup_by Z.eqb l = true <-> NoDup l.
Proof.
  induction l as [|x r IH]; cbn [nodup_by]; [split; [constructor | reflexivity]|].
  rewrite andb_true_iff, negb_true_iff, IH. split.
  - intros [H1 H2]. constructor; [|exact H2]. intros Hin.
    assert (existsb (Z.eqb x) r = true) by (apply existsb_exists; exists x; split; [exact Hin | apply Z.eqb_refl]).
    congruence.
  - intros H. inversion H; subst. split; [|assumption].
    destruct (existsb (Z.eqb x) r) eqn:E; [|reflexivity].
    apply existsb_exists in E as [y [Hy E]]. apply Z.eqb_eq in E. subst. contradiction.
Qed.

Lemma fold_step_not_ok (l : list pbfield) (e : outcome schema) :
  (forall s, e <> Ok s) -> fold_left of_fields_step l e = e.
Proof.
  intros H. induction l as [|p r IH]; [reflexivity|]. cbn [fold_left].
  destruct e as [s| |]; [exfalso; apply (H s); reflexivity | exact IH | exact IH].
Qed.

Lemma subtree_roundtrip (f : field) :
  forall acc,
    pids_ok f = true -> canon_f f = true -> NoDup (fids f) ->
    (forall x, In x (fids f) -> ~ In x (field_ids acc) /\ x <> (-1)%Z) ->
    (exists r0, graft (a_pid (fa f)) (Fld (fa f) []) acc = Some r0) ->
    exists r, graft (a_pid (fa f)) f acc = Some r /\ fold_left of_fields_step (to_fields_f f) (Ok acc) = Ok r.
Proof.
  induction f as [a ch IH] using field_ind'. intros acc Hp Hc Hnd Hfresh [r0 Hr0].
  cbn [fa] in *. cbn [to_fields_f fold_left]. rewrite of_fields_step_graft.
  cbn [canon_f] in Hc. apply andb_true_iff in Hc as [Hca Hcc].
  change (pb_pid (to_pb (Fld a ch))) with (a_pid a).
  rewrite (of_pb_to_pb (Fld a ch)) by exact Hca. cbn [fa]. rewrite Hr0.
  rewrite fids_unfold in Hnd, Hfresh. apply NoDup_cons_iff in Hnd as [Hnotin Hndc].
  assert (Ha : ~ In (a_id a) (field_ids acc) /\ a_id a <> (-1)%Z) by (apply Hfresh; left; reflexivity).
  cbn [pids_ok] in Hp.
  (* children one by one *)
  assert (G : forall todo done accd,
            ch = done ++ todo -> graft (a_pid a) (Fld a done) acc = Some accd ->
            exists r, graft (a_pid a) (Fld a ch) acc = Some r /\
                      fold_left of_fields_step (flat_map to_fields_f todo) (Ok accd) = Ok r).
  { induction todo as [|c rest IHt]; intros done accd Hsplit Hg.
    - rewrite app_nil_r in Hsplit. subst done. exists accd. split; [exact Hg | reflexivity].
    - assert (Hcin : In c ch) by (rewrite Hsplit; apply in_or_app; right; left; reflexivity).
      assert (Hpc : Z.eqb (a_pid (fa c)) (a_id a) && pids_ok c = true) by (eapply forallb_forall in Hp; [exact Hp | exact Hcin]).
      apply andb_true_iff in Hpc as [Hpid Hpc]. apply Z.eqb_eq in Hpid.
      assert (Hcc' : canon_f c = true) by (eapply forallb_forall in Hcc; [exact Hcc | exact Hcin]).
      assert (Hidsplit : field_ids ch = field_ids done ++ fids c ++ field_ids rest).
      { rewrite Hsplit, field_ids_app, field_ids_cons. reflexivity. }
      assert (Hdone : ~ In (a_id a) (field_ids done)).
      { intros X. apply Hnotin. rewrite Hidsplit. apply in_or_app. left. exact X. }
      (* the child's own step *)
      assert (Hgraft1 : forall X, graft (a_id a) X accd = graft (a_pid a) (Fld a (done ++ [X])) acc).
      { intros X. apply graft_into_grafted; [exact Hg | tauto | exact Hdone | tauto]. }
      rewrite Forall_forall in IH.
      destruct (IH c Hcin accd Hpc Hcc') as [rc [Hrc Hfold]].
      + rewrite Hidsplit in Hndc. apply NoDup_app_r in Hndc. apply NoDup_app_l in Hndc. exact Hndc.
      + intros x Hx. split.
        * intros Hin. apply (graft_ids _ _ _ _ Hg) in Hin. destruct Hin as [Hin | Hin].
          -- assert (X : ~ In x (field_ids acc)) by (apply Hfresh; right; rewrite Hidsplit; apply in_or_app; right; apply in_or_app; left; exact Hx). contradiction.
          -- rewrite fids_unfold in Hin. destruct Hin as [<- | Hin].
             ++ apply Hnotin. rewrite Hidsplit. apply in_or_app. right. apply in_or_app. left. exact Hx.
             ++ rewrite Hidsplit in Hndc. clear - Hndc Hin Hx.
                induction (field_ids done) as [|y l IHl]; [destruct Hin|].
                cbn [app] in Hndc. apply NoDup_cons_iff in Hndc as [Hy Hl]. destruct Hin as [<- | Hin].
                ** apply Hy. apply in_or_app. right. apply in_or_app. left. exact Hx.
                ** apply IHl; assumption.
        * apply Hfresh. right. rewrite Hidsplit. apply in_or_app. right. apply in_or_app. left. exact Hx.
      + rewrite Hpid. rewrite Hgraft1. eapply graft_payload. exact Hg.
      + rewrite Hpid, Hgraft1 in Hrc.
        destruct (IHt (done ++ [c]) rc) as [r [Hr1 Hr2]]; [rewrite <- app_assoc; exact Hsplit | exact Hrc|].
        exists r. split; [exact Hr1|]. cbn [flat_map]. rewrite fold_left_app. unfold schema in *. rewrite Hfold. exact Hr2. }
  apply (G ch [] r0); [reflexivity | exact Hr0].
Qed.

Lemma forest_roundtrip (todo : list field) :
  forall done,
    forallb (fun f => Z.eqb (a_pid (fa f)) (-1) && pids_ok f && canon_f f) todo = true ->
    NoDup (field_ids (done ++ todo)) -> ~ In (-1)%Z (field_ids todo) ->
    fold_left of_fields_step (to_fields todo) (Ok done) = Ok (done ++ todo).
Proof.
  induction todo as [|f rest IH]; intros done Hall Hnd Hm1.
  - rewrite app_nil_r. reflexivity.
  - unfold to_fields. cbn [flat_map]. rewrite fold_left_app.
    cbn [forallb] in Hall. apply andb_true_iff in Hall as [Hf Hrest].
    apply andb_true_iff in Hf as [Hf Hcf]. apply andb_true_iff in Hf as [Hpid Hpf]. apply Z.eqb_eq in Hpid.
    rewrite field_ids_app, field_ids_cons in Hnd. rewrite field_ids_cons in Hm1.
    destruct (subtree_roundtrip f done Hpf Hcf) as [r [Hr Hfold]].
    + apply NoDup_app_r in Hnd. apply NoDup_app_l in Hnd. exact Hnd.
    + intros x Hx. split.
      * intros Hin. clear - Hnd Hin Hx. induction (field_ids done) as [|y l IHl]; [destruct Hin|].
        cbn [app] in Hnd. apply NoDup_cons_iff in Hnd as [Hy Hl]. destruct Hin as [<- | Hin].
        -- apply Hy. apply in_or_app. right. apply in_or_app. left. exact Hx.
        -- apply IHl; assumption.
      * intros ->. apply Hm1. apply in_or_app. left. exact Hx.
    + rewrite Hpid. unfold graft. cbn. eexists; reflexivity.
    + unfold schema in *. rewrite Hfold. rewrite Hpid in Hr. unfold graft in Hr. cbn in Hr. inversion Hr; subst r.
      fold (to_fields rest). rewrite IH.
      * rewrite <- app_assoc. reflexivity.
      * exact Hrest.
      * rewrite <- app_assoc. cbn [app]. rewrite field_ids_app, field_ids_cons. exact Hnd.
      * intros X. apply Hm1. apply in_or_app. right. exact X.
Qed.

Theorem fields_roundtrip (s : schema) : wf_schema s = true -> of_fields (to_fields s) = Ok s.
Proof.
  unfold wf_schema, of_fields. intros H. apply andb_true_iff in H as [H H3]. apply andb_true_iff in H as [H1 H2].
  apply (forest_roundtrip s []); [exact H1 | apply nodup_by_Z; exact H2|].
  apply negb_true_iff in H3. apply zmem_false. exact H3.
Qed.

(* the stored list itself: one entry per field, pre-order, carrying id / parent id / name / type /
   nullability / metadata *)
Lemma to_fields_ids (s : schema) : map pb_id (to_fields s) = field_ids s.
Proof.
  assert (G : forall f, map pb_id (to_fields_f f) = fids f).
  { induction f as [a ch IH] using field_ind'. cbn [to_fields_f map fids]. f_equal.
    induction ch as [|c r IHr]; [reflexivity|]. inversion IH; subst.
    cbn [flat_map]. rewrite map_app. f_equal; [assumption | apply IHr; assumption]. }
  unfold to_fields, field_ids. induction s as [|f r IH]; [reflexivity|].
  cbn [flat_map]. rewrite map_app, G, IH. reflexivity.
Qed.
