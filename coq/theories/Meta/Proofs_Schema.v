From LanceV Require Import Common.Base Meta.Model_Schema.
Local Open Scope N_scope.
