(* Lemmas about Meta/Model_Schema.v (C43). *)
From LanceV Require Import Common.Base Meta.Model_Schema.
Local Open Scope N_scope.

(* ------------------------------------------------------------------ basics *)

Lemma str_eqb_eq (a b : str) : str_eqb a b = true <-> a = b.
Proof. unfold str_eqb. apply list_eqb_eq. intros x y. apply N.eqb_eq. Qed.

Lemma str_eqb_refl (a : str) : str_eqb a a = true.
Proof. apply str_eqb_eq. reflexivity. Qed.

Lemma str_eqb_neq (a b : str) : str_eqb a b = false <-> a <> b.
Proof.
  split.
  - intros H E. apply str_eqb_eq in E. congruence.
  - intros H. destruct (str_eqb a b) eqn:E; [apply str_eqb_eq in E; contradiction | reflexivity].
Qed.

(* induction principle for the rose tree *)
Lemma field_ind' (P : field -> Prop) :
  (forall a ch, Forall P ch -> P (Fld a ch)) -> forall f, P f.
Proof.
  intros H. fix IH 1. intros [a ch]. apply H.
  induction ch as [|c r IHr]; constructor; [apply IH | exact IHr].
Qed.

(* ------------------------------------------------------------------ A. field paths *)

Definition no_special (s : str) : Prop := forall c, In c s -> c <> BT /\ c <> DOT.

Lemma has_char_false (c : N) (s : str) : has_char c s = false <-> ~ In c s.
Proof.
  unfold has_char. split.
  - intros H Hin. assert (E : existsb (N.eqb c) s = true).
    { apply existsb_exists. exists c. split; [exact Hin | apply N.eqb_refl]. }
    congruence.
  - intros H. destruct (existsb (N.eqb c) s) eqn:E; [|reflexivity].
    apply existsb_exists in E as [x [Hx Hc]]. apply N.eqb_eq in Hc. subst. contradiction.
Qed.

Lemma needs_quote_false (s : str) : needs_quote s = false <-> no_special s.
Proof.
  unfold needs_quote, no_special. rewrite orb_false_iff, !has_char_false. split.
  - intros [H1 H2] c Hc. split; intros ->; contradiction.
  - intros H. split; intros Hin; apply H in Hin; destruct Hin; congruence.
Qed.

Lemma parse_go_unquoted (s tail cur : str) (res : list str) :
  no_special s -> parse_go (s ++ tail) cur false res = parse_go tail (cur ++ s) false res.
Proof.
  revert cur. induction s as [|c r IH]; intros cur Hs.
  - cbn [app]. rewrite app_nil_r. reflexivity.
  - assert (Hc : c <> BT /\ c <> DOT) by (apply Hs; left; reflexivity).
    destruct Hc as [Hb Hd].
    cbn [app parse_go].
    destruct (c =? BT) eqn:E1; [apply N.eqb_eq in E1; contradiction|].
    destruct (c =? DOT) eqn:E2; [apply N.eqb_eq in E2; contradiction|].
    cbn [andb]. rewrite IH.
    + rewrite <- app_assoc. reflexivity.
    + intros x Hx. apply Hs. right. exact Hx.
Qed.

Definition tail_ok (tail : str) : Prop := tail = [] \/ exists t, tail = DOT :: t.

Lemma parse_go_quoted (s tail cur : str) (res : list str) :
  tail_ok tail ->
  parse_go (escape_bt s ++ BT :: tail) cur true res = parse_go tail (cur ++ s) false res.
Proof.
  intros Ht. revert cur. induction s as [|c r IH]; intros cur.
  - cbn [escape_bt flat_map app]. rewrite app_nil_r.
    cbn [parse_go]. change (BT =? BT) with true. cbv iota.
    destruct Ht as [-> | [t ->]]; [reflexivity|].
    change (DOT =? BT) with false. change (DOT =? DOT) with true. cbv iota. reflexivity.
  - unfold escape_bt. cbn [flat_map]. fold (escape_bt r).
    destruct (c =? BT) eqn:E.
    + apply N.eqb_eq in E. subst c.
      cbn [app parse_go]. change (BT =? BT) with true. cbv iota.
      rewrite IH. rewrite <- app_assoc. reflexivity.
    + cbn [app parse_go]. rewrite E. cbn [negb andb]. rewrite andb_false_r.
      rewrite IH. rewrite <- app_assoc. reflexivity.
Qed.

Lemma parse_go_seg (seg tail : str) (res : list str) :
  seg <> [] -> tail_ok tail ->
  parse_go (fmt_seg seg ++ tail) [] false res = parse_go tail seg false res.
Proof.
  intros Hne Ht. unfold fmt_seg. destruct (needs_quote seg) eqn:E.
  - unfold quote_seg. cbn [app parse_go]. change (BT =? BT) with true. cbv iota.
    rewrite <- app_assoc. cbn [app]. rewrite parse_go_quoted by exact Ht. reflexivity.
  - apply needs_quote_false in E. rewrite parse_go_unquoted by exact E. reflexivity.
Qed.

Lemma parse_go_after_seg_nil (seg : str) (res : list str) :
  seg <> [] -> parse_go [] seg false res = Ok (res ++ [seg]).
Proof. intros H. destruct seg; [contradiction | reflexivity]. Qed.

Lemma parse_go_after_seg_dot (seg t : str) (res : list str) :
  seg <> [] -> parse_go (DOT :: t) seg false res = parse_go t [] false (res ++ [seg]).
Proof.
  intros H. cbn [parse_go]. change (DOT =? BT) with false. change (DOT =? DOT) with true.
  cbn [negb andb]. destruct seg; [contradiction | reflexivity].
Qed.

Lemma parse_go_format (p : list str) (res : list str) :
  p <> [] -> Forall (fun s => s <> []) p ->
  parse_go (format_field_path p) [] false res = Ok (res ++ p).
Proof.
  unfold format_field_path. revert res. induction p as [|s r IH]; intros res Hne Hall; [contradiction|].
  inversion Hall as [|? ? Hs Hr]; subst.
  destruct r as [|s2 r'].
  - cbn [map join_dot]. rewrite <- (app_nil_r (fmt_seg s)).
    rewrite parse_go_seg; [|exact Hs|left; reflexivity].
    apply parse_go_after_seg_nil. exact Hs.
  - change (join_dot (map fmt_seg (s :: s2 :: r'))) with (fmt_seg s ++ DOT :: join_dot (map fmt_seg (s2 :: r'))).
    rewrite parse_go_seg; [|exact Hs|right; eexists; reflexivity].
    rewrite parse_go_after_seg_dot by exact Hs.
    rewrite IH; [|discriminate|exact Hr].
    rewrite <- app_assoc. reflexivity.
Qed.

Lemma parse_field_path_go (path : str) : parse_field_path path = parse_go path [] false [].
Proof. destruct path; reflexivity. Qed.

Lemma parse_format_roundtrip (p : list str) :
  p <> [] -> Forall (fun s => s <> []) p -> parse_field_path (format_field_path p) = Ok p.
Proof. intros H1 H2. rewrite parse_field_path_go. apply (parse_go_format p [] H1 H2). Qed.

Lemma plain_spec (s : str) : plain s = true <-> s <> [] /\ no_special s.
Proof.
  unfold plain. destruct s as [|c r].
  - split; [discriminate | intros [H _]; contradiction].
  - rewrite negb_true_iff, needs_quote_false. split; [intros H; split; [discriminate | exact H] | intros [_ H]; exact H].
Qed.

Lemma parse_plain (s : str) : plain s = true -> parse_field_path s = Ok [s].
Proof.
  intros H. apply plain_spec in H as [Hne Hns]. rewrite parse_field_path_go.
  rewrite <- (app_nil_r s) at 1. rewrite parse_go_unquoted by exact Hns.
  cbn [app]. apply parse_go_after_seg_nil. exact Hne.
Qed.

(* ------------------------------------------------------------------ B. resolve *)

(* [addressed fs chain]: chain = f1 :: f2 :: ... where f1 is the first field of fs carrying its name,
   f2 the first child of f1 carrying its name, ... : the chain a name path designates. *)
Inductive addressed : list field -> list field -> Prop :=
| addr_one fs f : find_name (fname f) fs = Some f -> addressed fs [f]
| addr_cons fs f rest : find_name (fname f) fs = Some f -> addressed (fch f) rest -> addressed fs (f :: rest).

Lemma addressed_nonempty fs chain : addressed fs chain -> chain <> [].
Proof. intros H; inversion H; discriminate. Qed.

Lemma fresolve_addressed (f : field) (rest : list field) :
  addressed (fch f) rest -> fresolve f (map fname rest) = Some (f :: rest).
Proof.
  revert f. induction rest as [|g r IH]; intros f H; [inversion H|].
  inversion H as [fs g' Hf | fs g' r' Hf Hr]; subst.
  - cbn [map fresolve]. rewrite Hf. reflexivity.
  - cbn [map fresolve]. rewrite Hf. rewrite (IH g Hr). reflexivity.
Qed.

Lemma resolve_addressed (s : schema) (chain : list field) :
  addressed s chain -> Forall (fun f => fname f <> []) chain ->
  resolve s (format_field_path (map fname chain)) = Some chain.
Proof.
  intros Ha Hne. unfold resolve.
  rewrite parse_format_roundtrip.
  - inversion Ha as [fs f Hf | fs f rest Hf Hr]; subst; cbn [map]; rewrite Hf.
    + reflexivity.
    + apply fresolve_addressed. exact Hr.
  - pose proof (addressed_nonempty _ _ Ha). destruct chain; [contradiction | discriminate].
  - apply Forall_map. exact Hne.
Qed.

Lemma last_cons_default {A} (x : A) (l : list A) (d d' : A) : last (x :: l) d = last (x :: l) d'.
Proof. revert x. induction l as [|y r IH]; intros x; [reflexivity|]. cbn [last]. apply IH. Qed.

Lemma sfield_addressed (s : schema) (chain : list field) (d : field) :
  addressed s chain -> Forall (fun f => fname f <> []) chain ->
  sfield s (format_field_path (map fname chain)) = Some (last chain d).
Proof.
  intros Ha Hne. unfold sfield. rewrite (resolve_addressed s chain Ha Hne).
  pose proof (addressed_nonempty _ _ Ha). destruct chain as [|x l]; [contradiction|].
  f_equal. apply last_cons_default.
Qed.

(* sibling names pairwise distinct, at every level *)
Fixpoint names_unique_f (f : field) : bool :=
  match f with Fld _ ch => nodup_by str_eqb (map fname ch) && forallb names_unique_f ch end.
Definition names_unique (s : schema) : bool := nodup_by str_eqb (map fname s) && forallb names_unique_f s.

Lemma nodup_by_find (fs : list field) (f : field) :
  nodup_by str_eqb (map fname fs) = true -> In f fs -> find_name (fname f) fs = Some f.
Proof.
  induction fs as [|g r IH]; intros Hnd Hin; [contradiction|].
  cbn [map nodup_by] in Hnd. apply andb_true_iff in Hnd as [Hg Hr].
  unfold find_name. cbn [find]. destruct Hin as [-> | Hin].
  - rewrite str_eqb_refl. reflexivity.
  - destruct (str_eqb (fname g) (fname f)) eqn:E.
    + exfalso. apply negb_true_iff in Hg.
      assert (X : existsb (str_eqb (fname g)) (map fname r) = true).
      { apply existsb_exists. exists (fname f). split; [apply in_map; exact Hin | exact E]. }
      congruence.
    + apply (IH Hr Hin).
Qed.

(* [descends fs chain]: chain is a root-to-node path of the forest (membership only) *)
Inductive descends : list field -> list field -> Prop :=
| desc_one fs f : In f fs -> descends fs [f]
| desc_cons fs f rest : In f fs -> descends (fch f) rest -> descends fs (f :: rest).

Lemma descends_addressed (fs : list field) (chain : list field) :
  nodup_by str_eqb (map fname fs) = true -> forallb names_unique_f fs = true ->
  descends fs chain -> addressed fs chain.
Proof.
  intros Hnd Hall Hd. revert Hnd Hall. induction Hd as [fs f Hin | fs f rest Hin Hd IH]; intros Hnd Hall.
  - constructor. apply nodup_by_find; assumption.
  - apply addr_cons; [apply nodup_by_find; assumption|].
    assert (Hf : names_unique_f f = true) by (eapply forallb_forall in Hall; eauto).
    destruct f as [a ch]. cbn [names_unique_f] in Hf. apply andb_true_iff in Hf as [H1 H2].
    apply IH; assumption.
Qed.

(* field_ancestry_by_id returns a root-to-node path ending in a field with that id *)
Lemma anc_rev_spec (id : Z) (f : field) :
  forall pre p, anc_rev id pre f = Some p ->
    exists chain, p = pre ++ chain /\ descends [f] chain /\ fid (last chain f) = id.
Proof.
  induction f as [a ch IH] using field_ind'. intros pre p H.
  cbn [anc_rev] in H. destruct (Z.eqb (a_id a) id) eqn:E.
  - inversion H; subst. exists [Fld a ch]. split; [reflexivity|]. split; [constructor; left; reflexivity|].
    cbn. apply Z.eqb_eq. exact E.
  - assert (G : forall cs, Forall (fun c => forall pre p, anc_rev id pre c = Some p ->
                        exists chain, p = pre ++ chain /\ descends [c] chain /\ fid (last chain c) = id) cs ->
              forall q, (fix go (cs : list field) : option (list field) :=
                 match cs with
                 | [] => None
                 | c :: r => match go r with Some p => Some p | None => anc_rev id (pre ++ [Fld a ch]) c end
                 end) cs = Some q ->
              exists c chain, In c cs /\ q = (pre ++ [Fld a ch]) ++ chain /\ descends [c] chain /\ fid (last chain c) = id).
    { induction cs as [|c r IHr]; intros Hall q Hq; [discriminate|].
      inversion Hall as [|? ? Hc Hr]; subst.
      destruct ((fix go (cs : list field) : option (list field) :=
                 match cs with
                 | [] => None
                 | c :: r => match go r with Some p => Some p | None => anc_rev id (pre ++ [Fld a ch]) c end
                 end) r) eqn:Er.
      - inversion Hq; subst. destruct (IHr Hr _ eq_refl) as [c' [chain [Hin Hrest]]].
        exists c', chain. split; [right; exact Hin | exact Hrest].
      - destruct (Hc _ _ Hq) as [chain [H1 [H2 H3]]]. exists c, chain. split; [left; reflexivity|]. auto. }
    destruct (G ch IH p H) as [c [chain [Hin [Hp [Hd Hl]]]]].
    exists (Fld a ch :: chain). split; [rewrite Hp, <- app_assoc; reflexivity|].
    assert (Hne : chain <> []) by (inversion Hd; discriminate).
    split.
    + apply desc_cons; [left; reflexivity|]. cbn [fch].
      inversion Hd as [? ? Hi | ? ? ? Hi Hd']; subst.
      * constructor. destruct Hi as [<- | []]. exact Hin.
      * apply desc_cons; [destruct Hi as [<- | []]; exact Hin | exact Hd'].
    + destruct chain as [|x l]; [contradiction|].
      change (last (Fld a ch :: x :: l) (Fld a ch)) with (last (x :: l) (Fld a ch)).
      rewrite (last_cons_default x l (Fld a ch) c). exact Hl.
Qed.

Lemma descends_weaken (fs gs chain : list field) :
  (forall f, In f fs -> In f gs) -> descends fs chain -> descends gs chain.
Proof.
  intros H Hd. inversion Hd; subst; [constructor; auto | apply desc_cons; auto].
Qed.

Lemma field_ancestry_spec (s : schema) (id : Z) (p : list field) :
  field_ancestry_by_id s id = Some p ->
  descends s p /\ exists x l, p = x :: l /\ fid (last p x) = id.
Proof.
  unfold field_ancestry_by_id. revert p. induction s as [|c r IH]; intros p H; [discriminate|].
  destruct ((fix go (cs : list field) : option (list field) :=
     match cs with
     | [] => None
     | c :: r => match go r with Some p => Some p | None => anc_rev id [] c end
     end) r) eqn:Er.
  - inversion H; subst. destruct (IH _ eq_refl) as [Hd Hrest]. split; [|exact Hrest].
    eapply descends_weaken; [|exact Hd]. intros f Hf. right. exact Hf.
  - destruct (anc_rev_spec id c [] p H) as [chain [Hp [Hd Hl]]]. cbn [app] in Hp. subst p.
    split.
    + eapply descends_weaken; [|exact Hd]. intros f [<- | []]. left. reflexivity.
    + assert (Hne : chain <> []) by (inversion Hd; discriminate).
      destruct chain as [|x l]; [contradiction|]. exists x, l. split; [reflexivity|].
      rewrite (last_cons_default x l x c). exact Hl.
Qed.

Fixpoint all_names_nonempty_f (f : field) : bool :=
  match f with Fld a ch => negb (is_nil (a_name a)) && forallb all_names_nonempty_f ch end.
Definition all_names_nonempty (s : schema) : bool := forallb all_names_nonempty_f s.

Lemma descends_names_nonempty (fs chain : list field) :
  forallb all_names_nonempty_f fs = true -> descends fs chain -> Forall (fun f => fname f <> []) chain.
Proof.
  intros Hall Hd. revert Hall. induction Hd as [fs f Hin | fs f rest Hin Hd IH]; intros Hall.
  - constructor; [|constructor]. eapply forallb_forall in Hall; [|exact Hin].
    destruct f as [a ch]. cbn in Hall. apply andb_true_iff in Hall as [H _].
    unfold fname; cbn. destruct (a_name a); [discriminate | discriminate].
  - assert (Hf : all_names_nonempty_f f = true) by (eapply forallb_forall in Hall; eauto).
    destruct f as [a ch]. cbn [all_names_nonempty_f] in Hf. apply andb_true_iff in Hf as [H1 H2].
    constructor; [unfold fname; cbn; destruct (a_name a); [discriminate | discriminate]|].
    apply IH. exact H2.
Qed.

(* the path printed for an id leads back to a field with that id *)
Lemma field_path_resolves (s : schema) (id : Z) (path : str) :
  names_unique s = true -> all_names_nonempty s = true ->
  field_path s id = Ok path ->
  exists f, sfield s path = Some f /\ fid f = id.
Proof.
  intros Hu Hn H. unfold field_path in H.
  destruct (field_ancestry_by_id s id) as [anc|] eqn:E; [|discriminate].
  inversion H; subst path. destruct (field_ancestry_spec s id anc E) as [Hd [x [l [Hp Hl]]]].
  unfold names_unique in Hu. apply andb_true_iff in Hu as [Hu1 Hu2].
  pose proof (descends_addressed s anc Hu1 Hu2 Hd) as Ha.
  pose proof (descends_names_nonempty s anc Hn Hd) as Hne.
  exists (last anc x). split; [apply sfield_addressed; assumption | exact Hl].
Qed.


(* ------------------------------------------------------------------ E. Projection: id sets *)

Lemma zmem_in (x : Z) (l : list Z) : zmem x l = true <-> In x l.
Proof.
  unfold zmem. rewrite existsb_exists. split.
  - intros [y [Hy E]]. apply Z.eqb_eq in E. subst. exact Hy.
  - intros H. exists x. split; [exact H | apply Z.eqb_refl].
Qed.

Lemma zmem_false (x : Z) (l : list Z) : zmem x l = false <-> ~ In x l.
Proof. rewrite <- zmem_in. destruct (zmem x l); split; congruence. Qed.

Lemma zs_insert_in (x y : Z) (l : list Z) : In x (zs_insert y l) <-> x = y \/ In x l.
Proof.
  induction l as [|z r IH]; cbn [zs_insert].
  - cbn. intuition.
  - destruct (y <? z)%Z eqn:E1; [cbn; intuition|].
    destruct (y =? z)%Z eqn:E2.
    + apply Z.eqb_eq in E2. subst. cbn. intuition.
    + cbn [In]. rewrite IH. intuition.
Qed.

Lemma zs_union_in (x : Z) (a b : list Z) : In x (zs_union a b) <-> In x a \/ In x b.
Proof.
  unfold zs_union. revert a. induction b as [|y r IH]; intros a; cbn [fold_left].
  - cbn. intuition.
  - rewrite IH, zs_insert_in. cbn [In]. intuition.
Qed.

Lemma zs_of_list_in (x : Z) (l : list Z) : In x (zs_of_list l) <-> In x l.
Proof. unfold zs_of_list. change (fold_left (fun acc x0 => zs_insert x0 acc) l []) with (zs_union [] l).
  rewrite zs_union_in. cbn. intuition. Qed.

Lemma zs_inter_in (x : Z) (a b : list Z) : In x (zs_inter a b) <-> In x a /\ In x b.
Proof. unfold zs_inter. rewrite filter_In, zmem_in. reflexivity. Qed.

Lemma zs_diff_in (x : Z) (a b : list Z) : In x (zs_diff a b) <-> In x a /\ ~ In x b.
Proof. unfold zs_diff. rewrite filter_In, negb_true_iff, zmem_false. reflexivity. Qed.

Lemma zs_remove_in (x y : Z) (l : list Z) : In x (zs_remove y l) <-> In x l /\ x <> y.
Proof.
  unfold zs_remove. rewrite filter_In, negb_true_iff, Z.eqb_neq. intuition.
Qed.

(* canonical form: strictly increasing lists; two of them with the same members are equal *)
Fixpoint zs_sorted (l : list Z) : Prop :=
  match l with
  | [] => True
  | x :: r => (forall y, In y r -> (x < y)%Z) /\ zs_sorted r
  end.

Lemma zs_insert_sorted (x : Z) (l : list Z) : zs_sorted l -> zs_sorted (zs_insert x l).
Proof.
  induction l as [|z r IH]; intros H; cbn [zs_insert].
  - cbn. split; [intros y []|exact I].
  - destruct H as [Hz Hr]. destruct (x <? z)%Z eqn:E1.
    + apply Z.ltb_lt in E1. cbn [zs_sorted]. split; [|split; assumption].
      intros y [<- | Hy]; [exact E1 | specialize (Hz y Hy); lia].
    + destruct (x =? z)%Z eqn:E2; [cbn [zs_sorted]; split; assumption|].
      apply Z.ltb_ge in E1. apply Z.eqb_neq in E2.
      cbn [zs_sorted]. split; [|apply IH; exact Hr].
      intros y Hy. apply zs_insert_in in Hy as [-> | Hy]; [lia | apply Hz; exact Hy].
Qed.

Lemma zs_union_sorted (a b : list Z) : zs_sorted a -> zs_sorted (zs_union a b).
Proof.
  unfold zs_union. revert a. induction b as [|y r IH]; intros a Ha; cbn [fold_left]; [exact Ha|].
  apply IH. apply zs_insert_sorted. exact Ha.
Qed.

Lemma filter_sorted (p : Z -> bool) (l : list Z) : zs_sorted l -> zs_sorted (filter p l).
Proof.
  induction l as [|z r IH]; intros H; [exact I|]. destruct H as [Hz Hr]. cbn [filter].
  destruct (p z); [|apply IH; exact Hr]. cbn [zs_sorted]. split; [|apply IH; exact Hr].
  intros y Hy. apply filter_In in Hy as [Hy _]. apply Hz. exact Hy.
Qed.

Lemma zs_sorted_ext (a b : list Z) :
  zs_sorted a -> zs_sorted b -> (forall x, In x a <-> In x b) -> a = b.
Proof.
  revert b. induction a as [|x r IH]; intros b Ha Hb Hext.
  - destruct b as [|y s]; [reflexivity|]. exfalso. apply (proj2 (Hext y)). left. reflexivity.
  - destruct b as [|y s]; [exfalso; apply (proj1 (Hext x)); left; reflexivity|].
    destruct Ha as [Hx Hr]. destruct Hb as [Hy Hs].
    assert (E : x = y).
    { destruct (proj1 (Hext x) (or_introl eq_refl)) as [E | Hin]; [symmetry; exact E|].
      destruct (proj2 (Hext y) (or_introl eq_refl)) as [E | Hin2]; [exact E|].
      specialize (Hx y Hin2). specialize (Hy x Hin). lia. }
    subst y. f_equal. apply IH; [exact Hr | exact Hs|].
    intros z. split; intros Hz.
    + destruct (proj1 (Hext z) (or_intror Hz)) as [E | H']; [|exact H']. subst z. specialize (Hx x Hz). lia.
    + destruct (proj2 (Hext z) (or_intror Hz)) as [E | H']; [|exact H']. subst z. specialize (Hy x Hz). lia.
Qed.

Definition p_flags (p : projection) : bool * bool * bool * bool := (p_rowid p, p_rowaddr p, p_lastupd p, p_created p).
Definition p_equiv (p q : projection) : Prop := (forall x, In x (p_ids p) <-> In x (p_ids q)) /\ p_flags p = p_flags q.
Definition p_wf (p : projection) : Prop := zs_sorted (p_ids p).

Lemma p_equiv_eq (p q : projection) : p_wf p -> p_wf q -> p_equiv p q -> p = q.
Proof.
  intros Hp Hq [Hi Hf]. destruct p, q. unfold p_flags in Hf. cbn in *. inversion Hf; subst.
  f_equal. apply zs_sorted_ext; assumption.
Qed.

Lemma union_projection_wf p q : p_wf p -> p_wf (union_projection p q).
Proof. unfold p_wf. intros H. cbn. apply zs_union_sorted. exact H. Qed.
Lemma intersect_projection_wf p q : p_wf p -> p_wf (intersect_projection p q).
Proof. unfold p_wf. intros H. cbn. apply filter_sorted. exact H. Qed.
Lemma subtract_projection_wf p q : p_wf p -> p_wf (subtract_projection p q).
Proof. unfold p_wf. intros H. cbn. apply filter_sorted. exact H. Qed.

Lemma union_projection_spec p q x :
  In x (p_ids (union_projection p q)) <-> In x (p_ids p) \/ In x (p_ids q).
Proof. cbn. apply zs_union_in. Qed.
Lemma intersect_projection_spec p q x :
  In x (p_ids (intersect_projection p q)) <-> In x (p_ids p) /\ In x (p_ids q).
Proof. cbn. apply zs_inter_in. Qed.
Lemma subtract_projection_spec p q x :
  In x (p_ids (subtract_projection p q)) <-> In x (p_ids p) /\ ~ In x (p_ids q).
Proof. cbn. apply zs_diff_in. Qed.

Ltac proj_law :=
  split;
  [ intros x;
    repeat first [rewrite union_projection_spec | rewrite intersect_projection_spec | rewrite subtract_projection_spec];
    tauto
  | unfold p_flags; cbn;
    repeat match goal with |- context [?f ?p] =>
      match f with p_rowid => destruct (p_rowid p) | p_rowaddr => destruct (p_rowaddr p)
                 | p_lastupd => destruct (p_lastupd p) | p_created => destruct (p_created p) end end;
    reflexivity ].

Lemma proj_union_idem p : p_equiv (union_projection p p) p.
Proof. proj_law. Qed.
Lemma proj_inter_idem p : p_equiv (intersect_projection p p) p.
Proof. proj_law. Qed.
Lemma proj_union_comm p q : p_equiv (union_projection p q) (union_projection q p).
Proof. proj_law. Qed.
Lemma proj_inter_comm p q : p_equiv (intersect_projection p q) (intersect_projection q p).
Proof. proj_law. Qed.
Lemma proj_union_assoc p q r : p_equiv (union_projection (union_projection p q) r) (union_projection p (union_projection q r)).
Proof. proj_law. Qed.
Lemma proj_union_subtract p q : p_equiv (subtract_projection (union_projection p q) q) (subtract_projection p q).
Proof. proj_law. Qed.
Lemma proj_subtract_union p q r :
  p_equiv (subtract_projection p (union_projection q r)) (intersect_projection (subtract_projection p q) (subtract_projection p r)).
Proof. proj_law. Qed.
Lemma proj_inter_union_distr p q r :
  p_equiv (intersect_projection p (union_projection q r)) (union_projection (intersect_projection p q) (intersect_projection p r)).
Proof. proj_law. Qed.
Lemma proj_subtract_self p : forall x, ~ In x (p_ids (subtract_projection p p)).
Proof. intros x. rewrite subtract_projection_spec. tauto. Qed.
Lemma proj_absorb p q : p_equiv (intersect_projection p (union_projection p q)) p.
Proof. proj_law. Qed.

(* union_column adds the ids of the resolved chain and of every descendant of its last field *)
Definition is_system_column (col : str) : bool :=
  str_eqb col ROW_ID || str_eqb col ROW_ADDR || str_eqb col ROW_LAST_UPDATED || str_eqb col ROW_CREATED.

Lemma union_column_data (base : schema) (p p' : projection) (col : str) (e : bool) :
  is_system_column col = false ->
  union_column base p col e = Ok p' ->
  p_flags p' = p_flags p /\
  match resolve base col with
  | Some chain => forall x, In x (p_ids p') <-> In x (p_ids p) \/ In x (map fid chain)
                                    \/ In x (fdesc_ids (last chain (Fld (mkA 0 0 [] LStruct false [] 0 false) [])))
  | None => e = false /\ p' = p
  end.
Proof.
  unfold is_system_column. intros Hs H. apply orb_false_iff in Hs as [Hs H4]. apply orb_false_iff in Hs as [Hs H3].
  apply orb_false_iff in Hs as [H1 H2]. unfold union_column in H. rewrite H1, H2, H3, H4 in H.
  destruct (resolve base col) as [chain|] eqn:Er.
  - inversion H; subst p'. split; [reflexivity|]. cbn [p_ids]. intros x.
    destruct (rev chain) as [|lastf r] eqn:Erev.
    + assert (chain = []) by (apply (f_equal (@rev field)) in Erev; rewrite rev_involutive in Erev; exact Erev).
      subst chain. rewrite zs_union_in. cbn. intuition.
    + assert (Hc : chain = rev r ++ [lastf]).
      { apply (f_equal (@rev field)) in Erev. rewrite rev_involutive in Erev. exact Erev. }
      rewrite Hc, last_last. rewrite !zs_union_in. rewrite <- Hc. tauto.
  - destruct e; [discriminate|]. inversion H; subst. split; [reflexivity | split; reflexivity].
Qed.

Lemma union_column_wf base p p' col e : p_wf p -> union_column base p col e = Ok p' -> p_wf p'.
Proof.
  unfold p_wf, union_column. intros Hp H.
  repeat match type of H with (if ?c then _ else _) = _ => destruct c; [inversion H; subst; exact Hp|] end.
  destruct (resolve base col) as [chain|].
  - inversion H; subst. cbn [p_ids]. destruct (rev chain); repeat apply zs_union_sorted; exact Hp.
  - destruct e; [discriminate|]. inversion H; subst. exact Hp.
Qed.
