(* C32 - metadata serialisation.  Model of the From/TryFrom conversions between the domain types
   and the protobuf messages of lancedb/lance:
     rust/lance-table/src/format/{fragment,index,manifest}.rs, rust/lance-table/src/format.rs (UUID)
     rust/lance-table/src/rowids/{serde,version}.rs
     rust/lance-index/src/mem_wal.rs
     rust/lance/src/dataset/transaction.rs (all 15 operations)
     rust/lance-table/src/io/deletion.rs (deletion vector files), rust/lance/src/dataset/refs.rs (tag/branch JSON)
   Executable definitions only (+ the chk_* correspondence checkers at the end).

   Conventions: strings are their UTF-8 bytes (list N); HashMaps are association lists sorted by key
   (the harness sorts); u32/u64/usize are N, i32/i64 are Z; `x_of_pb` returns an [outcome]:
   [Err] where the Rust returns Err(..), [Panic] where it panics (assert!, unwrap, expect, debug-build
   arithmetic overflow).  The wire codecs (prost, roaring, Arrow IPC, serde_json) are NOT modelled:
   they are Section variables of the theorems (Proofs_Serde.v); the roaring codec, which is called from
   inside IndexMetadata's conversion, is a parameter of [idx_to_pb]/[idx_of_pb]. *)
From LanceV Require Import Common.Base Meta.Model_Flags.
Local Open Scope N_scope.

Definition str := list N.
Definition bytes := list N.
Definition kv := list (str * str).

(* ---------- outcome plumbing ---------- *)
Definition obind {A B} (x : outcome A) (f : A -> outcome B) : outcome B :=
  match x with Ok a => f a | Err => Err | Panic => Panic end.
(* `.into_iter().map(f).collect::<Result<Vec<_>>>()`: stops at the first failing element *)
Fixpoint omap {A B} (f : A -> outcome B) (l : list A) : outcome (list B) :=
  match l with
  | [] => Ok []
  | x :: xs => obind (f x) (fun y => obind (omap f xs) (fun ys => Ok (y :: ys)))
  end.
(* `opt.map(f).transpose()?` *)
Definition oopt {A B} (f : A -> outcome B) (o : option A) : outcome (option B) :=
  match o with None => Ok None | Some a => obind (f a) (fun b => Ok (Some b)) end.
(* `.unwrap()` on a Result: Err becomes a panic *)
Definition unwrap_o {A} (x : outcome A) : outcome A := match x with Err => Panic | y => y end.

Definition two128 : N := 340282366920938463463374607431768211456.
Definition two63 : N := 9223372036854775808.
Definition two31 : N := 2147483648.
Definition two16 : N := 65536.

(* ================================================================================================
   1. Row id sequences: EncodedU64Array, U64Segment (rowids/serde.rs)
   ================================================================================================ *)
Inductive enc_arr :=
| EU16 (base : N) (offsets : list N)
| EU32 (base : N) (offsets : list N)
| EU64 (values : list N).
Inductive pb_enc_arr_kind :=
| PU16 (base : N) (offsets : bytes)
| PU32 (base : N) (offsets : bytes)
| PU64 (values : bytes).
(* message EncodedU64Array { oneof array {..} }: the oneof may be absent *)
Definition pb_enc_arr := option pb_enc_arr_kind.

(* to_le_bytes of a k-byte unsigned integer *)
Fixpoint le_bytes (k : nat) (v : N) : bytes :=
  match k with O => [] | S k' => (v mod 256) :: le_bytes k' (v / 256) end.
Fixpoint from_le (bs : bytes) : N :=
  match bs with [] => 0 | b :: r => b + 256 * from_le r end.
(* slice::chunks_exact(k); fuel = number of bytes *)
Fixpoint chunks_exact (k : nat) (fuel : nat) (bs : bytes) : list bytes :=
  match fuel with
  | O => []
  | S f => if (length bs <? k)%nat then [] else firstn k bs :: chunks_exact k f (skipn k bs)
  end.
Definition decode_le (k : nat) (bs : bytes) : list N := map from_le (chunks_exact k (length bs) bs).

Definition arr_to_pb (a : enc_arr) : pb_enc_arr :=
  match a with
  | EU16 base offs => Some (PU16 base (flat_map (le_bytes 2) offs))
  | EU32 base offs => Some (PU32 base (flat_map (le_bytes 4) offs))
  | EU64 vals => Some (PU64 (flat_map (le_bytes 8) vals))
  end.
Definition arr_of_pb (p : pb_enc_arr) : outcome enc_arr :=
  match p with
  | Some (PU16 base bs) =>
      if (N.of_nat (length bs) mod 2 =? 0) then Ok (EU16 base (decode_le 2 bs)) else Panic (* assert! *)
  | Some (PU32 base bs) =>
      if (N.of_nat (length bs) mod 4 =? 0) then Ok (EU32 base (decode_le 4 bs)) else Panic
  | Some (PU64 bs) =>
      if (N.of_nat (length bs) mod 8 =? 0) then Ok (EU64 (decode_le 8 bs)) else Panic
  | None => Err
  end.

(* U64Segment; Bitmap { data, len } is inlined into the RangeWithBitmap variant *)
Inductive segment :=
| SRange (s e : N)
| SHoles (s e : N) (holes : enc_arr)
| SBitmap (s e : N) (data : bytes) (len : N)
| SSorted (a : enc_arr)
| SArray (a : enc_arr).
Inductive pb_segment_kind :=
| PRange (s e : N)
| PHoles (s e : N) (holes : option pb_enc_arr)   (* message field: optional *)
| PBitmap (s e : N) (bitmap : bytes)
| PSorted (a : pb_enc_arr)
| PArray (a : pb_enc_arr).
Definition pb_segment := option pb_segment_kind.

Definition seg_to_pb (x : segment) : pb_segment :=
  match x with
  | SRange s e => Some (PRange s e)
  | SHoles s e h => Some (PHoles s e (Some (arr_to_pb h)))
  | SBitmap s e data _ => Some (PBitmap s e data)
  | SSorted a => Some (PSorted (arr_to_pb a))
  | SArray a => Some (PArray (arr_to_pb a))
  end.
Definition seg_of_pb (p : pb_segment) : outcome segment :=
  match p with
  | Some (PRange s e) => Ok (SRange s e)
  | Some (PHoles s e h) =>
      match h with
      | None => Err                                     (* "missing hole" *)
      | Some a => obind (arr_of_pb a) (fun h' => Ok (SHoles s e h'))
      end
  | Some (PBitmap s e b) =>
      if e <? s then Panic                              (* (end - start) as usize: debug overflow *)
      else Ok (SBitmap s e b (e - s))
  | Some (PSorted a) => obind (arr_of_pb a) (fun a' => Ok (SSorted a'))
  | Some (PArray a) => obind (arr_of_pb a) (fun a' => Ok (SArray a'))
  | None => Err                                         (* "missing segment type" *)
  end.

Definition rowids_to_pb (l : list segment) : list pb_segment := map seg_to_pb l.
Definition rowids_of_pb (l : list pb_segment) : outcome (list segment) := omap seg_of_pb l.

(* RowDatasetVersionSequence (rowids/version.rs): runs of (span, version); pb span is optional *)
Definition vseq := list (segment * N).
Definition pb_vseq := list (option pb_segment * N).
Definition vseq_to_pb (l : vseq) : pb_vseq := map (fun r => (Some (seg_to_pb (fst r)), snd r)) l.
Definition vseq_of_pb (l : pb_vseq) : outcome vseq :=
  omap (fun r => match fst r with
                 | None => Err                          (* "Missing positions in RowDatasetVersionRun" *)
                 | Some sp => obind (seg_of_pb sp) (fun s => Ok (s, snd r))
                 end) l.

(* ================================================================================================
   2. DataFile, DeletionFile, RowIdMeta, RowDatasetVersionMeta, Fragment (format/fragment.rs)
   ================================================================================================ *)
(* CachedFileSize is an AtomicU64 with 0 = unknown on both sides: df_size is that integer *)
Record data_file := mk_df {
  df_path : str; df_fields : list Z; df_cols : list Z; df_major : N; df_minor : N;
  df_size : N; df_base : option N }.
Record pb_data_file := mk_pdf {
  pdf_path : str; pdf_fields : list Z; pdf_cols : list Z; pdf_major : N; pdf_minor : N;
  pdf_size : N; pdf_base : option N }.
Definition df_to_pb (d : data_file) : pb_data_file :=
  mk_pdf (df_path d) (df_fields d) (df_cols d) (df_major d) (df_minor d) (df_size d) (df_base d).
Definition df_of_pb (p : pb_data_file) : outcome data_file :=
  Ok (mk_df (pdf_path p) (pdf_fields p) (pdf_cols p) (pdf_major p) (pdf_minor p) (pdf_size p) (pdf_base p)).

Inductive del_type := DtArray | DtBitmap.
Record deletion_file := mk_del {
  del_read_version : N; del_id : N; del_type_ : del_type; del_num_deleted : option N; del_base : option N }.
(* pb field order: file_type, read_version, id, num_deleted_rows, base_id; file_type is an i32 *)
Record pb_deletion_file := mk_pdel {
  pdel_type : Z; pdel_read_version : N; pdel_id : N; pdel_num_deleted : N; pdel_base : option N }.
Definition del_to_pb (d : deletion_file) : pb_deletion_file :=
  mk_pdel (match del_type_ d with DtArray => 0%Z | DtBitmap => 1%Z end)
          (del_read_version d) (del_id d)
          (match del_num_deleted d with Some n => n | None => 0 end)   (* unwrap_or_default *)
          (del_base d).
Definition del_of_pb (p : pb_deletion_file) : outcome deletion_file :=
  match (match pdel_type p with 0%Z => Some DtArray | 1%Z => Some DtBitmap | _ => None end) with
  | None => Err                                                        (* "Unknown deletion file type" *)
  | Some t =>
      Ok (mk_del (pdel_read_version p) (pdel_id p) t
                 (if pdel_num_deleted p =? 0 then None else Some (pdel_num_deleted p)) (pdel_base p))
  end.

Record ext_file := mk_ext { ef_path : str; ef_offset : N; ef_size : N }.
(* RowIdMeta / RowDatasetVersionMeta and the three pb oneofs have the same shape *)
Inductive inline_or_ext := Inline (data : bytes) | External (f : ext_file).
Definition ioe_to_pb (m : inline_or_ext) : inline_or_ext :=
  match m with Inline d => Inline d | External f => External (mk_ext (ef_path f) (ef_offset f) (ef_size f)) end.
Definition ioe_of_pb (m : inline_or_ext) : outcome inline_or_ext :=
  match m with Inline d => Ok (Inline d) | External f => Ok (External (mk_ext (ef_path f) (ef_offset f) (ef_size f))) end.

Record fragment := mk_frag {
  fr_id : N; fr_files : list data_file; fr_deletion : option deletion_file;
  fr_row_id_meta : option inline_or_ext; fr_physical_rows : option N;
  fr_last_updated : option inline_or_ext; fr_created : option inline_or_ext }.
Record pb_fragment := mk_pfrag {
  pfr_id : N; pfr_files : list pb_data_file; pfr_deletion : option pb_deletion_file;
  pfr_row_id_sequence : option inline_or_ext; pfr_physical_rows : N;
  pfr_last_updated : option inline_or_ext; pfr_created : option inline_or_ext }.
Definition frag_to_pb (f : fragment) : pb_fragment :=
  mk_pfrag (fr_id f) (map df_to_pb (fr_files f)) (option_map del_to_pb (fr_deletion f))
           (option_map ioe_to_pb (fr_row_id_meta f))
           (match fr_physical_rows f with Some n => n | None => 0 end)
           (option_map ioe_to_pb (fr_last_updated f)) (option_map ioe_to_pb (fr_created f)).
Definition frag_of_pb (p : pb_fragment) : outcome fragment :=
  let physical_rows := if 0 <? pfr_physical_rows p then Some (pfr_physical_rows p) else None in
  obind (omap df_of_pb (pfr_files p)) (fun files =>
  obind (oopt del_of_pb (pfr_deletion p)) (fun del =>
  obind (oopt ioe_of_pb (pfr_row_id_sequence p)) (fun rid =>
  obind (oopt ioe_of_pb (pfr_last_updated p)) (fun lu =>
  obind (oopt ioe_of_pb (pfr_created p)) (fun cr =>
  Ok (mk_frag (pfr_id p) files del rid physical_rows lu cr)))))).

(* ================================================================================================
   3. UUID, IndexMetadata (format.rs, format/index.rs).  Roaring codec = parameters.
   ================================================================================================ *)
Definition uuid_of_pb (p : option bytes) : outcome bytes :=
  match p with
  | None => Err                                       (* "uuid field does not exist" *)
  | Some b => if (length b =? 16)%nat then Ok b else Err   (* "Protobuf UUID is malformed" *)
  end.

(* chrono: DateTime::<Utc>::MIN_UTC / MAX_UTC in milliseconds; from_timestamp_millis is None outside *)
Definition CHRONO_MIN_MS : Z := (-8334601228800000)%Z.
Definition CHRONO_MAX_MS : Z := 8210266876799999%Z.

Definition any := (str * bytes)%type.    (* prost_types::Any { type_url, value } *)

Record index_meta := mk_idx {
  ix_uuid : bytes; ix_fields : list Z; ix_name : str; ix_dataset_version : N;
  ix_fragment_bitmap : option (list N);           (* RoaringBitmap as its sorted element list *)
  ix_details : option any; ix_version : Z;
  ix_created_at : option Z;                       (* DateTime<Utc>: nanoseconds since the epoch *)
  ix_base : option N }.
Record pb_index_meta := mk_pidx {
  pix_uuid : option bytes; pix_fields : list Z; pix_name : str; pix_dataset_version : N;
  pix_fragment_bitmap : bytes; pix_details : option any; pix_version : option Z;
  pix_created_at : option N; pix_base : option N }.

Section IndexCodec.
  Variable bm_ser : list N -> bytes.               (* RoaringBitmap::serialize_into *)
  Variable bm_de : bytes -> option (list N).       (* RoaringBitmap::deserialize_from *)

  Definition idx_to_pb (i : index_meta) : pb_index_meta :=
    mk_pidx (Some (ix_uuid i)) (ix_fields i) (ix_name i) (ix_dataset_version i)
            (match ix_fragment_bitmap i with Some s => bm_ser s | None => [] end)
            (ix_details i) (Some (ix_version i))
            (* dt.timestamp_millis() as u64 *)
            (option_map (fun t => Z.to_N ((t / 1000000) mod 18446744073709551616)%Z) (ix_created_at i))
            (ix_base i).

  Definition idx_of_pb (p : pb_index_meta) : outcome index_meta :=
    obind (match pix_fragment_bitmap p with
           | [] => Ok None
           | b => match bm_de b with Some s => Ok (Some s) | None => Err end
           end) (fun bitmap =>
    obind (uuid_of_pb (pix_uuid p)) (fun uuid =>
    obind (match pix_created_at p with
           | None => Ok None
           | Some ts =>
               let ms := if ts <? two63 then Z.of_N ts else (Z.of_N ts - 18446744073709551616)%Z in  (* ts as i64 *)
               if ((CHRONO_MIN_MS <=? ms) && (ms <=? CHRONO_MAX_MS))%Z then Ok (Some (ms * 1000000)%Z)
               else Panic                                  (* .expect("Invalid timestamp in index metadata") *)
           end) (fun created =>
    Ok (mk_idx uuid (pix_fields p) (pix_name p) (pix_dataset_version p) bitmap (pix_details p)
               (match pix_version p with Some v => v | None => 0%Z end) created (pix_base p))))).
End IndexCodec.

(* ================================================================================================
   4. MemWAL (lance-index/src/mem_wal.rs)
   ================================================================================================ *)
Inductive mw_state := MwOpen | MwSealed | MwFlushed | MwMerged.
Record mem_wal := mk_mw {
  mw_region : str; mw_generation : N; mw_table_loc : str; mw_wal_loc : str; mw_entries : bytes;
  mw_state_ : mw_state; mw_owner : str; mw_last_version : N }.
Record pb_mem_wal := mk_pmw {
  pmw_id : option (str * N); pmw_table_loc : str; pmw_wal_loc : str; pmw_entries : bytes;
  pmw_state : Z; pmw_owner : str; pmw_last_version : N }.
Definition mw_to_pb (m : mem_wal) : pb_mem_wal :=
  mk_pmw (Some (mw_region m, mw_generation m)) (mw_table_loc m) (mw_wal_loc m) (mw_entries m)
         (match mw_state_ m with MwOpen => 0 | MwSealed => 1 | MwFlushed => 2 | MwMerged => 3 end)%Z
         (mw_owner m) (mw_last_version m).
Definition mw_of_pb (p : pb_mem_wal) : outcome mem_wal :=
  match (match pmw_state p with 0%Z => Some MwOpen | 1%Z => Some MwSealed | 2%Z => Some MwFlushed
                             | 3%Z => Some MwMerged | _ => None end) with
  | None => Err                                         (* State::try_from(i32)? comes first *)
  | Some st =>
      match pmw_id p with
      | None => Panic                                   (* mem_wal.id.unwrap() *)
      | Some (region, gen) =>
          Ok (mk_mw region gen (pmw_table_loc p) (pmw_wal_loc p) (pmw_entries p) st (pmw_owner p) (pmw_last_version p))
      end
  end.
Definition mwd_to_pb (l : list mem_wal) : list pb_mem_wal := map mw_to_pb l.
Definition mwd_of_pb (l : list pb_mem_wal) : outcome (list mem_wal) := omap mw_of_pb l.

(* ================================================================================================
   5. Manifest (format/manifest.rs)
   ================================================================================================ *)
Record base_path := mk_bp { bp_id : N; bp_name : option str; bp_is_root : bool; bp_path : str }.
(* pb::BasePath has the same four fields; From both ways copies them *)
Definition bp_to_pb (b : base_path) : base_path := mk_bp (bp_id b) (bp_name b) (bp_is_root b) (bp_path b).
Definition bp_of_pb (b : base_path) : base_path := mk_bp (bp_id b) (bp_name b) (bp_is_root b) (bp_path b).

(* A schema is carried as the canonical encodings of its flattened protobuf fields (the conversion
   Schema <-> Vec<pb::Field> lives in lance-file/src/datatypes.rs and is outside this model) plus
   its metadata map. *)
Record schema := mk_schema { sc_fields : list bytes; sc_meta : kv }.

Record writer_version := mk_wv { wv_library : str; wv_version : str; wv_pre : option str; wv_build : option str }.

Record manifest := mk_mf {
  mf_schema : schema; mf_version : N; mf_branch : option str; mf_writer_version : option writer_version;
  mf_fragments : list fragment; mf_version_aux_data : N; mf_index_section : option N;
  mf_timestamp_nanos : N; mf_tag : option str; mf_reader_flags : N; mf_writer_flags : N;
  mf_max_fragment_id : option N; mf_transaction_file : option str; mf_transaction_section : option N;
  mf_fragment_offsets : list N; mf_next_row_id : N; mf_data_format : str * str;
  mf_config : kv; mf_table_metadata : kv;
  mf_base_paths : list (N * base_path) }.           (* HashMap<u32, BasePath>, sorted by key *)
Record pb_manifest := mk_pmf {
  pmf_fields : list bytes; pmf_schema_metadata : kv; pmf_fragments : list pb_fragment; pmf_version : N;
  pmf_version_aux_data : N; pmf_writer_version : option writer_version; pmf_index_section : option N;
  pmf_timestamp : option (Z * Z); pmf_tag : str; pmf_reader_flags : N; pmf_writer_flags : N;
  pmf_max_fragment_id : option N; pmf_transaction_file : str; pmf_transaction_section : option N;
  pmf_next_row_id : N; pmf_data_format : option (str * str); pmf_config : kv; pmf_table_metadata : kv;
  pmf_base_paths : list base_path; pmf_branch : option str }.

(* Fragment::num_rows *)
Definition frag_num_rows (f : fragment) : outcome (option N) :=
  match fr_physical_rows f, fr_deletion f with
  | Some len, None => Ok (Some len)
  | Some len, Some d =>
      match del_num_deleted d with
      | Some nd => if len <? nd then Panic else Ok (Some (len - nd))     (* usize subtraction *)
      | None => Ok None
      end
  | None, _ => Ok None
  end.
(* compute_fragment_offsets: running sum, one extra entry for the total *)
Fixpoint offsets_from (acc : N) (fs : list fragment) : outcome (list N) :=
  match fs with
  | [] => Ok [acc]
  | f :: r =>
      obind (frag_num_rows f) (fun n =>
      let len := match n with Some k => k | None => 0 end in
      if two64 <=? acc + len then Panic                                   (* usize += overflow *)
      else obind (offsets_from (acc + len) r) (fun t => Ok (acc :: t)))
  end.
Definition compute_fragment_offsets (fs : list fragment) : outcome (list N) := offsets_from 0 fs.

(* LanceFileVersion::to_string of a resolved version *)
Definition s_lance : str := [108; 97; 110; 99; 101].
Definition ver_string (v : fver) : str :=
  match resolve v with
  | Legacy => [48; 46; 49]                    (* "0.1" *)
  | V2_0 | Stable => [50; 46; 48]             (* "2.0" *)
  | V2_1 | Next => [50; 46; 49]               (* "2.1" *)
  | V2_2 => [50; 46; 50]                      (* "2.2" *)
  end.
Definition dsf_new (v : fver) : str * str := (s_lance, ver_string v).

Definition file_version (d : data_file) : outcome fver :=
  match try_from_major_minor (df_major d) (df_minor d) with Some v => Ok v | None => Err end.
(* Fragment::try_infer_version *)
Definition first_file (fs : list fragment) : option data_file :=
  match filter (fun f => negb (match fr_files f with [] => true | _ => false end)) fs with
  | f :: _ => hd_error (fr_files f)
  | [] => None
  end.
Definition try_infer_version (fs : list fragment) : outcome (option fver) :=
  match first_file fs with
  | None => Ok None
  | Some sample =>
      obind (file_version sample) (fun v0 =>
      obind (omap (fun d => obind (file_version d) (fun v => if fver_eqb v0 v then Ok tt else Err))
                  (flat_map fr_files fs)) (fun _ => Ok (Some v0)))
  end.

Definition sub_1e9 : N := 1000000000.

(* timestamp_nanos (u128) <-> google.protobuf.Timestamp { seconds: i64, nanos: i32 } *)
Definition ts_to_pb (t : N) : option (Z * Z) :=
  if t =? 0 then None
  else let nanos := t mod sub_1e9 in
       let secs := (t - nanos) / sub_1e9 in
       (* `as i64` (wrapping), nanos as i32 (always < 10^9) *)
       let s64 := secs mod two64 in
       Some (if s64 <? two63 then Z.of_N s64 else (Z.of_N s64 - Z.of_N two64)%Z, Z.of_N nanos).
Definition z_as_u128 (z : Z) : N := Z.to_N (z mod Z.of_N two128)%Z.
Definition ts_of_pb (p : option (Z * Z)) : outcome N :=
  match p with
  | None => Ok 0                                                       (* unwrap_or(0) *)
  | Some (secs, nanos) =>
      let sec := z_as_u128 secs * sub_1e9 in
      if two128 <=? sec then Panic                                     (* u128 multiply overflow *)
      else let n := z_as_u128 nanos in
           if two128 <=? sec + n then Panic else Ok (sec + n)
  end.

Definition mf_to_pb (m : manifest) : pb_manifest :=
  let ts := ts_to_pb (mf_timestamp_nanos m) in
  mk_pmf (sc_fields (mf_schema m)) (sc_meta (mf_schema m)) (map frag_to_pb (mf_fragments m)) (mf_version m)
         (mf_version_aux_data m) (mf_writer_version m) (mf_index_section m) ts
         (match mf_tag m with Some t => t | None => [] end) (mf_reader_flags m) (mf_writer_flags m)
         (mf_max_fragment_id m) (match mf_transaction_file m with Some t => t | None => [] end)
         (mf_transaction_section m) (mf_next_row_id m) (Some (mf_data_format m)) (mf_config m)
         (mf_table_metadata m) (map (fun kb => bp_to_pb (snd kb)) (mf_base_paths m)) (mf_branch m).

Definition mf_of_pb (p : pb_manifest) : outcome manifest :=
  obind (ts_of_pb (pmf_timestamp p)) (fun ts =>
  obind (omap frag_of_pb (pmf_fragments p)) (fun fragments =>
  obind (compute_fragment_offsets fragments) (fun offsets =>
  if negb (N.land FLAG_STABLE_ROW_IDS (pmf_reader_flags p) =? 0)
     && negb (forallb (fun f => match fr_row_id_meta f with Some _ => true | None => false end) fragments)
  then Err                                                                (* "All fragments must have row ids" *)
  else
  obind (match pmf_data_format p with
         | Some f => Ok f
         | None =>
             obind (try_infer_version fragments) (fun iv =>
             match iv with
             | Some v => Ok (dsf_new v)
             | None => if has_deprecated_v2_feature_flag (pmf_writer_flags p) then Ok (dsf_new Stable)
                       else Ok (dsf_new Legacy)
             end)
         end) (fun dsf =>
  Ok (mk_mf (mk_schema (pmf_fields p) (pmf_schema_metadata p)) (pmf_version p) (pmf_branch p)
            (pmf_writer_version p) fragments (pmf_version_aux_data p) (pmf_index_section p) ts
            (match pmf_tag p with [] => None | t => Some t end) (pmf_reader_flags p) (pmf_writer_flags p)
            (pmf_max_fragment_id p) (match pmf_transaction_file p with [] => None | t => Some t end)
            (pmf_transaction_section p) offsets (pmf_next_row_id p) dsf (pmf_config p)
            (pmf_table_metadata p) (map (fun b => (bp_id b, bp_of_pb b)) (pmf_base_paths p))))))).

(* ================================================================================================
   6. Transaction (lance/src/dataset/transaction.rs): all 15 operations
   ================================================================================================ *)
Record update_map := mk_um { um_entries : list (str * option str); um_replace : bool }.
Inductive update_mode := RewriteRows | RewriteColumns.
Record rewritten_index := mk_ri { ri_old : bytes; ri_new : bytes; ri_details : any; ri_version : N }.
Record pb_rewritten_index := mk_pri { pri_old : option bytes; pri_new : option bytes; pri_details : option any; pri_version : N }.
Definition rewrite_group := (list fragment * list fragment)%type.
Definition pb_rewrite_group := (list pb_fragment * list pb_fragment)%type.

Inductive operation :=
| OpAppend (fragments : list fragment)
| OpDelete (updated : list fragment) (deleted_ids : list N) (predicate : str)
| OpOverwrite (fragments : list fragment) (sc : schema) (config_upsert : option kv) (initial_bases : option (list base_path))
| OpCreateIndex (new_indices removed_indices : list index_meta)
| OpRewrite (groups : list rewrite_group) (rewritten : list rewritten_index) (frag_reuse_index : option index_meta)
| OpDataReplacement (replacements : list (N * data_file))
| OpMerge (fragments : list fragment) (sc : schema)
| OpRestore (version : N)
| OpReserveFragments (n : N)
| OpUpdate (removed_ids : list N) (updated new_frags : list fragment) (fields_modified : list N)
           (mem_wal_to_merge : option mem_wal) (fields_for_preserving : list N) (mode : option update_mode)
| OpProject (sc : schema)
| OpUpdateConfig (config table_md schema_md : option update_map) (field_md : list (Z * update_map))
| OpUpdateMemWalState (added updated removed : list mem_wal)
| OpClone (is_shallow : bool) (ref_name : option str) (ref_version : N) (ref_path : str) (branch_name : option str)
| OpUpdateBases (new_bases : list base_path).

Inductive pb_operation :=
| POAppend (fragments : list pb_fragment)
| PODelete (updated : list pb_fragment) (deleted_ids : list N) (predicate : str)
| POOverwrite (fragments : list pb_fragment) (sc : list bytes) (schema_metadata : list (str * bytes))
              (config_upsert : kv) (initial_bases : list base_path)
| POCreateIndex (new_indices removed_indices : list pb_index_meta)
| PORewrite (old_fragments new_fragments : list pb_fragment) (groups : list pb_rewrite_group)
            (rewritten : list pb_rewritten_index)
| POMerge (fragments : list pb_fragment) (sc : list bytes) (schema_metadata : list (str * bytes))
| PORestore (version : N)
| POReserveFragments (n : N)
| POUpdate (removed_ids : list N) (updated new_frags : list pb_fragment) (fields_modified : list N)
           (mem_wal_to_merge : option pb_mem_wal) (fields_for_preserving : list N) (mode : Z)
| POProject (sc : list bytes)
| POUpdateConfig (config table_md schema_md : option update_map) (field_md : list (Z * update_map))
                 (* old-style fields *)
                 (upsert_values : kv) (delete_keys : list str) (old_schema_md : kv) (old_field_md : list (N * kv))
| PODataReplacement (replacements : list (N * option pb_data_file))
| POUpdateMemWalState (added updated removed : list pb_mem_wal)
| POClone (is_shallow : bool) (ref_name : option str) (ref_version : N) (ref_path : str) (branch_name : option str)
| POUpdateBases (new_bases : list base_path).

Record transaction := mk_txn {
  tx_read_version : N; tx_uuid : str; tx_operation : operation; tx_tag : option str; tx_properties : option kv }.
Record pb_transaction := mk_ptxn {
  ptx_read_version : N; ptx_uuid : str; ptx_operation : option pb_operation; ptx_tag : str; ptx_properties : kv }.

Definition um_to_pb (u : update_map) : update_map := mk_um (um_entries u) (um_replace u).
Definition um_of_pb (u : update_map) : update_map := mk_um (um_entries u) (um_replace u).

Definition ri_to_pb (r : rewritten_index) : pb_rewritten_index :=
  mk_pri (Some (ri_old r)) (Some (ri_new r)) (Some (ri_details r)) (ri_version r).
Definition ri_of_pb (p : pb_rewritten_index) : outcome rewritten_index :=
  obind (uuid_of_pb (pri_old p)) (fun o =>
  obind (uuid_of_pb (pri_new p)) (fun n =>
  match pri_details p with
  | None => Err                                         (* "new_index_details is a required field" *)
  | Some d => Ok (mk_ri o n d (pri_version p))
  end)).
Definition rg_to_pb (g : rewrite_group) : pb_rewrite_group := (map frag_to_pb (fst g), map frag_to_pb (snd g)).
Definition rg_of_pb (g : pb_rewrite_group) : outcome rewrite_group :=
  obind (omap frag_of_pb (fst g)) (fun o => obind (omap frag_of_pb (snd g)) (fun n => Ok (o, n))).

(* translate_config_updates / translate_schema_metadata_updates (maps iterate in key order here;
   the harness sorts the upsert part of the real output) *)
Definition translate_config_updates (upserts : kv) (deletes : list str) : update_map :=
  mk_um (map (fun e => (fst e, Some (snd e))) upserts ++ map (fun k => (k, None)) deletes) false.
Definition translate_schema_metadata_updates (md : kv) : update_map :=
  mk_um (map (fun e => (fst e, Some (snd e))) md) true.
Definition u32_as_i32 (n : N) : Z := if n <? two31 then Z.of_N n else (Z.of_N n - 4294967296)%Z.

(* a HashMap<i32, _> is carried sorted by key: re-sort after the (bijective) u32 -> i32 cast *)
Fixpoint zk_insert {A} (x : Z * A) (l : list (Z * A)) : list (Z * A) :=
  match l with [] => [x] | y :: r => if (fst x <=? fst y)%Z then x :: l else y :: zk_insert x r end.
Definition zk_sort {A} (l : list (Z * A)) : list (Z * A) := fold_right zk_insert [] l.

Definition is_nil {A} (l : list A) : bool := match l with [] => true | _ => false end.
Definition is_some {A} (o : option A) : bool := match o with Some _ => true | None => false end.

Section TxnCodec.
  Variable bm_ser : list N -> bytes.
  Variable bm_de : bytes -> option (list N).

  Definition op_to_pb (o : operation) : pb_operation :=
    match o with
    | OpAppend fs => POAppend (map frag_to_pb fs)
    | OpDelete u d p => PODelete (map frag_to_pb u) d p
    | OpOverwrite fs sc cfg bases =>
        POOverwrite (map frag_to_pb fs) (sc_fields sc) []                 (* TODO: handle metadata *)
                    (match cfg with Some c => c | None => [] end)
                    (match bases with Some l => map bp_to_pb l | None => [] end)
    | OpCreateIndex n r => POCreateIndex (map (idx_to_pb bm_ser) n) (map (idx_to_pb bm_ser) r)
    | OpRewrite groups ri _ => PORewrite [] [] (map rg_to_pb groups) (map ri_to_pb ri)   (* frag_reuse_index: _ *)
    | OpDataReplacement l => PODataReplacement (map (fun r => (fst r, Some (df_to_pb (snd r)))) l)
    | OpMerge fs sc => POMerge (map frag_to_pb fs) (sc_fields sc) []
    | OpRestore v => PORestore v
    | OpReserveFragments n => POReserveFragments n
    | OpUpdate rm u n fm mw ffp mode =>
        POUpdate rm (map frag_to_pb u) (map frag_to_pb n) fm (option_map mw_to_pb mw) ffp
                 (match mode with Some RewriteRows => 0 | Some RewriteColumns => 1 | None => 0 end)%Z
    | OpProject sc => POProject (sc_fields sc)
    | OpUpdateConfig c t s f =>
        POUpdateConfig (option_map um_to_pb c) (option_map um_to_pb t) (option_map um_to_pb s)
                       (map (fun e => (fst e, um_to_pb (snd e))) f) [] [] [] []
    | OpUpdateMemWalState a u r => POUpdateMemWalState (map mw_to_pb a) (map mw_to_pb u) (map mw_to_pb r)
    | OpClone sh rn rv rp bn => POClone sh rn rv rp bn
    | OpUpdateBases l => POUpdateBases (map bp_to_pb l)
    end.

  Definition txn_to_pb (t : transaction) : pb_transaction :=
    mk_ptxn (tx_read_version t) (tx_uuid t) (Some (op_to_pb (tx_operation t)))
            (match tx_tag t with Some s => s | None => [] end)
            (match tx_properties t with Some p => p | None => [] end).

  Definition mw_unwrap (p : pb_mem_wal) : outcome mem_wal := unwrap_o (mw_of_pb p).

  Definition op_of_pb (p : pb_operation) : outcome operation :=
    match p with
    | POAppend fs => obind (omap frag_of_pb fs) (fun fs' => Ok (OpAppend fs'))
    | PODelete u d pr => obind (omap frag_of_pb u) (fun u' => Ok (OpDelete u' d pr))
    | POOverwrite fs sc _ cfg bases =>
        (* `if config_upsert_values.is_empty() { None } else { Some(config_upsert_values) }` (repaired in cb06601) *)
        let cfg' := if is_nil cfg then None else Some cfg in
        obind (omap frag_of_pb fs) (fun fs' =>
        Ok (OpOverwrite fs' (mk_schema sc []) cfg'
                        (if is_nil bases then None else Some (map bp_of_pb bases))))
    | POReserveFragments n => Ok (OpReserveFragments n)
    | PORewrite old new groups ri =>
        obind (if negb (is_nil groups) then omap rg_of_pb groups
               else obind (omap frag_of_pb old) (fun o => obind (omap frag_of_pb new) (fun n => Ok [(o, n)])))
              (fun groups' =>
        obind (omap ri_of_pb ri) (fun ri' => Ok (OpRewrite groups' ri' None)))
    | POCreateIndex n r =>
        obind (omap (idx_of_pb bm_de) n) (fun n' => obind (omap (idx_of_pb bm_de) r) (fun r' => Ok (OpCreateIndex n' r')))
    | POMerge fs sc _ => obind (omap frag_of_pb fs) (fun fs' => Ok (OpMerge fs' (mk_schema sc [])))
    | PORestore v => Ok (OpRestore v)
    | POUpdate rm u n fm mw ffp mode =>
        obind (omap frag_of_pb u) (fun u' =>
        obind (omap frag_of_pb n) (fun n' =>
        obind (oopt mw_unwrap mw) (fun mw' =>
        Ok (OpUpdate rm u' n' fm mw' ffp
                     (match mode with 0%Z => Some RewriteRows | 1%Z => Some RewriteColumns | _ => Some RewriteRows end)))))
    | POProject sc => Ok (OpProject (mk_schema sc []))
    | POUpdateConfig c t s f up dk osm ofm =>
        let has_new := is_some c || is_some t || is_some s || negb (is_nil f) in
        let has_old := negb (is_nil up) || negb (is_nil dk) || negb (is_nil osm) || negb (is_nil ofm) in
        if has_new && has_old then Err                  (* "Cannot mix old and new style UpdateConfig fields" *)
        else if has_old then
          Ok (OpUpdateConfig
                (if negb (is_nil up) || negb (is_nil dk) then Some (translate_config_updates up dk) else None)
                None
                (if negb (is_nil osm) then Some (translate_schema_metadata_updates osm) else None)
                (zk_sort (map (fun e => (u32_as_i32 (fst e), translate_schema_metadata_updates (snd e))) ofm)))
        else
          Ok (OpUpdateConfig (option_map um_of_pb c) (option_map um_of_pb t) (option_map um_of_pb s)
                             (map (fun e => (fst e, um_of_pb (snd e))) f))
    | PODataReplacement l =>
        obind (omap (fun r => match snd r with
                              | None => Err             (* "DataReplacementGroup must have a new_file" *)
                              | Some d => obind (df_of_pb d) (fun d' => Ok (fst r, d'))
                              end) l) (fun l' => Ok (OpDataReplacement l'))
    | POUpdateMemWalState a u r =>
        obind (omap mw_unwrap a) (fun a' => obind (omap mw_unwrap u) (fun u' => obind (omap mw_unwrap r) (fun r' =>
        Ok (OpUpdateMemWalState a' u' r'))))
    | POClone sh rn rv rp bn => Ok (OpClone sh rn rv rp bn)
    | POUpdateBases l => Ok (OpUpdateBases (map bp_of_pb l))
    end.

  Definition txn_of_pb (p : pb_transaction) : outcome transaction :=
    match ptx_operation p with
    | None => Err                                       (* "Transaction message did not contain an operation" *)
    | Some o =>
        obind (op_of_pb o) (fun op =>
        Ok (mk_txn (ptx_read_version p) (ptx_uuid p) op
                   (if is_nil (ptx_tag p) then None else Some (ptx_tag p))
                   (if is_nil (ptx_properties p) then None else Some (ptx_properties p))))
    end.
End TxnCodec.

(* ================================================================================================
   7. Deletion vector files (lance-table/src/io/deletion.rs).  Arrow IPC / roaring codecs = parameters.
   ================================================================================================ *)
(* DeletionVector: Set carries the HashSet in SOME iteration order (no duplicates); Bitmap its sorted elements *)
Inductive dvec := DvNone | DvSet (l : list N) | DvBitmap (l : list N).
(* what write_deletion_file produces: the descriptor (without the random id) and the file bytes *)
Record dv_written := mk_dvw { dvw_type : del_type; dvw_num_deleted : option N; dvw_bytes : bytes }.

Fixpoint dedup (l : list N) : list N :=     (* HashSet::insert of each element in turn *)
  match l with [] => [] | x :: r => if existsb (N.eqb x) r then dedup r else x :: dedup r end.

Section DvCodec.
  Variable ipc_write : list N -> bytes.               (* one non-null UInt32 batch, ZSTD Arrow IPC file *)
  Variable ipc_read : bytes -> option (list N).       (* Some values iff exactly one batch of that schema, no nulls *)
  Variable bm_ser : list N -> bytes.
  Variable bm_de : bytes -> option (list N).

  Definition dv_write (d : dvec) : option dv_written :=
    match d with
    | DvNone => None
    | DvSet l => Some (mk_dvw DtArray (Some (N.of_nat (length l))) (ipc_write l))
    | DvBitmap l => Some (mk_dvw DtBitmap (Some (N.of_nat (length l))) (bm_ser l))
    end.
  Definition dv_read (t : del_type) (file : bytes) : outcome dvec :=
    match t with
    | DtArray => match ipc_read file with Some l => Ok (DvSet (dedup l)) | None => Err end
    | DtBitmap => match bm_de file with Some l => Ok (DvBitmap l) | None => Err end
    end.
End DvCodec.

Definition dv_elems (d : dvec) : list N := match d with DvNone => [] | DvSet l => l | DvBitmap l => l end.

(* ================================================================================================
   8. Tag / branch files (lance/src/dataset/refs.rs): serde derive with rename_all = "camelCase".
      serde_json is a parameter of the theorems; here the value <-> JSON object mapping.
   ================================================================================================ *)
Inductive jval := JNull | JNum (n : N) | JStr (s : str) | JOther.
Definition jobj := list (str * jval).
Record tag_contents := mk_tag { tg_branch : option str; tg_version : N; tg_manifest_size : N }.
Record branch_contents := mk_branch { br_parent_branch : option str; br_parent_version : N; br_create_at : N; br_manifest_size : N }.

Definition k_branch : str := [98; 114; 97; 110; 99; 104].
Definition k_version : str := [118; 101; 114; 115; 105; 111; 110].
Definition k_manifestSize : str := [109; 97; 110; 105; 102; 101; 115; 116; 83; 105; 122; 101].
Definition k_parentBranch : str := [112; 97; 114; 101; 110; 116; 66; 114; 97; 110; 99; 104].
Definition k_parentVersion : str := [112; 97; 114; 101; 110; 116; 86; 101; 114; 115; 105; 111; 110].
Definition k_createAt : str := [99; 114; 101; 97; 116; 101; 65; 116].

Definition str_eqb (a b : str) : bool := list_eqb N.eqb a b.
Fixpoint jget (k : str) (o : jobj) : option jval :=
  match o with [] => None | (k', v) :: r => if str_eqb k k' then Some v else jget k r end.
Definition jopt_str (v : option jval) : outcome (option str) :=    (* Option<String>: missing or null = None *)
  match v with None => Ok None | Some JNull => Ok None | Some (JStr s) => Ok (Some s) | Some _ => Err end.
Definition jnum (v : option jval) : outcome N :=                   (* u64/usize: required *)
  match v with Some (JNum n) => if n <? two64 then Ok n else Err | _ => Err end.
Definition jo (o : option str) : jval := match o with Some s => JStr s | None => JNull end.

(* keys in sorted order (the harness parses the emitted text into a sorted map) *)
Definition tag_to_json (t : tag_contents) : jobj :=
  [(k_branch, jo (tg_branch t)); (k_manifestSize, JNum (tg_manifest_size t)); (k_version, JNum (tg_version t))].
Definition tag_of_json (o : jobj) : outcome tag_contents :=
  obind (jopt_str (jget k_branch o)) (fun b =>
  obind (jnum (jget k_version o)) (fun v =>
  obind (jnum (jget k_manifestSize o)) (fun s => Ok (mk_tag b v s)))).
Definition branch_to_json (b : branch_contents) : jobj :=
  [(k_createAt, JNum (br_create_at b)); (k_manifestSize, JNum (br_manifest_size b));
   (k_parentBranch, jo (br_parent_branch b)); (k_parentVersion, JNum (br_parent_version b))].
Definition branch_of_json (o : jobj) : outcome branch_contents :=
  obind (jopt_str (jget k_parentBranch o)) (fun pb =>
  obind (jnum (jget k_parentVersion o)) (fun pv =>
  obind (jnum (jget k_createAt o)) (fun c =>
  obind (jnum (jget k_manifestSize o)) (fun s => Ok (mk_branch pb pv c s))))).

(* ================================================================================================
   9. Well-formedness = the domain of the round-trip theorems, and the known lossy classes.
      Typing bounds (u16/u32/u64 ranges, 16-byte uuids, struct invariants) are in wf_*; the
      Known_C32_* predicates single out values on which decode(encode x) <> x in the REAL code.
   ================================================================================================ *)
Definition wf_arr (a : enc_arr) : bool :=
  match a with
  | EU16 _ offs => forallb (fun v => v <? two16) offs
  | EU32 _ offs => forallb (fun v => v <? two32) offs
  | EU64 vals => forallb (fun v => v <? two64) vals
  end.
(* Bitmap invariant: len = range length (start <= end) *)
Definition wf_seg (x : segment) : bool :=
  match x with
  | SRange _ _ => true
  | SHoles _ _ h => wf_arr h
  | SBitmap s e _ len => (s <=? e) && (len =? e - s)
  | SSorted a | SArray a => wf_arr a
  end.
Definition wf_vseq (l : vseq) : bool := forallb (fun r => wf_seg (fst r)) l.

(* class default_conflated: an Option holding the proto3 default is written like None *)
Definition dc_del (d : deletion_file) : bool := match del_num_deleted d with Some 0 => true | _ => false end.
Definition dc_frag (f : fragment) : bool :=
  match fr_physical_rows f with Some 0 => true | _ => false end
  || match fr_deletion f with Some d => dc_del d | None => false end.
Definition wf_frag (f : fragment) : bool := negb (dc_frag f).

Definition wf_uuid (u : bytes) : bool := (length u =? 16)%nat.
Definition created_at_ok (t : Z) : bool :=
  ((CHRONO_MIN_MS * 1000000 <=? t) && (t <=? CHRONO_MAX_MS * 1000000 + 999999))%Z.
Definition submilli (t : Z) : bool := negb (t mod 1000000 =? 0)%Z.
(* class index_created_at_submilli *)
Definition Known_C32_index_created_at_submilli (i : index_meta) : bool :=
  match ix_created_at i with Some t => submilli t | None => false end.
Definition wf_idx (i : index_meta) : bool :=
  wf_uuid (ix_uuid i)
  && match ix_created_at i with Some t => created_at_ok t && negb (submilli t) | None => true end.

Definition wf_schema_txn (s : schema) : bool := is_nil (sc_meta s).     (* class txn_schema_metadata_dropped *)
Definition wf_ri (r : rewritten_index) : bool := wf_uuid (ri_old r) && wf_uuid (ri_new r).
Definition wf_rg (g : rewrite_group) : bool := forallb wf_frag (fst g) && forallb wf_frag (snd g).

Definition wf_op (o : operation) : bool :=
  match o with
  | OpAppend fs => forallb wf_frag fs
  | OpDelete u _ _ => forallb wf_frag u
  | OpOverwrite fs sc cfg bases =>
      forallb wf_frag fs && wf_schema_txn sc
      && match cfg with Some [] => false | _ => true end       (* Some({}) is written like None *)
      && match bases with Some [] => false | _ => true end
  | OpCreateIndex n r => forallb wf_idx n && forallb wf_idx r
  | OpRewrite groups ri fri => forallb wf_rg groups && forallb wf_ri ri && negb (is_nil groups) && negb (is_some fri)
  | OpDataReplacement _ => true
  | OpMerge fs sc => forallb wf_frag fs && wf_schema_txn sc
  | OpRestore _ | OpReserveFragments _ => true
  | OpUpdate _ u n _ _ _ mode => forallb wf_frag u && forallb wf_frag n && is_some mode
  | OpProject sc => wf_schema_txn sc
  | OpUpdateConfig _ _ _ _ => true
  | OpUpdateMemWalState _ _ _ => true
  | OpClone _ _ _ _ _ => true
  | OpUpdateBases _ => true
  end.
Definition wf_txn (t : transaction) : bool :=
  wf_op (tx_operation t)
  && match tx_tag t with Some [] => false | _ => true end
  && match tx_properties t with Some [] => false | _ => true end.

(* the individual known classes on transactions (each is a sub-case of ~wf_txn) *)
Definition Known_C32_rewrite_frag_reuse_index_dropped (t : transaction) : bool :=
  match tx_operation t with OpRewrite _ _ (Some _) => true | _ => false end.
Definition Known_C32_txn_schema_metadata_dropped (t : transaction) : bool :=
  match tx_operation t with
  | OpOverwrite _ sc _ _ | OpMerge _ sc | OpProject sc => negb (is_nil (sc_meta sc))
  | _ => false
  end.
Definition dc_idx (i : index_meta) : bool := Known_C32_index_created_at_submilli i.
Definition Known_C32_default_conflated_txn (t : transaction) : bool :=
  match tx_tag t with Some [] => true | _ => false end
  || match tx_properties t with Some [] => true | _ => false end
  || match tx_operation t with
     | OpAppend fs => existsb dc_frag fs
     | OpDelete u _ _ => existsb dc_frag u
     | OpOverwrite fs _ cfg bases =>
         existsb dc_frag fs || match cfg with Some [] => true | _ => false end
         || match bases with Some [] => true | _ => false end
     | OpRewrite groups _ _ => is_nil groups || existsb (fun g => existsb dc_frag (fst g) || existsb dc_frag (snd g)) groups
     | OpMerge fs _ => existsb dc_frag fs
     | OpUpdate _ u n _ _ _ mode => existsb dc_frag u || existsb dc_frag n || negb (is_some mode)
     | _ => false
     end.

(* manifest *)
Definition ts_bound : N := two63 * sub_1e9.
Definition wf_manifest (m : manifest) : bool :=
  forallb wf_frag (mf_fragments m)
  && match compute_fragment_offsets (mf_fragments m) with
     | Ok o => list_eqb N.eqb o (mf_fragment_offsets m)      (* private field: always the computed value *)
     | _ => false
     end
  && (mf_timestamp_nanos m <? ts_bound)
  && match mf_tag m with Some [] => false | _ => true end
  && match mf_transaction_file m with Some [] => false | _ => true end
  && ((N.land FLAG_STABLE_ROW_IDS (mf_reader_flags m) =? 0)
      || forallb (fun f => is_some (fr_row_id_meta f)) (mf_fragments m))
  && forallb (fun kb => fst kb =? bp_id (snd kb)) (mf_base_paths m).   (* map key = BasePath.id *)
Definition Known_C32_default_conflated_manifest (m : manifest) : bool :=
  existsb dc_frag (mf_fragments m)
  || match mf_tag m with Some [] => true | _ => false end
  || match mf_transaction_file m with Some [] => true | _ => false end.

(* Typing / struct invariants alone (no statement about the lossy classes): 16-byte uuids, created_at
   inside chrono's range; for a manifest: the private offsets are the computed ones, the timestamp's
   seconds fit an i64, the stable-row-id flag implies row ids everywhere, map keys are the ids. *)
Definition idx_typed (i : index_meta) : bool :=
  wf_uuid (ix_uuid i) && match ix_created_at i with Some t => created_at_ok t | None => true end.
Definition txn_typed (t : transaction) : bool :=
  match tx_operation t with
  | OpCreateIndex n r => forallb idx_typed n && forallb idx_typed r
  | OpRewrite _ ri _ => forallb wf_ri ri
  | _ => true
  end.
Definition manifest_invariants (m : manifest) : bool :=
  match compute_fragment_offsets (mf_fragments m) with
  | Ok o => list_eqb N.eqb o (mf_fragment_offsets m)
  | _ => false
  end
  && (mf_timestamp_nanos m <? ts_bound)
  && ((N.land FLAG_STABLE_ROW_IDS (mf_reader_flags m) =? 0)
      || forallb (fun f => is_some (fr_row_id_meta f)) (mf_fragments m))
  && forallb (fun kb => fst kb =? bp_id (snd kb)) (mf_base_paths m).

Definition wf_tag (t : tag_contents) : bool := (tg_version t <? two64) && (tg_manifest_size t <? two64).
Definition wf_branch (b : branch_contents) : bool :=
  (br_parent_version b <? two64) && (br_create_at b <? two64) && (br_manifest_size b <? two64).

(* ================================================================================================
   10. Decidable equalities and the correspondence checkers
   ================================================================================================ *)
Definition option_eq_dec {A} (d : forall a b : A, {a = b} + {a <> b}) : forall a b : option A, {a = b} + {a <> b}.
Proof. decide equality. Defined.
Definition prod_eq_dec {A B} (da : forall a b : A, {a = b} + {a <> b}) (db : forall a b : B, {a = b} + {a <> b})
  : forall a b : A * B, {a = b} + {a <> b}.
Proof. decide equality. Defined.
Definition outcome_eq_dec {A} (d : forall a b : A, {a = b} + {a <> b}) : forall a b : outcome A, {a = b} + {a <> b}.
Proof. decide equality. Defined.
Definition eqb_of {A} (d : forall a b : A, {a = b} + {a <> b}) (a b : A) : bool := if d a b then true else false.

Create HintDb eqdec.
#[export] Hint Resolve N.eq_dec Z.eq_dec bool_dec list_eq_dec option_eq_dec prod_eq_dec outcome_eq_dec : eqdec.
Ltac deq := decide equality; unfold rewrite_group, pb_rewrite_group, pb_segment, pb_enc_arr, kv, any, str, bytes in *; auto 14 with eqdec.

Definition enc_arr_eq_dec : forall a b : enc_arr, {a = b} + {a <> b}. Proof. deq. Defined.
#[export] Hint Resolve enc_arr_eq_dec : eqdec.
Definition pb_enc_arr_kind_eq_dec : forall a b : pb_enc_arr_kind, {a = b} + {a <> b}. Proof. deq. Defined.
#[export] Hint Resolve pb_enc_arr_kind_eq_dec : eqdec.
Definition segment_eq_dec : forall a b : segment, {a = b} + {a <> b}. Proof. deq. Defined.
#[export] Hint Resolve segment_eq_dec : eqdec.
Definition pb_segment_kind_eq_dec : forall a b : pb_segment_kind, {a = b} + {a <> b}. Proof. deq. Defined.
#[export] Hint Resolve pb_segment_kind_eq_dec : eqdec.
Definition data_file_eq_dec : forall a b : data_file, {a = b} + {a <> b}. Proof. deq. Defined.
#[export] Hint Resolve data_file_eq_dec : eqdec.
Definition pb_data_file_eq_dec : forall a b : pb_data_file, {a = b} + {a <> b}. Proof. deq. Defined.
#[export] Hint Resolve pb_data_file_eq_dec : eqdec.
Definition del_type_eq_dec : forall a b : del_type, {a = b} + {a <> b}. Proof. deq. Defined.
#[export] Hint Resolve del_type_eq_dec : eqdec.
Definition deletion_file_eq_dec : forall a b : deletion_file, {a = b} + {a <> b}. Proof. deq. Defined.
#[export] Hint Resolve deletion_file_eq_dec : eqdec.
Definition pb_deletion_file_eq_dec : forall a b : pb_deletion_file, {a = b} + {a <> b}. Proof. deq. Defined.
#[export] Hint Resolve pb_deletion_file_eq_dec : eqdec.
Definition ext_file_eq_dec : forall a b : ext_file, {a = b} + {a <> b}. Proof. deq. Defined.
#[export] Hint Resolve ext_file_eq_dec : eqdec.
Definition inline_or_ext_eq_dec : forall a b : inline_or_ext, {a = b} + {a <> b}. Proof. deq. Defined.
#[export] Hint Resolve inline_or_ext_eq_dec : eqdec.
Definition fragment_eq_dec : forall a b : fragment, {a = b} + {a <> b}. Proof. deq. Defined.
#[export] Hint Resolve fragment_eq_dec : eqdec.
Definition pb_fragment_eq_dec : forall a b : pb_fragment, {a = b} + {a <> b}. Proof. deq. Defined.
#[export] Hint Resolve pb_fragment_eq_dec : eqdec.
Definition index_meta_eq_dec : forall a b : index_meta, {a = b} + {a <> b}. Proof. deq. Defined.
#[export] Hint Resolve index_meta_eq_dec : eqdec.
Definition pb_index_meta_eq_dec : forall a b : pb_index_meta, {a = b} + {a <> b}. Proof. deq. Defined.
#[export] Hint Resolve pb_index_meta_eq_dec : eqdec.
Definition mw_state_eq_dec : forall a b : mw_state, {a = b} + {a <> b}. Proof. deq. Defined.
#[export] Hint Resolve mw_state_eq_dec : eqdec.
Definition mem_wal_eq_dec : forall a b : mem_wal, {a = b} + {a <> b}. Proof. deq. Defined.
#[export] Hint Resolve mem_wal_eq_dec : eqdec.
Definition pb_mem_wal_eq_dec : forall a b : pb_mem_wal, {a = b} + {a <> b}. Proof. deq. Defined.
#[export] Hint Resolve pb_mem_wal_eq_dec : eqdec.
Definition base_path_eq_dec : forall a b : base_path, {a = b} + {a <> b}. Proof. deq. Defined.
#[export] Hint Resolve base_path_eq_dec : eqdec.
Definition schema_eq_dec : forall a b : schema, {a = b} + {a <> b}. Proof. deq. Defined.
#[export] Hint Resolve schema_eq_dec : eqdec.
Definition writer_version_eq_dec : forall a b : writer_version, {a = b} + {a <> b}. Proof. deq. Defined.
#[export] Hint Resolve writer_version_eq_dec : eqdec.
Definition manifest_eq_dec : forall a b : manifest, {a = b} + {a <> b}. Proof. deq. Defined.
Definition pb_manifest_eq_dec : forall a b : pb_manifest, {a = b} + {a <> b}. Proof. deq. Defined.
Definition update_map_eq_dec : forall a b : update_map, {a = b} + {a <> b}. Proof. deq. Defined.
#[export] Hint Resolve update_map_eq_dec : eqdec.
Definition update_mode_eq_dec : forall a b : update_mode, {a = b} + {a <> b}. Proof. deq. Defined.
#[export] Hint Resolve update_mode_eq_dec : eqdec.
Definition rewritten_index_eq_dec : forall a b : rewritten_index, {a = b} + {a <> b}. Proof. deq. Defined.
#[export] Hint Resolve rewritten_index_eq_dec : eqdec.
Definition pb_rewritten_index_eq_dec : forall a b : pb_rewritten_index, {a = b} + {a <> b}. Proof. deq. Defined.
#[export] Hint Resolve pb_rewritten_index_eq_dec : eqdec.
Definition operation_eq_dec : forall a b : operation, {a = b} + {a <> b}. Proof. unfold rewrite_group; deq. Defined.
#[export] Hint Resolve operation_eq_dec : eqdec.
Definition pb_operation_eq_dec : forall a b : pb_operation, {a = b} + {a <> b}. Proof. unfold pb_rewrite_group; deq. Defined.
#[export] Hint Resolve pb_operation_eq_dec : eqdec.
Definition transaction_eq_dec : forall a b : transaction, {a = b} + {a <> b}. Proof. deq. Defined.
Definition pb_transaction_eq_dec : forall a b : pb_transaction, {a = b} + {a <> b}. Proof. deq. Defined.
Definition dvec_eq_dec : forall a b : dvec, {a = b} + {a <> b}. Proof. deq. Defined.
#[export] Hint Resolve dvec_eq_dec : eqdec.
Definition jval_eq_dec : forall a b : jval, {a = b} + {a <> b}. Proof. deq. Defined.
#[export] Hint Resolve jval_eq_dec : eqdec.
Definition tag_contents_eq_dec : forall a b : tag_contents, {a = b} + {a <> b}. Proof. deq. Defined.
Definition branch_contents_eq_dec : forall a b : branch_contents, {a = b} + {a <> b}. Proof. deq. Defined.

(* ---- executable stand-in for the roaring codec used by the correspondence shards: the harness
   renders the bitmap bytes of a pb message by decoding them with the roaring crate into
   [0 :: elements] (valid), [] (empty byte string) or [1] (bytes roaring rejects). ---- *)
Definition toy_ser (s : list N) : bytes := 0 :: s.
Definition toy_de (b : bytes) : option (list N) := match b with 0 :: s => Some s | _ => None end.

(* A to-pb case records (pb message produced by the implementation, did decode(encode x) == x hold
   on the implementation).  The model must reproduce both: the message field by field, and whether the
   round trip succeeds (so the wf_/Known_ predicates are tied to the real behaviour). *)
Definition chk_to {X P} (to_pb : X -> P) (of_pb : P -> outcome X)
           (xd : forall a b : X, {a = b} + {a <> b}) (pd : forall a b : P, {a = b} + {a <> b})
           (x : X) (out : P * bool) : bool :=
  eqb_of pd (to_pb x) (fst out)
  && Bool.eqb (eqb_of (outcome_eq_dec xd) (of_pb (to_pb x)) (Ok x)) (snd out).
Definition chk_of {X P} (of_pb : P -> outcome X) (xd : forall a b : X, {a = b} + {a <> b})
           (p : P) (out : outcome X) : bool := eqb_of (outcome_eq_dec xd) (of_pb p) out.

Definition chk_seg_to := chk_to seg_to_pb seg_of_pb segment_eq_dec (option_eq_dec pb_segment_kind_eq_dec).
Definition chk_seg_of := chk_of seg_of_pb segment_eq_dec.
Definition vseq_eq_dec : forall a b : vseq, {a = b} + {a <> b} := list_eq_dec (prod_eq_dec segment_eq_dec N.eq_dec).
Definition pb_vseq_eq_dec : forall a b : pb_vseq, {a = b} + {a <> b} :=
  list_eq_dec (prod_eq_dec (option_eq_dec (option_eq_dec pb_segment_kind_eq_dec)) N.eq_dec).
Definition chk_vseq_to := chk_to vseq_to_pb vseq_of_pb vseq_eq_dec pb_vseq_eq_dec.
Definition chk_vseq_of := chk_of vseq_of_pb vseq_eq_dec.

(* Row id sequences: RowIdSequence's segment vector is private, the harness sees the decoded value
   only through its Debug text, where a Bitmap prints its first `len` bits.  [seg_view] maps a
   model segment to that view (bits instead of bytes). *)
Definition bit_of (data : bytes) (i : nat) : bool := N.testbit (nth (i / 8) data 0) (N.of_nat (i mod 8)).
Definition seg_view (x : segment) : segment * list bool :=
  match x with
  | SBitmap s e data len => (SBitmap s e [] len, map (bit_of data) (seq 0 (N.to_nat len)))
  | y => (y, [])
  end.
Definition chk_rowids_of (p : list pb_segment) (out : outcome (list (segment * list bool))) : bool :=
  eqb_of (outcome_eq_dec (list_eq_dec (prod_eq_dec segment_eq_dec (list_eq_dec bool_dec))))
         (obind (rowids_of_pb p) (fun l => Ok (map seg_view l))) out.

Definition chk_frag_to := chk_to frag_to_pb frag_of_pb fragment_eq_dec pb_fragment_eq_dec.
Definition chk_frag_of := chk_of frag_of_pb fragment_eq_dec.
Definition chk_idx_to := chk_to (idx_to_pb toy_ser) (idx_of_pb toy_de) index_meta_eq_dec pb_index_meta_eq_dec.
Definition chk_idx_of := chk_of (idx_of_pb toy_de) index_meta_eq_dec.
Definition chk_mw_to := chk_to mw_to_pb mw_of_pb mem_wal_eq_dec pb_mem_wal_eq_dec.
Definition chk_mw_of := chk_of mw_of_pb mem_wal_eq_dec.
Definition chk_mf_to := chk_to mf_to_pb mf_of_pb manifest_eq_dec pb_manifest_eq_dec.
Definition chk_mf_of := chk_of mf_of_pb manifest_eq_dec.
Definition chk_txn_to := chk_to (txn_to_pb toy_ser) (txn_of_pb toy_de) transaction_eq_dec pb_transaction_eq_dec.
Definition chk_txn_of := chk_of (txn_of_pb toy_de) transaction_eq_dec.

(* wf / Known classes as seen by the harness (its own classification of a generated value):
   0 = well-formed, otherwise a bit set of classes: 1 default_conflated, (2 was overwrite_config_upsert_dropped,
   repaired in /repo cb06601), 4 rewrite_frag_reuse_index_dropped, 8 txn_schema_metadata_dropped, 16 index_created_at_submilli *)
Definition b2n (b : bool) (v : N) : N := if b then v else 0.
Definition txn_idx_submilli (t : transaction) : bool :=
  match tx_operation t with
  | OpCreateIndex n r => existsb dc_idx n || existsb dc_idx r
  | _ => false
  end.
Definition txn_classes (t : transaction) : N :=
  b2n (Known_C32_default_conflated_txn t) 1
  + b2n (Known_C32_rewrite_frag_reuse_index_dropped t) 4 + b2n (Known_C32_txn_schema_metadata_dropped t) 8
  + b2n (txn_idx_submilli t) 16.
Definition chk_txn_class (t : transaction) (cls : N) : bool := txn_classes t =? cls.

(* deletion vector files: input (variant, elements in the written order); output = (descriptor type,
   num_deleted_rows, elements found in the file decoded independently, read-back variant code, read-back sorted elements) *)
Definition toy_ipc_write (l : list N) : bytes := l.
Definition toy_ipc_read (b : bytes) : option (list N) := Some b.
Fixpoint insert_sorted (x : N) (l : list N) : list N :=
  match l with [] => [x] | y :: r => if x <=? y then x :: l else y :: insert_sorted x r end.
Definition sort_n (l : list N) : list N := fold_right insert_sorted [] l.
Definition dvec_code (d : dvec) : N := match d with DvNone => 0 | DvSet _ => 1 | DvBitmap _ => 2 end.
Definition chk_dv (d : dvec) (out : option (N * option N * list N * N * list N)) : bool :=
  match dv_write toy_ipc_write toy_ser d, out with
  | None, None => true
  | Some w, Some (ty, nd, file_elems, rcode, relems) =>
      (match dvw_type w with DtArray => 0 | DtBitmap => 1 end =? ty)
      && eqb_of (option_eq_dec N.eq_dec) (dvw_num_deleted w) nd
      && list_eqb N.eqb (sort_n (match dvw_type w with DtArray => dvw_bytes w | DtBitmap => tl (dvw_bytes w) end)) file_elems
      && match dv_read toy_ipc_read toy_de (dvw_type w) (dvw_bytes w) with
         | Ok r => (dvec_code r =? rcode) && list_eqb N.eqb (sort_n (dv_elems r)) relems
         | _ => false
         end
  | _, _ => false
  end.

Definition jobj_eq_dec : forall a b : jobj, {a = b} + {a <> b} := list_eq_dec (prod_eq_dec (list_eq_dec N.eq_dec) jval_eq_dec).
Definition chk_tag_to := chk_to tag_to_json tag_of_json tag_contents_eq_dec jobj_eq_dec.
Definition chk_tag_of := chk_of tag_of_json tag_contents_eq_dec.
Definition chk_branch_to := chk_to branch_to_json branch_of_json branch_contents_eq_dec jobj_eq_dec.
Definition chk_branch_of := chk_of branch_of_json branch_contents_eq_dec.
