(* C43: the operations that match fields by NAME: exclude (this file, part 1), Field::merge and the
   operations built on it (part 2). *)
From LanceV Require Import Common.Base Meta.Model_Schema Meta.Proofs_Schema Meta.Proofs_SchemaTree.
Local Open Scope N_scope.

(* ------------------------------------------------------------------ shapes *)

(* struct: any children; list / large_list: exactly the item child; everything else: no children *)
Fixpoint shape_ok (f : field) : bool :=
  match f with
  | Fld a ch =>
      match a_ty a with
      | LStruct => forallb shape_ok ch
      | LList _ | LLargeList _ => match ch with [c] => shape_ok c | _ => false end
      | _ => is_nil ch
      end
  end.

Lemma shape_ok_children (f : field) : shape_ok f = true -> forall c, In c (fch f) -> shape_ok c = true.
Proof.
  destruct f as [a ch]. cbn [shape_ok fch]. intros H c Hc. destruct (a_ty a).
  - eapply forallb_forall in H; eauto.
  - destruct ch as [|x [|y r]]; try discriminate. destruct Hc as [<- | []]. exact H.
  - destruct ch as [|x [|y r]]; try discriminate. destruct Hc as [<- | []]. exact H.
  - destruct ch; [destruct Hc | discriminate].
  - destruct ch; [destruct Hc | discriminate].
  - destruct ch; [destruct Hc | discriminate].
Qed.

Lemma shape_ok_dt_ok (f : field) : shape_ok f = true -> dt_ok f = true.
Proof.
  induction f as [a ch IH] using field_ind'. cbn [shape_ok dt_ok]. intros H. destruct (a_ty a); try reflexivity.
  - apply forallb_forall. intros c Hc. rewrite Forall_forall in IH. apply (IH c Hc). eapply forallb_forall in H; eauto.
  - destruct ch as [|x [|y r]]; try discriminate. inversion IH; subst. auto.
  - destruct ch as [|x [|y r]]; try discriminate. inversion IH; subst. auto.
Qed.

Lemma shape_ok_leaf (a : attrs) (ch : list field) :
  shape_ok (Fld a ch) = true -> is_nested_ty (a_ty a) = false -> ch = [].
Proof. cbn [shape_ok]. destruct (a_ty a); cbn; try discriminate; destruct ch; try reflexivity; discriminate. Qed.

(* a plain name is looked up as itself *)
Lemma sfield_plain (s : schema) (n : str) : plain n = true -> sfield s n = find_name n s.
Proof.
  intros H. unfold sfield, resolve. rewrite (parse_plain n H).
  destruct (find_name n s) as [f|]; [|reflexivity]. cbn [fresolve last]. reflexivity.
Qed.

(* ------------------------------------------------------------------ the defect classes (DESIGN 6 / KNOWN_FINDINGS) *)

(* project / exclude / intersection / merge look a top-level field NAME up with Schema::field(name),
   which parses the name as a path: harmless exactly for plain names *)
Definition Known_C43_toplevel_name_reparsed (s : schema) : bool :=
  existsb (fun f => negb (plain (fname f))) s.

(* project only checks the first segment of a column: a column whose first segment names a
   top-level field but which does not resolve *)
Definition Known_C43_dangling_subpath (s : schema) (cols : list str) : bool :=
  existsb (fun col => match parse_field_path col with
                      | Ok (first :: _) =>
                          match find_name first s, resolve s col with
                          | Some _, None => true
                          | _, _ => false
                          end
                      | _ => false
                      end) cols.

(* Field::do_intersection descends into struct/struct and list/list but not large_list/large_list *)
Definition Known_C43_intersection_large_list (s o : schema) : bool :=
  existsb (fun f => match fty f, option_map fty (find_name (fname f) o) with
                    | LLargeList _, Some (LLargeList _) => true
                    | _, _ => false
                    end) s.

(* ------------------------------------------------------------------ exclude *)

(* [oo] is the field of `other` sitting at the same name path as f (None: other has no such field).
   f survives iff some field of its subtree has no counterpart in other. *)
Fixpoint keepx (f : field) (oo : option field) : bool :=
  match oo with
  | None => true
  | Some o => match f with Fld a ch => existsb (fun c => keepx c (find_name (fname c) (fch o))) ch end
  end.

Fixpoint xprune (f : field) (oo : option field) : option field :=
  match oo with
  | None => Some f
  | Some o =>
      match f with
      | Fld a ch =>
          let ch' := omap (fun c => xprune c (find_name (fname c) (fch o))) ch in
          if is_nil ch' then None else Some (Fld a ch')
      end
  end.

Lemma keepx_None (f : field) : keepx f None = true.
Proof. destruct f; reflexivity. Qed.
Lemma xprune_None (f : field) : xprune f None = Some f.
Proof. destruct f; reflexivity. Qed.

Lemma xprune_none_iff (f : field) : forall oo, xprune f oo = None <-> keepx f oo = false.
Proof.
  induction f as [a ch IH] using field_ind'. intros [o|]; cbn [xprune keepx]; [|split; discriminate].
  set (g := fun c => xprune c (find_name (fname c) (fch o))).
  set (k := fun c => keepx c (find_name (fname c) (fch o))).
  assert (Hnil : is_nil (omap g ch) = negb (existsb k ch)).
  { destruct (existsb k ch) eqn:E.
    - apply existsb_exists in E as [c [Hc Hh]].
      destruct (omap g ch) eqn:Eo; [|reflexivity]. exfalso.
      rewrite omap_nil in Eo. specialize (Eo c Hc). rewrite Forall_forall in IH. apply (IH c Hc) in Eo.
      unfold k in Hh. congruence.
    - assert (Eo : omap g ch = []).
      { apply omap_nil. intros c Hc. rewrite Forall_forall in IH. apply (IH c Hc).
        destruct (keepx c (find_name (fname c) (fch o))) eqn:Eh; [|reflexivity]. exfalso.
        assert (existsb k ch = true) by (apply existsb_exists; exists c; auto). congruence. }
      rewrite Eo. reflexivity. }
  rewrite Hnil. destruct (existsb k ch); cbn; split; congruence.
Qed.

Lemma xprune_subfield (f : field) : forall oo r, xprune f oo = Some r -> subfield r f.
Proof.
  induction f as [a ch IH] using field_ind'. intros [o|] r H; cbn [xprune] in H.
  - destruct (is_nil _); [discriminate|]. inversion H; subst. constructor. apply omap_subforest.
    intros x y Hx Hy. rewrite Forall_forall in IH. eapply (IH x Hx). exact Hy.
  - inversion H; subst. apply subfield_refl.
Qed.

(* the same along a chain c = f0 :: f1 :: ... : walk other in parallel by names *)
Fixpoint keepxc (c : list field) (oo : option field) : bool :=
  match c with
  | [] => false
  | x :: rest =>
      match rest with
      | [] => keepx x oo
      | y :: _ => match oo with
                  | None => true
                  | Some o => keepxc rest (find_name (fname y) (fch o))
                  end
      end
  end.

Lemma keepxc_none_true (c : list field) : c <> [] -> keepxc c None = true.
Proof. destruct c as [|x [|y r]]; [contradiction | intros _; apply keepx_None | reflexivity]. Qed.

Lemma keepx_false_chains (f : field) : forall oo, keepx f oo = false -> forall c, In c (chains_f f) -> keepxc c oo = false.
Proof.
  induction f as [a ch IH] using field_ind'. intros oo Hk c Hc.
  apply chains_f_cases in Hc as [-> | [ci [t [Hci [Ht ->]]]]]; [exact Hk|].
  destruct (chains_f_head _ _ Ht) as [t' ->].
  destruct oo as [o|]; [|cbn [keepx] in Hk; discriminate]. cbn [keepx] in Hk.
  change (keepxc (Fld a ch :: ci :: t') (Some o)) with (keepxc (ci :: t') (find_name (fname ci) (fch o))).
  rewrite Forall_forall in IH. apply (IH ci Hci); [|exact Ht].
  destruct (keepx ci (find_name (fname ci) (fch o))) eqn:E; [|reflexivity]. exfalso.
  assert (X : existsb (fun c => keepx c (find_name (fname c) (fch o))) ch = true) by (apply existsb_exists; exists ci; auto).
  congruence.
Qed.

Lemma xprune_chains (f : field) : forall oo r, xprune f oo = Some r ->
  forall ac, In ac (map achain (chains_f r)) <-> exists c, In c (chains_f f) /\ achain c = ac /\ keepxc c oo = true.
Proof.
  induction f as [a ch IH] using field_ind'. intros [o|] r H ac; cbn [xprune] in H.
  2:{ inversion H; subst r. split.
      - intros Hin. apply in_map_iff in Hin as [c [Hac Hc]]. exists c. split; [exact Hc|]. split; [exact Hac|].
        apply keepxc_none_true. destruct (chains_f_head _ _ Hc) as [t ->]. discriminate.
      - intros [c [Hc [Hac _]]]. apply in_map_iff. exists c. auto. }
  set (g := fun c => xprune c (find_name (fname c) (fch o))) in *.
  set (P := fun t : list field => match t with ci :: _ => keepxc t (find_name (fname ci) (fch o)) | [] => false end).
  assert (HS : forall ci ri, In ci ch -> g ci = Some ri ->
            forall ac, In ac (map achain (chains_f ri)) <-> exists c, In c (chains_f ci) /\ achain c = ac /\ P c = true).
  { intros ci ri Hci Hg ac'. rewrite Forall_forall in IH. rewrite (IH ci Hci _ ri Hg ac'). split.
    - intros [c [Hc [Ha Hk]]]. exists c. split; [exact Hc|]. split; [exact Ha|].
      destruct (chains_f_head _ _ Hc) as [t ->]. exact Hk.
    - intros [c [Hc [Ha Hk]]]. exists c. split; [exact Hc|]. split; [exact Ha|].
      destruct (chains_f_head _ _ Hc) as [t ->]. exact Hk. }
  assert (HN : forall ci, In ci ch -> g ci = None -> forall c, In c (chains_f ci) -> P c = false).
  { intros ci Hci Hg c Hc. destruct (chains_f_head _ _ Hc) as [t ->]. cbn [P].
    apply (keepx_false_chains ci _ (proj1 (xprune_none_iff ci _) Hg) _ Hc). }
  destruct (is_nil (omap g ch)) eqn:En; [discriminate|]. inversion H; subst r. clear H.
  assert (Hkf : keepx (Fld a ch) (Some o) = true).
  { destruct (keepx (Fld a ch) (Some o)) eqn:E; [reflexivity|]. apply xprune_none_iff in E. cbn [xprune] in E.
    fold g in E. rewrite En in E. discriminate. }
  cbn [chains_f map]. split.
  - intros [Hin | Hin].
    + exists [Fld a ch]. split; [left; reflexivity|]. split; [exact Hin | exact Hkf].
    + rewrite map_map in Hin. apply in_map_iff in Hin as [cr [Hac Hcr]].
      assert (Hx : In (achain cr) (map achain (flat_map chains_f (omap g ch)))) by (apply in_map; exact Hcr).
      rewrite (flat_chains_omap g ch P HS HN) in Hx.
      destruct Hx as [ci [c [Hci [Hc [Ha Hk]]]]].
      exists (Fld a ch :: c). split; [apply chains_f_cases; right; exists ci, c; auto|].
      split; [cbn [achain map] in *; rewrite <- Hac; cbn [map]; f_equal; exact Ha|].
      destruct (chains_f_head _ _ Hc) as [t ->]. exact Hk.
  - intros [c [Hc [Hac Hk]]]. apply chains_f_cases in Hc as [-> | [ci [t [Hci [Ht ->]]]]].
    + left. exact Hac.
    + right. rewrite map_map.
      assert (Hx : In (achain t) (map achain (flat_map chains_f (omap g ch)))).
      { rewrite (flat_chains_omap g ch P HS HN). exists ci, t. split; [exact Hci|]. split; [exact Ht|]. split; [reflexivity|].
        destruct (chains_f_head _ _ Ht) as [t' ->]. exact Hk. }
      apply in_map_iff in Hx as [cr [Hcr1 Hcr2]]. apply in_map_iff. exists cr. split; [|exact Hcr2].
      cbn [achain map] in *. rewrite <- Hac. f_equal. exact Hcr1.
Qed.

(* Field::exclude computes xprune *)
Lemma fexclude_spec (f : field) : forall o, shape_ok f = true -> fexclude f o = Ok (xprune f (Some o)).
Proof.
  induction f as [a ch IH] using field_ind'. intros o Hs.
  assert (G : forall cs, Forall (fun c => forall o, shape_ok c = true -> fexclude c o = Ok (xprune c (Some o))) cs ->
            forallb shape_ok cs = true ->
            (fix go (cs : list field) : outcome (list field) :=
               match cs with
               | [] => Ok []
               | c :: r =>
                   match (match find_name (fname c) (fch o) with
                          | Some oc => fexclude c oc
                          | None => Ok (Some c)
                          end) with
                   | Ok x => match go r with
                             | Ok l => Ok (match x with Some y => y :: l | None => l end)
                             | Err => Err
                             | Panic => Panic
                             end
                   | Err => Err
                   | Panic => Panic
                   end
               end) cs = Ok (omap (fun c => xprune c (find_name (fname c) (fch o))) cs)).
  { induction cs as [|c r IHr]; intros Hall Hsh; [reflexivity|].
    inversion Hall as [|? ? Hc Hr]; subst. cbn [forallb] in Hsh. apply andb_true_iff in Hsh as [Hsc Hsr].
    rewrite (IHr Hr Hsr). unfold omap. cbn [flat_map].
    destruct (find_name (fname c) (fch o)) as [oc|].
    - rewrite (Hc oc Hsc). destruct (xprune c (Some oc)); reflexivity.
    - rewrite xprune_None. reflexivity. }
  cbn [fexclude]. rewrite (shape_ok_dt_ok _ Hs). cbn [negb].
  destruct (is_nested_ty (a_ty a)) eqn:En; cbn [negb].
  - rewrite (G ch IH).
    + cbn [xprune]. destruct (omap _ ch); reflexivity.
    + apply forallb_forall. intros c Hc. apply (shape_ok_children _ Hs c Hc).
  - rewrite (shape_ok_leaf a ch Hs En). reflexivity.
Qed.

(* the defect class: a top-level field that is not a struct (a list), named in other, of which
   something ought to survive - Schema::exclude drops it wholesale *)
Definition Known_C43_exclude_toplevel_list (s other : schema) : bool :=
  existsb (fun f => negb (is_struct_ty (fty f)) &&
                    match find_name (fname f) other with Some of => keepx f (Some of) | None => false end) s.

Definition exclude_spec (s other : schema) : schema := omap (fun f => xprune f (find_name (fname f) other)) s.

Lemma exclude_go_spec (s other : schema) :
  forallb shape_ok s = true -> forallb (fun f => plain (fname f)) s = true ->
  Known_C43_exclude_toplevel_list s other = false ->
  exclude_go s other = Ok (exclude_spec s other).
Proof.
  unfold exclude_spec, Known_C43_exclude_toplevel_list.
  induction s as [|f r IH]; intros Hs Hp Hk; [reflexivity|].
  cbn [forallb] in Hs, Hp. apply andb_true_iff in Hs as [Hsf Hsr]. apply andb_true_iff in Hp as [Hpf Hpr].
  cbn [existsb] in Hk. apply orb_false_iff in Hk as [Hkf Hkr].
  cbn [exclude_go]. rewrite (sfield_plain other (fname f) Hpf). rewrite (IH Hsr Hpr Hkr).
  unfold omap. cbn [flat_map]. destruct (find_name (fname f) other) as [of|].
  - rewrite (shape_ok_dt_ok f Hsf). cbn [negb]. destruct (is_struct_ty (fty f)) eqn:Est.
    + rewrite (fexclude_spec f of Hsf). destruct (xprune f (Some of)); reflexivity.
    + cbn [negb andb] in Hkf. apply xprune_none_iff in Hkf. rewrite Hkf. reflexivity.
  - rewrite xprune_None. reflexivity.
Qed.

Definition keeps_x (other : schema) (c : list field) : bool :=
  match c with
  | f0 :: _ => keepxc c (find_name (fname f0) other)
  | [] => false
  end.

Theorem exclude_semantics (s other : schema) :
  forallb shape_ok s = true -> forallb (fun f => plain (fname f)) s = true ->
  Known_C43_exclude_toplevel_list s other = false ->
  exists r, exclude s other = Ok r /\ subforest r s /\
    forall ac, In ac (achains r) <-> exists c, In c (chains s) /\ achain c = ac /\ keeps_x other c = true.
Proof.
  intros Hs Hp Hk. exists (exclude_spec s other). split; [apply exclude_go_spec; assumption|]. split.
  - apply omap_subforest. intros x y _ Hy. eapply xprune_subfield. exact Hy.
  - intros ac. unfold exclude_spec. apply (in_achains_flat (fun f => xprune f (find_name (fname f) other)) s (keeps_x other)).
    + intros f r _ Hr ac'. rewrite (xprune_chains f _ r Hr ac'). split.
      * intros [c [Hc [Ha Hkc]]]. exists c. split; [exact Hc|]. split; [exact Ha|].
        destruct (chains_f_head _ _ Hc) as [t ->]. exact Hkc.
      * intros [c [Hc [Ha Hkc]]]. exists c. split; [exact Hc|]. split; [exact Ha|].
        destruct (chains_f_head _ _ Hc) as [t ->]. exact Hkc.
    + intros f _ Hn c Hc. destruct (chains_f_head _ _ Hc) as [t ->]. cbn [keeps_x].
      apply (keepx_false_chains f _ (proj1 (xprune_none_iff f _) Hn) _ Hc).
Qed.
