(* C43: Field::merge - the union of two field trees by name - and what it means on name paths. *)
From LanceV Require Import Common.Base Meta.Model_Schema Meta.Proofs_Schema Meta.Proofs_SchemaTree Meta.Proofs_SchemaNames.
Local Open Scope N_scope.

(* ------------------------------------------------------------------ the struct arm, list-wise *)

Fixpoint merge_children (ocs cs : list field) : outcome (list field) :=
  match ocs with
  | [] => Ok cs
  | oc :: r =>
      match upd_first (fname oc) (fmerge oc) cs with
      | Some (Ok cs') => merge_children r cs'
      | Some Err => Err
      | Some Panic => Panic
      | None => merge_children r (cs ++ [oc])
      end
  end.

Lemma fmerge_unfold (ob : attrs) (och : list field) (f : field) :
  fmerge (Fld ob och) f =
  if negb (dt_ok f) || negb (dt_ok (Fld ob och)) then Panic
  else match fty f, a_ty ob with
       | LStruct, LStruct =>
           match merge_children och (fch f) with Ok cs => Ok (Fld (fa f) cs) | Err => Err | Panic => Panic end
       | LList _, LList _ | LLargeList _, LLargeList _ =>
           match och, fch f with
           | oc :: _, c :: r => match fmerge oc c with Ok c' => Ok (Fld (fa f) (c' :: r)) | Err => Err | Panic => Panic end
           | _, _ => Panic
           end
       | LFsl _ n, LFsl _ m => if n =? m then Ok f else Err
       | LFsb n, LFsb m => if n =? m then Ok f else Err
       | _, _ => if dt_eqb f (Fld ob och) then Ok f else Err
       end.
Proof.
  assert (E : forall ocs cs,
            (fix go (ocs : list field) (cs : list field) : outcome (list field) :=
               match ocs with
               | [] => Ok cs
               | oc :: r =>
                   match upd_first (fname oc) (fmerge oc) cs with
                   | Some (Ok cs') => go r cs'
                   | Some Err => Err
                   | Some Panic => Panic
                   | None => go r (cs ++ [oc])
                   end
               end) ocs cs = merge_children ocs cs).
  { induction ocs as [|oc r IH]; intros cs; [reflexivity|]. cbn [merge_children].
    destruct (upd_first (fname oc) (fmerge oc) cs) as [[cs'| |]|]; try reflexivity; apply IH. }
  cbn [fmerge]. destruct (negb (dt_ok f) || negb (dt_ok (Fld ob och))); [reflexivity|].
  destruct (fty f), (a_ty ob); try reflexivity; rewrite E; reflexivity.
Qed.

Lemma fmerge_attrs (o f r : field) : fmerge o f = Ok r -> fa r = fa f.
Proof.
  destruct o as [ob och]. rewrite fmerge_unfold.
  destruct (negb (dt_ok f) || negb (dt_ok (Fld ob och))); [discriminate|].
  destruct (fty f), (a_ty ob);
    repeat match goal with
           | |- (if ?c then _ else _) = _ -> _ => destruct c
           | |- match ?x with _ => _ end = _ -> _ => destruct x
           end; intros H; inversion H; subst; reflexivity.
Qed.

(* ------------------------------------------------------------------ upd_first and find_name *)

Lemma find_name_app (n : str) (l1 l2 : list field) :
  find_name n (l1 ++ l2) = match find_name n l1 with Some x => Some x | None => find_name n l2 end.
Proof.
  unfold find_name. induction l1 as [|x r IH]; [reflexivity|]. cbn [app find].
  destruct (str_eqb (fname x) n); [reflexivity | exact IH].
Qed.

Lemma find_name_some (n : str) (l : list field) (x : field) : find_name n l = Some x -> In x l /\ fname x = n.
Proof.
  unfold find_name. intros H. apply find_some in H as [H1 H2]. apply str_eqb_eq in H2. auto.
Qed.

Lemma find_name_none (n : str) (l : list field) : find_name n l = None <-> ~ In n (map fname l).
Proof.
  unfold find_name. split.
  - intros H Hin. apply in_map_iff in Hin as [x [Hx Hin]]. pose proof (find_none _ _ H x Hin) as E.
    cbv beta in E. rewrite Hx, str_eqb_refl in E. discriminate.
  - intros H. destruct (find (fun f => str_eqb (fname f) n) l) eqn:E; [|reflexivity]. exfalso.
    apply find_some in E as [H1 H2]. apply str_eqb_eq in H2. apply H. rewrite <- H2. apply in_map. exact H1.
Qed.

Lemma upd_first_none (n : str) (g : field -> outcome field) (cs : list field) :
  upd_first n g cs = None <-> find_name n cs = None.
Proof.
  unfold find_name. induction cs as [|c r IH]; cbn [upd_first find]; [tauto|].
  destruct (str_eqb (fname c) n); [split; discriminate|].
  destruct (upd_first n g r) as [[x| |]|]; split; try discriminate; try tauto; intros H; apply IH in H; discriminate.
Qed.

Lemma upd_first_some (n : str) (g : field -> outcome field) (cs : list field) (out : outcome (list field)) :
  upd_first n g cs = Some out ->
  exists pre c post, cs = pre ++ c :: post /\ fname c = n /\ find_name n pre = None /\
    out = match g c with Ok c' => Ok (pre ++ c' :: post) | Err => Err | Panic => Panic end.
Proof.
  revert out. induction cs as [|c r IH]; intros out H; cbn [upd_first] in H; [discriminate|].
  destruct (str_eqb (fname c) n) eqn:E.
  - apply str_eqb_eq in E. exists [], c, r. inversion H; subst. auto.
  - destruct (upd_first n g r) as [o|] eqn:Eu; [|discriminate].
    destruct (IH o eq_refl) as [pre [c0 [post [H1 [H2 [H3 H4]]]]]].
    exists (c :: pre), c0, post. subst r. split; [reflexivity|]. split; [exact H2|]. split.
    + unfold find_name in *. cbn [find]. rewrite E. exact H3.
    + subst o. destruct (g c0); inversion H; reflexivity.
Qed.

Lemma find_name_replace (n m : str) (pre post : list field) (c c' : field) :
  fname c = n -> fname c' = n -> find_name n pre = None ->
  find_name m (pre ++ c' :: post) = if str_eqb n m then Some c' else find_name m (pre ++ c :: post).
Proof.
  intros Hc Hc' Hpre. rewrite !find_name_app. destruct (str_eqb n m) eqn:E.
  - apply str_eqb_eq in E. subst m. rewrite Hpre. unfold find_name. cbn [find]. rewrite Hc', str_eqb_refl. reflexivity.
  - destruct (find_name m pre); [reflexivity|]. unfold find_name. cbn [find]. rewrite Hc, Hc', E. reflexivity.
Qed.

Lemma nodup_names_app_single (cs : list field) (oc : field) :
  nodup_by str_eqb (map fname cs) = true -> find_name (fname oc) cs = None ->
  nodup_by str_eqb (map fname (cs ++ [oc])) = true.
Proof.
  induction cs as [|c r IH]; intros Hn Hf; [reflexivity|].
  cbn [map nodup_by app] in *. apply andb_true_iff in Hn as [H1 H2].
  unfold find_name in Hf. cbn [find] in Hf. destruct (str_eqb (fname c) (fname oc)) eqn:E; [discriminate|].
  rewrite IH by assumption. rewrite andb_true_r. apply negb_true_iff. apply negb_true_iff in H1.
  rewrite map_app, existsb_app, H1. cbn. rewrite E. reflexivity.
Qed.

(* ------------------------------------------------------------------ merge_children, by name *)

Lemma merge_children_spec (ocs : list field) : forall cs cs',
  merge_children ocs cs = Ok cs' ->
  nodup_by str_eqb (map fname ocs) = true -> nodup_by str_eqb (map fname cs) = true ->
  nodup_by str_eqb (map fname cs') = true /\
  (forall n, match find_name n cs, find_name n ocs with
             | Some c, Some oc => exists r1, fmerge oc c = Ok r1 /\ find_name n cs' = Some r1
             | Some c, None => find_name n cs' = Some c
             | None, Some oc => find_name n cs' = Some oc
             | None, None => find_name n cs' = None
             end) /\
  (forall x, In x cs' -> In x cs \/ In x ocs \/ exists c oc, In c cs /\ In oc ocs /\ fname c = fname oc /\ fmerge oc c = Ok x).
Proof.
  induction ocs as [|oc rest IH]; intros cs cs' H Hno Hnc.
  - cbn [merge_children] in H. inversion H; subst cs'. split; [exact Hnc|]. split.
    + intros n. cbn. destruct (find_name n cs); reflexivity.
    + intros x Hx. left. exact Hx.
  - cbn [map nodup_by] in Hno. apply andb_true_iff in Hno as [Hoc Hrest]. apply negb_true_iff in Hoc.
    assert (Hrn : find_name (fname oc) rest = None).
    { apply find_name_none. intros Hin. assert (X : existsb (str_eqb (fname oc)) (map fname rest) = true).
      { apply existsb_exists. exists (fname oc). split; [exact Hin | apply str_eqb_refl]. } congruence. }
    cbn [merge_children] in H. destruct (upd_first (fname oc) (fmerge oc) cs) as [out|] eqn:Eu.
    + destruct (upd_first_some _ _ _ _ Eu) as [pre [c [post [Hcs [Hcn [Hpre Hout]]]]]].
      destruct (fmerge oc c) as [r1| |] eqn:Em; subst out; try discriminate.
      pose proof (fmerge_attrs _ _ _ Em) as Ha.
      assert (Hr1n : fname r1 = fname oc) by (unfold fname; rewrite Ha; exact Hcn).
      assert (Hnames : map fname (pre ++ r1 :: post) = map fname cs).
      { subst cs. rewrite !map_app. cbn [map]. rewrite Hr1n, Hcn. reflexivity. }
      destruct (IH _ _ H Hrest) as [I1 [I2 I3]]; [rewrite Hnames; exact Hnc|].
      split; [exact I1|]. split.
      * intros n. specialize (I2 n). rewrite (find_name_replace (fname oc) n pre post c r1 Hcn Hr1n Hpre) in I2.
        rewrite <- Hcs in I2. assert (Hfr : find_name n (oc :: rest) = if str_eqb (fname oc) n then Some oc else find_name n rest) by reflexivity.
        rewrite Hfr. clear Hfr.
        destruct (str_eqb (fname oc) n) eqn:E.
        -- apply str_eqb_eq in E. subst n. rewrite Hrn in I2.
           assert (Hfc : find_name (fname oc) cs = Some c).
           { subst cs. rewrite find_name_app, Hpre. unfold find_name. cbn [find]. rewrite Hcn, str_eqb_refl. reflexivity. }
           rewrite Hfc. exists r1. auto.
        -- exact I2.
      * intros x Hx. destruct (I3 x Hx) as [Hin | [Hin | [c2 [oc2 [H1 [H2 [H3 H4]]]]]]].
        -- apply in_app_or in Hin as [Hin | [<- | Hin]].
           ++ left. subst cs. apply in_or_app. left. exact Hin.
           ++ right. right. exists c, oc. split; [subst cs; apply in_or_app; right; left; reflexivity|].
              split; [left; reflexivity|]. split; [exact Hcn | exact Em].
           ++ left. subst cs. apply in_or_app. right. right. exact Hin.
        -- right. left. right. exact Hin.
        -- apply in_app_or in H1 as [H1 | [<- | H1]].
           ++ right. right. exists c2, oc2. split; [subst cs; apply in_or_app; left; exact H1|]. split; [right; exact H2|]. auto.
           ++ (* the freshly merged child is not merged again: its name is not in rest *)
              exfalso. rewrite Hr1n in H3. apply find_name_none in Hrn. apply Hrn. rewrite H3. apply in_map. exact H2.
           ++ right. right. exists c2, oc2. split; [subst cs; apply in_or_app; right; right; exact H1|]. split; [right; exact H2|]. auto.
    + apply upd_first_none in Eu.
      destruct (IH _ _ H Hrest (nodup_names_app_single cs oc Hnc Eu)) as [I1 [I2 I3]].
      split; [exact I1|]. split.
      * intros n. specialize (I2 n). rewrite find_name_app in I2.
        assert (Hfr : find_name n (oc :: rest) = if str_eqb (fname oc) n then Some oc else find_name n rest) by reflexivity.
        rewrite Hfr. clear Hfr.
        destruct (str_eqb (fname oc) n) eqn:E.
        -- apply str_eqb_eq in E. subst n. rewrite Eu in *. rewrite Hrn in I2.
           unfold find_name in I2 at 1. cbn [find] in I2. rewrite str_eqb_refl in I2. exact I2.
        -- destruct (find_name n cs) as [c|] eqn:Ec; [exact I2|].
           unfold find_name in I2 at 1. cbn [find] in I2. rewrite E in I2. exact I2.
      * intros x Hx. destruct (I3 x Hx) as [Hin | [Hin | [c2 [oc2 [H1 [H2 [H3 H4]]]]]]].
        -- apply in_app_or in Hin as [Hin | [<- | []]]; [left; exact Hin | right; left; left; reflexivity].
        -- right. left. right. exact Hin.
        -- apply in_app_or in H1 as [H1 | [<- | []]].
           ++ right. right. exists c2, oc2. split; [exact H1|]. split; [right; exact H2|]. auto.
           ++ exfalso. apply find_name_none in Hrn. apply Hrn. rewrite H3. apply in_map. exact H2.
Qed.

(* ------------------------------------------------------------------ name paths *)

(* the field at a name path (first match at each level) *)
Fixpoint lookup (fs : list field) (p : list str) : option field :=
  match p with
  | [] => None
  | n :: rest =>
      match rest with
      | [] => find_name n fs
      | _ :: _ => match find_name n fs with Some f => lookup (fch f) rest | None => None end
      end
  end.

Definition lookup_a (fs : list field) (p : list str) : option attrs := option_map fa (lookup fs p).
Definition orelse {A} (x y : option A) : option A := match x with Some _ => x | None => y end.

Lemma orelse_none_r {A} (x : option A) : orelse x None = x.
Proof. destruct x; reflexivity. Qed.

Lemma lookup_nil (p : list str) : lookup [] p = None.
Proof. destruct p as [|n [|m q]]; reflexivity. Qed.

Lemma leaf_union (ch : list field) (p : list str) : lookup_a ch p = orelse (lookup_a ch p) (lookup_a [] p).
Proof. unfold lookup_a at 3. rewrite lookup_nil. cbn [option_map]. rewrite orelse_none_r. reflexivity. Qed.

Lemma lookup_cons (fs : list field) (n : str) (rest : list str) :
  rest <> [] -> lookup fs (n :: rest) = match find_name n fs with Some f => lookup (fch f) rest | None => None end.
Proof. destruct rest; [contradiction | reflexivity]. Qed.

(* two trees that may be merged: lists carry the same item name, leaves carry no children *)
Fixpoint agree (f o : field) : bool :=
  match f with
  | Fld a ch =>
      match a_ty a, fty o with
      | LStruct, LStruct =>
          forallb (fun c => match find_name (fname c) (fch o) with Some oc => agree c oc | None => true end) ch
      | LList _, LList _ | LLargeList _, LLargeList _ =>
          match ch, fch o with
          | [c], [oc] => str_eqb (fname c) (fname oc) && agree c oc
          | _, _ => false
          end
      | _, _ => is_nil (fch o)
      end
  end.

Lemma names_unique_f_children (f : field) :
  names_unique_f f = true -> nodup_by str_eqb (map fname (fch f)) = true /\ forall c, In c (fch f) -> names_unique_f c = true.
Proof.
  destruct f as [a ch]. cbn [names_unique_f fch]. intros H. apply andb_true_iff in H as [H1 H2].
  split; [exact H1|]. intros c Hc. eapply forallb_forall in H2; eauto.
Qed.

(* Field::merge is the union by name paths: the result has self's attributes, and below it every
   path of self (with self's field) and every path of other that self lacks (with other's field) *)
Lemma fmerge_union (o : field) : forall f r,
  fmerge o f = Ok r ->
  names_unique_f o = true -> names_unique_f f = true -> agree f o = true ->
  names_unique_f r = true /\
  forall p, p <> [] -> lookup_a (fch r) p = orelse (lookup_a (fch f) p) (lookup_a (fch o) p).
Proof.
  induction o as [ob och IH] using field_ind'. intros f r H Huo Huf Hag.
  rewrite fmerge_unfold in H. destruct (negb (dt_ok f) || negb (dt_ok (Fld ob och))); [discriminate|].
  destruct (names_unique_f_children _ Huo) as [Hno Hco]. destruct (names_unique_f_children _ Huf) as [Hnf Hcf].
  cbn [fch] in Hno, Hco.
  destruct f as [a ch]. cbn [agree] in Hag. unfold fty in *. cbn [fa fch] in *.
  destruct (a_ty a) eqn:Eta, (a_ty ob) eqn:Eto;
    try (destruct (dt_eqb _ _); [|discriminate]; injection H as <-; cbn [fch] in *;
         split; [exact Huf|]; intros p Hp;
         destruct och; [|simpl in Hag; discriminate]; apply leaf_union).
  - (* struct / struct *)
    destruct (merge_children och ch) as [cs| |] eqn:Em; try discriminate. injection H as <-. cbn [fch].
    destruct (merge_children_spec och ch cs Em Hno Hnf) as [Hncs [Hfind Hprov]].
    assert (Hpair : forall c oc, In c ch -> In oc och -> fname c = fname oc ->
              names_unique_f c = true /\ names_unique_f oc = true /\ agree c oc = true).
    { intros c oc Hc Hoc Hn. split; [apply Hcf; exact Hc|]. split; [apply Hco; exact Hoc|].
      eapply forallb_forall in Hag; [|exact Hc]. rewrite Hn in Hag.
      rewrite (nodup_by_find och oc Hno Hoc) in Hag. exact Hag. }
    split.
    + cbn [names_unique_f]. rewrite Hncs. cbn [andb]. apply forallb_forall. intros x Hx.
      destruct (Hprov x Hx) as [Hin | [Hin | [c [oc [Hc [Hoc [Hn Hm]]]]]]]; [apply Hcf; exact Hin | apply Hco; exact Hin|].
      destruct (Hpair c oc Hc Hoc Hn) as [P1 [P2 P3]].
      rewrite Forall_forall in IH. apply (IH oc Hoc c x Hm P2 P1 P3).
    + intros p Hp. destruct p as [|n rest]; [contradiction|]. unfold lookup_a.
      specialize (Hfind n). destruct rest as [|m q].
      * cbn [lookup]. destruct (find_name n ch) as [c|] eqn:Ec, (find_name n och) as [oc|] eqn:Eo.
        -- destruct Hfind as [r1 [Hm Hf]]. rewrite Hf. cbn. rewrite (fmerge_attrs _ _ _ Hm). reflexivity.
        -- rewrite Hfind. reflexivity.
        -- rewrite Hfind. reflexivity.
        -- rewrite Hfind. reflexivity.
      * rewrite !lookup_cons by discriminate.
        destruct (find_name n ch) as [c|] eqn:Ec, (find_name n och) as [oc|] eqn:Eo.
        -- destruct Hfind as [r1 [Hm Hf]]. rewrite Hf.
           destruct (find_name_some _ _ _ Ec) as [Hc Hcn]. destruct (find_name_some _ _ _ Eo) as [Hoc Hocn].
           destruct (Hpair c oc Hc Hoc (eq_trans Hcn (eq_sym Hocn))) as [P1 [P2 P3]].
           rewrite Forall_forall in IH. destruct (IH oc Hoc c r1 Hm P2 P1 P3) as [_ Hpaths].
           apply (Hpaths (m :: q)). discriminate.
        -- rewrite Hfind. cbn [option_map]. rewrite orelse_none_r. reflexivity.
        -- rewrite Hfind. reflexivity.
        -- rewrite Hfind. reflexivity.
  - (* list / list *)
    destruct och as [|oc orest]; [simpl in H; discriminate|]. destruct ch as [|c crest]; [simpl in H; discriminate|].
    destruct crest; [|simpl in Hag; discriminate]. destruct orest; [|simpl in Hag; discriminate].
    apply andb_true_iff in Hag as [Hn Hag]. apply str_eqb_eq in Hn.
    destruct (fmerge oc c) as [r1| |] eqn:Em; try discriminate. injection H as <-. cbn [fch].
    inversion IH as [|? ? IHoc _]; subst.
    destruct (IHoc c r1 Em (Hco oc (or_introl eq_refl)) (Hcf c (or_introl eq_refl)) Hag) as [Hur Hpaths].
    pose proof (fmerge_attrs _ _ _ Em) as Ha.
    split; [cbn [names_unique_f map nodup_by existsb forallb]; rewrite Hur; reflexivity|].
    intros p Hp. destruct p as [|n rest]; [contradiction|]. unfold lookup_a, find_name.
    destruct rest as [|m q].
    + cbn [lookup find_name find]. unfold find_name. cbn [find]. unfold fname at 1. rewrite Ha. fold (fname c). rewrite <- Hn.
      destruct (str_eqb (fname c) n); cbn; [rewrite Ha|]; reflexivity.
    + rewrite !lookup_cons by discriminate. unfold find_name. cbn [find]. unfold fname at 1. rewrite Ha. fold (fname c). rewrite <- Hn.
      destruct (str_eqb (fname c) n); [|reflexivity]. apply (Hpaths (m :: q)). discriminate.
  - (* large_list / large_list *)
    destruct och as [|oc orest]; [simpl in H; discriminate|]. destruct ch as [|c crest]; [simpl in H; discriminate|].
    destruct crest; [|simpl in Hag; discriminate]. destruct orest; [|simpl in Hag; discriminate].
    apply andb_true_iff in Hag as [Hn Hag]. apply str_eqb_eq in Hn.
    destruct (fmerge oc c) as [r1| |] eqn:Em; try discriminate. injection H as <-. cbn [fch].
    inversion IH as [|? ? IHoc _]; subst.
    destruct (IHoc c r1 Em (Hco oc (or_introl eq_refl)) (Hcf c (or_introl eq_refl)) Hag) as [Hur Hpaths].
    pose proof (fmerge_attrs _ _ _ Em) as Ha.
    split; [cbn [names_unique_f map nodup_by existsb forallb]; rewrite Hur; reflexivity|].
    intros p Hp. destruct p as [|n rest]; [contradiction|]. unfold lookup_a, find_name.
    destruct rest as [|m q].
    + cbn [lookup find_name find]. unfold find_name. cbn [find]. unfold fname at 1. rewrite Ha. fold (fname c). rewrite <- Hn.
      destruct (str_eqb (fname c) n); cbn; [rewrite Ha|]; reflexivity.
    + rewrite !lookup_cons by discriminate. unfold find_name. cbn [find]. unfold fname at 1. rewrite Ha. fold (fname c). rewrite <- Hn.
      destruct (str_eqb (fname c) n); [|reflexivity]. apply (Hpaths (m :: q)). discriminate.
  - (* fixed_size_list *)
    match type of H with (if ?c then _ else _) = _ => destruct c end; [|discriminate]. injection H as <-. cbn [fch] in *.
    split; [exact Huf|]. intros p Hp. destruct och; [|simpl in Hag; discriminate]. apply leaf_union.
  - (* fixed_size_binary *)
    match type of H with (if ?c then _ else _) = _ => destruct c end; [|discriminate]. injection H as <-. cbn [fch] in *.
    split; [exact Huf|]. intros p Hp. destruct och; [|simpl in Hag; discriminate]. apply leaf_union.
Qed.
