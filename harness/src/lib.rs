pub mod util;
