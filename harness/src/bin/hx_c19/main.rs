//! hx_c19: exact scalar indices answer filters like a full scan (C19).
//!   unit arm  - the real `apply_scalar_indices` on generated expressions vs the model's translator
//!   e2e arm   - Scanner with use_scalar_index(true) vs (false) over typed tables, BTree / Bitmap / LabelList
//!               indices, histories (append, delete, update, compact+remap, optimize_indices, re-create) and
//!               predicate trees; the same cases are replayed through the model's whole indexed scan
mod ast;
mod e2e;
mod unit;

use hxlib::util::{Args, Rng, Sink};
use lance_index::IndexType;

fn c19(args: &Args) -> i32 {
    let mut sink = Sink::new("C19", &args.out);
    let mut rng = Rng::new(args.seed);
    std::panic::set_hook(Box::new(|_| {}));
    unit::run(args, &mut sink, &mut rng);
    let rt = tokio::runtime::Builder::new_multi_thread().worker_threads(4).enable_all().build().unwrap();
    let kinds = |rng: &mut Rng, _ty: &arrow_schema::DataType| *rng.pick(&[IndexType::BTree, IndexType::Bitmap, IndexType::BTree]);
    let st = rt.block_on(e2e::run(args, &mut sink, &mut rng, &kinds, 3, true));
    sink.add(st.scan);
    sink.add(st.class);
    sink.add(st.translate);
    sink.notes.push("unit: random datafusion expressions x random parser configurations; e2e: random typed tables x index kinds x histories x predicate trees (corpus first: the F1 / bitmap_inverted_range inputs and the repaired range_bounds_swapped input)".into());
    sink.finish();
    0
}

fn main() {
    let (sub, args) = Args::parse();
    let code = match sub.as_str() {
        "c19" => c19(&args),
        _ => {
            eprintln!("unknown subcommand {sub}");
            2
        }
    };
    std::process::exit(code);
}
