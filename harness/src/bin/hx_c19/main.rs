//! hx_c19: exact scalar indices answer filters like a full scan (C19).
mod probe;

fn main() {
    let (sub, args) = hxlib::util::Args::parse();
    let code = match sub.as_str() {
        "probe" => probe::run(&args),
        _ => {
            eprintln!("unknown subcommand {sub}");
            2
        }
    };
    std::process::exit(code);
}
