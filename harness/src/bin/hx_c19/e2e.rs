//! e2e arm: `scan().filter(sql).use_scalar_index(true)` against `(false)` over random typed tables, index
//! kinds, histories and predicate trees.  The oracle needs no model; the classes that excuse a difference
//! are computed on the expression the translator really receives (the optimized filter) and the real rows.
//! The same cases feed three model streams: "scan" (the model's whole indexed scan must return the rows
//! the real indexed scan returned - inside the finding classes too), "class" and "translate".
use crate::ast::*;
use crate::unit;
use arrow_array::cast::AsArray;
use arrow_array::types::*;
use arrow_array::*;
use arrow_schema::{DataType, Field, Schema};
use futures::TryStreamExt;
use hxlib::util::{coq, Args, Rng, Sink, Stream};
use lance::dataset::optimize::{compact_files, CompactionOptions};
use lance::dataset::{UpdateBuilder, WriteMode, WriteParams};
use lance::deps::datafusion::logical_expr::Expr;
use lance::index::DatasetIndexInternalExt;
use lance::Dataset;
use lance_datafusion::planner::Planner;
use lance_index::optimize::OptimizeOptions;
use lance_index::scalar::ScalarIndexParams;
use lance_index::{DatasetIndexExt, IndexType};
use serde_json::{json, Value};
use std::sync::Arc;

#[derive(Clone, Debug)]
pub struct ColSpec {
    pub name: String,
    pub ty: DataType,
    pub nullable: bool,
    pub indices: Vec<(String, IndexType)>,
}

const TYPES: [DataType; 13] = [
    DataType::Int8,
    DataType::Int16,
    DataType::Int32,
    DataType::Int64,
    DataType::UInt8,
    DataType::UInt16,
    DataType::UInt32,
    DataType::UInt64,
    DataType::Float32,
    DataType::Float64,
    DataType::Utf8,
    DataType::Boolean,
    DataType::Date32,
];
const F32S: [f32; 10] = [f32::NAN, f32::NEG_INFINITY, -1.5, -0.0, 0.0, 0.1, 1.5, 2.0, f32::INFINITY, 16777216.0];
const F64S: [f64; 10] = [f64::NAN, f64::NEG_INFINITY, -1.5, -0.0, 0.0, 0.1, 1.5, 2.0, f64::INFINITY, 1e300];
const STRS: [&str; 11] = ["", "a", "ab", "apple", "b", "Ünïcode", "zz", "it's", "pineapple", "apple pie", "app"];
pub const SUBS: [&str; 9] = ["ap", "", "nï", "app", "ppl", "apple pie", "zzz", "le p", "Ün"];
const TAGS: [&str; 4] = ["x", "y", "z", "w"];

/// a value of a column as (position for the model, SQL literal)
#[derive(Clone, Debug)]
pub struct Val {
    pub rank: i128,
    pub sql: String,
    pub raw: Raw,
}
#[derive(Clone, Debug)]
pub enum Raw {
    I(i128),
    F32(f32),
    F64(f64),
    S(String),
    B(bool),
}

fn f_sql(v: f64, is32: bool, text: String) -> String {
    let ty = if is32 { "FLOAT" } else { "DOUBLE" };
    if v.is_nan() {
        format!("CAST('NaN' AS {ty})")
    } else if v == f64::INFINITY {
        format!("CAST('inf' AS {ty})")
    } else if v == f64::NEG_INFINITY {
        format!("CAST('-inf' AS {ty})")
    } else {
        text
    }
}

pub fn pool(ty: &DataType) -> Vec<Val> {
    let ints = |vs: &[i128]| -> Vec<Val> { vs.iter().map(|v| Val { rank: *v, sql: format!("{v}"), raw: Raw::I(*v) }).collect() };
    match ty {
        DataType::Int8 => ints(&[-128, -1, 0, 1, 5, 7, 127]),
        DataType::Int16 => ints(&[-32768, -1, 0, 1, 5, 300, 32767]),
        DataType::Int32 => ints(&[i32::MIN as i128, -3, 0, 1, 5, 7, i32::MAX as i128]),
        DataType::Int64 => ints(&[i64::MIN as i128, -3, 0, 1, 5, 7, i64::MAX as i128]),
        DataType::UInt8 => ints(&[0, 1, 5, 7, 128, 255]),
        DataType::UInt16 => ints(&[0, 1, 5, 300, 65535]),
        DataType::UInt32 => ints(&[0, 1, 5, 70000, u32::MAX as i128]),
        DataType::UInt64 => ints(&[0, 1, 5, 7, (1u64 << 63) as i128, u64::MAX as i128]),
        DataType::Float32 => F32S.iter().map(|v| Val { rank: key32(*v), sql: f_sql(*v as f64, true, format!("{:?}", v)), raw: Raw::F32(*v) }).collect(),
        DataType::Float64 => F64S.iter().map(|v| Val { rank: key64(*v), sql: f_sql(*v, false, format!("{:?}", v)), raw: Raw::F64(*v) }).collect(),
        DataType::Utf8 => STRS.iter().map(|s| Val { rank: str_key(s).unwrap(), sql: format!("'{}'", s.replace('\'', "''")), raw: Raw::S(s.to_string()) }).collect(),
        DataType::Boolean => vec![Val { rank: 0, sql: "false".into(), raw: Raw::B(false) }, Val { rank: 1, sql: "true".into(), raw: Raw::B(true) }],
        DataType::Date32 => [-1i32, 0, 1, 19000, 19001]
            .iter()
            .map(|d| {
                let date = chrono::NaiveDate::from_ymd_opt(1970, 1, 1).unwrap() + chrono::Duration::days(*d as i64);
                Val { rank: *d as i128, sql: format!("CAST('{}' AS DATE)", date.format("%Y-%m-%d")), raw: Raw::I(*d as i128) }
            })
            .collect(),
        _ => vec![],
    }
}

fn build_array(ty: &DataType, vals: &[Option<Val>]) -> ArrayRef {
    macro_rules! ints {
        ($arr:ty, $t:ty) => {
            Arc::new(vals.iter().map(|v| v.as_ref().map(|x| if let Raw::I(i) = x.raw { i as $t } else { 0 as $t })).collect::<$arr>()) as ArrayRef
        };
    }
    match ty {
        DataType::Int8 => ints!(Int8Array, i8),
        DataType::Int16 => ints!(Int16Array, i16),
        DataType::Int32 => ints!(Int32Array, i32),
        DataType::Int64 => ints!(Int64Array, i64),
        DataType::UInt8 => ints!(UInt8Array, u8),
        DataType::UInt16 => ints!(UInt16Array, u16),
        DataType::UInt32 => ints!(UInt32Array, u32),
        DataType::UInt64 => ints!(UInt64Array, u64),
        DataType::Date32 => ints!(Date32Array, i32),
        DataType::Float32 => Arc::new(vals.iter().map(|v| v.as_ref().map(|x| if let Raw::F32(f) = x.raw { f } else { 0.0 })).collect::<Float32Array>()),
        DataType::Float64 => Arc::new(vals.iter().map(|v| v.as_ref().map(|x| if let Raw::F64(f) = x.raw { f } else { 0.0 })).collect::<Float64Array>()),
        DataType::Utf8 => Arc::new(vals.iter().map(|v| v.as_ref().map(|x| if let Raw::S(s) = &x.raw { s.clone() } else { String::new() })).collect::<StringArray>()),
        DataType::Boolean => Arc::new(vals.iter().map(|v| v.as_ref().map(|x| matches!(x.raw, Raw::B(true)))).collect::<BooleanArray>()),
        _ => unreachable!(),
    }
}

/// positions of the values of a column read back from the table
fn ranks_of(arr: &ArrayRef) -> Vec<Option<i128>> {
    let n = arr.len();
    macro_rules! prim {
        ($t:ty, $f:expr) => {{
            let a = arr.as_primitive::<$t>();
            (0..n).map(|i| if a.is_null(i) { None } else { Some($f(a.value(i))) }).collect()
        }};
    }
    match arr.data_type() {
        DataType::Int8 => prim!(Int8Type, |v| v as i128),
        DataType::Int16 => prim!(Int16Type, |v| v as i128),
        DataType::Int32 => prim!(Int32Type, |v| v as i128),
        DataType::Int64 => prim!(Int64Type, |v| v as i128),
        DataType::UInt8 => prim!(UInt8Type, |v| v as i128),
        DataType::UInt16 => prim!(UInt16Type, |v| v as i128),
        DataType::UInt32 => prim!(UInt32Type, |v| v as i128),
        DataType::UInt64 => prim!(UInt64Type, |v| v as i128),
        DataType::Date32 => prim!(Date32Type, |v| v as i128),
        DataType::Float32 => prim!(Float32Type, key32),
        DataType::Float64 => prim!(Float64Type, key64),
        DataType::Utf8 => {
            let a = arr.as_string::<i32>();
            (0..n).map(|i| if a.is_null(i) { None } else { str_key(a.value(i)) }).collect()
        }
        DataType::Boolean => {
            let a = arr.as_boolean();
            (0..n).map(|i| if a.is_null(i) { None } else { Some(a.value(i) as i128) }).collect()
        }
        // lists: only NULL-ness is visible to the model
        _ => (0..n).map(|i| if arr.is_null(i) { None } else { Some(0) }).collect(),
    }
}

/// (index number, column, covered fragments, is a bitmap index)
#[derive(Clone, Debug)]
pub struct Ix {
    pub n: u64,
    pub col: u64,
    pub frags: Vec<u64>,
    pub bitmap: bool,
}
pub fn ixs_coq(ixs: &[Ix]) -> String {
    coq::list(ixs.iter().map(|x| format!("({}, ({}, {}, {}))", x.n, x.col, coq::nlist(x.frags.iter()), coq::b(x.bitmap))))
}
pub const IXS_TY: &str = "list (N * (N * list N * bool))";

pub struct Table {
    pub ds: Dataset,
    pub cols: Vec<ColSpec>,
    pub schema: Arc<Schema>,
    pub next_id: i64,
    pub hist: Vec<String>,
    /// a ZoneMap index was (re)built or updated while a fragment it then covers had deleted rows
    pub zm_tainted: bool,
    _dir: tempfile::TempDir,
}

fn gen_batch(rng: &mut Rng, cols: &[ColSpec], schema: &Arc<Schema>, n: usize, next_id: &mut i64) -> RecordBatch {
    let mut arrays: Vec<ArrayRef> = vec![];
    for c in cols {
        if c.name == "id" {
            let a: Int64Array = (0..n as i64).map(|i| Some(*next_id + i)).collect();
            arrays.push(Arc::new(a));
        } else if let DataType::List(_) = c.ty {
            let mut b = builder::ListBuilder::new(builder::StringBuilder::new());
            for _ in 0..n {
                if c.nullable && rng.chance(1, 6) {
                    b.append(false);
                } else {
                    let k = rng.below(4);
                    for _ in 0..k {
                        b.values().append_value(rng.pick(&TAGS));
                    }
                    b.append(true);
                }
            }
            arrays.push(Arc::new(b.finish()));
        } else {
            let p = pool(&c.ty);
            let vals: Vec<Option<Val>> = (0..n).map(|_| if c.nullable && rng.chance(1, 5) { None } else { Some(rng.pick(&p).clone()) }).collect();
            arrays.push(build_array(&c.ty, &vals));
        }
    }
    *next_id += n as i64;
    RecordBatch::try_new(schema.clone(), arrays).unwrap()
}

fn es<E: std::fmt::Display>(e: E) -> String {
    e.to_string()
}

pub fn panic_text(e: tokio::task::JoinError) -> String {
    if e.is_panic() {
        let p = e.into_panic();
        if let Some(s) = p.downcast_ref::<&str>() {
            s.to_string()
        } else if let Some(s) = p.downcast_ref::<String>() {
            s.clone()
        } else {
            "?".into()
        }
    } else {
        "cancelled".into()
    }
}

async fn ids_inner(ds: &Dataset, filter: &str, use_index: bool) -> Result<Vec<u64>, String> {
    let mut sc = ds.scan();
    sc.filter(filter).map_err(|e| format!("filter: {e}"))?;
    sc.use_scalar_index(use_index);
    sc.project(&["id"]).map_err(es)?;
    let batches: Vec<RecordBatch> = sc.try_into_stream().await.map_err(es)?.try_collect().await.map_err(es)?;
    let mut out = vec![];
    for b in batches {
        let a = b.column_by_name("id").unwrap().as_primitive::<Int64Type>();
        out.extend(a.values().iter().map(|v| *v as u64));
    }
    out.sort();
    Ok(out)
}

impl Table {
    pub async fn create(rng: &mut Rng, kinds: &dyn Fn(&mut Rng, &DataType) -> IndexType, with_tags: bool) -> Result<Table, String> {
        let mut cols = vec![ColSpec { name: "id".into(), ty: DataType::Int64, nullable: false, indices: vec![] }];
        let ncols = rng.range(2, 3) as usize;
        for i in 0..ncols {
            let ty = rng.pick(&TYPES).clone();
            let mut indices = vec![];
            if rng.chance(5, 6) {
                indices.push((format!("c{i}_ix"), kinds(rng, &ty)));
                if rng.chance(1, 8) {
                    indices.push((format!("c{i}_ix2"), kinds(rng, &ty)));
                }
            }
            cols.push(ColSpec { name: format!("c{i}"), ty, nullable: rng.chance(3, 4), indices });
        }
        // a boolean column is always there (the `b = false` form of F1), an unindexed integer too
        cols.push(ColSpec { name: "b".into(), ty: DataType::Boolean, nullable: rng.chance(3, 4), indices: if rng.chance(3, 4) { vec![("b_ix".into(), kinds(rng, &DataType::Boolean))] } else { vec![] } });
        cols.push(ColSpec { name: "z".into(), ty: DataType::Int32, nullable: true, indices: vec![] });
        if with_tags {
            cols.push(ColSpec {
                name: "tags".into(),
                ty: DataType::List(Arc::new(Field::new("item", DataType::Utf8, true))),
                nullable: rng.chance(2, 3),
                indices: vec![("tags_ix".into(), IndexType::LabelList)],
            });
        }
        let schema = Arc::new(Schema::new(cols.iter().map(|c| Field::new(&c.name, c.ty.clone(), c.nullable)).collect::<Vec<_>>()));
        let dir = tempfile::tempdir().map_err(es)?;
        let uri = dir.path().join("t").to_string_lossy().to_string();
        let mut next_id = 0i64;
        let n0 = rng.range(8, 16) as usize;
        let b = gen_batch(rng, &cols, &schema, n0, &mut next_id);
        let per_file = *rng.pick(&[4usize, 6, 100]);
        let ds = Dataset::write(RecordBatchIterator::new(vec![Ok(b)], schema.clone()), &uri, Some(WriteParams { max_rows_per_file: per_file, ..Default::default() })).await.map_err(es)?;
        let mut t = Table { ds, cols, schema, next_id, hist: vec![format!("write {n0} rows, max_rows_per_file={per_file}")], zm_tainted: false, _dir: dir };
        for c in t.cols.clone() {
            for (name, kind) in &c.indices {
                t.ds.create_index(&[c.name.as_str()], *kind, Some(name.clone()), &ScalarIndexParams::default(), true).await.map_err(|e| format!("create_index {name} {kind:?} on {:?}: {e}", c.ty))?;
                t.hist.push(format!("create_index {name} {kind:?} on {} {:?}", c.name, c.ty));
            }
        }
        Ok(t)
    }

    fn taint(&mut self) {
        let has_zm = self.cols.iter().any(|c| c.indices.iter().any(|i| i.1 == IndexType::ZoneMap));
        if has_zm && self.ds.get_fragments().iter().any(|f| f.metadata().deletion_file.is_some()) {
            self.zm_tainted = true;
        }
    }

    pub async fn step(&mut self, rng: &mut Rng) -> Result<(), String> {
        match rng.below(9) {
            0 | 1 => {
                let n = rng.range(2, 6) as usize;
                let b = gen_batch(rng, &self.cols, &self.schema, n, &mut self.next_id);
                self.ds.append(RecordBatchIterator::new(vec![Ok(b)], self.schema.clone()), Some(WriteParams { mode: WriteMode::Append, ..Default::default() })).await.map_err(es)?;
                self.hist.push(format!("append {n} rows (unindexed)"));
            }
            2 | 3 => {
                let p = format!("id % {} = {}", rng.range(3, 5), rng.below(3));
                self.ds.delete(&p).await.map_err(es)?;
                self.hist.push(format!("delete {p}"));
            }
            4 | 5 => {
                // update an indexed column (moves the rows to a new, unindexed fragment)
                let cands: Vec<ColSpec> = self.cols.iter().filter(|c| c.name != "id" && !matches!(c.ty, DataType::List(_))).cloned().collect();
                let c = rng.pick(&cands).clone();
                let p = format!("id % {} = {}", rng.range(3, 5), rng.below(3));
                let v = if c.nullable && rng.chance(1, 4) { "NULL".to_string() } else { rng.pick(&pool(&c.ty)).sql.clone() };
                let res = UpdateBuilder::new(Arc::new(self.ds.clone())).update_where(&p).map_err(es)?.set(&c.name, &v).map_err(es)?.build().map_err(es)?.execute().await.map_err(es)?;
                self.ds = (*res.new_dataset).clone();
                self.hist.push(format!("update {} = {v} where {p}", c.name));
            }
            6 => {
                let opts = CompactionOptions { target_rows_per_fragment: *rng.pick(&[8usize, 1024]), materialize_deletions: true, materialize_deletions_threshold: *rng.pick(&[0.0f32, 0.3]), ..Default::default() };
                let tr = opts.target_rows_per_fragment;
                compact_files(&mut self.ds, opts, None).await.map_err(es)?;
                self.hist.push(format!("compact_files target_rows_per_fragment={tr} (remaps the indices)"));
            }
            7 => {
                let (o, nm) = match rng.below(3) {
                    0 => (OptimizeOptions::append(), "append"),
                    1 => (OptimizeOptions::merge(rng.range(1, 3) as usize), "merge"),
                    _ => (OptimizeOptions::default(), "default"),
                };
                self.taint();
                self.ds.optimize_indices(&o).await.map_err(es)?;
                self.hist.push(format!("optimize_indices {nm}"));
            }
            _ => {
                // re-create one index over the current data
                let cands: Vec<(String, String, IndexType)> = self.cols.iter().flat_map(|c| c.indices.iter().map(|(n, k)| (c.name.clone(), n.clone(), *k)).collect::<Vec<_>>()).collect();
                if !cands.is_empty() {
                    let (c, n, k) = rng.pick(&cands).clone();
                    if k == IndexType::ZoneMap {
                        self.taint();
                    }
                    self.ds.create_index(&[c.as_str()], k, Some(n.clone()), &ScalarIndexParams::default(), true).await.map_err(es)?;
                    self.hist.push(format!("create_index {n} (replace)"));
                }
            }
        }
        Ok(())
    }

    /// (id, fragment, positions by column) of every live row
    pub async fn rows(&self) -> Result<Vec<(u64, u64, Row)>, String> {
        let mut sc = self.ds.scan();
        sc.with_row_address();
        let batches: Vec<RecordBatch> = sc.try_into_stream().await.map_err(es)?.try_collect().await.map_err(es)?;
        let mut out = vec![];
        for b in batches {
            let addr = b.column_by_name("_rowaddr").unwrap().as_primitive::<UInt64Type>().clone();
            let cols: Vec<Vec<Option<i128>>> = self.cols.iter().map(|c| ranks_of(b.column_by_name(&c.name).unwrap())).collect();
            for i in 0..b.num_rows() {
                let row: Row = cols.iter().map(|c| c[i]).collect();
                out.push((row[0].unwrap() as u64, addr.value(i) >> 32, row));
            }
        }
        out.sort_by_key(|r| r.0);
        Ok(out)
    }

    pub async fn ids(&self, filter: &str, use_index: bool) -> Result<Vec<u64>, String> {
        let ds = self.ds.clone();
        let f = filter.to_string();
        // the scan runs in its own task: a panic inside the index search must not take the harness down
        match tokio::spawn(async move { ids_inner(&ds, &f, use_index).await }).await {
            Ok(r) => r,
            Err(e) => Err(format!("PANIC {}", panic_text(e))),
        }
    }

    /// the model's view of the index configuration: Info, and (index number, column, covered fragments)
    pub async fn model_indices(&self) -> Result<(Info, Vec<Ix>, Vec<String>), String> {
        let indices = self.ds.load_indices().await.map_err(es)?;
        let live: Vec<u32> = self.ds.get_fragments().iter().map(|f| f.id() as u32).collect();
        let mut names: Vec<String> = vec![];
        let mut info: Info = vec![];
        let mut ixs = vec![];
        for idx in indices.iter() {
            if idx.fields.len() != 1 {
                continue;
            }
            let Some(bm) = idx.fragment_bitmap.as_ref() else { continue };
            if !bm.iter().any(|f| live.contains(&f)) {
                continue;
            }
            let Some(field) = self.ds.schema().field_by_id(idx.fields[0]) else { continue };
            let Some(ci) = self.cols.iter().position(|c| c.name == field.name) else { continue };
            if names.contains(&idx.name) {
                continue;
            }
            let Some(kind) = self.cols[ci].indices.iter().find(|x| x.0 == idx.name).map(|x| x.1) else { continue };
            let parser = match kind {
                IndexType::BTree | IndexType::Bitmap => Parser::Sargable(false),
                IndexType::LabelList => Parser::LabelList,
                IndexType::ZoneMap => Parser::Sargable(true),
                IndexType::BloomFilter => Parser::Bloom(true),
                IndexType::NGram => Parser::Text(true),
                _ => continue,
            };
            let n = names.len() as u64;
            names.push(idx.name.clone());
            match info.iter_mut().find(|e| e.0 == ci as u64) {
                Some(e) => e.2.push((n, parser)),
                None => info.push((ci as u64, self.cols[ci].ty == DataType::Boolean, vec![(n, parser)])),
            }
            ixs.push(Ix { n, col: ci as u64, frags: bm.iter().map(|f| f as u64).collect(), bitmap: kind == IndexType::Bitmap });
        }
        Ok((info, ixs, names))
    }
}

// ---------------------------------------------------------------- predicates (SQL text)
fn lit_for(rng: &mut Rng, c: &ColSpec) -> String {
    let p = pool(&c.ty);
    let v = rng.pick(&p);
    // literals of other numeric types for integer columns
    if let Raw::I(i) = v.raw {
        if c.ty != DataType::Date32 && rng.chance(1, 6) {
            let t = if (-128..=127).contains(&i) { *rng.pick(&["TINYINT", "SMALLINT", "INT", "BIGINT"]) } else if i >= 0 && i <= u32::MAX as i128 { *rng.pick(&["BIGINT", "INT UNSIGNED", "BIGINT UNSIGNED"]) } else { return v.sql.clone() };
            return format!("CAST({} AS {t})", v.sql);
        }
    }
    v.sql.clone()
}

fn leaf(rng: &mut Rng, cols: &[ColSpec]) -> String {
    let data: Vec<&ColSpec> = cols.iter().filter(|c| c.name != "id" && !matches!(c.ty, DataType::List(_))).collect();
    let c = *rng.pick(&data);
    let n = &c.name;
    if c.ty == DataType::Boolean && rng.chance(2, 3) {
        return match rng.below(9) {
            0 => n.clone(),
            1 => format!("{n} IS TRUE"),
            2 => format!("{n} IS FALSE"),
            3 => format!("{n} IS NOT TRUE"),
            4 => format!("{n} = false"),
            5 => format!("{n} = true"),
            6 => format!("{n} <> true"),
            7 => format!("{n} IS NOT FALSE"),
            _ => format!("NOT {n}"),
        };
    }
    if let Some(t) = cols.iter().find(|c| matches!(c.ty, DataType::List(_))) {
        if rng.chance(1, 8) {
            let k = rng.range(1, 2);
            let labels: Vec<String> = (0..k).map(|_| format!("'{}'", rng.pick(&TAGS))).collect();
            return format!("{}({}, [{}])", rng.pick(&["array_has_any", "array_has_all"]), t.name, labels.join(", "));
        }
    }
    if c.ty == DataType::Utf8 && rng.chance(1, 3) {
        return format!("contains({n}, '{}')", rng.pick(&SUBS));
    }
    let ops = ["=", "<>", "!=", "<", "<=", ">", ">="];
    match rng.below(16) {
        0..=5 => format!("{n} {} {}", rng.pick(&ops), lit_for(rng, c)),
        6 | 7 => {
            // the pairs maybe_range fuses, in both orders
            let (o1, o2) = *rng.pick(&[(">=", "<="), (">=", "<"), (">", "<="), (">", "<"), ("<=", ">="), ("<=", ">"), ("<", ">="), ("<", ">")]);
            format!("{n} {o1} {} AND {n} {o2} {}", lit_for(rng, c), lit_for(rng, c))
        }
        8 => format!("{n} BETWEEN {} AND {}", lit_for(rng, c), lit_for(rng, c)),
        9 => format!("{n} NOT BETWEEN {} AND {}", lit_for(rng, c), lit_for(rng, c)),
        10 => format!("{n} IN ({})", (0..rng.range(1, 4)).map(|_| lit_for(rng, c)).collect::<Vec<_>>().join(", ")),
        11 => format!("{n} NOT IN ({})", (0..rng.range(1, 4)).map(|_| lit_for(rng, c)).collect::<Vec<_>>().join(", ")),
        12 => format!("{n} IS NULL"),
        13 => format!("{n} IS NOT NULL"),
        14 => format!("id % 3 = {}", rng.below(3)),
        _ => format!("z {} {}", rng.pick(&ops), rng.pick(&["-3", "0", "1", "5"])),
    }
}

pub fn gen_pred(rng: &mut Rng, cols: &[ColSpec], depth: u32) -> String {
    if depth == 0 || rng.chance(1, 3) {
        return leaf(rng, cols);
    }
    match rng.below(8) {
        0 | 1 => format!("NOT ({})", gen_pred(rng, cols, depth - 1)),
        2..=4 => format!("({}) AND ({})", gen_pred(rng, cols, depth - 1), gen_pred(rng, cols, depth - 1)),
        _ => format!("({}) OR ({})", gen_pred(rng, cols, depth - 1), gen_pred(rng, cols, depth - 1)),
    }
}

/// string literals of contains(col, 'lit') calls in an expression
pub fn contains_literals(e: &Expr) -> Vec<String> {
    use lance::deps::datafusion::common::tree_node::{TreeNode, TreeNodeRecursion};
    use lance::deps::datafusion::scalar::ScalarValue;
    let mut out = vec![];
    let _ = e.apply(|x| {
        if let Expr::ScalarFunction(f) = x {
            if f.name() == "contains" && f.args.len() == 2 {
                if let Expr::Literal(ScalarValue::Utf8(Some(s)) | ScalarValue::LargeUtf8(Some(s)), _) = &f.args[1] {
                    out.push(s.clone());
                }
            }
        }
        Ok(TreeNodeRecursion::Continue)
    });
    out
}
/// the class Known_C20_ngram_no_trigram_query: >= 3 bytes, but no three consecutive ASCII letters / digits after
/// lower-casing and ASCII folding (folding of the non-ASCII characters of this harness' pools only)
pub fn no_trigram_query(s: &str) -> bool {
    if s.len() < 3 {
        return false;
    }
    let folded: Vec<char> = s.chars().flat_map(|c| match c { 'Ü' | 'ü' => vec!['u'], 'ï' | 'Ï' => vec!['i'], c => c.to_lowercase().collect::<Vec<_>>() }).collect();
    !folded.windows(3).any(|w| w.iter().all(|c| c.is_ascii_alphanumeric()))
}
fn has_leaf_of(q: &SIdx, pred: &dyn Fn(u64) -> bool) -> bool {
    match q {
        SIdx::Not(x) => has_leaf_of(x, pred),
        SIdx::And(a, b) | SIdx::Or(a, b) => has_leaf_of(a, pred) || has_leaf_of(b, pred),
        SIdx::Query { idx, .. } => pred(*idx),
    }
}
fn has_text_leaf(q: &SIdx) -> bool {
    match q {
        SIdx::Not(x) => has_text_leaf(x),
        SIdx::And(a, b) | SIdx::Or(a, b) => has_text_leaf(a) || has_text_leaf(b),
        SIdx::Query { q: Query::Fn(Fk::Contains, _), .. } => true,
        _ => false,
    }
}

pub struct Streams {
    pub scan: Stream,
    pub class: Stream,
    pub translate: Stream,
}
impl Streams {
    pub fn new() -> Self {
        let mut scan = Stream::new("scan", unit::REQ, "chk_scan", &format!("{} * {} * list (N * N * list (option Z)) * sexpr", INFO_TY, IXS_TY), "outcome (list N)");
        scan.shard = 40;
        let mut class = Stream::new("class", unit::REQ, "chk_class", &format!("{} * {} * list (N * N * list (option Z)) * sexpr", INFO_TY, IXS_TY), "bool * bool");
        class.shard = 80;
        let mut translate = Stream::new("translate_e2e", unit::REQ, "chk_translate", &format!("{} * sexpr", INFO_TY), "outcome (option sidx * option sexpr)");
        translate.shard = 100;
        Streams { scan, class, translate }
    }
}

/// One predicate on one table state: oracle + model streams.  `fixed` marks corpus cases.
pub async fn check_pred(t: &Table, sql: &str, rows: &[(u64, u64, Row)], info: &Info, ixs: &[Ix], names: &[String], st: &mut Streams, sink: &mut Sink, tag: &str) {
    let with = t.ids(sql, true).await;
    let without = t.ids(sql, false).await;
    let case = |extra: Value| -> Value {
        json!({"arm": tag, "filter": sql, "history": t.hist, "columns": t.cols.iter().map(|c| format!("{} {:?}{} {:?}", c.name, c.ty, if c.nullable { " null" } else { "" }, c.indices)).collect::<Vec<_>>(), "extra": extra})
    };
    // what the translator really receives
    let planner = Planner::new(t.schema.clone());
    let optimized: Option<Expr> = planner.parse_filter(sql).ok().and_then(|e| planner.optimize_expr(e).ok()).and_then(|e| planner.optimize_expr(e).ok());
    let mut ctx = Ctx::new(t.cols.iter().map(|c| (c.name.clone(), c.ty.clone())).collect());
    let ast = optimized.as_ref().map(|e| expr_to_ast(e, &mut ctx));
    let model_rows: Vec<Row> = rows.iter().map(|r| r.2.clone()).collect();
    let k1 = match &ast {
        Some(a) => known_not_over_nullable(info, &model_rows, a),
        None => false,
    };
    // the real translation (with the table's real index information): class 3 looks at its leaves
    let real_info = t.ds.scalar_index_info().await.ok();
    let nm = |n: &str| names.iter().position(|x| x == n).map(|i| i as u64).unwrap_or(9999);
    let real_sq: Option<SIdx> = match (&optimized, &real_info) {
        (Some(e), Some(ri)) => lance_index::scalar::expression::apply_scalar_indices(e.clone(), ri).ok().and_then(|ie| ie.scalar_query.map(|q| sidx_of(&q, &mut ctx, &nm))),
        _ => None,
    };
    let k4 = real_sq.as_ref().map(|q| has_text_leaf(q)).unwrap_or(false) && optimized.as_ref().map(|e| contains_literals(e).iter().any(|x| no_trigram_query(x))).unwrap_or(false);
    let is_zm = |i: u64| names.get(i as usize).map(|n| t.cols.iter().any(|c| c.indices.iter().any(|x| &x.0 == n && x.1 == IndexType::ZoneMap))).unwrap_or(false);
    let k5 = t.zm_tainted && real_sq.as_ref().map(|q| has_leaf_of(q, &is_zm)).unwrap_or(false);
    let k3 = real_sq.as_ref().map(|q| has_bitmap_inverted(q, &|i| ixs.iter().any(|x| x.n == i && x.bitmap))).unwrap_or(false);
    match (&with, &without) {
        (Ok(a), Ok(b)) => {
            if a == b {
                sink.oracle_ok();
                sink.count(if k1 || k3 { "e2e:equal-though-in-class" } else { "e2e:equal" });
            } else {
                let class = if k5 { Some("zonemap_rows_not_contiguous") } else if k4 { Some("ngram_no_trigram_query") } else if k1 { Some("not_over_nullable") } else { None };
                sink.count(match class {
                    Some("not_over_nullable") => "e2e:DIFF-class-not_over_nullable",
                    Some("ngram_no_trigram_query") => "e2e:DIFF-class-ngram_no_trigram_query",
                    Some("zonemap_rows_not_contiguous") => "e2e:DIFF-class-zonemap_rows_not_contiguous",
                    Some(_) => "e2e:DIFF-class-other",
                    None => "e2e:DIFF-unlisted",
                });
                let only_i: Vec<u64> = a.iter().filter(|x| !b.contains(x)).cloned().collect();
                let only_s: Vec<u64> = b.iter().filter(|x| !a.contains(x)).cloned().collect();
                sink.oracle_fail(class, "scan with use_scalar_index(true) returns other rows than with (false)", case(json!({"only_with_index": only_i, "only_without_index": only_s, "optimized": optimized.as_ref().map(|e| e.to_string())})));
            }
        }
        (Err(a), Ok(_)) if a.starts_with("PANIC") && k3 => {
            sink.count("e2e:DIFF-class-bitmap_inverted_range");
            sink.oracle_fail(Some("bitmap_inverted_range"), "the indexed scan panics, the plain scan answers", case(json!({"with_index": a.chars().take(200).collect::<String>(), "optimized": optimized.as_ref().map(|e| e.to_string())})));
        }
        (Err(a), Err(b)) if a.starts_with("PANIC") == b.starts_with("PANIC") => {
            sink.oracle_ok();
            sink.count("e2e:both-err");
            sink.notes.push(format!("both paths refuse `{}`: {}", sql.chars().take(60).collect::<String>(), a.chars().take(100).collect::<String>()));
            return;
        }
        (a, b) => {
            sink.count("e2e:DIFF-one-side-err");
            sink.oracle_fail(None, "one of the two scans fails, the other does not", case(json!({"with_index": format!("{a:?}").chars().take(300).collect::<String>(), "without_index": format!("{b:?}").chars().take(300).collect::<String>()})));
            return;
        }
    }
    let (Some(ast), Some(optimized)) = (ast, optimized) else { return };
    sink.nontrivial(&format!("{}|{}", sql, t.hist.len()));
    // class stream: the Rust mirror of the class predicates against the Coq definitions
    let rows_c = rows_coq(rows);
    let ixs_c = ixs_coq(ixs);
    st.class.push(format!("({}, {}, {}, {})", info_coq(info), ixs_c, rows_c, ast.coq()), format!("({}, {})", coq::b(k1), coq::b(k3)), case(json!({"known": [k1, k3]})));
    // translate stream: the real translator with the table's real index information
    if let Some(real_info) = &real_info {
        let cols: Vec<(String, DataType)> = t.cols.iter().map(|c| (c.name.clone(), c.ty.clone())).collect();
        unit::push_case(&mut st.translate, sink, &cols, info, real_info, &nm, &optimized, tag);
    }
    // scan stream: the model's indexed scan, in-class cases included
    // (zonemap_rows_not_contiguous: the model's indices are truthful by construction, the real zone map is not)
    if ast.is_plain() && ast.depth() < 40 && !k5 {
        let out = match &with {
            Ok(a) => Some(format!("(Ok {})", coq::nlist(a.iter()))),
            Err(e) if e.starts_with("PANIC") => Some("Panic".to_string()),
            Err(_) => None,
        };
        if let Some(out) = out {
            st.scan.push(format!("({}, {}, {}, {})", info_coq(info), ixs_c, rows_c, ast.coq()), out, case(json!({"rows_with_index": format!("{with:?}").chars().take(300).collect::<String>(), "known": [k1, k3]})));
            sink.count(if k1 || k3 { "scan:in-class" } else { "scan:outside" });
        }
    }
}

/// fixed corpus: the inputs of findings F1, bitmap_inverted_range and of the repaired range_bounds_swapped (always run first)
pub async fn corpus(st: &mut Streams, sink: &mut Sink) -> Result<(), String> {
    let cols = vec![
        ColSpec { name: "id".into(), ty: DataType::Int64, nullable: false, indices: vec![] },
        ColSpec { name: "x".into(), ty: DataType::Int32, nullable: true, indices: vec![("x_ix".into(), IndexType::BTree)] },
        ColSpec { name: "b".into(), ty: DataType::Boolean, nullable: true, indices: vec![("b_ix".into(), IndexType::Bitmap)] },
        ColSpec { name: "y".into(), ty: DataType::Int32, nullable: true, indices: vec![("y_ix".into(), IndexType::Bitmap)] },
    ];
    let schema = Arc::new(Schema::new(cols.iter().map(|c| Field::new(&c.name, c.ty.clone(), c.nullable)).collect::<Vec<_>>()));
    let batch = RecordBatch::try_new(
        schema.clone(),
        vec![
            Arc::new(Int64Array::from(vec![0, 1, 2, 3, 4, 5])),
            Arc::new(Int32Array::from(vec![Some(1), Some(5), None, Some(7), None, Some(5)])),
            Arc::new(BooleanArray::from(vec![Some(true), Some(false), None, Some(true), None, Some(false)])),
            Arc::new(Int32Array::from(vec![Some(1), Some(5), None, Some(7), None, Some(5)])),
        ],
    )
    .unwrap();
    let dir = tempfile::tempdir().map_err(es)?;
    let uri = dir.path().join("t").to_string_lossy().to_string();
    let ds = Dataset::write(RecordBatchIterator::new(vec![Ok(batch)], schema.clone()), &uri, None).await.map_err(es)?;
    let mut t = Table { ds, cols, schema, next_id: 6, hist: vec!["corpus: x = [1,5,NULL,7,NULL,5], b = [t,f,NULL,t,NULL,f]".into()], zm_tainted: false, _dir: dir };
    t.ds.create_index(&["x"], IndexType::BTree, Some("x_ix".into()), &ScalarIndexParams::default(), true).await.map_err(es)?;
    t.ds.create_index(&["b"], IndexType::Bitmap, Some("b_ix".into()), &ScalarIndexParams::default(), true).await.map_err(es)?;
    t.ds.create_index(&["y"], IndexType::Bitmap, Some("y_ix".into()), &ScalarIndexParams::default(), true).await.map_err(es)?;
    let rows = t.rows().await?;
    let (info, ixs, names) = t.model_indices().await?;
    for p in [
        "x != 5", "NOT (x = 5)", "x NOT IN (5)", "NOT (x = 5 OR x = 1)", "x = 5 OR NOT (x = 5)", "b = false", "NOT b", "b <> true", "x IS NOT NULL", "NOT (b IS TRUE)",
        "x <= 5 AND x > 1", "x < 5 AND x >= 1", "x > 1 AND x <= 5", "x >= 1 AND x < 5", "x < 5 AND x > 1", "x <= 5 AND x >= 1", "x NOT BETWEEN 2 AND 6", "x BETWEEN 1 AND 5",
        "x >= 7 AND x <= 1", "x BETWEEN 7 AND 1", "x > 5 AND x < 5", "y >= 7 AND y <= 1", "y BETWEEN 7 AND 1", "y > 5 AND y < 5", "y >= 5 AND y < 5", "y != 5", "y <= 5 AND y > 1",
    ] {
        check_pred(&t, p, &rows, &info, &ixs, &names, st, sink, "corpus").await;
    }
    Ok(())
}

pub async fn run(args: &Args, sink: &mut Sink, rng: &mut Rng, kinds: &dyn Fn(&mut Rng, &DataType) -> IndexType, with_tags_every: u64, with_corpus: bool) -> Streams {
    let mut st = Streams::new();
    if with_corpus {
        if let Err(e) = corpus(&mut st, sink).await {
            sink.oracle_fail(None, "corpus table could not be built", json!({"error": e}));
        }
    }
    let ntables = args.vol(8, 150);
    let npreds = args.vol(22, 40);
    for ti in 0..ntables {
        let with_tags = with_tags_every > 0 && (ti as u64) % with_tags_every == 0;
        let mut t = match Table::create(rng, kinds, with_tags).await {
            Ok(t) => t,
            Err(e) => {
                sink.count("e2e:table-create-refused");
                sink.notes.push(format!("table refused: {}", e.chars().take(160).collect::<String>()));
                continue;
            }
        };
        let nsteps = rng.below(5);
        let mid = rng.below(nsteps + 1);
        for s in 0..=nsteps {
            if s > 0 {
                if let Err(e) = t.step(rng).await {
                    sink.oracle_fail(None, "a history step failed", json!({"history": t.hist, "error": e.chars().take(300).collect::<String>()}));
                    break;
                }
                sink.count(&format!("hist:{}", t.hist.last().unwrap().split(' ').next().unwrap()));
            }
            if s != nsteps && s != mid {
                continue;
            }
            let rows = match t.rows().await {
                Ok(r) => r,
                Err(e) => {
                    sink.oracle_fail(None, "full scan failed", json!({"history": t.hist, "error": e}));
                    break;
                }
            };
            let Ok((info, ixs, names)) = t.model_indices().await else { continue };
            let k = if s == nsteps { npreds } else { npreds / 3 };
            for _ in 0..k {
                let dp = rng.below(3) as u32;
                let p = gen_pred(rng, &t.cols, dp);
                check_pred(&t, &p, &rows, &info, &ixs, &names, &mut st, sink, "e2e").await;
            }
        }
        for c in &t.cols {
            for (_, k) in &c.indices {
                sink.count(&format!("index:{:?}:{:?}", k, c.ty).chars().take(40).collect::<String>());
            }
        }
    }
    st
}
