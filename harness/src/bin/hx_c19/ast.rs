//! The model's AST (Index/Model_ScalarExpr.v) on the Rust side: conversion from datafusion `Expr` and from
//! `ScalarIndexExpr`, Coq printers, the finding-class predicates (re-implemented; tied to the Coq
//! definitions by the "class" stream) and the value -> position maps.
#![allow(dead_code)]
use arrow_schema::DataType;
use hxlib::util::coq;
use lance::deps::datafusion::logical_expr::{Expr, Operator};
use lance::deps::datafusion::scalar::ScalarValue;
use lance_index::scalar::expression::ScalarIndexExpr;
use lance_index::scalar::{BloomFilterQuery, LabelListQuery, SargableQuery, TextQuery};
use arrow_array::Array;
use std::ops::Bound;

#[derive(Clone, Debug, PartialEq)]
pub enum Lit {
    Null,
    Val(i128),
}
#[derive(Clone, Debug, PartialEq)]
pub enum Term {
    Col(u64),
    Lit(Lit),
    Other(u64),
}
#[derive(Clone, Copy, Debug, PartialEq)]
pub enum Op {
    Eq,
    NotEq,
    Lt,
    LtEq,
    Gt,
    GtEq,
}
#[derive(Clone, Copy, Debug, PartialEq)]
pub enum Fk {
    Contains,
    HasAll,
    HasAny,
    OtherFn,
}
#[derive(Clone, Debug, PartialEq)]
pub enum SExpr {
    Col(u64),
    Cmp(Op, Term, Term),
    Between(bool, Term, Term, Term),
    InList(bool, Term, Vec<Term>),
    IsNull(Term),
    IsNotNull(Term),
    IsTrue(Box<SExpr>),
    IsFalse(Box<SExpr>),
    Not(Box<SExpr>),
    And(Box<SExpr>, Box<SExpr>),
    Or(Box<SExpr>, Box<SExpr>),
    Fn(Fk, Term, Term),
    Other(u64),
}
#[derive(Clone, Debug, PartialEq)]
pub enum Bnd {
    Incl(Lit),
    Excl(Lit),
    Unb,
}
#[derive(Clone, Debug, PartialEq)]
pub enum Query {
    Range(Bnd, Bnd),
    IsIn(Vec<Lit>),
    Equals(Lit),
    IsNull,
    Fn(Fk, Lit),
}
#[derive(Clone, Debug, PartialEq)]
pub enum SIdx {
    Not(Box<SIdx>),
    And(Box<SIdx>, Box<SIdx>),
    Or(Box<SIdx>, Box<SIdx>),
    Query { col: u64, idx: u64, q: Query, recheck: bool },
}
#[derive(Clone, Copy, Debug, PartialEq)]
pub enum Parser {
    Sargable(bool),
    Bloom(bool),
    LabelList,
    Text(bool),
}
/// (column, is_boolean, parsers in MultiQueryParser order with their index number)
pub type Info = Vec<(u64, bool, Vec<(u64, Parser)>)>;

// ---------------------------------------------------------------- Coq printers
impl Lit {
    pub fn coq(&self) -> String {
        match self {
            Lit::Null => "LNull".into(),
            Lit::Val(v) => format!("(LVal {})", coq::z(*v)),
        }
    }
}
impl Term {
    pub fn coq(&self) -> String {
        match self {
            Term::Col(c) => format!("(TCol {c})"),
            Term::Lit(l) => format!("(TLit {})", l.coq()),
            Term::Other(k) => format!("(TOther {k})"),
        }
    }
}
impl Op {
    pub fn coq(&self) -> &'static str {
        match self {
            Op::Eq => "OEq",
            Op::NotEq => "ONotEq",
            Op::Lt => "OLt",
            Op::LtEq => "OLtEq",
            Op::Gt => "OGt",
            Op::GtEq => "OGtEq",
        }
    }
    pub fn holds(&self, x: i128, y: i128) -> bool {
        match self {
            Op::Eq => x == y,
            Op::NotEq => x != y,
            Op::Lt => x < y,
            Op::LtEq => x <= y,
            Op::Gt => x > y,
            Op::GtEq => x >= y,
        }
    }
}
impl Fk {
    pub fn coq(&self) -> &'static str {
        match self {
            Fk::Contains => "FContains",
            Fk::HasAll => "FHasAll",
            Fk::HasAny => "FHasAny",
            Fk::OtherFn => "FOtherFn",
        }
    }
}
impl SExpr {
    pub fn coq(&self) -> String {
        match self {
            SExpr::Col(c) => format!("(XCol {c})"),
            SExpr::Cmp(op, l, r) => format!("(XCmp {} {} {})", op.coq(), l.coq(), r.coq()),
            SExpr::Between(n, e, lo, hi) => format!("(XBetween {} {} {} {})", coq::b(*n), e.coq(), lo.coq(), hi.coq()),
            SExpr::InList(n, e, items) => format!("(XInList {} {} {})", coq::b(*n), e.coq(), coq::list(items.iter().map(|t| t.coq()))),
            SExpr::IsNull(t) => format!("(XIsNull {})", t.coq()),
            SExpr::IsNotNull(t) => format!("(XIsNotNull {})", t.coq()),
            SExpr::IsTrue(x) => format!("(XIsTrue {})", x.coq()),
            SExpr::IsFalse(x) => format!("(XIsFalse {})", x.coq()),
            SExpr::Not(x) => format!("(XNot {})", x.coq()),
            SExpr::And(a, b) => format!("(XAnd {} {})", a.coq(), b.coq()),
            SExpr::Or(a, b) => format!("(XOr {} {})", a.coq(), b.coq()),
            SExpr::Fn(f, e, a) => format!("(XFn {} {} {})", f.coq(), e.coq(), a.coq()),
            SExpr::Other(k) => format!("(XOther {k})"),
        }
    }
    /// no opaque sub-expression: the model can evaluate it with `plain_env`
    pub fn is_plain(&self) -> bool {
        fn t(x: &Term) -> bool {
            !matches!(x, Term::Other(_))
        }
        match self {
            SExpr::Col(_) => true,
            SExpr::Cmp(_, l, r) => t(l) && t(r),
            SExpr::Between(_, e, lo, hi) => t(e) && t(lo) && t(hi),
            SExpr::InList(_, e, items) => t(e) && items.iter().all(t),
            SExpr::IsNull(x) | SExpr::IsNotNull(x) => t(x),
            SExpr::IsTrue(x) | SExpr::IsFalse(x) | SExpr::Not(x) => x.is_plain(),
            SExpr::And(a, b) | SExpr::Or(a, b) => a.is_plain() && b.is_plain(),
            SExpr::Fn(..) | SExpr::Other(_) => false,
        }
    }
    pub fn depth(&self) -> u64 {
        match self {
            SExpr::Not(x) => 1 + x.depth(),
            SExpr::And(a, b) | SExpr::Or(a, b) => 1 + a.depth().max(b.depth()),
            _ => 0,
        }
    }
}
impl Bnd {
    pub fn coq(&self) -> String {
        match self {
            Bnd::Incl(l) => format!("(BIncl {})", l.coq()),
            Bnd::Excl(l) => format!("(BExcl {})", l.coq()),
            Bnd::Unb => "BUnb".into(),
        }
    }
}
impl Query {
    pub fn coq(&self) -> String {
        match self {
            Query::Range(lo, hi) => format!("(QRange {} {})", lo.coq(), hi.coq()),
            Query::IsIn(vs) => format!("(QIsIn {})", coq::list(vs.iter().map(|l| l.coq()))),
            Query::Equals(v) => format!("(QEquals {})", v.coq()),
            Query::IsNull => "QIsNull".into(),
            Query::Fn(f, a) => format!("(QFn {} {})", f.coq(), a.coq()),
        }
    }
}
impl SIdx {
    pub fn coq(&self) -> String {
        match self {
            SIdx::Not(x) => format!("(SNot {})", x.coq()),
            SIdx::And(a, b) => format!("(SAnd {} {})", a.coq(), b.coq()),
            SIdx::Or(a, b) => format!("(SOr {} {})", a.coq(), b.coq()),
            SIdx::Query { col, idx, q, recheck } => format!("(SQuery (mk_leaf {col} {idx} {} {}))", q.coq(), coq::b(*recheck)),
        }
    }
}
impl Parser {
    pub fn coq(&self) -> String {
        match self {
            Parser::Sargable(rc) => format!("(PSargable {})", coq::b(*rc)),
            Parser::Bloom(rc) => format!("(PBloom {})", coq::b(*rc)),
            Parser::LabelList => "PLabelList".into(),
            Parser::Text(rc) => format!("(PText {})", coq::b(*rc)),
        }
    }
}
pub fn info_coq(info: &Info) -> String {
    coq::list(info.iter().map(|(c, b, ps)| format!("({c}, ({}, {}))", coq::b(*b), coq::list(ps.iter().map(|(i, p)| format!("({i}, {})", p.coq()))))))
}
pub const INFO_TY: &str = "list (N * (bool * list (N * parser)))";

// ---------------------------------------------------------------- values -> positions in the column's order
/// f32 / f64 under the IEEE total order (arrow's comparison kernels, OrderableScalarValue)
pub fn key32(f: f32) -> i128 {
    let b = f.to_bits() as i32;
    (b ^ ((((b >> 31) as u32) >> 1) as i32)) as i128
}
pub fn key64(f: f64) -> i128 {
    let b = f.to_bits() as i64;
    (b ^ ((((b >> 63) as u64) >> 1) as i64)) as i128
}
/// strings of at most 12 bytes, bytewise order: digits b+1 in base 257, padded with 0
pub const STR_MAX: usize = 12;
pub fn str_key(s: &str) -> Option<i128> {
    let b = s.as_bytes();
    if b.len() > STR_MAX {
        return None;
    }
    let mut k: i128 = 0;
    for i in 0..STR_MAX {
        k = k * 257 + if i < b.len() { b[i] as i128 + 1 } else { 0 };
    }
    Some(k)
}

fn int_of(sv: &ScalarValue) -> Option<Option<i128>> {
    Some(match sv {
        ScalarValue::Int8(v) => v.map(|x| x as i128),
        ScalarValue::Int16(v) => v.map(|x| x as i128),
        ScalarValue::Int32(v) => v.map(|x| x as i128),
        ScalarValue::Int64(v) => v.map(|x| x as i128),
        ScalarValue::UInt8(v) => v.map(|x| x as i128),
        ScalarValue::UInt16(v) => v.map(|x| x as i128),
        ScalarValue::UInt32(v) => v.map(|x| x as i128),
        ScalarValue::UInt64(v) => v.map(|x| x as i128),
        _ => return None,
    })
}
fn int_range(ty: &DataType) -> Option<(i128, i128)> {
    Some(match ty {
        DataType::Int8 => (i8::MIN as i128, i8::MAX as i128),
        DataType::Int16 => (i16::MIN as i128, i16::MAX as i128),
        DataType::Int32 => (i32::MIN as i128, i32::MAX as i128),
        DataType::Int64 => (i64::MIN as i128, i64::MAX as i128),
        DataType::UInt8 => (0, u8::MAX as i128),
        DataType::UInt16 => (0, u16::MAX as i128),
        DataType::UInt32 => (0, u32::MAX as i128),
        DataType::UInt64 => (0, u64::MAX as i128),
        _ => return None,
    })
}

/// The harness' own statement of lance_datafusion::expr::safe_coerce_scalar followed by the position of the
/// coerced value: None = the literal cannot be used for a column of type `ty`.
pub fn coerce_rank(sv: &ScalarValue, ty: &DataType) -> Option<Lit> {
    if matches!(sv, ScalarValue::Null) {
        return Some(Lit::Null);
    }
    if let Some(iv) = int_of(sv) {
        let same = &sv.data_type() == ty;
        return match iv {
            None => {
                if same {
                    Some(Lit::Null)
                } else {
                    None
                }
            }
            Some(v) => {
                if let Some((lo, hi)) = int_range(ty) {
                    if lo <= v && v <= hi {
                        Some(Lit::Val(v))
                    } else {
                        None
                    }
                } else {
                    match ty {
                        DataType::Float32 => Some(Lit::Val(key32(v as f32))),
                        DataType::Float64 => Some(Lit::Val(key64(v as f64))),
                        _ => None,
                    }
                }
            }
        };
    }
    match (sv, ty) {
        (ScalarValue::Float32(v), DataType::Float32) => Some(v.map(|x| Lit::Val(key32(x))).unwrap_or(Lit::Null)),
        (ScalarValue::Float32(v), DataType::Float64) => v.map(|x| Lit::Val(key64(x as f64))),
        (ScalarValue::Float64(v), DataType::Float32) => v.map(|x| Lit::Val(key32(x as f32))),
        (ScalarValue::Float64(v), DataType::Float64) => Some(v.map(|x| Lit::Val(key64(x))).unwrap_or(Lit::Null)),
        (ScalarValue::Utf8(v) | ScalarValue::LargeUtf8(v), DataType::Utf8 | DataType::LargeUtf8) => match v {
            None => Some(Lit::Null),
            Some(s) => str_key(s).map(Lit::Val),
        },
        (ScalarValue::Boolean(v), DataType::Boolean) => Some(v.map(|x| Lit::Val(x as i128)).unwrap_or(Lit::Null)),
        (ScalarValue::Date32(v), DataType::Date32) => Some(v.map(|x| Lit::Val(x as i128)).unwrap_or(Lit::Null)),
        (ScalarValue::Date64(v), DataType::Date32) => Some(v.map(|x| Lit::Val((x / 86_400_000) as i32 as i128)).unwrap_or(Lit::Null)),
        _ => None,
    }
}

/// position of a scalar that already has the column's type (index queries, column values)
pub fn rank_of(sv: &ScalarValue) -> Option<Lit> {
    coerce_rank(sv, &sv.data_type())
}

// ---------------------------------------------------------------- Expr -> AST
pub struct Ctx {
    pub cols: Vec<(String, DataType)>,
    pub others: Vec<String>,
}
impl Ctx {
    pub fn new(cols: Vec<(String, DataType)>) -> Self {
        Ctx { cols, others: vec![] }
    }
    pub fn col(&self, name: &str) -> Option<(u64, &DataType)> {
        self.cols.iter().position(|c| c.0 == name).map(|i| (i as u64, &self.cols[i].1))
    }
    pub fn other(&mut self, e: &Expr) -> u64 {
        let s = format!("{e}");
        if let Some(i) = self.others.iter().position(|x| *x == s) {
            i as u64
        } else {
            self.others.push(s);
            (self.others.len() - 1) as u64
        }
    }
    fn lit_id(&mut self, s: String) -> i128 {
        if let Some(i) = self.others.iter().position(|x| *x == s) {
            i as i128
        } else {
            self.others.push(s);
            (self.others.len() - 1) as i128
        }
    }
}

fn col_type<'a>(e: &Expr, ctx: &'a Ctx) -> Option<&'a DataType> {
    match e {
        Expr::Column(c) => ctx.col(&c.name).map(|x| x.1),
        _ => None,
    }
}

pub fn term_of(e: &Expr, against: Option<&DataType>, ctx: &mut Ctx) -> Term {
    match e {
        Expr::Column(c) => match ctx.col(&c.name) {
            Some((i, _)) => Term::Col(i),
            None => Term::Other(ctx.other(e)),
        },
        Expr::Literal(sv, _) => match against.and_then(|ty| coerce_rank(sv, ty)) {
            Some(l) => Term::Lit(l),
            None => Term::Other(ctx.other(e)),
        },
        _ => Term::Other(ctx.other(e)),
    }
}

/// the argument of a two-argument scalar function: a non-null string / list literal is named by a number
fn fn_arg(e: &Expr, ctx: &mut Ctx) -> Term {
    match e {
        Expr::Literal(ScalarValue::Utf8(Some(s)) | ScalarValue::LargeUtf8(Some(s)), _) => Term::Lit(Lit::Val(ctx.lit_id(format!("str:{s}")))),
        Expr::Literal(ScalarValue::List(arr), _) => {
            let vals = arr.values();
            let key = (0..vals.len()).map(|i| ScalarValue::try_from_array(vals.as_ref(), i).map(|v| v.to_string()).unwrap_or_else(|_| "?".into())).collect::<Vec<_>>().join(",");
            Term::Lit(Lit::Val(ctx.lit_id(format!("labels:{key}"))))
        }
        _ => Term::Other(ctx.other(e)),
    }
}

pub fn expr_to_ast(e: &Expr, ctx: &mut Ctx) -> SExpr {
    match e {
        Expr::Column(c) => match ctx.col(&c.name) {
            Some((i, _)) => SExpr::Col(i),
            None => SExpr::Other(ctx.other(e)),
        },
        Expr::BinaryExpr(b) => {
            let op = match b.op {
                Operator::And => return SExpr::And(Box::new(expr_to_ast(&b.left, ctx)), Box::new(expr_to_ast(&b.right, ctx))),
                Operator::Or => return SExpr::Or(Box::new(expr_to_ast(&b.left, ctx)), Box::new(expr_to_ast(&b.right, ctx))),
                Operator::Eq => Op::Eq,
                Operator::NotEq => Op::NotEq,
                Operator::Lt => Op::Lt,
                Operator::LtEq => Op::LtEq,
                Operator::Gt => Op::Gt,
                Operator::GtEq => Op::GtEq,
                _ => return SExpr::Other(ctx.other(e)),
            };
            let ty = col_type(&b.left, ctx).cloned();
            let l = term_of(&b.left, None, ctx);
            let r = term_of(&b.right, ty.as_ref(), ctx);
            SExpr::Cmp(op, l, r)
        }
        Expr::Not(x) => SExpr::Not(Box::new(expr_to_ast(x, ctx))),
        Expr::IsNull(x) => SExpr::IsNull(term_of(x, None, ctx)),
        Expr::IsNotNull(x) => SExpr::IsNotNull(term_of(x, None, ctx)),
        Expr::IsTrue(x) => SExpr::IsTrue(Box::new(expr_to_ast(x, ctx))),
        Expr::IsFalse(x) => SExpr::IsFalse(Box::new(expr_to_ast(x, ctx))),
        Expr::Between(b) => {
            let ty = col_type(&b.expr, ctx).cloned();
            let t = term_of(&b.expr, None, ctx);
            let lo = term_of(&b.low, ty.as_ref(), ctx);
            let hi = term_of(&b.high, ty.as_ref(), ctx);
            SExpr::Between(b.negated, t, lo, hi)
        }
        Expr::InList(l) => {
            let ty = col_type(&l.expr, ctx).cloned();
            let t = term_of(&l.expr, None, ctx);
            let items = l.list.iter().map(|x| term_of(x, ty.as_ref(), ctx)).collect();
            SExpr::InList(l.negated, t, items)
        }
        Expr::ScalarFunction(f) if f.args.len() == 2 => {
            let fk = match f.name() {
                "contains" => Fk::Contains,
                "array_has_all" => Fk::HasAll,
                "array_has_any" => Fk::HasAny,
                _ => Fk::OtherFn,
            };
            let t = term_of(&f.args[0], None, ctx);
            let a = fn_arg(&f.args[1], ctx);
            SExpr::Fn(fk, t, a)
        }
        _ => SExpr::Other(ctx.other(e)),
    }
}

// ---------------------------------------------------------------- ScalarIndexExpr -> AST
fn lit_of_scalar(sv: &ScalarValue) -> Lit {
    rank_of(sv).unwrap_or(Lit::Val(-999_999))
}
fn bnd_of(b: &Bound<ScalarValue>) -> Bnd {
    match b {
        Bound::Included(v) => Bnd::Incl(lit_of_scalar(v)),
        Bound::Excluded(v) => Bnd::Excl(lit_of_scalar(v)),
        Bound::Unbounded => Bnd::Unb,
    }
}
/// `names`: index name -> number
pub fn sidx_of(e: &ScalarIndexExpr, ctx: &mut Ctx, names: &dyn Fn(&str) -> u64) -> SIdx {
    match e {
        ScalarIndexExpr::Not(x) => SIdx::Not(Box::new(sidx_of(x, ctx, names))),
        ScalarIndexExpr::And(a, b) => SIdx::And(Box::new(sidx_of(a, ctx, names)), Box::new(sidx_of(b, ctx, names))),
        ScalarIndexExpr::Or(a, b) => SIdx::Or(Box::new(sidx_of(a, ctx, names)), Box::new(sidx_of(b, ctx, names))),
        ScalarIndexExpr::Query(s) => {
            let col = ctx.col(&s.column).map(|x| x.0).unwrap_or(9999);
            let any = s.query.as_any();
            let q = if let Some(q) = any.downcast_ref::<SargableQuery>() {
                match q {
                    SargableQuery::Range(lo, hi) => Query::Range(bnd_of(lo), bnd_of(hi)),
                    SargableQuery::IsIn(vs) => Query::IsIn(vs.iter().map(lit_of_scalar).collect()),
                    SargableQuery::Equals(v) => Query::Equals(lit_of_scalar(v)),
                    SargableQuery::IsNull() => Query::IsNull,
                    SargableQuery::FullTextSearch(_) => Query::Fn(Fk::OtherFn, Lit::Null),
                }
            } else if let Some(q) = any.downcast_ref::<BloomFilterQuery>() {
                match q {
                    BloomFilterQuery::Equals(v) => Query::Equals(lit_of_scalar(v)),
                    BloomFilterQuery::IsNull() => Query::IsNull,
                    BloomFilterQuery::IsIn(vs) => Query::IsIn(vs.iter().map(lit_of_scalar).collect()),
                }
            } else if let Some(q) = any.downcast_ref::<LabelListQuery>() {
                // the literal list is named like fn_arg names it: through the rebuilt expression
                let (fk, labels) = match q {
                    LabelListQuery::HasAllLabels(l) => (Fk::HasAll, l),
                    LabelListQuery::HasAnyLabel(l) => (Fk::HasAny, l),
                };
                let key = format!("labels:{}", labels.iter().map(|v| v.to_string()).collect::<Vec<_>>().join(","));
                Query::Fn(fk, Lit::Val(ctx.lit_id(key)))
            } else if let Some(TextQuery::StringContains(s)) = any.downcast_ref::<TextQuery>() {
                Query::Fn(Fk::Contains, Lit::Val(ctx.lit_id(format!("str:{s}"))))
            } else {
                Query::Fn(Fk::OtherFn, Lit::Null)
            };
            SIdx::Query { col, idx: names(&s.index_name), q, recheck: s.needs_recheck }
        }
    }
}

// ---------------------------------------------------------------- the finding classes (mirror of the Coq definitions)
pub type Row = Vec<Option<i128>>;
fn info_col<'a>(info: &'a Info, c: u64) -> Option<&'a (u64, bool, Vec<(u64, Parser)>)> {
    info.iter().find(|e| e.0 == c)
}
fn val(r: &Row, c: u64) -> Option<i128> {
    r.get(c as usize).cloned().flatten()
}
fn col_null_indexed(info: &Info, r: &Row, t: &Term) -> bool {
    match t {
        Term::Col(c) => info_col(info, *c).is_some() && val(r, *c).is_none(),
        _ => false,
    }
}
pub fn nulls3(info: &Info, r: &Row, e: &SExpr) -> bool {
    match e {
        SExpr::Col(c) => col_null_indexed(info, r, &Term::Col(*c)),
        SExpr::Cmp(_, l, _) => col_null_indexed(info, r, l),
        SExpr::Between(_, t, _, _) | SExpr::InList(_, t, _) | SExpr::Fn(_, t, _) => col_null_indexed(info, r, t),
        SExpr::IsNull(_) | SExpr::IsNotNull(_) | SExpr::Other(_) | SExpr::IsTrue(_) | SExpr::IsFalse(_) => false,
        SExpr::Not(x) => nulls3(info, r, x),
        SExpr::And(a, b) | SExpr::Or(a, b) => nulls3(info, r, a) || nulls3(info, r, b),
    }
}
pub fn neg_over_null(info: &Info, r: &Row, e: &SExpr) -> bool {
    match e {
        SExpr::Cmp(Op::NotEq, l, _) => col_null_indexed(info, r, l),
        SExpr::Between(true, t, _, _) | SExpr::InList(true, t, _) => col_null_indexed(info, r, t),
        SExpr::Not(x) => nulls3(info, r, x),
        SExpr::And(a, b) | SExpr::Or(a, b) => neg_over_null(info, r, a) || neg_over_null(info, r, b),
        _ => false,
    }
}
pub fn known_not_over_nullable(info: &Info, rows: &[Row], e: &SExpr) -> bool {
    rows.iter().any(|r| neg_over_null(info, r, e))
}
pub fn rows_coq(rows: &[(u64, u64, Row)]) -> String {
    coq::list(rows.iter().map(|(id, frag, vs)| format!("({id}, {frag}, {})", coq::list(vs.iter().map(|v| coq::opt(v.map(coq::z)))))))
}

/// BTreeMap::range panics: start > end, or start == end with both bounds excluded
pub fn range_inverted(lo: &Bnd, hi: &Bnd) -> bool {
    match (lo, hi) {
        (Bnd::Incl(Lit::Val(a)), Bnd::Incl(Lit::Val(b))) | (Bnd::Incl(Lit::Val(a)), Bnd::Excl(Lit::Val(b))) | (Bnd::Excl(Lit::Val(a)), Bnd::Incl(Lit::Val(b))) => b < a,
        (Bnd::Excl(Lit::Val(a)), Bnd::Excl(Lit::Val(b))) => b <= a,
        _ => false,
    }
}
pub fn has_bitmap_inverted(e: &SIdx, is_bitmap: &dyn Fn(u64) -> bool) -> bool {
    match e {
        SIdx::Not(x) => has_bitmap_inverted(x, is_bitmap),
        SIdx::And(a, b) | SIdx::Or(a, b) => has_bitmap_inverted(a, is_bitmap) || has_bitmap_inverted(b, is_bitmap),
        SIdx::Query { idx, q: Query::Range(lo, hi), .. } => is_bitmap(*idx) && range_inverted(lo, hi),
        _ => false,
    }
}
