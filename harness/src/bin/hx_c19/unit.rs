//! unit arm: the real `apply_scalar_indices` on generated datafusion expressions over synthetic index
//! configurations (every parser kind, several indices per column), compared with the model's translator.
use crate::ast::*;
use arrow_schema::{DataType, Field};
use hxlib::util::{catch, coq, Args, Rng, Sink, Stream};
use lance::deps::datafusion::common::Column;
use lance::deps::datafusion::functions::string::contains::ContainsFunc;
use lance::deps::datafusion::functions_nested::array_has::{ArrayHasAll, ArrayHasAny};
use lance::deps::datafusion::logical_expr::expr::{InList, ScalarFunction};
use lance::deps::datafusion::logical_expr::{Between, BinaryExpr, Expr, Operator, ScalarUDF};
use lance::deps::datafusion::scalar::ScalarValue;
use lance_index::scalar::expression::{
    apply_scalar_indices, BloomFilterQueryParser, IndexInformationProvider, LabelListQueryParser, MultiQueryParser, SargableQueryParser,
    ScalarQueryParser, TextQueryParser,
};
use serde_json::json;
use std::collections::HashMap;
use std::sync::Arc;

pub const REQ: &str = "Common.Base Core.Model_Mask Index.Model_ExprResult Index.Model_ScalarExpr";

pub fn columns() -> Vec<(String, DataType)> {
    vec![
        ("i".into(), DataType::Int32),
        ("u".into(), DataType::UInt8),
        ("l".into(), DataType::Int64),
        ("f".into(), DataType::Float32),
        ("d".into(), DataType::Float64),
        ("s".into(), DataType::Utf8),
        ("b".into(), DataType::Boolean),
        ("t".into(), DataType::Date32),
        ("tags".into(), DataType::List(Arc::new(Field::new("item", DataType::Utf8, true)))),
        ("w".into(), DataType::LargeUtf8),
        ("k".into(), DataType::UInt64),
        ("c".into(), DataType::Boolean),
    ]
}

struct Provider {
    cols: HashMap<String, (DataType, Box<MultiQueryParser>)>,
}
impl IndexInformationProvider for Provider {
    fn get_index(&self, col: &str) -> Option<(&DataType, &dyn ScalarQueryParser)> {
        self.cols.get(col).map(|(t, p)| (t, p.as_ref() as &dyn ScalarQueryParser))
    }
}

fn mk_parser(p: Parser, name: String) -> Box<dyn ScalarQueryParser> {
    match p {
        Parser::Sargable(rc) => Box::new(SargableQueryParser::new(name, rc)),
        Parser::Bloom(rc) => Box::new(BloomFilterQueryParser::new(name, rc)),
        Parser::LabelList => Box::new(LabelListQueryParser::new(name)),
        Parser::Text(rc) => Box::new(TextQueryParser::new(name, rc)),
    }
}

fn gen_info(rng: &mut Rng, cols: &[(String, DataType)]) -> (Info, Provider) {
    let mut info: Info = vec![];
    let mut prov = Provider { cols: HashMap::new() };
    let mut next = 0u64;
    for (ci, (name, ty)) in cols.iter().enumerate() {
        if !rng.chance(2, 3) {
            continue;
        }
        let n = if rng.chance(1, 4) { 2 } else { 1 };
        let mut ps = vec![];
        for _ in 0..n {
            let p = match ty {
                DataType::List(_) => {
                    if rng.chance(4, 5) {
                        Parser::LabelList
                    } else {
                        Parser::Sargable(false)
                    }
                }
                DataType::Utf8 | DataType::LargeUtf8 => match rng.below(6) {
                    0 | 1 => Parser::Sargable(false),
                    2 => Parser::Sargable(true),
                    3 => Parser::Bloom(true),
                    4 => Parser::Text(true),
                    _ => Parser::Text(false),
                },
                _ => match rng.below(8) {
                    0..=3 => Parser::Sargable(false),
                    4 => Parser::Sargable(true),
                    5 | 6 => Parser::Bloom(true),
                    _ => Parser::Bloom(false),
                },
            };
            ps.push((next, p));
            next += 1;
        }
        let mut mp = MultiQueryParser::single(mk_parser(ps[0].1, format!("ix{}", ps[0].0)));
        for q in &ps[1..] {
            mp.add(mk_parser(q.1, format!("ix{}", q.0)));
        }
        prov.cols.insert(name.clone(), (ty.clone(), Box::new(mp)));
        info.push((ci as u64, *ty == DataType::Boolean, ps));
    }
    (info, prov)
}

fn col(name: &str) -> Expr {
    Expr::Column(Column::new_unqualified(name))
}
fn lit(v: ScalarValue) -> Expr {
    Expr::Literal(v, None)
}
fn bin(l: Expr, op: Operator, r: Expr) -> Expr {
    Expr::BinaryExpr(BinaryExpr::new(Box::new(l), op, Box::new(r)))
}

const INTS: [i128; 14] = [0, 1, 2, 5, 7, -1, -3, 127, 128, 255, 256, 300, 70000, -129];
const STRS: [&str; 7] = ["", "a", "ab", "apple", "b", "Ünï", "zz"];

/// a literal (of a random literal type) meant for a column of type `ty`: mostly coercible
fn gen_literal(rng: &mut Rng, ty: &DataType) -> ScalarValue {
    let k = rng.below(100);
    if k < 4 {
        return ScalarValue::Null;
    }
    let int_lit = |rng: &mut Rng, v: i128| -> ScalarValue {
        // any integer literal type that can hold v
        let mut opts: Vec<ScalarValue> = vec![];
        if i8::try_from(v).is_ok() {
            opts.push(ScalarValue::Int8(Some(v as i8)));
        }
        if i16::try_from(v).is_ok() {
            opts.push(ScalarValue::Int16(Some(v as i16)));
        }
        if i32::try_from(v).is_ok() {
            opts.push(ScalarValue::Int32(Some(v as i32)));
        }
        if i64::try_from(v).is_ok() {
            opts.push(ScalarValue::Int64(Some(v as i64)));
        }
        if u8::try_from(v).is_ok() {
            opts.push(ScalarValue::UInt8(Some(v as u8)));
        }
        if u16::try_from(v).is_ok() {
            opts.push(ScalarValue::UInt16(Some(v as u16)));
        }
        if u32::try_from(v).is_ok() {
            opts.push(ScalarValue::UInt32(Some(v as u32)));
        }
        if u64::try_from(v).is_ok() {
            opts.push(ScalarValue::UInt64(Some(v as u64)));
        }
        rng.pick(&opts).clone()
    };
    match ty {
        DataType::Int32 | DataType::UInt8 | DataType::Int64 | DataType::UInt64 => {
            if k < 10 {
                // typed NULL, same or other integer type
                return match rng.below(3) {
                    0 => ScalarValue::try_from(ty).unwrap(),
                    1 => ScalarValue::Int64(None),
                    _ => ScalarValue::UInt8(None),
                };
            }
            if k < 18 {
                return match rng.below(3) {
                    0 => ScalarValue::Float64(Some(2.5)),
                    1 => ScalarValue::Utf8(Some("5".into())),
                    _ => ScalarValue::Boolean(Some(true)),
                };
            }
            let v = if rng.chance(1, 10) { *rng.pick(&[i64::MAX as i128, i64::MIN as i128, u64::MAX as i128, i32::MAX as i128 + 1]) } else { *rng.pick(&INTS) };
            int_lit(rng, v)
        }
        DataType::Float32 | DataType::Float64 => {
            if k < 10 {
                return if rng.bool() { ScalarValue::try_from(ty).unwrap() } else { ScalarValue::Float64(None) };
            }
            if k < 16 {
                return ScalarValue::Utf8(Some("1.5".into()));
            }
            match rng.below(4) {
                0 => int_lit(rng, *rng.clone().pick(&INTS)),
                1 => ScalarValue::Float32(Some(*rng.pick(&[0.0f32, -0.0, 1.5, -1.5, f32::NAN, f32::INFINITY, 0.1, 16777216.0]))),
                _ => ScalarValue::Float64(Some(*rng.pick(&[0.0f64, -0.0, 1.5, -2.25, f64::NAN, f64::NEG_INFINITY, 0.1, 1e300, 16777217.0]))),
            }
        }
        DataType::Utf8 | DataType::LargeUtf8 => {
            if k < 10 {
                return if rng.bool() { ScalarValue::Utf8(None) } else { ScalarValue::LargeUtf8(None) };
            }
            if k < 16 {
                return ScalarValue::Int64(Some(5));
            }
            let s = rng.pick(&STRS).to_string();
            if rng.bool() {
                ScalarValue::Utf8(Some(s))
            } else {
                ScalarValue::LargeUtf8(Some(s))
            }
        }
        DataType::Boolean => {
            if k < 10 {
                return ScalarValue::Boolean(None);
            }
            if k < 16 {
                return ScalarValue::Int64(Some(1));
            }
            ScalarValue::Boolean(Some(rng.bool()))
        }
        DataType::Date32 => {
            if k < 10 {
                return ScalarValue::Date32(None);
            }
            if k < 16 {
                return ScalarValue::Int32(Some(5));
            }
            if rng.chance(1, 4) {
                ScalarValue::Date64(Some(*rng.pick(&[0i64, 86_400_000, 86_400_000 * 19000 + 5, -86_400_000])))
            } else {
                ScalarValue::Date32(Some(*rng.pick(&[0i32, 1, 19000, -1])))
            }
        }
        _ => ScalarValue::Int64(Some(1)),
    }
}

fn list_lit(rng: &mut Rng) -> ScalarValue {
    let n = rng.below(3) as usize + 1;
    let vals: Vec<ScalarValue> = (0..n).map(|_| ScalarValue::Utf8(Some(rng.pick(&["x", "y", "z"]).to_string()))).collect();
    ScalarValue::List(ScalarValue::new_list(&vals, &DataType::Utf8, true))
}

struct Gen<'a> {
    cols: &'a [(String, DataType)],
}
impl Gen<'_> {
    fn any_col(&self, rng: &mut Rng) -> usize {
        rng.below(self.cols.len() as u64) as usize
    }
    fn rhs(&self, rng: &mut Rng, ty: &DataType) -> Expr {
        match rng.below(20) {
            0 => col(&self.cols[self.any_col(rng)].0),
            1 => bin(lit(ScalarValue::Int64(Some(1))), Operator::Plus, lit(ScalarValue::Int64(Some(2)))),
            _ => lit(gen_literal(rng, ty)),
        }
    }
    fn lhs(&self, rng: &mut Rng, c: usize) -> Expr {
        match rng.below(20) {
            0 => bin(col(&self.cols[c].0), Operator::Plus, lit(ScalarValue::Int64(Some(1)))),
            1 => lit(ScalarValue::Int64(Some(3))),
            _ => col(&self.cols[c].0),
        }
    }
    fn cmp_op(rng: &mut Rng) -> Operator {
        *rng.pick(&[Operator::Eq, Operator::NotEq, Operator::Lt, Operator::LtEq, Operator::Gt, Operator::GtEq])
    }
    fn leaf(&self, rng: &mut Rng) -> Expr {
        let c = self.any_col(rng);
        let ty = self.cols[c].1.clone();
        match rng.below(24) {
            0..=6 => {
                let op = if rng.chance(1, 25) { Operator::Plus } else { Self::cmp_op(rng) };
                bin(self.lhs(rng, c), op, self.rhs(rng, &ty))
            }
            7..=10 => {
                // two comparisons that maybe_range may fuse
                let c2 = if rng.chance(1, 6) { self.any_col(rng) } else { c };
                let ty2 = self.cols[c2].1.clone();
                let a = bin(self.lhs(rng, c), Self::cmp_op(rng), self.rhs(rng, &ty));
                let b = bin(self.lhs(rng, c2), Self::cmp_op(rng), self.rhs(rng, &ty2));
                bin(a, Operator::And, b)
            }
            11 | 12 => Expr::Between(Between::new(Box::new(self.lhs(rng, c)), rng.chance(1, 3), Box::new(self.rhs(rng, &ty)), Box::new(self.rhs(rng, &ty)))),
            13 | 14 => {
                let n = rng.below(4) as usize;
                Expr::InList(InList::new(Box::new(self.lhs(rng, c)), (0..n).map(|_| self.rhs(rng, &ty)).collect(), rng.chance(1, 3)))
            }
            15 => Expr::IsNull(Box::new(self.lhs(rng, c))),
            16 => Expr::IsNotNull(Box::new(self.lhs(rng, c))),
            17 => {
                let inner = if rng.chance(1, 4) { bin(col(&self.cols[c].0), Operator::Eq, self.rhs(rng, &ty)) } else { col(&self.cols[*rng.pick(&[6usize, 11, 0, 5])].0) };
                if rng.bool() {
                    Expr::IsTrue(Box::new(inner))
                } else {
                    Expr::IsFalse(Box::new(inner))
                }
            }
            18 => col(&self.cols[*rng.pick(&[6usize, 11, 6, 0])].0),
            19 | 20 => {
                // scalar functions
                let (udf, first, arg): (ScalarUDF, usize, Expr) = match rng.below(5) {
                    0 | 1 => (ContainsFunc::new().into(), *rng.pick(&[5usize, 9, 5, 0]), if rng.chance(1, 8) { lit(ScalarValue::Utf8(None)) } else { lit(ScalarValue::Utf8(Some(rng.pick(&STRS).to_string()))) }),
                    2 => (ArrayHasAll::new().into(), *rng.pick(&[8usize, 8, 5]), lit(list_lit(rng))),
                    3 => (ArrayHasAny::new().into(), *rng.pick(&[8usize, 8, 5]), lit(list_lit(rng))),
                    _ => (ArrayHasAny::new().into(), 8, col("tags")),
                };
                Expr::ScalarFunction(ScalarFunction::new_udf(Arc::new(udf), vec![col(&self.cols[first].0), arg]))
            }
            21 => Expr::IsNotTrue(Box::new(col("b"))),
            22 => Expr::IsUnknown(Box::new(col("b"))),
            _ => lit(ScalarValue::Boolean(Some(true))),
        }
    }
    fn tree(&self, rng: &mut Rng, depth: u32) -> Expr {
        if depth == 0 || rng.chance(1, 3) {
            return self.leaf(rng);
        }
        match rng.below(7) {
            0 | 1 => Expr::Not(Box::new(self.tree(rng, depth - 1))),
            2..=4 => bin(self.tree(rng, depth - 1), Operator::And, self.tree(rng, depth - 1)),
            _ => bin(self.tree(rng, depth - 1), Operator::Or, self.tree(rng, depth - 1)),
        }
    }
}

fn kind_of(e: &SExpr) -> &'static str {
    match e {
        SExpr::Col(_) => "col",
        SExpr::Cmp(..) => "cmp",
        SExpr::Between(..) => "between",
        SExpr::InList(..) => "inlist",
        SExpr::IsNull(_) | SExpr::IsNotNull(_) => "isnull",
        SExpr::IsTrue(_) | SExpr::IsFalse(_) => "isbool",
        SExpr::Not(_) => "not",
        SExpr::And(..) => "and",
        SExpr::Or(..) => "or",
        SExpr::Fn(..) => "fn",
        SExpr::Other(_) => "other",
    }
}

/// run the real translator on `expr` and push one case; returns the recorded output
pub fn push_case(s: &mut Stream, sink: &mut Sink, cols: &[(String, DataType)], info: &Info, prov: &dyn IndexInformationProvider, names: &dyn Fn(&str) -> u64, expr: &Expr, tag: &str) {
    let mut ctx = Ctx::new(cols.to_vec());
    let ast = expr_to_ast(expr, &mut ctx);
    let r = catch(|| apply_scalar_indices(expr.clone(), prov));
    let (out, human): (Result<String, bool>, String) = match r {
        Err(_) => (Err(true), "panic".into()),
        Ok(Err(e)) => (Err(false), format!("Err({})", e.to_string().chars().take(80).collect::<String>())),
        Ok(Ok(ie)) => {
            let sq = ie.scalar_query.as_ref().map(|q| sidx_of(q, &mut ctx, names));
            let rf = ie.refine_expr.as_ref().map(|x| expr_to_ast(x, &mut ctx));
            let h = format!("index={} refine={}", ie.scalar_query.as_ref().map(|q| q.to_string()).unwrap_or("--".into()), ie.refine_expr.as_ref().map(|x| x.to_string()).unwrap_or("--".into()));
            sink.count(match (&sq, &rf) {
                (Some(_), Some(_)) => "translate:index+refine",
                (Some(_), None) => "translate:index-only",
                (None, _) => "translate:refine-only",
            });
            (Ok(format!("({}, {})", coq::opt(sq.map(|q| q.coq())), coq::opt(rf.map(|x| x.coq())))), h)
        }
    };
    let inp = format!("({}, {})", info_coq(info), ast.coq());
    sink.nontrivial(&inp);
    sink.count(&format!("translate:top:{}", kind_of(&ast)));
    s.push(inp, coq::outcome(&out), json!({"arm": tag, "expr": expr.to_string().chars().take(400).collect::<String>(), "info": format!("{:?}", info), "real": human}));
}

pub fn run(args: &Args, sink: &mut Sink, rng: &mut Rng) {
    let cols = columns();
    let mut s = Stream::new("translate", REQ, "chk_translate", &format!("{} * sexpr", INFO_TY), "outcome (option sidx * option sexpr)");
    s.shard = 100;
    let g = Gen { cols: &cols };
    let names = |n: &str| n.trim_start_matches("ix").parse::<u64>().unwrap_or(9999);
    let n = args.vol(500, 12000);
    for _ in 0..n {
        let (info, prov) = gen_info(rng, &cols);
        let dp = rng.below(4) as u32;
        let e = g.tree(rng, dp);
        push_case(&mut s, sink, &cols, &info, &prov, &names, &e, "unit");
    }
    // the depth limit: the innermost node of NOT^499 is visited at depth 499 (accepted), of NOT^500 at 500 (Err)
    for k in [499usize, 500] {
        let (info, prov) = {
            let mut r2 = Rng::new(7);
            loop {
                let x = gen_info(&mut r2, &cols);
                if x.0.iter().any(|c| c.0 == 0) {
                    break x;
                }
            }
        };
        let mut e = bin(col("i"), Operator::Eq, lit(ScalarValue::Int32(Some(1))));
        for _ in 0..k {
            e = Expr::Not(Box::new(e));
        }
        let mut ctx = Ctx::new(cols.clone());
        let ast = expr_to_ast(&e, &mut ctx);
        let r = catch(|| apply_scalar_indices(e.clone(), &prov));
        let out: Result<String, bool> = match r {
            Err(_) => Err(true),
            Ok(Err(_)) => Err(false),
            Ok(Ok(ie)) => {
                let sq = ie.scalar_query.as_ref().map(|q| sidx_of(q, &mut ctx, &names));
                let rf = ie.refine_expr.as_ref().map(|x| expr_to_ast(x, &mut ctx));
                Ok(format!("({}, {})", coq::opt(sq.map(|q| q.coq())), coq::opt(rf.map(|x| x.coq()))))
            }
        };
        sink.count(if out.is_ok() { "translate:depth-ok" } else { "translate:depth-err" });
        s.push(format!("({}, {})", info_coq(&info), ast.coq()), coq::outcome(&out), json!({"arm": "unit-depth", "nots": k}));
    }
    sink.add(s);
}
