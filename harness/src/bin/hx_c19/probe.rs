//! scratch probe: reproduce F1 on the real code and print plans.
use arrow_array::*;
use arrow_schema::{DataType, Field, Schema};
use futures::TryStreamExt;
use hxlib::util::Args;
use lance::Dataset;
use lance_index::scalar::ScalarIndexParams;
use lance_index::{DatasetIndexExt, IndexType};
use std::sync::Arc;

async fn ids(ds: &Dataset, filter: &str, use_index: bool) -> Result<Vec<i32>, String> {
    let mut sc = ds.scan();
    sc.filter(filter).map_err(|e| format!("filter parse: {e}"))?;
    sc.use_scalar_index(use_index);
    sc.project(&["id"]).unwrap();
    let batches: Vec<RecordBatch> = sc.try_into_stream().await.map_err(|e| e.to_string())?.try_collect().await.map_err(|e| e.to_string())?;
    let mut out = vec![];
    for b in batches {
        let a = b.column_by_name("id").unwrap().as_any().downcast_ref::<Int32Array>().unwrap().clone();
        out.extend(a.values().iter().copied());
    }
    out.sort();
    Ok(out)
}

pub fn run(_args: &Args) -> i32 {
    let rt = tokio::runtime::Builder::new_multi_thread().worker_threads(2).enable_all().build().unwrap();
    rt.block_on(async {
        let schema = Arc::new(Schema::new(vec![
            Field::new("id", DataType::Int32, false),
            Field::new("x", DataType::Int32, true),
            Field::new("f", DataType::Float32, true),
            Field::new("b", DataType::Boolean, true),
            Field::new("u", DataType::UInt8, true),
        ]));
        let id = Int32Array::from(vec![0, 1, 2, 3, 4, 5]);
        let x = Int32Array::from(vec![Some(1), Some(5), None, Some(7), None, Some(5)]);
        let f = Float32Array::from(vec![Some(0.1f32), Some(16777216.0), None, Some(f32::NAN), Some(-0.0), Some(0.0)]);
        let b = BooleanArray::from(vec![Some(true), Some(false), None, Some(true), None, Some(false)]);
        let u = UInt8Array::from(vec![Some(0u8), Some(255), None, Some(7), None, Some(5)]);
        let batch = RecordBatch::try_new(schema.clone(), vec![Arc::new(id), Arc::new(x), Arc::new(f), Arc::new(b), Arc::new(u)]).unwrap();
        let dir = tempfile::tempdir().unwrap();
        let uri = dir.path().join("t").to_string_lossy().to_string();
        let mut ds = Dataset::write(RecordBatchIterator::new(vec![Ok(batch)], schema.clone()), &uri, None).await.unwrap();
        for c in ["x", "f", "b", "u"] {
            ds.create_index(&[c], IndexType::BTree, None, &ScalarIndexParams::default(), true).await.unwrap();
        }
        let preds = [
            "x <= 5 AND x > 1", "x < 5 AND x >= 1", "x > 1 AND x <= 5", "x >= 1 AND x < 5", "x < 5 AND x > 1", "x <= 5 AND x >= 1",
            "x != 5", "NOT (x = 5)", "x NOT IN (5)", "NOT (x = 5 OR x = 1)", "x = 5 OR NOT (x = 5)", "x NOT BETWEEN 2 AND 6",
            "b = false", "NOT b", "b IS NOT TRUE", "b IS TRUE", "b IS FALSE", "NOT (b IS TRUE)", "b <> true", "x IS NOT NULL", "NOT (x IS NULL)",
            "f = 0.1", "f < 0.1", "f = 16777217", "f >= 0", "f > 0", "f = 0", "f = 'NaN'::float", "f > 1e38", "f = CAST('NaN' AS FLOAT)",
            "u = 300", "u < 300", "u > -1", "u < 2.5", "x = 1 AND u = 0", "x >= 1 AND x < 7", "x BETWEEN 1 AND 5", "x IN (1, NULL)", "x = NULL",
            "x + 1 = 2", "x = 1 OR u + 1 = 1", "NOT (x = 1 AND u + 1 = 1)", "x < 9223372036854775807", "x IS NOT DISTINCT FROM 5", "(x = 5) IS NOT TRUE", "(x = 5) IS FALSE", "(x=5) IS NULL",
        ];
        for p in preds {
            let a = ids(&ds, p, true).await;
            let n = ids(&ds, p, false).await;
            let mut sc = ds.scan();
            let plan = match sc.filter(p) {
                Ok(_) => {
                    sc.project(&["id"]).unwrap();
                    sc.explain_plan(false).await.unwrap_or_else(|e| format!("ERR {e}"))
                }
                Err(e) => format!("ERR {e}"),
            };
            let line: Vec<&str> = plan.lines().filter(|l| l.contains("LanceRead") || l.contains("ScalarIndexQuery")).collect();
            println!("{} [{}] index={:?} scan={:?}", if a == n { "same" } else { "DIFF" }, p, a, n);
            for l in line {
                let l = l.trim();
                if let Some(i) = l.find("full_filter") {
                    println!("      {}", &l[i..]);
                } else {
                    println!("      {}", l);
                }
            }
        }
    });
    0
}
