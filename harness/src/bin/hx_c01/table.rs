//! Tables on a local directory or an in-memory store, the operations of the quantifier, and the
//! reader-side snapshot (versions(), ordered scan, validate(), referenced files) taken with a fresh session
//! and without the injecting wrapper.
use crate::inject::{Ctl, Wrap};
use arrow_array::{Int32Array, RecordBatch, RecordBatchIterator};
use arrow_schema::{DataType, Field, Schema};
use async_trait::async_trait;
use futures::TryStreamExt;
use lance::dataset::builder::DatasetBuilder;
use lance::dataset::optimize::{compact_files, CompactionOptions};
use lance::dataset::{
    CommitBuilder, InsertBuilder, MergeInsertBuilder, NewColumnTransform, ReadParams, UpdateBuilder, WhenMatched, WhenNotMatched, WriteMode,
    WriteParams,
};
use lance::session::Session;
use lance::Dataset;
use lance_index::scalar::ScalarIndexParams;
use lance_index::{DatasetIndexExt, IndexType};
use lance_io::object_store::ObjectStoreParams;
use lance_table::io::commit::{CommitError, CommitHandler, CommitLease, CommitLock, ConditionalPutCommitHandler, RenameCommitHandler};
use lance_table::io::deletion::deletion_file_path;
use object_store::memory::InMemory;
use object_store::path::Path;
use object_store::ObjectStore;
use std::sync::{Arc, Mutex};

#[derive(Clone, Copy, Debug, PartialEq)]
pub enum Cfg {
    LocalRename, // local fs, RenameCommitHandler, V1 names
    MemCondPut,  // memory, ConditionalPutCommitHandler, V2 names, lexically ordered listing
    LocalLock,   // local fs, a CommitLock implementation, V2 names
    LocalCondPut, // local fs default handler (ConditionalPut), V2 names
}
impl Cfg {
    pub fn name(&self) -> &'static str {
        match self {
            Cfg::LocalRename => "local-rename-v1",
            Cfg::MemCondPut => "memory-condput-v2",
            Cfg::LocalLock => "local-lock-v2",
            Cfg::LocalCondPut => "local-condput-v2",
        }
    }
    /// handler code of the model (Store.Model_Handlers.kind_of_code)
    pub fn hcode(&self) -> u64 {
        match self {
            Cfg::LocalRename => 1,
            Cfg::MemCondPut | Cfg::LocalCondPut => 0,
            Cfg::LocalLock => 2,
        }
    }
    pub fn v2(&self) -> bool {
        !matches!(self, Cfg::LocalRename)
    }
    pub fn is_mem(&self) -> bool {
        matches!(self, Cfg::MemCondPut)
    }
}

/// a lock service: one mutex for the table
#[derive(Debug, Default)]
pub struct TableLock {
    held: Arc<Mutex<bool>>,
}
pub struct TableLease {
    held: Arc<Mutex<bool>>,
}
#[async_trait]
impl CommitLock for TableLock {
    type Lease = TableLease;
    async fn lock(&self, _version: u64) -> std::result::Result<Self::Lease, CommitError> {
        loop {
            {
                let mut h = self.held.lock().unwrap();
                if !*h {
                    *h = true;
                    return Ok(TableLease { held: self.held.clone() });
                }
            }
            tokio::time::sleep(std::time::Duration::from_millis(1)).await;
        }
    }
}
#[async_trait]
impl CommitLease for TableLease {
    async fn release(&self, _success: bool) -> std::result::Result<(), CommitError> {
        *self.held.lock().unwrap() = false;
        Ok(())
    }
}

/// one copy of a table's storage
pub struct Env {
    pub cfg: Cfg,
    pub dir: Option<tempfile::TempDir>,
    pub mem: Option<Arc<InMemory>>,
    pub uri: String,
}

fn copy_dir(from: &std::path::Path, to: &std::path::Path) {
    std::fs::create_dir_all(to).unwrap();
    for e in std::fs::read_dir(from).unwrap() {
        let e = e.unwrap();
        let p = e.path();
        let q = to.join(e.file_name());
        if p.is_dir() {
            copy_dir(&p, &q);
        } else {
            std::fs::copy(&p, &q).unwrap();
        }
    }
}

impl Env {
    pub fn empty(cfg: Cfg) -> Env {
        if cfg.is_mem() {
            Env { cfg, dir: None, mem: Some(Arc::new(InMemory::new())), uri: "memory:///t".into() }
        } else {
            let dir = tempfile::tempdir().unwrap();
            let uri = dir.path().join("t").to_str().unwrap().to_string();
            Env { cfg, dir: Some(dir), mem: None, uri }
        }
    }
    /// a fresh copy of the storage
    pub fn fork(&self) -> Env {
        if self.cfg.is_mem() {
            Env { cfg: self.cfg, dir: None, mem: Some(Arc::new(self.mem.as_ref().unwrap().fork())), uri: self.uri.clone() }
        } else {
            let e = Env::empty(self.cfg);
            let src = std::path::Path::new(&self.uri);
            if src.exists() {
                copy_dir(src, std::path::Path::new(&e.uri));
            }
            e
        }
    }
    pub fn handler(&self) -> Arc<dyn CommitHandler> {
        match self.cfg {
            Cfg::LocalRename => Arc::new(RenameCommitHandler),
            Cfg::MemCondPut | Cfg::LocalCondPut => Arc::new(ConditionalPutCommitHandler),
            Cfg::LocalLock => Arc::new(TableLock::default()),
        }
    }
    #[allow(deprecated)]
    pub fn store_params(&self, ctl: Option<Arc<Ctl>>) -> ObjectStoreParams {
        let mut p = ObjectStoreParams::default();
        if let Some(m) = &self.mem {
            p.object_store = Some((m.clone() as Arc<dyn ObjectStore>, url::Url::parse(&self.uri).unwrap()));
            p.list_is_lexically_ordered = Some(true);
        }
        if let Some(c) = ctl {
            p.object_store_wrapper = Some(Arc::new(Wrap(c)));
        }
        p
    }
    pub fn write_params(&self, ctl: Option<Arc<Ctl>>, mode: WriteMode) -> WriteParams {
        WriteParams {
            mode,
            max_rows_per_file: 10,
            store_params: Some(self.store_params(ctl)),
            commit_handler: Some(self.handler()),
            enable_v2_manifest_paths: self.cfg.v2(),
            session: Some(Arc::new(Session::default())),
            ..Default::default()
        }
    }
    /// the uri operations run on: for local tables the `file-object-store` scheme, which sends every call
    /// (also copies and the latest-version lookup) through the ObjectStore API, i.e. through the wrapper;
    /// snapshots use the plain path (scheme `file`: current_manifest_local and the local readers)
    pub fn op_uri(&self) -> String {
        if self.cfg.is_mem() {
            self.uri.clone()
        } else {
            format!("file-object-store://{}", self.uri)
        }
    }
    /// open with a fresh session
    pub async fn open(&self, ctl: Option<Arc<Ctl>>, version: Option<u64>) -> lance::Result<Dataset> {
        let uri = if ctl.is_some() { self.op_uri() } else { self.uri.clone() };
        let mut b = DatasetBuilder::from_uri(&uri)
            .with_read_params(ReadParams { store_options: Some(self.store_params(ctl)), commit_handler: Some(self.handler()), ..Default::default() })
            .with_session(Arc::new(Session::default()));
        if let Some(v) = version {
            b = b.with_version(v);
        }
        b.load().await
    }
    /// every object under the table root, relative to it, sorted
    pub async fn list_all(&self) -> Vec<String> {
        let mut out = vec![];
        match &self.mem {
            Some(m) => {
                let base = Path::from("t");
                let all: Vec<object_store::ObjectMeta> = m.list(Some(&base)).try_collect().await.unwrap_or_default();
                for o in all {
                    out.push(o.location.to_string().trim_start_matches("t/").to_string());
                }
            }
            None => {
                fn walk(root: &std::path::Path, p: &std::path::Path, out: &mut Vec<String>) {
                    if let Ok(rd) = std::fs::read_dir(p) {
                        for e in rd.flatten() {
                            let q = e.path();
                            if q.is_dir() {
                                walk(root, &q, out);
                            } else {
                                out.push(q.strip_prefix(root).unwrap().to_string_lossy().to_string());
                            }
                        }
                    }
                }
                let root = std::path::PathBuf::from(&self.uri);
                walk(&root, &root, &mut out);
            }
        }
        out.sort();
        out
    }
    /// store path -> path relative to the table root
    pub fn rel(&self, store_path: &str) -> String {
        let base = if self.cfg.is_mem() { "t".to_string() } else { self.uri.trim_start_matches('/').to_string() };
        store_path.strip_prefix(&format!("{base}/")).unwrap_or(store_path).to_string()
    }
}

pub fn schema() -> Arc<Schema> {
    Arc::new(Schema::new(vec![Field::new("id", DataType::Int32, false), Field::new("x", DataType::Int32, true)]))
}
pub fn batch(lo: i32, hi: i32, mul: i32) -> RecordBatch {
    RecordBatch::try_new(
        schema(),
        vec![Arc::new(Int32Array::from_iter_values(lo..hi)), Arc::new(Int32Array::from_iter((lo..hi).map(|i| if i % 7 == 6 { None } else { Some(i * mul) })))],
    )
    .unwrap()
}
fn reader(b: RecordBatch) -> RecordBatchIterator<std::vec::IntoIter<std::result::Result<RecordBatch, arrow_schema::ArrowError>>> {
    let s = b.schema();
    RecordBatchIterator::new(vec![Ok(b)].into_iter(), s)
}

pub const OPS: [&str; 14] = [
    "create", "append", "overwrite", "delete", "update", "merge_insert", "compact", "create_index", "add_columns", "drop_columns", "update_config", "restore",
    "detached", "overwrite_uri",
];

fn es<E: std::fmt::Display>(e: E) -> String {
    let s = e.to_string();
    s.chars().take(300).collect()
}

/// Run one operation through the wrapped store. `detached` needs V2 names.
pub async fn run_op(env: &Env, op: &str, ctl: Arc<Ctl>, variant: u64) -> Result<(), String> {
    let c = Some(ctl.clone());
    if op == "create" {
        let n = 20 + 3 * variant as i32;
        Dataset::write(reader(batch(0, n, 10)), &env.op_uri(), Some(env.write_params(c, WriteMode::Create))).await.map_err(es)?;
        return Ok(());
    }
    if op == "overwrite_uri" {
        // by uri: CommitBuilder resolves the destination itself
        Dataset::write(reader(batch(100, 112 + variant as i32, 3)), &env.op_uri(), Some(env.write_params(c, WriteMode::Overwrite))).await.map_err(es)?;
        return Ok(());
    }
    let mut ds = env.open(c.clone(), None).await.map_err(es)?;
    match op {
        "append" => ds.append(reader(batch(100, 112 + variant as i32, 10)), Some(env.write_params(c, WriteMode::Append))).await.map_err(es),
        "overwrite" => {
            let p = env.write_params(c, WriteMode::Overwrite);
            InsertBuilder::new(Arc::new(ds)).with_params(&p).execute(vec![batch(100, 112 + variant as i32, 3)]).await.map(|_| ()).map_err(es)
        }
        "delete" => ds.delete(if variant % 2 == 0 { "id % 3 = 0" } else { "id >= 10" }).await.map_err(es),
        "update" => UpdateBuilder::new(Arc::new(ds))
            .update_where(if variant % 2 == 0 { "id < 5" } else { "id % 4 = 1" })
            .map_err(es)?
            .set("x", "x + 1")
            .map_err(es)?
            .build()
            .map_err(es)?
            .execute()
            .await
            .map(|_| ())
            .map_err(es),
        "merge_insert" => {
            let mut mb = MergeInsertBuilder::try_new(Arc::new(ds), vec!["id".to_string()]).map_err(es)?;
            mb.when_matched(WhenMatched::UpdateAll).when_not_matched(WhenNotMatched::InsertAll);
            let b = batch(15, 25 + variant as i32, 7);
            mb.try_build().map_err(es)?.execute_reader(Box::new(reader(b))).await.map(|_| ()).map_err(es)
        }
        "compact" => compact_files(&mut ds, CompactionOptions { target_rows_per_fragment: 100, ..Default::default() }, None).await.map(|_| ()).map_err(es),
        "create_index" => ds.create_index(&["id"], IndexType::BTree, Some("id_idx".into()), &ScalarIndexParams::default(), true).await.map_err(es),
        "add_columns" => ds.add_columns(NewColumnTransform::SqlExpressions(vec![("y".into(), "id + 1".into())]), None, None).await.map_err(es),
        "drop_columns" => ds.drop_columns(&["x"]).await.map_err(es),
        "update_config" => ds.update_config([("hx", "c01")]).await.map(|_| ()).map_err(es),
        "restore" => {
            let mut old = ds.checkout_version(1 + variant % 2).await.map_err(es)?;
            old.restore().await.map_err(es)
        }
        "detached" => {
            let ds = Arc::new(ds);
            let p = env.write_params(c, WriteMode::Append);
            let txn = InsertBuilder::new(ds.clone()).with_params(&p).execute_uncommitted(vec![batch(200, 205 + variant as i32, 10)]).await.map_err(es)?;
            CommitBuilder::new(ds).with_detached(true).execute(txn).await.map(|_| ()).map_err(es)
        }
        _ => Err(format!("unknown op {op}")),
    }
}

/// v1: 20 rows in 2 fragments; v2: delete id = 3 (deletion file); v3: BTree index on x; (V2 names) one detached commit
pub async fn build_prestate(cfg: Cfg, long: bool) -> Env {
    let env = Env::empty(cfg);
    let mut ds = Dataset::write(reader(batch(0, 20, 10)), &env.uri, Some(env.write_params(None, WriteMode::Create))).await.unwrap();
    ds.delete("id = 3").await.unwrap();
    ds.create_index(&["x"], IndexType::BTree, Some("x_idx".into()), &ScalarIndexParams::default(), true).await.unwrap();
    if long {
        // a longer history: v4 append (a third fragment), v5 delete (a second generation of deletion files), v6 config
        ds.append(reader(batch(20, 27, 10)), Some(env.write_params(None, WriteMode::Append))).await.unwrap();
        ds.delete("id % 5 = 1").await.unwrap();
        ds.update_config([("long", "1")]).await.unwrap();
    }
    if cfg.v2() {
        let ds = Arc::new(ds);
        let p = env.write_params(None, WriteMode::Append);
        let txn = InsertBuilder::new(ds.clone()).with_params(&p).execute_uncommitted(vec![batch(300, 304, 10)]).await.unwrap();
        CommitBuilder::new(ds).with_detached(true).execute(txn).await.unwrap();
    }
    env
}

/// plant a copy of the latest manifest under version number `version` (to reach the refusal of detached-range numbers)
pub async fn plant_version(env: &Env, version: u64) -> Result<(), String> {
    let ds = env.open(None, None).await.map_err(es)?;
    let mut m = ds.manifest().clone();
    m.version = version;
    m.transaction_section = None; // the copy carries no inline transaction
    let indices = ds.load_indices().await.map_err(es)?.as_ref().clone();
    let scheme = ds.manifest_location().naming_scheme;
    let path = scheme.manifest_path(&ds.branch_location().path, version);
    lance_table::io::commit::write_manifest_file_to_path(ds.object_store(), &mut m, if indices.is_empty() { None } else { Some(indices) }, &path, None)
        .await
        .map_err(es)?;
    Ok(())
}

#[derive(Clone, Debug, PartialEq)]
pub struct VSnap {
    pub version: u64,
    pub rows: usize,
    pub ordered: u64, // hash of the ordered scan (schema + every value)
    pub sorted: u64,  // hash of the sorted multiset of rows
    pub refs: Vec<String>,
    pub missing: Vec<String>,
}
#[derive(Clone, Debug, PartialEq)]
pub struct Snap {
    pub latest: u64, // 0: no table
    pub versions: Vec<VSnap>,
}

fn fnv(h: &mut u64, s: &str) {
    for b in s.bytes() {
        *h ^= b as u64;
        *h = h.wrapping_mul(0x100000001b3);
    }
    *h ^= 0xff;
    *h = h.wrapping_mul(0x100000001b3);
}

/// the files a version's manifest references, relative to the table root
pub fn manifest_refs(ds: &Dataset, indices: &[lance_table::format::IndexMetadata], listing: &[String]) -> Vec<String> {
    let m = ds.manifest();
    let mut refs = vec![];
    for f in m.fragments.iter() {
        for df in &f.files {
            refs.push(format!("data/{}", df.path));
        }
        if let Some(d) = &f.deletion_file {
            refs.push(deletion_file_path(&Path::from(""), f.id, d).to_string());
        }
    }
    for idx in indices {
        let pre = format!("_indices/{}/", idx.uuid);
        let mut any = false;
        for l in listing {
            if l.starts_with(&pre) {
                refs.push(l.clone());
                any = true;
            }
        }
        if !any {
            refs.push(format!("{pre}<no file>"));
        }
    }
    if let Some(t) = &m.transaction_file {
        if !t.is_empty() {
            refs.push(format!("_transactions/{t}"));
        }
    }
    refs.sort();
    refs.dedup();
    refs
}

pub async fn vsnap(d: &Dataset, listing: &[String]) -> Result<VSnap, String> {
    let v = d.version().version;
    d.validate().await.map_err(|e| format!("validate v{v}: {}", es(e)))?;
    let bs: Vec<RecordBatch> = d.scan().try_into_stream().await.map_err(|e| format!("scan v{v}: {}", es(e)))?.try_collect().await.map_err(|e| format!("scan v{v}: {}", es(e)))?;
    let mut ordered = 0xcbf29ce484222325u64;
    let names: Vec<String> = d.schema().fields.iter().map(|f| f.name.clone()).collect();
    fnv(&mut ordered, &names.join(","));
    let mut rows: Vec<String> = vec![];
    for b in &bs {
        let fmts: Vec<_> = b.columns().iter().map(|c| arrow_cast::display::ArrayFormatter::try_new(c.as_ref(), &Default::default()).unwrap()).collect();
        for r in 0..b.num_rows() {
            let row: Vec<String> = fmts.iter().map(|f| f.value(r).to_string()).collect();
            let row = row.join("|");
            fnv(&mut ordered, &row);
            rows.push(row);
        }
    }
    let n = rows.len();
    let counted = d.count_rows(None).await.map_err(|e| format!("count v{v}: {}", es(e)))?;
    if counted != n {
        return Err(format!("v{v}: count_rows {counted} != scanned {n}"));
    }
    rows.sort();
    let mut sorted = 0xcbf29ce484222325u64;
    fnv(&mut sorted, &names.join(","));
    for r in &rows {
        fnv(&mut sorted, r);
    }
    let indices = d.load_indices().await.map_err(|e| format!("indices v{v}: {}", es(e)))?;
    let refs = manifest_refs(d, &indices, listing);
    let missing: Vec<String> = refs.iter().filter(|r| !listing.contains(r)).cloned().collect();
    Ok(VSnap { version: v, rows: n, ordered, sorted, refs, missing })
}

/// what a reader with a fresh session sees: every version listed by versions(), fully read
pub async fn snapshot(env: &Env) -> Result<Snap, String> {
    let listing = env.list_all().await;
    let ds = match env.open(None, None).await {
        Ok(d) => d,
        Err(lance::Error::DatasetNotFound { .. }) | Err(lance::Error::NotFound { .. }) => return Ok(Snap { latest: 0, versions: vec![] }),
        Err(e) => return Err(format!("open: {}", es(e))),
    };
    let latest = ds.version().version;
    let lid = ds.latest_version_id().await.map_err(|e| format!("latest_version_id: {}", es(e)))?;
    if lid != latest {
        return Err(format!("open gave version {latest} but latest_version_id {lid}"));
    }
    let mut d2 = ds.clone();
    d2.checkout_latest().await.map_err(|e| format!("checkout_latest: {}", es(e)))?;
    if d2.version().version != latest {
        return Err(format!("checkout_latest gave {} after open gave {latest}", d2.version().version));
    }
    let mut versions = vec![];
    for v in ds.versions().await.map_err(|e| format!("versions(): {}", es(e)))? {
        let d = env.open(None, Some(v.version)).await.map_err(|e| format!("checkout {}: {}", v.version, es(e)))?;
        if d.version().version != v.version {
            return Err(format!("checkout {} gave {}", v.version, d.version().version));
        }
        versions.push(vsnap(&d, &listing).await?);
    }
    Ok(Snap { latest, versions })
}
