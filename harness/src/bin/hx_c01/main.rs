//! C01: every commit is atomic; versions form a dense, monotone history.
//! The real write path (Dataset::write / append / delete / update / merge_insert / compact_files / create_index /
//! add_columns / drop_columns / update_config / restore / detached CommitBuilder) runs over a recording,
//! fault-injecting object store. Per operation kind and store/handler configuration:
//!   1. a clean run records the ordered trace of mutating store calls; it is checked against the model's
//!      protocol (`trace_ok` inside `chk_replay`) and, commit by commit, against the program the model builds
//!      for the transaction (`chk_prog`);
//!   2. for EVERY k the operation is re-run on a fresh copy of the pre-state with the k-th mutating call
//!      failing / taking effect and then stopping the process (future dropped) / losing its reply;
//!      the table is re-opened with a fresh session: direct oracle = versions(), ordered scan and validate()
//!      of every version equal the pre-operation snapshot, new versions are complete and dense, and the model
//!      replay of the recorded calls predicts exactly the versions the reader sees.
mod inject;
mod table;

use hxlib::util::{coq, Args, Rng, Sink, Stream};
use inject::{Ctl, Ev, Plan};
use serde_json::json;
use std::collections::HashMap;
use table::{build_prestate, run_op, snapshot, vsnap, Cfg, Env, Snap, OPS};

const REQ: &str = "Common.Base Store.Model_Handlers Store.Model_Commit";

#[derive(Clone, Copy, Debug, PartialEq)]
enum PK {
    File,
    Man(u64),
    Det(u64),
    Tmp(u64),
}

fn name_version(name: &str) -> Option<(bool, u64)> {
    // "<digits>.manifest" (V1), "<20 digits>.manifest" (V2, inverted), "d<digits>.manifest" (detached)
    let stem = name.strip_suffix(".manifest")?;
    if let Some(d) = stem.strip_prefix('d') {
        return d.parse::<u64>().ok().map(|v| (true, v));
    }
    let n = stem.parse::<u64>().ok()?;
    if stem.len() == 20 {
        Some((false, u64::MAX - n))
    } else {
        Some((false, n))
    }
}

fn classify(rel: &str) -> PK {
    if let Some(name) = rel.strip_prefix("_versions/") {
        if let Some(pos) = name.find(".manifest-") {
            // staging file "<final name>-<uuid>"
            if let Some((_, v)) = name_version(&name[..pos + 9]) {
                return PK::Tmp(v);
            }
        } else if let Some((det, v)) = name_version(name) {
            return if det { PK::Det(v) } else { PK::Man(v) };
        }
    }
    PK::File
}

/// file path -> model file id: pre-existing files 1..P in sorted order, new files in order of appearance
struct Ids {
    map: HashMap<String, u64>,
    next: u64,
}
impl Ids {
    fn new(pre_listing: &[String]) -> Ids {
        let mut ids = Ids { map: HashMap::new(), next: 1 };
        for p in pre_listing {
            if classify(p) == PK::File {
                ids.id(p);
            }
        }
        ids
    }
    fn id(&mut self, p: &str) -> u64 {
        if let Some(i) = self.map.get(p) {
            return *i;
        }
        let i = self.next;
        self.next += 1;
        self.map.insert(p.to_string(), i);
        i
    }
    fn code(&mut self, rel: &str) -> (u64, u64) {
        match classify(rel) {
            PK::File => (0, self.id(rel)),
            PK::Man(v) => (1, v),
            PK::Det(v) => (2, v),
            PK::Tmp(v) => (3, v),
        }
    }
}

fn pc(c: (u64, u64)) -> String {
    format!("({}, {})", c.0, c.1)
}

/// everything known about the pre-state of one configuration
struct Pre {
    env: Env,
    snap: Snap,
    listing: Vec<String>,
    /// detached manifests of the pre-state: (version, refs)
    detached: Vec<(u64, Vec<String>)>,
}

async fn detached_in(env: &Env, listing: &[String]) -> Result<Vec<(u64, Vec<String>, usize)>, String> {
    let mut out = vec![];
    for l in listing {
        if let PK::Det(v) = classify(l) {
            let d = env.open(None, Some(v)).await.map_err(|e| format!("open detached {v}: {e}"))?;
            let s = vsnap(&d, listing).await?;
            if !s.missing.is_empty() {
                return Err(format!("detached version {v} references missing files {:?}", s.missing));
            }
            out.push((v, s.refs, s.rows));
        }
    }
    Ok(out)
}

fn pre_codes(ids: &mut Ids, listing: &[String], snap: &Snap, detached: &[(u64, Vec<String>)]) -> String {
    let mut items = vec![];
    for l in listing {
        match classify(l) {
            PK::File => items.push(format!("({}, (0, []))", pc((0, ids.id(l))))),
            PK::Man(v) => {
                let (mv, refs) = match snap.versions.iter().find(|s| s.version == v) {
                    Some(s) => (s.version, s.refs.clone()),
                    None => (0, vec![]),
                };
                let r: Vec<u64> = refs.iter().map(|p| ids.id(p)).collect();
                items.push(format!("({}, ({}, {}))", pc((1, v)), mv, coq::nlist(r.iter())));
            }
            PK::Det(v) => {
                let refs = detached.iter().find(|d| d.0 == v).map(|d| d.1.clone()).unwrap_or_default();
                let r: Vec<u64> = refs.iter().map(|p| ids.id(p)).collect();
                items.push(format!("({}, ({}, {}))", pc((2, v)), v, coq::nlist(r.iter())));
            }
            PK::Tmp(v) => items.push(format!("({}, (0, []))", pc((3, v)))),
        }
    }
    coq::list(items)
}

fn call_codes(ids: &mut Ids, env: &Env, trace: &[Ev]) -> (String, Vec<serde_json::Value>) {
    let mut items = vec![];
    let mut human = vec![];
    for e in trace {
        if !e.effect {
            human.push(json!({"n": e.n, "kind": e.kind, "a": env.rel(&e.a), "b": env.rel(&e.b), "effect": false, "injected": e.injected}));
            continue;
        }
        let a = ids.code(&env.rel(&e.a));
        let b = if e.b.is_empty() { (0, 0) } else { ids.code(&env.rel(&e.b)) };
        items.push(format!("({}, ({}, {}))", e.kind, pc(a), pc(b)));
        human.push(json!({"n": e.n, "kind": e.kind, "a": env.rel(&e.a), "b": env.rel(&e.b), "code_a": [a.0, a.1], "injected": e.injected}));
    }
    (coq::list(items), human)
}

/// does this event make a final manifest path come into existence?
fn publishes(env: &Env, e: &Ev) -> Option<PK> {
    if !e.effect {
        return None;
    }
    let target = match e.kind {
        inject::K_PUT | inject::K_CREATE => env.rel(&e.a),
        inject::K_RENAME_INE | inject::K_COPY | inject::K_RENAME | inject::K_COPY_INE => env.rel(&e.b),
        _ => return None,
    };
    match classify(&target) {
        k @ (PK::Man(_) | PK::Det(_)) => Some(k),
        _ => None,
    }
}

/// A manifest publication that failed without being injected: another commit took the version slot. This only
/// happens when one operation commits concurrently with itself (compact_files with several tasks reserves
/// fragment ids from concurrent tasks); the conflict / retry path is C02's and C03's, the C01 model is about
/// sequential histories. Such runs keep the direct oracle but are not given to the model.
fn has_commit_conflict(env: &Env, trace: &[Ev]) -> bool {
    trace.iter().any(|e| {
        if e.effect || e.injected {
            return false;
        }
        let target = match e.kind {
            inject::K_PUT | inject::K_CREATE => env.rel(&e.a),
            inject::K_RENAME_INE | inject::K_COPY_INE => env.rel(&e.b),
            _ => return false,
        };
        matches!(classify(&target), PK::Man(_) | PK::Det(_))
    })
}

struct RunOut {
    res: Option<Result<(), String>>, // None: the process stopped
    trace: Vec<Ev>,
    calls: usize,
    env: Env,
}

async fn run_once(base: &Env, op: &str, plan: Plan, variant: u64, swallow: bool) -> RunOut {
    let env = base.fork();
    let ctl = Ctl::new(plan, swallow);
    let res = {
        let fut = run_op(&env, op, ctl.clone(), variant);
        tokio::select! {
            r = fut => Some(r),
            _ = ctl.stop_signal.notified() => None,
        }
    };
    if res.is_none() {
        ctl.settle().await;
    }
    let mut trace = ctl.trace();
    // calls that were in flight when the operation returned (an error in a concurrent task) or the process stopped:
    // the store call itself runs to its end; whether it took effect is read off the store
    let dropped = ctl.dropped_in_flight();
    if !dropped.is_empty() {
        // let the store calls that are still running land: wait until the store stops changing
        let mut listing = env.list_all().await;
        for _ in 0..40 {
            tokio::time::sleep(std::time::Duration::from_millis(150)).await;
            let again = env.list_all().await;
            let stable = again == listing;
            listing = again;
            if stable {
                break;
            }
        }
        for mut e in dropped {
            let (target, source_gone) = match e.kind {
                inject::K_PUT | inject::K_CREATE => (env.rel(&e.a), true),
                inject::K_DELETE => (String::new(), !listing.contains(&env.rel(&e.a))),
                // object_store's rename_if_not_exists on the local fs is link + unlink: a dropped call may have
                // linked the target and left the source; the target existing is the effect that matters
                inject::K_RENAME_INE | inject::K_RENAME => (env.rel(&e.b), true),
                _ => (env.rel(&e.b), true),
            };
            e.effect = (target.is_empty() || listing.contains(&target)) && source_gone;
            trace.push(e);
        }
    }
    RunOut { res, trace, calls: ctl.calls(), env }
}

const P_ITY: &str = "list ((N * N) * (N * list N)) * (N * ((list bool * (N * N)) * (list bool * list N)))";
const P_OTY: &str = "list (N * ((N * N) * (N * N))) * (N * list N)";

/// commit by commit: the recorded calls of a clean run against the program the model builds for the transaction
fn emit_prog(sink: &mut Sink, prog: &mut Stream, pre: &Pre, out: &RunOut, post: &Snap, det_after: &[(u64, Vec<String>, usize)], op: &str, variant: u64) {
    let env = &out.env;
    let cfg = pre.env.cfg;
    if has_commit_conflict(env, &out.trace) {
        return;
    }
    let mut ids = Ids::new(&pre.listing);
    // model-side description of the store at the start of the current commit: (path code, version, refs)
    let mut cur: Vec<((u64, u64), u64, Vec<u64>)> = vec![];
    for l in &pre.listing {
        match classify(l) {
            PK::File => cur.push(((0, ids.id(l)), 0, vec![])),
            PK::Man(v) => {
                let refs = pre.snap.versions.iter().find(|s| s.version == v).map(|s| s.refs.clone()).unwrap_or_default();
                let r = refs.iter().map(|p| ids.id(p)).collect();
                cur.push(((1, v), v, r));
            }
            PK::Det(v) => {
                let refs = pre.detached.iter().find(|d| d.0 == v).map(|d| d.1.clone()).unwrap_or_default();
                let r = refs.iter().map(|p| ids.id(p)).collect();
                cur.push(((2, v), v, r));
            }
            PK::Tmp(v) => cur.push(((3, v), 0, vec![])),
        }
    }
    let mut seg: Vec<&Ev> = vec![];
    let mut nseg = 0;
    for e in out.trace.iter().filter(|e| e.effect) {
        seg.push(e);
        let Some(pk) = publishes(env, e) else { continue };
        // one commit: seg = its calls
        let mut calls = vec![];
        let mut new_files: Vec<u64> = vec![];
        let mut human = vec![];
        for x in &seg {
            let (kind, a, b) = if x.kind == inject::K_COPY {
                (inject::K_PUT, ids.code(&env.rel(&x.b)), (0, 0)) // a copy that creates a file counts as a put
            } else {
                (x.kind, ids.code(&env.rel(&x.a)), if x.b.is_empty() { (0, 0) } else { ids.code(&env.rel(&x.b)) })
            };
            if a.0 == 0 && (kind == inject::K_PUT || kind == inject::K_CREATE) && !new_files.contains(&a.1) {
                new_files.push(a.1);
            }
            calls.push(format!("({}, ({}, {}))", kind, pc(a), pc(b)));
            human.push(json!({"kind": x.kind, "a": env.rel(&x.a), "b": env.rel(&x.b)}));
        }
        let (version, real_refs): (u64, Vec<String>) = match pk {
            PK::Man(v) => (v, post.versions.iter().find(|s| s.version == v).map(|s| s.refs.clone()).unwrap_or_default()),
            PK::Det(v) => (v, det_after.iter().find(|d| d.0 == v).map(|d| d.1.clone()).unwrap_or_default()),
            _ => unreachable!(),
        };
        let real: Vec<u64> = real_refs.iter().map(|p| ids.id(p)).collect();
        let restore_v = if op == "restore" { Some(1 + variant % 2) } else { None };
        // the base manifest: the restored version, else the latest attached one
        let base_refs: Vec<u64> = match restore_v {
            Some(v) => cur.iter().find(|c| c.0 == (1, v)).map(|c| c.2.clone()).unwrap_or_default(),
            None => cur.iter().filter(|c| c.0 .0 == 1).max_by_key(|c| c.0 .1).map(|c| c.2.clone()).unwrap_or_default(),
        };
        let (txn_file, data_files) = match new_files.split_last() {
            Some((t, d)) => (Some(*t), d.to_vec()),
            None => (None, vec![]),
        };
        let flags: Vec<bool> = data_files.iter().map(|f| real.contains(f)).collect();
        let keep: Vec<bool> = base_refs.iter().map(|f| real.contains(f)).collect();
        let mut adopt: Vec<u64> = real.iter().filter(|f| !new_files.contains(f) && !base_refs.contains(f)).cloned().collect();
        adopt.sort();
        adopt.dedup();
        // the references in the model's order
        let mut refs: Vec<u64> = data_files.iter().filter(|f| real.contains(f)).cloned().collect();
        if let Some(t) = txn_file {
            if real.contains(&t) {
                refs.push(t);
            }
        }
        refs.extend(base_refs.iter().filter(|f| real.contains(f)));
        refs.extend(adopt.iter());
        let det = matches!(pk, PK::Det(_));
        let pre_c = coq::list(cur.iter().map(|c| format!("({}, ({}, {}))", pc(c.0), c.1, coq::nlist(c.2.iter()))));
        let input = format!(
            "({}, ({}, (({}, ({}, {})), ({}, {}))))",
            pre_c,
            cfg.hcode(),
            coq::list(flags.iter().map(|b| coq::b(*b))),
            restore_v.map(|v| v + 1).unwrap_or(0),
            if det { format!("{}", version as u128 + 1) } else { "0".into() },
            coq::list(keep.iter().map(|b| coq::b(*b))),
            coq::nlist(adopt.iter())
        );
        let output = format!("({}, ({}, {}))", coq::list(calls), version, coq::nlist(refs.iter()));
        nseg += 1;
        sink.count("prog-commits");
        prog.push(input, output, json!({"cfg": cfg.name(), "op": op, "commit": nseg, "calls": human, "version": version.to_string(), "refs": real_refs, "files_referenced": flags, "adopted": adopt}));
        // the store after this commit
        for f in &new_files {
            cur.push(((0, *f), 0, vec![]));
        }
        cur.push((if det { (2, version) } else { (1, version) }, version, refs));
        seg.clear();
    }
}

/// The refusal of version numbers in the detached range (commit_transaction: is_detached_version(target_version)):
/// a table whose latest attached version is 2^63 - 1. The append must fail after writing its files and the
/// transaction file, publish nothing (in particular no `d<2^63>.manifest`), and the model's program for the
/// same store is exactly the recorded calls.
async fn refusal_arm(sink: &mut Sink, prog: &mut Stream, pre: &Pre) {
    let cfg = pre.env.cfg;
    let big: u64 = (1u64 << 63) - 1;
    let env = pre.env.fork();
    if let Err(e) = table::plant_version(&env, big).await {
        sink.oracle_fail(None, &format!("refusal arm: cannot plant version 2^63-1 on {}: {e}", cfg.name()), json!({"cfg": cfg.name()}));
        return;
    }
    let before = env.list_all().await;
    let base = Pre { env, snap: pre.snap.clone(), listing: before.clone(), detached: pre.detached.clone() };
    let out = run_once(&base.env, "append", Plan::Clean, 0, false).await;
    let after = out.env.list_all().await;
    let vers_before: Vec<&String> = before.iter().filter(|p| p.starts_with("_versions/")).collect();
    let vers_after: Vec<&String> = after.iter().filter(|p| p.starts_with("_versions/")).collect();
    let human: Vec<serde_json::Value> = out.trace.iter().map(|e| json!({"kind": e.kind, "a": out.env.rel(&e.a), "effect": e.effect})).collect();
    let case = json!({"cfg": cfg.name(), "op": "append on a table whose latest version is 2^63-1", "result": format!("{:?}", out.res), "trace": human, "versions_dir_after": vers_after});
    sink.count("refusal-arm");
    let latest_after = out.env.open(None, None).await.map(|d| d.version().version).unwrap_or(0);
    let mut bad = None;
    match &out.res {
        Some(Err(e)) if e.contains("detached") => {}
        other => bad = Some(format!("append at version 2^63-1 must be refused, got {:?}", other)),
    }
    if vers_before != vers_after {
        bad = Some(format!("a refused commit changed _versions: {:?} -> {:?}", vers_before, vers_after));
    }
    if latest_after != big {
        bad = Some(format!("latest version after the refused commit is {latest_after}, expected {big}"));
    }
    match bad {
        Some(w) => sink.oracle_fail(None, &format!("refusal arm on {}: {w}", cfg.name()), case.clone()),
        None => sink.oracle_ok(),
    }
    // model: the program for this store is the file puts only
    let mut ids = Ids::new(&base.listing);
    let latest_refs: Vec<String> = pre.snap.versions.last().map(|s| s.refs.clone()).unwrap_or_default();
    let mut items = vec![];
    for l in &base.listing {
        match classify(l) {
            PK::File => items.push(format!("({}, (0, []))", pc((0, ids.id(l))))),
            PK::Man(v) => {
                let refs = if v == big { latest_refs.clone() } else { pre.snap.versions.iter().find(|s| s.version == v).map(|s| s.refs.clone()).unwrap_or_default() };
                let r: Vec<u64> = refs.iter().map(|p| ids.id(p)).collect();
                items.push(format!("({}, ({}, {}))", pc((1, v)), v, coq::nlist(r.iter())));
            }
            PK::Det(v) => {
                let refs = pre.detached.iter().find(|d| d.0 == v).map(|d| d.1.clone()).unwrap_or_default();
                let r: Vec<u64> = refs.iter().map(|p| ids.id(p)).collect();
                items.push(format!("({}, ({}, {}))", pc((2, v)), v, coq::nlist(r.iter())));
            }
            PK::Tmp(v) => items.push(format!("({}, (0, []))", pc((3, v)))),
        }
    }
    let mut calls = vec![];
    let mut nfiles = 0usize;
    for e in out.trace.iter().filter(|e| e.effect) {
        let a = ids.code(&out.env.rel(&e.a));
        let b = if e.b.is_empty() { (0, 0) } else { ids.code(&out.env.rel(&e.b)) };
        if a.0 == 0 {
            nfiles += 1;
        }
        calls.push(format!("({}, ({}, {}))", e.kind, pc(a), pc(b)));
    }
    let flags: Vec<String> = (0..nfiles.saturating_sub(1)).map(|_| coq::b(true)).collect();
    let keep: Vec<String> = latest_refs.iter().map(|_| coq::b(true)).collect();
    let input = format!("({}, ({}, (({}, (0, 0)), ({}, []))))", coq::list(items), cfg.hcode(), coq::list(flags), coq::list(keep));
    let output = format!("({}, (0, []))", coq::list(calls));
    prog.push(input, output, case);
}

const ITY: &str = "(list ((N * N) * (N * list N)) * list (N * ((N * N) * (N * N)))) * (bool * list (N * list N))";
const OTY: &str = "N * list N";

#[allow(clippy::too_many_arguments)]
async fn judge_and_emit(
    sink: &mut Sink,
    replay: &mut Stream,
    pre: &Pre,
    clean: Option<&(Snap, Vec<(u64, Vec<String>, usize)>)>, // post snapshot + detached manifests of the clean run
    out: &RunOut,
    op: &str,
    label: &str,
    complete: bool,
    sabotage_trace: bool,
) -> Option<(Snap, Vec<(u64, Vec<String>, usize)>)> {
    let env = &out.env;
    let cfg = pre.env.cfg;
    let n_pre = pre.snap.versions.len();
    let human_trace: Vec<serde_json::Value> = out
        .trace
        .iter()
        .map(|e| json!({"n": e.n, "kind": e.kind, "a": env.rel(&e.a), "b": env.rel(&e.b), "effect": e.effect, "injected": e.injected}))
        .collect();
    let case = json!({"cfg": cfg.name(), "op": op, "fault": label, "result": match &out.res { None => "stopped".to_string(), Some(Ok(())) => "ok".to_string(), Some(Err(e)) => format!("err: {e}") }, "trace": human_trace});
    sink.count(&format!("{}/{}", cfg.name(), op));
    sink.count(&format!("mode/{}", label.split('@').next().unwrap_or(label)));
    sink.nontrivial(&format!("{}/{}/{}", cfg.name(), op, label));

    // ---------- direct oracle: what a fresh reader sees ----------
    let snap = match snapshot(env).await {
        Ok(s) => s,
        Err(e) => {
            sink.oracle_fail(None, &format!("table unreadable after {op} [{label}]: {e}"), case);
            return None;
        }
    };
    let listing = env.list_all().await;
    let det_after = match detached_in(env, &listing).await {
        Ok(d) => d,
        Err(e) => {
            sink.oracle_fail(None, &format!("detached manifest unreadable after {op} [{label}]: {e}"), case);
            return None;
        }
    };
    let published_attached = out.trace.iter().filter(|e| matches!(publishes(env, e), Some(PK::Man(_)))).count();
    let published_detached = out.trace.iter().filter(|e| matches!(publishes(env, e), Some(PK::Det(_)))).count();
    let mut bad: Option<String> = None;
    let mut fail = |w: String| {
        if bad.is_none() {
            bad = Some(w);
        }
    };
    // old versions: identical to the pre-operation snapshot
    for (i, old) in pre.snap.versions.iter().enumerate() {
        match snap.versions.get(i) {
            Some(s) if s == old => {}
            Some(s) => fail(format!("version {} changed: rows {} -> {}, ordered-scan hash {:x} -> {:x}, missing {:?}", old.version, old.rows, s.rows, old.ordered, s.ordered, s.missing)),
            None => fail(format!("version {} disappeared", old.version)),
        }
    }
    // dense 1..N, latest = N
    let vs: Vec<u64> = snap.versions.iter().map(|s| s.version).collect();
    if vs != (1..=vs.len() as u64).collect::<Vec<u64>>() {
        fail(format!("versions are not dense 1..N: {:?}", vs));
    }
    if snap.latest != vs.len() as u64 {
        fail(format!("latest version is {} but versions() = {:?}", snap.latest, vs));
    }
    let new_vs = &snap.versions[n_pre.min(snap.versions.len())..];
    for s in new_vs {
        if !s.missing.is_empty() {
            fail(format!("version {} is visible but references files that do not exist: {:?}", s.version, s.missing));
        }
    }
    // exactly the publications that took effect are visible
    if new_vs.len() != published_attached {
        fail(format!("{} manifest publications took effect but {} new versions are visible", published_attached, new_vs.len()));
    }
    let n_det_pre = pre.detached.len();
    if det_after.len() != n_det_pre + published_detached {
        fail(format!("{} detached publications took effect but {} new detached manifests exist", published_detached, det_after.len() as i64 - n_det_pre as i64));
    }
    for d in &pre.detached {
        if !det_after.iter().any(|x| x.0 == d.0 && x.1 == d.1) {
            fail(format!("detached version {} changed or disappeared", d.0));
        }
    }
    if op == "detached" && !new_vs.is_empty() {
        fail(format!("a detached commit changed the attached history: new versions {:?}", new_vs.iter().map(|s| s.version).collect::<Vec<_>>()));
    }
    match (&out.res, complete) {
        (Some(Ok(())), _) => {
            // success: exactly the versions of a clean run
            if op == "detached" {
                if published_detached != 1 {
                    fail(format!("detached commit returned Ok but {} detached manifests were published", published_detached));
                }
            } else if new_vs.is_empty() {
                fail("operation returned Ok but no new version is visible".into());
            }
        }
        (_, true) => fail(format!("clean run did not succeed: {:?}", out.res)),
        _ => {}
    }
    if let Some((cs, cdet)) = clean {
        // new versions are a prefix of the clean run's new versions, each complete
        let cnew = &cs.versions[n_pre..];
        if new_vs.len() > cnew.len() {
            fail(format!("{} new versions, the clean run makes {}", new_vs.len(), cnew.len()));
        }
        for (s, c) in new_vs.iter().zip(cnew) {
            if s.version != c.version || s.rows != c.rows || s.sorted != c.sorted {
                fail(format!("new version {} differs from the clean run's version {}: rows {} vs {}, content hash {:x} vs {:x}", s.version, c.version, s.rows, c.rows, s.sorted, c.sorted));
            }
        }
        if matches!(out.res, Some(Ok(()))) && new_vs.len() != cnew.len() {
            fail(format!("operation returned Ok with {} new versions, the clean run makes {}", new_vs.len(), cnew.len()));
        }
        let cnewdet: Vec<usize> = cdet.iter().filter(|d| !pre.detached.iter().any(|p| p.0 == d.0)).map(|d| d.2).collect();
        for d in det_after.iter().filter(|d| !pre.detached.iter().any(|p| p.0 == d.0)) {
            if !cnewdet.contains(&d.2) {
                fail(format!("new detached version {} has {} rows, the clean run's has {:?}", d.0, d.2, cnewdet));
            }
        }
    }
    drop(fail);
    match bad {
        Some(w) => sink.oracle_fail(None, &format!("{op} [{label}] on {}: {w}", cfg.name()), case.clone()),
        None => sink.oracle_ok(),
    }

    // ---------- model: replay the recorded calls ----------
    if has_commit_conflict(env, &out.trace) {
        sink.count("outside-model/concurrent-commit-inside-one-operation");
        return Some((snap, det_after));
    }
    let mut ids = Ids::new(&pre.listing);
    let pre_c = pre_codes(&mut ids, &pre.listing, &pre.snap, &pre.detached);
    let mut trace = out.trace.clone();
    if sabotage_trace && complete && trace.len() >= 2 {
        // sanity test: pretend the manifest was published before the transaction file was written
        let n = trace.len();
        trace.swap(n - 1, n - 2);
    }
    let (calls_c, _) = call_codes(&mut ids, env, &trace);
    let mut mans = vec![];
    for s in new_vs {
        let r: Vec<u64> = s.refs.iter().map(|p| ids.id(p)).collect();
        mans.push(format!("({}, {})", s.version, coq::nlist(r.iter())));
    }
    for d in det_after.iter().filter(|d| !pre.detached.iter().any(|p| p.0 == d.0)) {
        let r: Vec<u64> = d.1.iter().map(|p| ids.id(p)).collect();
        mans.push(format!("({}, {})", d.0, coq::nlist(r.iter())));
    }
    let input = format!("(({}, {}), ({}, {}))", pre_c, calls_c, coq::b(complete), coq::list(mans));
    let output = format!("({}, {})", snap.latest, coq::nlist(vs.iter()));
    replay.push(input, output, case);
    Some((snap, det_after))
}

fn main() {
    let (sub, args) = Args::parse();
    if sub != "c01" {
        eprintln!("unknown subcommand {sub}");
        std::process::exit(2);
    }
    let dump = args.rest.iter().any(|a| a == "--dump");
    let swallow = args.rest.iter().any(|a| a == "--sanity-swallow");
    let sabotage_trace = args.rest.iter().any(|a| a == "--sanity-reorder");
    let only_op: Option<String> = args.rest.iter().position(|a| a == "--op").and_then(|i| args.rest.get(i + 1).cloned());
    let rt = tokio::runtime::Builder::new_multi_thread().worker_threads(4).enable_all().build().unwrap();
    let mut sink = Sink::new("C01", &args.out);
    let mut rng = Rng::new(args.seed);
    let mut replay = Stream::new("replay", REQ, "chk_replay", ITY, OTY);
    replay.shard = 150;
    let mut prog = Stream::new("prog", REQ, "chk_prog", P_ITY, P_OTY);
    prog.shard = 150;

    let cfgs: Vec<Cfg> = if args.thorough() { vec![Cfg::LocalRename, Cfg::MemCondPut, Cfg::LocalLock, Cfg::LocalCondPut] } else { vec![Cfg::LocalRename, Cfg::MemCondPut, Cfg::LocalLock] };
    let t0 = std::time::Instant::now();
    let mut plans: Vec<(Cfg, bool)> = cfgs.iter().map(|c| (*c, false)).collect();
    if args.thorough() {
        plans.push((Cfg::MemCondPut, true));
        plans.push((Cfg::LocalRename, true));
    }
    for (cfg, long) in plans {
        rt.block_on(async {
            let env = build_prestate(cfg, long).await;
            let snap = snapshot(&env).await.expect("pre-state snapshot");
            let listing = env.list_all().await;
            let detached: Vec<(u64, Vec<String>)> = detached_in(&env, &listing).await.expect("pre-state detached").into_iter().map(|d| (d.0, d.1)).collect();
            let pre = Pre { env, snap, listing, detached };
            let empty_env = Env::empty(cfg);
            if cfg != Cfg::LocalLock && only_op.is_none() {
                refusal_arm(&mut sink, &mut prog, &pre).await;
            }
            let pre_empty = Pre { env: empty_env, snap: Snap { latest: 0, versions: vec![] }, listing: vec![], detached: vec![] };
            for op in OPS {
                if let Some(o) = &only_op {
                    if o != op {
                        continue;
                    }
                }
                if op == "detached" && !cfg.v2() {
                    continue; // detached commits need V2 names
                }
                // the lock configuration runs a subset in the quick tier
                if cfg == Cfg::LocalLock && !args.thorough() && !["append", "delete", "create", "compact", "detached"].contains(&op) {
                    continue;
                }
                if long && ["create", "overwrite_uri", "restore"].contains(&op) {
                    continue;
                }
                let p = if op == "create" { &pre_empty } else { &pre };
                let variants: Vec<u64> = if args.thorough() && !long { vec![0, 1, 2, 3] } else { vec![rng.below(4)] };
                for variant in variants {
                // 1. clean run
                let clean_out = run_once(&p.env, op, Plan::Clean, variant, false).await;
                if dump {
                    println!("== {} {} variant {} -> {:?}", cfg.name(), op, variant, clean_out.res);
                    for e in &clean_out.trace {
                        println!("   #{} kind {} {} {} effect={}", e.n, e.kind, clean_out.env.rel(&e.a), clean_out.env.rel(&e.b), e.effect);
                    }
                }
                let clean = judge_and_emit(&mut sink, &mut replay, p, None, &clean_out, op, "clean", true, sabotage_trace).await;
                let Some(clean) = clean else { continue };
                emit_prog(&mut sink, &mut prog, p, &clean_out, &clean.0, &clean.1, op, variant);
                let n = clean_out.calls;
                // 2. every fault point
                for k in 1..=n {
                    let mut plans = vec![Plan::Fail(k), Plan::StopAfter(k)];
                    if args.thorough() || k + 3 > n {
                        plans.push(Plan::Lost(k));
                    }
                    for plan in plans {
                        let label = match plan {
                            Plan::Fail(k) => format!("fail@{k}"),
                            Plan::StopAfter(k) => format!("stop-after@{k}"),
                            Plan::Lost(k) => format!("lost@{k}"),
                            Plan::Clean => "clean".into(),
                        };
                        let out = run_once(&p.env, op, plan, variant, swallow).await;
                        judge_and_emit(&mut sink, &mut replay, p, Some(&clean), &out, op, &label, false, false).await;
                    }
                }
                }
            }
        });
        eprintln!("[hx_c01] {}{} done at {:.1}s", cfg.name(), if long { " (long history)" } else { "" }, t0.elapsed().as_secs_f64());
    }
    sink.add(replay);
    sink.add(prog);
    sink.notes.push("recording + fault-injecting object_store wrapper under the real write path; every mutating call of every operation kind failed / stopped / reply lost; fresh-session reader oracle; model replay of the recorded calls".into());
    sink.finish();
    // background tasks of stopped operations hang on the gated store forever: leave without joining them
    std::process::exit(0);
}
