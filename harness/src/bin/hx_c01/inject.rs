//! Recording + fault-injecting object store, installed through `ObjectStoreParams.object_store_wrapper`.
//! Every *mutating* store call (put / put_opts / multipart complete / copy / rename / copy_if_not_exists /
//! rename_if_not_exists / delete) gets the next call number when it starts; the plan decides what happens
//! to call number k:
//!   Fail(k)      the call returns an error and has no effect (later calls behave normally)
//!   Lost(k)      the call takes effect, then returns an error (lost reply)
//!   StopAfter(k) the call takes effect and never returns; from then on every call of the store hangs
//!                (the process has stopped) - the driver drops the operation's future
//! Calls are recorded when they finish (order of effects).
use async_trait::async_trait;
use bytes::Bytes;
use futures::stream::BoxStream;
use lance_io::object_store::WrappingObjectStore;
use object_store::path::Path;
use object_store::{
    GetOptions, GetResult, ListResult, MultipartUpload, ObjectMeta, ObjectStore, PutMode, PutMultipartOptions, PutOptions, PutPayload,
    PutResult, UploadPart,
};
use std::ops::Range;
use std::sync::atomic::{AtomicBool, AtomicUsize, Ordering};
use std::sync::{Arc, Mutex};

#[derive(Clone, Copy, Debug, PartialEq)]
pub enum Plan {
    Clean,
    Fail(usize),
    Lost(usize),
    StopAfter(usize),
}

/// call kinds as the model's call codes
pub const K_PUT: u64 = 0;
pub const K_CREATE: u64 = 1;
pub const K_RENAME_INE: u64 = 2;
pub const K_DELETE: u64 = 3;
pub const K_COPY: u64 = 4;
pub const K_RENAME: u64 = 5;
pub const K_COPY_INE: u64 = 6;

#[derive(Clone, Debug)]
pub struct Ev {
    pub n: usize, // call number (order of starts), 1-based
    pub kind: u64,
    pub a: String,
    pub b: String,
    pub effect: bool,   // the inner call was executed and succeeded
    pub injected: bool, // this call was the one the plan hit
    pub err: bool,      // what the caller saw
    /// the call started but its future was dropped before it reported (the operation returned, or the process
    /// stopped, while the call was in flight): whether it took effect is decided from the store afterwards
    pub unknown: bool,
}

pub struct Ctl {
    pub plan: Mutex<Plan>,
    pub counter: AtomicUsize,
    pub stopped: AtomicBool,
    pub stop_signal: tokio::sync::Notify,
    pub trace: Mutex<Vec<Ev>>,
    /// inner calls that have started and not yet been recorded
    pub inflight: AtomicUsize,
    /// calls that have started and not reported yet
    pub pending: Mutex<std::collections::BTreeMap<usize, Ev>>,
    /// sanity-test switch: swallow the injected error of Fail(k) (report success without doing the call)
    pub swallow: bool,
}
impl std::fmt::Debug for Ctl {
    fn fmt(&self, f: &mut std::fmt::Formatter<'_>) -> std::fmt::Result {
        write!(f, "Ctl")
    }
}
impl Ctl {
    pub fn new(plan: Plan, swallow: bool) -> Arc<Self> {
        Arc::new(Ctl {
            plan: Mutex::new(plan),
            counter: AtomicUsize::new(0),
            stopped: AtomicBool::new(false),
            stop_signal: tokio::sync::Notify::new(),
            trace: Mutex::new(vec![]),
            inflight: AtomicUsize::new(0),
            pending: Mutex::new(Default::default()),
            swallow,
        })
    }
    pub fn calls(&self) -> usize {
        self.counter.load(Ordering::SeqCst)
    }
    /// after a stop: wait until the calls that were in flight have landed
    pub async fn settle(&self) {
        for _ in 0..2000 {
            if self.inflight.load(Ordering::SeqCst) == 0 {
                return;
            }
            tokio::time::sleep(std::time::Duration::from_millis(2)).await;
        }
    }
    pub fn trace(&self) -> Vec<Ev> {
        self.trace.lock().unwrap().clone()
    }
    /// calls whose future was dropped while in flight
    pub fn dropped_in_flight(&self) -> Vec<Ev> {
        self.pending.lock().unwrap().values().cloned().collect()
    }
    fn start(&self, n: usize, kind: u64, a: &Path, b: Option<&Path>) {
        self.pending.lock().unwrap().insert(
            n,
            Ev { n, kind, a: a.to_string(), b: b.map(|p| p.to_string()).unwrap_or_default(), effect: false, injected: false, err: false, unknown: true },
        );
    }
    async fn gate(&self) {
        if self.stopped.load(Ordering::SeqCst) {
            futures::future::pending::<()>().await;
        }
    }
    fn next(&self) -> (usize, Plan) {
        let n = self.counter.fetch_add(1, Ordering::SeqCst) + 1;
        (n, *self.plan.lock().unwrap())
    }
    fn record(&self, n: usize, kind: u64, a: &Path, b: Option<&Path>, effect: bool, injected: bool, err: bool) {
        self.pending.lock().unwrap().remove(&n);
        self.trace.lock().unwrap().push(Ev {
            unknown: false,
            n,
            kind,
            a: a.to_string(),
            b: b.map(|p| p.to_string()).unwrap_or_default(),
            effect,
            injected,
            err,
        });
    }
}

fn injected_err() -> object_store::Error {
    object_store::Error::Generic { store: "hx_c01", source: "injected fault".into() }
}

#[derive(Debug)]
pub struct Inject {
    pub inner: Arc<dyn ObjectStore>,
    pub ctl: Arc<Ctl>,
}
impl std::fmt::Display for Inject {
    fn fmt(&self, f: &mut std::fmt::Formatter<'_>) -> std::fmt::Result {
        write!(f, "Inject({})", self.inner)
    }
}

/// run one mutating call under the plan; `$call` is the inner future, `$okv` the value reported when the
/// sanity switch swallows an injected failure
macro_rules! mutating {
    ($self:ident, $kind:expr, $a:expr, $b:expr, $call:expr, $okv:expr) => {{
        $self.ctl.gate().await;
        let (n, plan) = $self.ctl.next();
        match plan {
            Plan::Fail(k) if k == n => {
                if $self.ctl.swallow {
                    $self.ctl.record(n, $kind, $a, $b, false, true, false);
                    Ok($okv)
                } else {
                    $self.ctl.record(n, $kind, $a, $b, false, true, true);
                    Err(injected_err())
                }
            }
            Plan::Lost(k) if k == n => {
                $self.ctl.inflight.fetch_add(1, Ordering::SeqCst);
                $self.ctl.start(n, $kind, $a, $b);
                let r = $call.await;
                $self.ctl.record(n, $kind, $a, $b, r.is_ok(), true, true);
                $self.ctl.inflight.fetch_sub(1, Ordering::SeqCst);
                Err(injected_err())
            }
            Plan::StopAfter(k) if k == n => {
                $self.ctl.inflight.fetch_add(1, Ordering::SeqCst);
                $self.ctl.start(n, $kind, $a, $b);
                let r = $call.await;
                $self.ctl.record(n, $kind, $a, $b, r.is_ok(), true, true);
                $self.ctl.inflight.fetch_sub(1, Ordering::SeqCst);
                $self.ctl.stopped.store(true, Ordering::SeqCst);
                $self.ctl.stop_signal.notify_one();
                futures::future::pending::<()>().await;
                unreachable!()
            }
            _ => {
                $self.ctl.inflight.fetch_add(1, Ordering::SeqCst);
                $self.ctl.start(n, $kind, $a, $b);
                let r = $call.await;
                $self.ctl.record(n, $kind, $a, $b, r.is_ok(), false, r.is_err());
                $self.ctl.inflight.fetch_sub(1, Ordering::SeqCst);
                // a call that was in flight when the process stopped takes effect but never reports
                $self.ctl.gate().await;
                r
            }
        }
    }};
}

#[async_trait]
impl ObjectStore for Inject {
    async fn put_opts(&self, location: &Path, payload: PutPayload, opts: PutOptions) -> object_store::Result<PutResult> {
        let kind = if matches!(opts.mode, PutMode::Create) { K_CREATE } else { K_PUT };
        mutating!(self, kind, location, None, self.inner.put_opts(location, payload.clone(), opts.clone()), PutResult { e_tag: None, version: None })
    }
    async fn put_multipart_opts(&self, location: &Path, opts: PutMultipartOptions) -> object_store::Result<Box<dyn MultipartUpload>> {
        self.ctl.gate().await;
        let inner = self.inner.put_multipart_opts(location, opts).await?;
        Ok(Box::new(InjectUpload { inner, ctl: self.ctl.clone(), location: location.clone() }))
    }
    async fn get_opts(&self, location: &Path, options: GetOptions) -> object_store::Result<GetResult> {
        self.ctl.gate().await;
        self.inner.get_opts(location, options).await
    }
    async fn get_range(&self, location: &Path, range: Range<u64>) -> object_store::Result<Bytes> {
        self.ctl.gate().await;
        self.inner.get_range(location, range).await
    }
    async fn get_ranges(&self, location: &Path, ranges: &[Range<u64>]) -> object_store::Result<Vec<Bytes>> {
        self.ctl.gate().await;
        self.inner.get_ranges(location, ranges).await
    }
    async fn head(&self, location: &Path) -> object_store::Result<ObjectMeta> {
        self.ctl.gate().await;
        self.inner.head(location).await
    }
    async fn delete(&self, location: &Path) -> object_store::Result<()> {
        mutating!(self, K_DELETE, location, None, self.inner.delete(location), ())
    }
    fn list(&self, prefix: Option<&Path>) -> BoxStream<'static, object_store::Result<ObjectMeta>> {
        self.inner.list(prefix)
    }
    fn list_with_offset(&self, prefix: Option<&Path>, offset: &Path) -> BoxStream<'static, object_store::Result<ObjectMeta>> {
        self.inner.list_with_offset(prefix, offset)
    }
    async fn list_with_delimiter(&self, prefix: Option<&Path>) -> object_store::Result<ListResult> {
        self.ctl.gate().await;
        self.inner.list_with_delimiter(prefix).await
    }
    async fn copy(&self, from: &Path, to: &Path) -> object_store::Result<()> {
        mutating!(self, K_COPY, from, Some(to), self.inner.copy(from, to), ())
    }
    async fn rename(&self, from: &Path, to: &Path) -> object_store::Result<()> {
        mutating!(self, K_RENAME, from, Some(to), self.inner.rename(from, to), ())
    }
    async fn copy_if_not_exists(&self, from: &Path, to: &Path) -> object_store::Result<()> {
        mutating!(self, K_COPY_INE, from, Some(to), self.inner.copy_if_not_exists(from, to), ())
    }
    async fn rename_if_not_exists(&self, from: &Path, to: &Path) -> object_store::Result<()> {
        // one atomic primitive of the store (assumption of the property: the store's rename is atomic)
        mutating!(self, K_RENAME_INE, from, Some(to), self.inner.rename_if_not_exists(from, to), ())
    }
}

/// multipart upload: the object appears when `complete` succeeds; that is the mutating call
#[derive(Debug)]
struct InjectUpload {
    inner: Box<dyn MultipartUpload>,
    ctl: Arc<Ctl>,
    location: Path,
}
#[async_trait]
impl MultipartUpload for InjectUpload {
    fn put_part(&mut self, data: PutPayload) -> UploadPart {
        self.inner.put_part(data)
    }
    async fn complete(&mut self) -> object_store::Result<PutResult> {
        let loc = self.location.clone();
        mutating!(self, K_PUT, &loc, None, self.inner.complete(), PutResult { e_tag: None, version: None })
    }
    async fn abort(&mut self) -> object_store::Result<()> {
        self.ctl.gate().await;
        self.inner.abort().await
    }
}

#[derive(Debug)]
pub struct Wrap(pub Arc<Ctl>);
impl WrappingObjectStore for Wrap {
    fn wrap(&self, _store_prefix: &str, original: Arc<dyn ObjectStore>) -> Arc<dyn ObjectStore> {
        Arc::new(Inject { inner: original, ctl: self.0.clone() })
    }
}
