//! Table driver of the C13 histories: a local temp-dir dataset (k:int64 key, x:int64 nullable, s:utf8 nullable,
//! v:fixed_size_list<f32,4>, optionally an added column z), small files, deletes, updates, indices.
#![allow(dead_code)]
use arrow_array::types::Float32Type;
use arrow_array::{Array, FixedSizeListArray, Float32Array, Int64Array, RecordBatch, RecordBatchIterator, StringArray, UInt64Array};
use arrow_schema::{DataType, Field, Schema as ArrowSchema};
use futures::TryStreamExt;
use hxlib::util::Rng;
use lance::dataset::{NewColumnTransform, UpdateBuilder, WriteMode, WriteParams};
use lance::index::vector::VectorIndexParams;
use lance::Dataset;
use lance_file::version::LanceFileVersion;
use lance_index::scalar::ScalarIndexParams;
use lance_index::{DatasetIndexExt, IndexType};
use lance_linalg::distance::MetricType;
use std::future::Future;
use std::sync::Arc;

/// Run a fallible async operation on its own task: Ok | Err((is_panic, message)).
pub async fn guarded<T: Send + 'static>(fut: impl Future<Output = lance::Result<T>> + Send + 'static) -> Result<T, (bool, String)> {
    match tokio::spawn(fut).await {
        Ok(Ok(v)) => Ok(v),
        Ok(Err(e)) => Err((false, e.to_string().chars().take(400).collect())),
        Err(e) => {
            let is_panic = e.is_panic();
            let msg = if is_panic {
                let p = e.into_panic();
                if let Some(s) = p.downcast_ref::<String>() {
                    s.clone()
                } else if let Some(s) = p.downcast_ref::<&str>() {
                    s.to_string()
                } else {
                    "panic".into()
                }
            } else {
                "cancelled".into()
            };
            Err((is_panic, msg.chars().take(400).collect()))
        }
    }
}

pub fn x_of(k: i64) -> Option<i64> {
    if k % 11 == 7 {
        None
    } else {
        Some((k * 7) % 23)
    }
}
pub fn s_of(k: i64) -> Option<String> {
    if k % 5 == 4 {
        None
    } else {
        Some(format!("s{k}"))
    }
}
pub fn v_of(k: i64) -> [f32; 4] {
    [k as f32, 1.0, 0.0, 0.0]
}

pub fn schema() -> Arc<ArrowSchema> {
    Arc::new(ArrowSchema::new(vec![
        Field::new("k", DataType::Int64, false),
        Field::new("x", DataType::Int64, true),
        Field::new("s", DataType::Utf8, true),
        Field::new("v", DataType::FixedSizeList(Arc::new(Field::new("item", DataType::Float32, true)), 4), true),
    ]))
}

pub fn mk_batch(keys: &[i64]) -> RecordBatch {
    let v = FixedSizeListArray::from_iter_primitive::<Float32Type, _, _>(keys.iter().map(|k| Some(v_of(*k).iter().map(|f| Some(*f)).collect::<Vec<_>>())), 4);
    RecordBatch::try_new(
        schema(),
        vec![
            Arc::new(Int64Array::from(keys.to_vec())),
            Arc::new(Int64Array::from(keys.iter().map(|k| x_of(*k)).collect::<Vec<_>>())),
            Arc::new(StringArray::from(keys.iter().map(|k| s_of(*k)).collect::<Vec<_>>())),
            Arc::new(v),
        ],
    )
    .unwrap()
}

/// One visible row of a full scan, everything the property talks about.
#[derive(Clone, Debug, PartialEq, PartialOrd)]
pub struct Row {
    pub k: i64,
    pub x: Option<i64>,
    pub s: Option<String>,
    pub v0: u32, // bits of v[0] (v[1..] are constants)
    pub z: Option<i64>,
    pub rowid: u64,
    pub addr: u64,
    pub created: u64,
    pub updated: u64,
}
impl Row {
    /// the user columns
    pub fn content(&self) -> (i64, Option<i64>, Option<String>, u32, Option<i64>) {
        (self.k, self.x, self.s.clone(), self.v0, self.z)
    }
}

fn col_u64(b: &RecordBatch, name: &str) -> UInt64Array {
    b.column_by_name(name).unwrap_or_else(|| panic!("no column {name}")).as_any().downcast_ref::<UInt64Array>().unwrap().clone()
}

/// Full ordered scan with _rowid, _rowaddr and (stable tables) the two version columns.
pub async fn scan_rows(ds: &Dataset, has_z: bool, versions: bool) -> lance::Result<Vec<Row>> {
    let mut sc = ds.scan();
    let mut cols = vec!["k", "x", "s", "v", "_rowid", "_rowaddr"];
    if has_z {
        cols.push("z");
    }
    if versions {
        cols.push("_row_created_at_version");
        cols.push("_row_last_updated_at_version");
    }
    sc.project(&cols)?;
    sc.scan_in_order(true);
    let batches: Vec<RecordBatch> = sc.try_into_stream().await?.try_collect().await?;
    let mut out = vec![];
    for b in batches {
        let k = b.column_by_name("k").unwrap().as_any().downcast_ref::<Int64Array>().unwrap().clone();
        let x = b.column_by_name("x").unwrap().as_any().downcast_ref::<Int64Array>().unwrap().clone();
        let s = b.column_by_name("s").unwrap().as_any().downcast_ref::<StringArray>().unwrap().clone();
        let v = b.column_by_name("v").unwrap().as_any().downcast_ref::<FixedSizeListArray>().unwrap().clone();
        let vv = v.values().as_any().downcast_ref::<Float32Array>().unwrap().clone();
        let z = if has_z { Some(b.column_by_name("z").unwrap().as_any().downcast_ref::<Int64Array>().unwrap().clone()) } else { None };
        let rid = col_u64(&b, "_rowid");
        let addr = col_u64(&b, "_rowaddr");
        let (c, u) = if versions { (Some(col_u64(&b, "_row_created_at_version")), Some(col_u64(&b, "_row_last_updated_at_version"))) } else { (None, None) };
        for i in 0..b.num_rows() {
            out.push(Row {
                k: k.value(i),
                x: if x.is_null(i) { None } else { Some(x.value(i)) },
                s: if s.is_null(i) { None } else { Some(s.value(i).to_string()) },
                v0: if v.is_null(i) { u32::MAX } else { vv.value(i * 4).to_bits() },
                z: z.as_ref().and_then(|z| if z.is_null(i) { None } else { Some(z.value(i)) }),
                rowid: rid.value(i),
                addr: addr.value(i),
                created: c.as_ref().map(|c| c.value(i)).unwrap_or(1),
                updated: u.as_ref().map(|c| c.value(i)).unwrap_or(1),
            });
        }
    }
    Ok(out)
}

/// keys of the rows a filter selects (sorted); `use_index` = let the scanner use scalar indices
pub async fn filter_keys(ds: &Dataset, pred: &str, use_index: bool) -> lance::Result<Vec<i64>> {
    let mut sc = ds.scan();
    sc.project(&["k"])?;
    sc.filter(pred)?;
    sc.use_scalar_index(use_index);
    let batches: Vec<RecordBatch> = sc.try_into_stream().await?.try_collect().await?;
    let mut out = vec![];
    for b in batches {
        let k = b.column_by_name("k").unwrap().as_any().downcast_ref::<Int64Array>().unwrap().clone();
        out.extend(k.values().iter().cloned());
    }
    out.sort();
    Ok(out)
}

/// keys of the `n` nearest rows to [c + 0.3, 1, 0, 0] (all partitions probed: exact), in distance order
pub async fn knn_keys(ds: &Dataset, c: i64, n: usize, prefilter: Option<String>) -> lance::Result<Vec<i64>> {
    let q = Float32Array::from(vec![c as f32 + 0.3, 1.0, 0.0, 0.0]);
    let mut sc = ds.scan();
    sc.project(&["k"])?;
    sc.nearest("v", &q, n)?;
    sc.nprobs(64);
    if let Some(p) = prefilter {
        sc.filter(&p)?;
        sc.prefilter(true);
    }
    let batches: Vec<RecordBatch> = sc.try_into_stream().await?.try_collect().await?;
    let mut out = vec![];
    for b in batches {
        let k = b.column_by_name("k").unwrap().as_any().downcast_ref::<Int64Array>().unwrap().clone();
        out.extend(k.values().iter().cloned());
    }
    Ok(out)
}

/// (k of the row, or None when the row does not exist) for each row id, through take_rows
pub async fn take_keys(ds: &Dataset, ids: &[u64]) -> lance::Result<Vec<i64>> {
    let proj = ds.schema().project(&["k"])?;
    let b = ds.take_rows(ids, proj).await?;
    let k = b.column_by_name("k").unwrap().as_any().downcast_ref::<Int64Array>().unwrap().clone();
    Ok(k.values().iter().cloned().collect())
}

pub struct Tbl {
    pub _dir: tempfile::TempDir,
    pub uri: String,
    pub ds: Dataset,
    pub stable: bool,
    pub ver: LanceFileVersion,
    pub max_rows_per_file: usize,
    pub next_k: i64,
    pub has_z: bool,
    pub btree: bool,
    pub ivf: bool,
    pub updated: bool,
    pub hist: Vec<String>,
    /// compact_files(defer_index_remap = true) ran on this table while it uses stable row ids
    pub deferred_on_stable: bool,
}

impl Tbl {
    pub fn params(&self, mode: WriteMode) -> WriteParams {
        WriteParams { max_rows_per_file: self.max_rows_per_file, max_rows_per_group: 1024, mode, data_storage_version: Some(self.ver), enable_stable_row_ids: self.stable, ..Default::default() }
    }
    pub async fn create(rng: &mut Rng, stable: bool) -> Tbl {
        // storage >= 2.0: the legacy (0.1) format loses the nulls of primitive columns on read (documented
        // normalisation), and a rewrite persists what the scan showed
        let ver = *rng.pick(&[LanceFileVersion::V2_0, LanceFileVersion::V2_0, LanceFileVersion::V2_1]);
        let max_rows_per_file = *rng.pick(&[2usize, 3, 4, 5, 8]);
        let n = rng.range(3, 26) as usize;
        let dir = tempfile::tempdir().unwrap();
        let uri = dir.path().join("t.lance").to_str().unwrap().to_string();
        let keys: Vec<i64> = (0..n as i64).collect();
        let params = WriteParams { max_rows_per_file, max_rows_per_group: 1024, mode: WriteMode::Create, data_storage_version: Some(ver), enable_stable_row_ids: stable, ..Default::default() };
        let ds = Dataset::write(RecordBatchIterator::new(vec![Ok(mk_batch(&keys))], schema()), &uri, Some(params)).await.unwrap();
        Tbl { _dir: dir, uri, ds, stable, ver, max_rows_per_file, next_k: n as i64, has_z: false, btree: false, ivf: false, updated: false, hist: vec![format!("create n={n} max_rows_per_file={max_rows_per_file} version={ver} stable_row_ids={stable}")], deferred_on_stable: false }
    }
    fn pred(&self, rng: &mut Rng) -> String {
        let n = self.next_k.max(1);
        match rng.below(5) {
            0 => {
                let m = rng.range(2, 5) as i64;
                format!("k % {m} = {}", rng.below(m as u64))
            }
            1 => {
                let a = rng.below(n as u64) as i64;
                format!("k >= {a} AND k < {}", a + rng.range(1, 9) as i64)
            }
            2 => {
                let c = rng.range(1, 5);
                let sel: Vec<String> = (0..c).map(|_| rng.below(n as u64).to_string()).collect();
                format!("k IN ({})", sel.join(", "))
            }
            3 => format!("k < {}", rng.below(n as u64 / 2 + 1)),
            _ => format!("x = {}", rng.below(23)),
        }
    }
    pub async fn append(&mut self, rng: &mut Rng) -> Result<(), (bool, String)> {
        let n = rng.range(1, 9) as usize;
        let keys: Vec<i64> = (0..n as i64).map(|i| self.next_k + i).collect();
        self.next_k += n as i64;
        if self.has_z {
            // an append must carry the added column too
            let mut fields: Vec<Field> = schema().fields().iter().map(|f| f.as_ref().clone()).collect();
            fields.push(Field::new("z", DataType::Int64, true));
            let sch = Arc::new(ArrowSchema::new(fields));
            let b0 = mk_batch(&keys);
            let mut cols = b0.columns().to_vec();
            cols.push(Arc::new(Int64Array::from(keys.iter().map(|k| k + 1).collect::<Vec<_>>())));
            let b = RecordBatch::try_new(sch.clone(), cols).unwrap();
            let (uri, params) = (self.uri.clone(), self.params(WriteMode::Append));
            self.hist.push(format!("append n={n} (with z)"));
            self.ds = guarded(async move { Dataset::write(RecordBatchIterator::new(vec![Ok(b)], sch), &uri, Some(params)).await }).await?;
            return Ok(());
        }
        let b = mk_batch(&keys);
        let (uri, params) = (self.uri.clone(), self.params(WriteMode::Append));
        self.hist.push(format!("append n={n}"));
        self.ds = guarded(async move { Dataset::write(RecordBatchIterator::new(vec![Ok(b)], schema()), &uri, Some(params)).await }).await?;
        Ok(())
    }
    pub async fn delete(&mut self, rng: &mut Rng) -> Result<(), (bool, String)> {
        let p = self.pred(rng);
        self.hist.push(format!("delete {p}"));
        let mut ds = self.ds.clone();
        self.ds = guarded(async move {
            ds.delete(&p).await?;
            Ok(ds)
        })
        .await?;
        Ok(())
    }
    pub async fn update(&mut self, rng: &mut Rng) -> Result<(), (bool, String)> {
        let p = self.pred(rng);
        self.hist.push(format!("update x = x + 1 where {p}"));
        let ds = Arc::new(self.ds.clone());
        let res = guarded(async move { UpdateBuilder::new(ds).update_where(&p)?.set("x", "x + 1")?.build()?.execute().await }).await?;
        self.ds = (*res.new_dataset).clone();
        self.updated = true;
        Ok(())
    }
    pub async fn add_z(&mut self) -> Result<(), (bool, String)> {
        if self.has_z {
            return Ok(());
        }
        self.hist.push("add_columns z = k + 1".into());
        let mut ds = self.ds.clone();
        self.ds = guarded(async move {
            ds.add_columns(NewColumnTransform::SqlExpressions(vec![("z".into(), "k + 1".into())]), None, None).await?;
            Ok(ds)
        })
        .await?;
        self.has_z = true;
        Ok(())
    }
    pub async fn drop_z(&mut self) -> Result<(), (bool, String)> {
        if !self.has_z {
            return Ok(());
        }
        self.hist.push("drop_columns z".into());
        let mut ds = self.ds.clone();
        self.ds = guarded(async move {
            ds.drop_columns(&["z"]).await?;
            Ok(ds)
        })
        .await?;
        self.has_z = false;
        Ok(())
    }
    pub async fn index_btree(&mut self) -> Result<(), (bool, String)> {
        self.hist.push("create_index BTree(x) replace".into());
        let mut ds = self.ds.clone();
        self.ds = guarded(async move {
            ds.create_index(&["x"], IndexType::BTree, Some("x_idx".into()), &ScalarIndexParams::default(), true).await?;
            Ok(ds)
        })
        .await?;
        self.btree = true;
        Ok(())
    }
    pub async fn index_ivf(&mut self) -> Result<(), (bool, String)> {
        self.hist.push("create_index IVF_FLAT(v, 2 partitions, L2) replace".into());
        let mut ds = self.ds.clone();
        self.ds = guarded(async move {
            ds.create_index(&["v"], IndexType::Vector, Some("v_idx".into()), &VectorIndexParams::ivf_flat(2, MetricType::L2), true).await?;
            Ok(ds)
        })
        .await?;
        self.ivf = true;
        Ok(())
    }
}
