//! `hx_c13 probe-stale`: scripted reproduction of finding commit_ignores_task_read_version (printed; not part of
//! the check).  create 6 rows (max_rows_per_file 2 -> 3 fragments); plan + execute compaction at version 1;
//! another handle deletes k = 1; commit_compaction (a) through the planning handle (stale), (b) through a handle
//! refreshed to the latest version.
use crate::tbl::*;
use lance::dataset::index::DatasetIndexRemapperOptions;
use lance::dataset::optimize::{commit_compaction, plan_compaction, CompactionOptions};
use lance::dataset::{WriteMode, WriteParams};
use lance::Dataset;
use arrow_array::RecordBatchIterator;
use std::sync::Arc;

pub fn stale_commit() {
    let rt = tokio::runtime::Builder::new_multi_thread().worker_threads(2).enable_all().build().unwrap();
    rt.block_on(async {
        for stable in [false, true] {
            for refreshed in [false, true] {
                for other in ["delete k = 1", "update x = x + 1 where k = 1"] {
                    let dir = tempfile::tempdir().unwrap();
                    let uri = dir.path().join("t.lance").to_str().unwrap().to_string();
                    let params = WriteParams { max_rows_per_file: 2, mode: WriteMode::Create, enable_stable_row_ids: stable, ..Default::default() };
                    let keys: Vec<i64> = (0..6).collect();
                    let ds = Dataset::write(RecordBatchIterator::new(vec![Ok(mk_batch(&keys))], schema()), &uri, Some(params)).await.unwrap();
                    let opts = CompactionOptions { target_rows_per_fragment: 100, ..Default::default() };
                    let plan = plan_compaction(&ds, &opts).await.unwrap();
                    let mut results = vec![];
                    for task in plan.compaction_tasks() {
                        results.push(task.execute(&ds).await.unwrap());
                    }
                    // another writer
                    let mut w = Dataset::open(&uri).await.unwrap();
                    if other.starts_with("delete") {
                        w.delete("k = 1").await.unwrap();
                    } else {
                        let r = lance::dataset::UpdateBuilder::new(Arc::new(w.clone())).update_where("k = 1").unwrap().set("x", "x + 1").unwrap().build().unwrap().execute().await.unwrap();
                        w = (*r.new_dataset).clone();
                    }
                    let expected: Vec<(i64, Option<i64>)> = scan_rows(&w, false, false).await.unwrap().iter().map(|r| (r.k, r.x)).collect();
                    let mut handle = ds.clone();
                    if refreshed {
                        handle.checkout_latest().await.unwrap();
                    }
                    let hv = handle.version().version;
                    let r = commit_compaction(&mut handle, results, Arc::new(DatasetIndexRemapperOptions::default()), &opts).await;
                    let mut latest = Dataset::open(&uri).await.unwrap();
                    latest.checkout_latest().await.unwrap();
                    let mut got: Vec<(i64, Option<i64>)> = scan_rows(&latest, false, false).await.unwrap().iter().map(|r| (r.k, r.x)).collect();
                    got.sort();
                    let mut exp = expected.clone();
                    exp.sort();
                    println!(
                        "stable_row_ids={stable} other writer: `{other}` (v2); tasks read v1; commit_compaction through the handle at v{hv}: {} ; table before commit {:?}; after {:?} => {}",
                        match &r { Ok(_) => "Ok".to_string(), Err(e) => format!("Err({})", e.to_string().chars().take(90).collect::<String>()) },
                        exp, got, if exp == got { "contents kept" } else { "CONTENTS CHANGED" }
                    );
                }
            }
        }
    });
}
