//! Mirror of coq/theories/Table/Model_Manifest.v on the Rust side: plain data (`M*`), the conversion from the
//! real lance types (Manifest, Fragment, IndexMetadata, Operation) and the printers of canonical Coq terms.
//! Also an independent, direct restatement of property C05 on exported manifests (`wf_check`).
#![allow(dead_code)]
use hxlib::util::coq;
use lance::dataset::transaction::{Operation, UpdateMode};
use lance_table::format::{DataFile, DeletionFile, DeletionFileType, Fragment, IndexMetadata, Manifest, RowIdMeta};
use lance_table::rowids::read_row_ids;
use serde::Serialize;
use std::collections::{BTreeSet, HashMap};

pub const REQ: &str = "Common.Base Meta.Model_Flags Table.Model_Manifest";

pub type DelKey = (u64, u64, u64, u8); // (fragment id, read_version, id, type)

pub fn del_key(frag_id: u64, d: &DeletionFile) -> DelKey {
    (frag_id, d.read_version, d.id, match d.file_type { DeletionFileType::Array => 0, DeletionFileType::Bitmap => 1 })
}

/// Interning of opaque identities + the storage facts attached to the model objects.
#[derive(Default)]
pub struct Ctx {
    path_tag: HashMap<String, u64>,
    uuid_tag: HashMap<u128, u64>,
    name_tag: HashMap<String, u64>,
    del_tag: HashMap<DelKey, u64>,
    /// rows stored in a data file, by path (+ base id)
    pub file_rows: HashMap<String, u64>,
    /// decoded deletion file content
    pub del_rows: HashMap<DelKey, Vec<u64>>,
}

impl Ctx {
    pub fn path(&mut self, p: &str) -> u64 {
        let n = self.path_tag.len() as u64;
        *self.path_tag.entry(p.to_string()).or_insert(n)
    }
    pub fn uuid(&mut self, u: u128) -> u64 {
        let n = self.uuid_tag.len() as u64;
        *self.uuid_tag.entry(u).or_insert(n)
    }
    pub fn name(&mut self, s: &str) -> u64 {
        if s == lance_index::frag_reuse::FRAG_REUSE_INDEX_NAME {
            return 0;
        }
        if s == lance_index::mem_wal::MEM_WAL_INDEX_NAME {
            return 1;
        }
        let n = self.name_tag.len() as u64 + 2;
        *self.name_tag.entry(s.to_string()).or_insert(n)
    }
    pub fn del(&mut self, k: DelKey) -> u64 {
        let n = self.del_tag.len() as u64;
        *self.del_tag.entry(k).or_insert(n)
    }
}

#[derive(Clone, Debug, PartialEq, Serialize)]
pub struct MDataFile {
    pub path: u64,
    pub fields: Vec<i32>,
    pub ver: (u32, u32),
    pub rows: u64,
}
#[derive(Clone, Debug, PartialEq, Serialize)]
pub struct MDel {
    pub id: u64,
    pub num: Option<u64>,
    pub rows: Vec<u64>,
}
#[derive(Clone, Debug, PartialEq, Serialize)]
pub struct MFrag {
    pub id: u64,
    pub phys: Option<u64>,
    pub files: Vec<MDataFile>,
    pub deletion: Option<MDel>,
    pub row_ids: Option<Vec<u64>>,
    pub created_at: Option<Vec<u64>>,
    pub updated_at: Option<Vec<u64>>,
}
#[derive(Clone, Debug, PartialEq, Serialize)]
pub struct MIndex {
    pub uuid: u64,
    pub name: u64,
    pub fields: Vec<i32>,
    pub dataset_version: u64,
    pub bitmap: Option<Vec<u64>>,
    pub vector: bool,
}
#[derive(Clone, Debug, PartialEq, Serialize)]
pub struct MManifest {
    pub version: u64,
    pub schema: Vec<i32>,
    pub fragments: Vec<MFrag>,
    pub max_fragment_id: Option<u64>,
    pub next_row_id: Option<u64>,
    pub storage: String,
    pub indices: Vec<MIndex>,
}
#[derive(Clone, Debug, PartialEq, Serialize)]
pub struct MGroup {
    pub old: Vec<u64>,
    pub new: Vec<MFrag>,
}
#[derive(Clone, Debug, PartialEq, Serialize)]
pub enum MOp {
    Append(Vec<MFrag>),
    Delete(Vec<MFrag>, Vec<u64>),
    Overwrite(Vec<MFrag>, Vec<i32>, bool),
    CreateIndex(Vec<MIndex>, Vec<MIndex>),
    Rewrite(Vec<MGroup>, Vec<(u64, u64)>, Option<MIndex>),
    DataReplacement(Vec<(u64, MDataFile)>),
    Merge(Vec<MFrag>, Vec<i32>),
    ReserveFragments(u64),
    Update { removed: Vec<u64>, updated: Vec<MFrag>, new: Vec<MFrag>, fields_modified: Vec<u64>, fields_preserving: Vec<u64>, mode: Option<u8> },
    Project(Vec<i32>),
    UpdateConfig,
}

impl MOp {
    pub fn kind(&self) -> &'static str {
        match self {
            MOp::Append(..) => "Append",
            MOp::Delete(..) => "Delete",
            MOp::Overwrite(..) => "Overwrite",
            MOp::CreateIndex(..) => "CreateIndex",
            MOp::Rewrite(..) => "Rewrite",
            MOp::DataReplacement(..) => "DataReplacement",
            MOp::Merge(..) => "Merge",
            MOp::ReserveFragments(..) => "ReserveFragments",
            MOp::Update { .. } => "Update",
            MOp::Project(..) => "Project",
            MOp::UpdateConfig => "UpdateConfig",
        }
    }
}

// ---------------------------------------------------------------- printing
/// A list of naturals, runs compressed with the model's `n_range s n` / `n_rep n v`.
pub fn nlist_compact(xs: &[u64]) -> String {
    let mut parts: Vec<String> = vec![];
    let mut lit: Vec<u64> = vec![];
    let mut i = 0;
    let flush = |lit: &mut Vec<u64>, parts: &mut Vec<String>| {
        if !lit.is_empty() {
            parts.push(coq::nlist(lit.iter()));
            lit.clear();
        }
    };
    while i < xs.len() {
        let mut j = i + 1;
        while j < xs.len() && xs[j] == xs[j - 1].wrapping_add(1) && xs[j] != 0 {
            j += 1;
        }
        let mut k = i + 1;
        while k < xs.len() && xs[k] == xs[i] {
            k += 1;
        }
        if j - i >= 4 && j - i >= k - i {
            flush(&mut lit, &mut parts);
            parts.push(format!("n_range {} {}", xs[i], j - i));
            i = j;
        } else if k - i >= 4 {
            flush(&mut lit, &mut parts);
            parts.push(format!("n_rep {} {}", k - i, xs[i]));
            i = k;
        } else {
            lit.push(xs[i]);
            i += 1;
        }
    }
    flush(&mut lit, &mut parts);
    match parts.len() {
        0 => "[]".into(),
        1 if parts[0].starts_with('[') => parts[0].clone(),
        _ => format!("({})", parts.join(" ++ ")),
    }
}
fn zlist(xs: &[i32]) -> String {
    coq::list(xs.iter().map(|x| coq::z(*x as i128)))
}
fn onat(x: &Option<u64>) -> String {
    coq::opt(x.map(coq::n))
}
fn olist(x: &Option<Vec<u64>>) -> String {
    coq::opt(x.as_ref().map(|v| nlist_compact(v)))
}

impl MDataFile {
    pub fn coq(&self) -> String {
        format!("(mkDataFile {} {} ({}, {}) {})", self.path, zlist(&self.fields), self.ver.0, self.ver.1, self.rows)
    }
}
impl MDel {
    pub fn coq(&self) -> String {
        format!("(mkDeletionFile {} {} {})", self.id, onat(&self.num), nlist_compact(&self.rows))
    }
}
impl MFrag {
    pub fn coq(&self) -> String {
        format!(
            "(mkFragment {} {} {} {} {} {} {})",
            self.id,
            onat(&self.phys),
            coq::list(self.files.iter().map(|f| f.coq())),
            coq::opt(self.deletion.as_ref().map(|d| d.coq())),
            olist(&self.row_ids),
            olist(&self.created_at),
            olist(&self.updated_at)
        )
    }
}
pub fn frags_coq(l: &[MFrag]) -> String {
    coq::list(l.iter().map(|f| f.coq()))
}
impl MIndex {
    pub fn coq(&self) -> String {
        format!("(mkIndex {} {} {} {} {} {})", self.uuid, self.name, zlist(&self.fields), self.dataset_version, olist(&self.bitmap), coq::b(self.vector))
    }
}
pub fn indices_coq(l: &[MIndex]) -> String {
    coq::list(l.iter().map(|f| f.coq()))
}
impl MManifest {
    pub fn coq(&self) -> String {
        format!(
            "(mkManifest {} {} {} {} {} {} {})",
            self.version,
            zlist(&self.schema),
            frags_coq(&self.fragments),
            onat(&self.max_fragment_id),
            onat(&self.next_row_id),
            self.storage,
            indices_coq(&self.indices)
        )
    }
}
fn nl(xs: &[u64]) -> String {
    coq::nlist(xs.iter())
}
impl MOp {
    pub fn coq(&self) -> String {
        match self {
            MOp::Append(f) => format!("(Append {})", frags_coq(f)),
            MOp::Delete(u, d) => format!("(Delete {} {})", frags_coq(u), nl(d)),
            MOp::Overwrite(f, s, c) => format!("(Overwrite {} {} {})", frags_coq(f), zlist(s), coq::b(*c)),
            MOp::CreateIndex(n, r) => format!("(CreateIndex {} {})", indices_coq(n), indices_coq(r)),
            MOp::Rewrite(g, r, fr) => format!(
                "(Rewrite {} {} {})",
                coq::list(g.iter().map(|g| format!("(mkRewriteGroup {} {})", nl(&g.old), frags_coq(&g.new)))),
                coq::list(r.iter().map(|(a, b)| format!("({}, {})", a, b))),
                coq::opt(fr.as_ref().map(|i| i.coq()))
            ),
            MOp::DataReplacement(r) => format!("(DataReplacement {})", coq::list(r.iter().map(|(id, f)| format!("({}, {})", id, f.coq())))),
            MOp::Merge(f, s) => format!("(Merge {} {})", frags_coq(f), zlist(s)),
            MOp::ReserveFragments(n) => format!("(ReserveFragments {})", n),
            MOp::Update { removed, updated, new, fields_modified, fields_preserving, mode } => format!(
                "(Update {} {} {} {} {} {})",
                nl(removed),
                frags_coq(updated),
                frags_coq(new),
                nl(fields_modified),
                nl(fields_preserving),
                match mode {
                    None => "None",
                    Some(0) => "(Some RewriteRows)",
                    Some(_) => "(Some RewriteColumns)",
                }
            ),
            MOp::Project(s) => format!("(Project {})", zlist(s)),
            MOp::UpdateConfig => "UpdateConfig".into(),
        }
    }
}
pub fn storage_opt_coq(s: &Option<String>) -> String {
    coq::opt(s.clone())
}

// ---------------------------------------------------------------- conversion from the real types
pub fn fver_name(v: lance_file::version::LanceFileVersion) -> String {
    use lance_file::version::LanceFileVersion as V;
    match v {
        V::Legacy => "Legacy",
        V::V2_0 => "V2_0",
        V::Stable => "Stable",
        V::V2_1 => "V2_1",
        V::Next => "Next",
        V::V2_2 => "V2_2",
    }
    .to_string()
}

pub fn file_key(d: &DataFile) -> String {
    format!("{}#{}", d.base_id.map(|b| b.to_string()).unwrap_or_default(), d.path)
}

pub fn conv_file(ctx: &mut Ctx, d: &DataFile) -> MDataFile {
    let key = file_key(d);
    let rows = *ctx.file_rows.get(&key).unwrap_or_else(|| panic!("harness: rows of data file {key} unknown"));
    MDataFile { path: ctx.path(&key), fields: d.fields.clone(), ver: (d.file_major_version, d.file_minor_version), rows }
}

pub fn decode_row_ids(m: &RowIdMeta) -> Vec<u64> {
    match m {
        RowIdMeta::Inline(data) => read_row_ids(data).expect("harness: row id sequence does not decode").iter().collect(),
        RowIdMeta::External(_) => panic!("harness: external row id sequence (outside the model domain D2)"),
    }
}

pub fn conv_frag(ctx: &mut Ctx, f: &Fragment) -> MFrag {
    let deletion = f.deletion_file.as_ref().map(|d| {
        // generated (unit arm) deletion files are registered under the wildcard fragment id u64::MAX
        let mut k = del_key(f.id, d);
        if !ctx.del_rows.contains_key(&k) {
            k = del_key(u64::MAX, d);
        }
        let rows = ctx.del_rows.get(&k).cloned().unwrap_or_else(|| panic!("harness: content of deletion file {k:?} unknown"));
        MDel { id: ctx.del(k), num: d.num_deleted_rows.map(|x| x as u64), rows }
    });
    MFrag {
        id: f.id,
        phys: f.physical_rows.map(|x| x as u64),
        files: f.files.iter().map(|d| conv_file(ctx, d)).collect(),
        deletion,
        row_ids: f.row_id_meta.as_ref().map(decode_row_ids),
        created_at: f.created_at_version_meta.as_ref().map(|m| m.load_sequence().expect("harness: version sequence").versions().collect()),
        updated_at: f.last_updated_at_version_meta.as_ref().map(|m| m.load_sequence().expect("harness: version sequence").versions().collect()),
    }
}
pub fn conv_frags(ctx: &mut Ctx, l: &[Fragment]) -> Vec<MFrag> {
    l.iter().map(|f| conv_frag(ctx, f)).collect()
}

pub fn conv_index(ctx: &mut Ctx, i: &IndexMetadata) -> MIndex {
    MIndex {
        uuid: ctx.uuid(i.uuid.as_u128()),
        name: ctx.name(&i.name),
        fields: i.fields.clone(),
        dataset_version: i.dataset_version,
        bitmap: i.fragment_bitmap.as_ref().map(|b| b.iter().map(|x| x as u64).collect()),
        vector: i.index_details.as_ref().map(|d| d.type_url.ends_with("VectorIndexDetails")).unwrap_or(false),
    }
}
pub fn conv_indices(ctx: &mut Ctx, l: &[IndexMetadata]) -> Vec<MIndex> {
    l.iter().map(|i| conv_index(ctx, i)).collect()
}

pub fn schema_ids(s: &lance_core::datatypes::Schema) -> Vec<i32> {
    s.fields_pre_order().map(|f| f.id).collect()
}

pub fn conv_manifest(ctx: &mut Ctx, m: &Manifest, indices: &[IndexMetadata]) -> MManifest {
    MManifest {
        version: m.version,
        schema: schema_ids(&m.schema),
        fragments: conv_frags(ctx, &m.fragments),
        max_fragment_id: m.max_fragment_id.map(|x| x as u64),
        next_row_id: if m.reader_feature_flags & 2 != 0 { Some(m.next_row_id) } else { None },
        storage: fver_name(m.data_storage_format.lance_file_version().expect("harness: storage format string")),
        indices: conv_indices(ctx, indices),
    }
}

/// None: the operation is outside the model (Restore, Clone, MemWAL, UpdateBases, initial bases).
pub fn conv_op(ctx: &mut Ctx, op: &Operation) -> Option<MOp> {
    Some(match op {
        Operation::Append { fragments } => MOp::Append(conv_frags(ctx, fragments)),
        Operation::Delete { updated_fragments, deleted_fragment_ids, .. } => MOp::Delete(conv_frags(ctx, updated_fragments), deleted_fragment_ids.clone()),
        Operation::Overwrite { fragments, schema, config_upsert_values, initial_bases } => {
            if initial_bases.is_some() {
                return None;
            }
            MOp::Overwrite(conv_frags(ctx, fragments), schema_ids(schema), config_upsert_values.is_some())
        }
        Operation::CreateIndex { new_indices, removed_indices } => MOp::CreateIndex(conv_indices(ctx, new_indices), conv_indices(ctx, removed_indices)),
        Operation::Rewrite { groups, rewritten_indices, frag_reuse_index } => MOp::Rewrite(
            groups.iter().map(|g| MGroup { old: g.old_fragments.iter().map(|f| f.id).collect(), new: conv_frags(ctx, &g.new_fragments) }).collect(),
            rewritten_indices.iter().map(|r| (ctx.uuid(r.old_id.as_u128()), ctx.uuid(r.new_id.as_u128()))).collect(),
            frag_reuse_index.as_ref().map(|i| conv_index(ctx, i)),
        ),
        Operation::DataReplacement { replacements } => MOp::DataReplacement(replacements.iter().map(|g| (g.0, conv_file(ctx, &g.1))).collect()),
        Operation::Merge { fragments, schema } => MOp::Merge(conv_frags(ctx, fragments), schema_ids(schema)),
        Operation::ReserveFragments { num_fragments } => MOp::ReserveFragments(*num_fragments as u64),
        Operation::Update { removed_fragment_ids, updated_fragments, new_fragments, fields_modified, mem_wal_to_merge, fields_for_preserving_frag_bitmap, update_mode } => {
            if mem_wal_to_merge.is_some() {
                return None;
            }
            MOp::Update {
                removed: removed_fragment_ids.clone(),
                updated: conv_frags(ctx, updated_fragments),
                new: conv_frags(ctx, new_fragments),
                fields_modified: fields_modified.iter().map(|x| *x as u64).collect(),
                fields_preserving: fields_for_preserving_frag_bitmap.iter().map(|x| *x as u64).collect(),
                mode: update_mode.as_ref().map(|m| match m {
                    UpdateMode::RewriteRows => 0,
                    UpdateMode::RewriteColumns => 1,
                }),
            }
        }
        Operation::Project { schema } => MOp::Project(schema_ids(schema)),
        Operation::UpdateConfig { field_metadata_updates, .. } => {
            if !field_metadata_updates.is_empty() {
                return None;
            }
            MOp::UpdateConfig
        }
        _ => return None,
    })
}

// ---------------------------------------------------------------- direct oracle: property C05 restated on an exported manifest
/// Independent of the Coq model: every clause of the property's statement, checked on the data read back.
pub fn wf_check(m: &MManifest) -> Result<(), String> {
    let stable = m.next_row_id.is_some();
    let mut seen = BTreeSet::new();
    for id in &m.schema {
        if *id < 0 {
            return Err(format!("negative schema field id {id}"));
        }
        if !seen.insert(*id) {
            return Err(format!("schema field id {id} is not unique"));
        }
    }
    let mut prev: Option<u64> = None;
    for f in &m.fragments {
        if let Some(p) = prev {
            if f.id <= p {
                return Err(format!("fragment ids not strictly increasing: {} after {}", f.id, p));
            }
        }
        prev = Some(f.id);
        match m.max_fragment_id {
            Some(mx) if f.id <= mx => {}
            _ => return Err(format!("fragment id {} above the recorded maximum {:?}", f.id, m.max_fragment_id)),
        }
        let phys = f.phys.ok_or_else(|| format!("fragment {} has no physical_rows", f.id))?;
        let mut fields = BTreeSet::new();
        for d in &f.files {
            if d.rows != phys {
                return Err(format!("fragment {}: data file {} holds {} rows, fragment has {}", f.id, d.path, d.rows, phys));
            }
            if !d.fields.iter().any(|x| *x != -2) {
                return Err(format!("fragment {}: data file {} has no live field", f.id, d.path));
            }
            for x in &d.fields {
                if *x != -2 && !fields.insert(*x) {
                    return Err(format!("fragment {}: field {} stored twice", f.id, x));
                }
            }
        }
        if let Some(d) = &f.deletion {
            if d.rows.iter().any(|r| *r >= phys) {
                return Err(format!("fragment {}: deletion vector names a row >= {}", f.id, phys));
            }
            if !d.rows.windows(2).all(|w| w[0] < w[1]) {
                return Err(format!("fragment {}: deletion vector not a set", f.id));
            }
            if let Some(n) = d.num {
                if n != d.rows.len() as u64 {
                    return Err(format!("fragment {}: num_deleted_rows {} but {} rows deleted", f.id, n, d.rows.len()));
                }
            }
        }
        match (&f.row_ids, stable) {
            (Some(ids), true) if ids.len() as u64 == phys => {}
            (None, false) => {}
            (r, _) => return Err(format!("fragment {}: stable={} but row ids {:?} for {} rows", f.id, stable, r.as_ref().map(|x| x.len()), phys)),
        }
        for (nm, v) in [("created_at", &f.created_at), ("last_updated_at", &f.updated_at)] {
            if let Some(v) = v {
                if v.len() as u64 != phys {
                    return Err(format!("fragment {}: {} sequence has {} entries for {} rows", f.id, nm, v.len(), phys));
                }
            }
        }
    }
    if m.max_fragment_id.map(|x| x >= (1u64 << 32)).unwrap_or(false) {
        return Err("max_fragment_id out of u32".into());
    }
    for i in &m.indices {
        if i.name >= 2 && !i.fields.iter().all(|x| m.schema.contains(x)) {
            return Err(format!("index {} names a field outside the schema: {:?}", i.uuid, i.fields));
        }
    }
    Ok(())
}
