//! Blob arm: finding B1.  A table with a large_binary blob column (field metadata lance-encoding:blob=true).
//! Oracle: the blobs a reader gets (take_blobs by address, and the AllBinary scan that compact_files itself
//! uses) are the bytes that were written, before AND after compaction.
#![allow(dead_code)]
use arrow_array::{Array, Int64Array, LargeBinaryArray, RecordBatch, RecordBatchIterator, UInt64Array};
use arrow_schema::{DataType, Field, Schema as ArrowSchema};
use futures::TryStreamExt;
use lance::dataset::optimize::{compact_files, CompactionOptions};
use lance::dataset::{WriteMode, WriteParams};
use lance::Dataset;
use lance_file::version::LanceFileVersion;
use std::collections::HashMap;
use std::sync::Arc;

/// what row v holds in the blob column under null pattern `pat`: None = NULL, Some(vec![]) = empty value
pub fn blob_bytes(pat: &[u8], v: i64) -> Option<Vec<u8>> {
    match pat[(v as usize) % pat.len()] {
        0 => None,
        1 => Some(vec![]),
        _ => Some(format!("blob-{v}-").repeat(((v % 5) + 1) as usize * 7).into_bytes()),
    }
}

pub fn schema() -> Arc<ArrowSchema> {
    let mut md = HashMap::new();
    md.insert("lance-encoding:blob".to_string(), "true".to_string());
    Arc::new(ArrowSchema::new(vec![Field::new("v", DataType::Int64, false), Field::new("b", DataType::LargeBinary, true).with_metadata(md)]))
}

pub fn mk_batch(pat: &[u8], start: i64, n: usize) -> RecordBatch {
    let vs: Vec<i64> = (0..n as i64).map(|i| start + i).collect();
    let blobs: Vec<Option<Vec<u8>>> = vs.iter().map(|v| blob_bytes(pat, *v)).collect();
    RecordBatch::try_new(schema(), vec![Arc::new(Int64Array::from(vs)), Arc::new(LargeBinaryArray::from_iter(blobs.iter().map(|b| b.as_deref())))]).unwrap()
}

/// ordered scan with the blob column materialised (BlobHandling::AllBinary): (v, address, blob; None = NULL)
pub async fn scan_rows(ds: &Dataset) -> lance::Result<Vec<(i64, u64, Option<Vec<u8>>)>> {
    let mut sc = ds.scan();
    sc.blob_handling(lance_core::datatypes::BlobHandling::AllBinary);
    sc.project(&["v", "b"])?;
    sc.with_row_address().scan_in_order(true);
    let bs: Vec<RecordBatch> = sc.try_into_stream().await?.try_collect().await?;
    let mut out = vec![];
    for b in bs {
        let v = b.column_by_name("v").unwrap().as_any().downcast_ref::<Int64Array>().unwrap().clone();
        let a = b.column_by_name("_rowaddr").unwrap().as_any().downcast_ref::<UInt64Array>().unwrap().clone();
        let bl = b.column_by_name("b").unwrap().as_any().downcast_ref::<LargeBinaryArray>().expect("blob column as large_binary").clone();
        for i in 0..b.num_rows() {
            out.push((v.value(i), a.value(i), if bl.is_null(i) { None } else { Some(bl.value(i).to_vec()) }));
        }
    }
    Ok(out)
}

pub async fn take_all(ds: &Dataset, addrs: &[u64]) -> lance::Result<Vec<Vec<u8>>> {
    let files = Arc::new(ds.clone()).take_blobs(addrs, "b").await?;
    let mut out = vec![];
    for f in files {
        out.push(f.read().await?.to_vec());
    }
    Ok(out)
}

fn show(b: &Option<Vec<u8>>) -> String {
    match b {
        None => "NULL".into(),
        Some(b) => format!("{}({})", String::from_utf8_lossy(&b[..b.len().min(7)]), b.len()),
    }
}

/// `hx_c13 probe-blob`: characterises B1 on the real code (printed; not part of the check)
pub fn probe() {
    let rt = tokio::runtime::Builder::new_multi_thread().worker_threads(2).enable_all().build().unwrap();
    rt.block_on(async {
        // pattern digits: 0 = NULL, 1 = empty value, 2 = bytes; row v uses pat[v % len]
        let pats: Vec<(&str, Vec<u8>)> = vec![
            ("all bytes", vec![2]),
            ("NULL first of file only", vec![0, 2, 2, 2]),
            ("NULL second", vec![2, 0, 2, 2]),
            ("NULL last", vec![2, 2, 2, 0]),
            ("empty value first", vec![1, 2, 2, 2]),
            ("empty value second", vec![2, 1, 2, 2]),
            ("NULL first and third", vec![0, 2, 0, 2]),
            ("all NULL", vec![0]),
        ];
        for ver in [LanceFileVersion::V2_0, LanceFileVersion::V2_1] {
            for (name, pat) in &pats {
                for (n, mrpf) in [(8usize, 4usize), (8, 1000)] {
                    let dir = tempfile::tempdir().unwrap();
                    let uri = dir.path().join("p.lance").to_str().unwrap().to_string();
                    let params = WriteParams { max_rows_per_file: mrpf, data_storage_version: Some(ver), ..Default::default() };
                    let mut ds = match Dataset::write(RecordBatchIterator::new(vec![Ok(mk_batch(pat, 0, n))], schema()), &uri, Some(params)).await {
                        Ok(d) => d,
                        Err(e) => {
                            println!("{ver} {name} n={n} mrpf={mrpf}: write failed {e}");
                            continue;
                        }
                    };
                    let d2 = ds.clone();
                    let rows = match tokio::spawn(async move { scan_rows(&d2).await }).await {
                        Ok(Ok(r)) => r,
                        Ok(Err(e)) => {
                            println!("{ver} {name} n={n} mrpf={mrpf}: AllBinary scan failed: {e}");
                            continue;
                        }
                        Err(e) => {
                            println!("{ver} {name} n={n} mrpf={mrpf}: AllBinary scan PANICKED: {e}");
                            continue;
                        }
                    };
                    let bad: Vec<String> = rows.iter().filter(|r| r.2.clone().unwrap_or_default() != blob_bytes(pat, r.0).unwrap_or_default()).map(|r| format!("v={} scan={} written={}", r.0, show(&r.2), show(&blob_bytes(pat, r.0)))).collect();
                    let nullbad = rows.iter().filter(|r| r.2.is_none() != blob_bytes(pat, r.0).is_none()).count();
                    println!("{ver} [{name}] n={n} max_rows_per_file={mrpf}: AllBinary scan wrong bytes in {} rows {:?}; nullness differs in {} rows", bad.len(), bad, nullbad);
                    // compaction
                    let d3 = ds.clone();
                    let r = tokio::spawn(async move {
                        let mut d = d3;
                        compact_files(&mut d, CompactionOptions { target_rows_per_fragment: 100, ..Default::default() }, None).await.map(|m| (d, m))
                    })
                    .await;
                    match r {
                        Ok(Ok((d, m))) => {
                            ds = d;
                            let addrs: Vec<u64> = scan_rows(&ds).await.map(|r| r.iter().map(|x| x.1).collect()).unwrap_or_default();
                            let d4 = ds.clone();
                            let a2 = addrs.clone();
                            match tokio::spawn(async move { take_all(&d4, &a2).await }).await {
                                Ok(Ok(t)) => {
                                    let lost = t.iter().enumerate().filter(|(i, b)| **b != blob_bytes(pat, *i as i64).unwrap_or_default()).count();
                                    println!("    after compact_files (fragments removed {} added {}): take_blobs differs from written bytes in {} of {} rows", m.fragments_removed, m.fragments_added, lost, t.len());
                                }
                                Ok(Err(e)) => println!("    after compact_files: take_blobs failed {e}"),
                                Err(e) => println!("    after compact_files: take_blobs PANICKED {e}"),
                            }
                        }
                        Ok(Err(e)) => println!("    compact_files failed: {e}"),
                        Err(e) => println!("    compact_files PANICKED: {e}"),
                    }
                }
            }
        }
        // deletions: does the AllBinary scan request the blobs of deleted rows?
        for (name, pat, del) in [("NULL second, first row of each file deleted", vec![2u8, 0, 2, 2], "v % 4 = 0"), ("NULL first, that row deleted", vec![0u8, 2, 2, 2], "v % 4 = 0"), ("NULL third, rows 0,1 deleted", vec![2u8, 2, 0, 2], "v % 4 < 2"), ("empty second, that row deleted", vec![2u8, 1, 2, 2], "v % 4 = 1")] {
            let dir = tempfile::tempdir().unwrap();
            let uri = dir.path().join("p.lance").to_str().unwrap().to_string();
            let params = WriteParams { max_rows_per_file: 4, data_storage_version: Some(LanceFileVersion::V2_0), ..Default::default() };
            let mut ds = Dataset::write(RecordBatchIterator::new(vec![Ok(mk_batch(&pat, 0, 8))], schema()), &uri, Some(params)).await.unwrap();
            ds.delete(del).await.unwrap();
            let rows = scan_rows(&ds).await.unwrap();
            let bad: Vec<String> = rows.iter().filter(|r| r.2.clone().unwrap_or_default() != blob_bytes(&pat, r.0).unwrap_or_default()).map(|r| format!("v={} scan={} written={}", r.0, show(&r.2), show(&blob_bytes(&pat, r.0)))).collect();
            println!("2.0 [{name}] delete {del}: AllBinary scan wrong bytes in {} of {} rows {:?}", bad.len(), rows.len(), bad);
        }
        let _ = WriteMode::Append;
    });
}

/// class predicate blob_null_first_row_allbinary on the LIVE rows of one data file, in order:
/// a NULL or a zero-length value is followed by a non-empty blob (over-approximation of the stalls of the
/// un-coalescing walk: a NULL strictly inside a coalesced read that starts at file offset 0 is harmless)
pub fn in_class(live: &[Option<Vec<u8>>]) -> bool {
    let mut seen_empty = false;
    for b in live {
        match b {
            None => seen_empty = true,
            Some(v) if v.is_empty() => seen_empty = true,
            Some(_) => {
                if seen_empty {
                    return true;
                }
            }
        }
    }
    false
}

/// Blob tables: append / delete, then compact_files; the blobs read back through take_blobs must be the written
/// bytes for every live row (direct oracle; no model stream).
pub fn run(args: &hxlib::util::Args, sink: &mut hxlib::util::Sink, rng: &mut hxlib::util::Rng) {
    use serde_json::json;
    let rt = tokio::runtime::Builder::new_multi_thread().worker_threads(2).enable_all().build().unwrap();
    let n_tables = args.vol(6, 60);
    rt.block_on(async {
        for _ in 0..n_tables {
            let pat: Vec<u8> = match rng.below(5) {
                0 => vec![2],
                1 => vec![2, 2, 2, 0],
                2 => vec![0, 2, 2, 2],
                3 => (0..rng.range(2, 5)).map(|_| *rng.pick(&[0u8, 1, 2, 2, 2])).collect(),
                _ => vec![2, 2, 1, 2],
            };
            let dir = tempfile::tempdir().unwrap();
            let uri = dir.path().join("b.lance").to_str().unwrap().to_string();
            let mrpf = *rng.pick(&[3usize, 4, 5]);
            let n = rng.range(5, 14) as usize;
            let params = WriteParams { max_rows_per_file: mrpf, data_storage_version: Some(LanceFileVersion::V2_0), ..Default::default() };
            let mut ds = Dataset::write(RecordBatchIterator::new(vec![Ok(mk_batch(&pat, 0, n))], schema()), &uri, Some(params)).await.unwrap();
            let mut hist = vec![format!("create n={n} max_rows_per_file={mrpf} 2.0 (v:int64, b:large_binary blob), null pattern {pat:?} (0 NULL, 1 empty, 2 bytes; row v uses pattern[v % len])")];
            if rng.chance(1, 2) {
                let m = rng.range(2, 4);
                let p = format!("v % {} = {}", m, rng.below(m));
                ds.delete(&p).await.unwrap();
                hist.push(format!("delete {p}"));
            }
            // live rows per fragment before compaction (v is stored in the same files)
            let mut sc = ds.scan();
            sc.project(&["v"]).unwrap();
            sc.with_row_address().scan_in_order(true);
            let bs: Vec<RecordBatch> = sc.try_into_stream().await.unwrap().try_collect().await.unwrap();
            let mut per_frag: std::collections::BTreeMap<u64, Vec<i64>> = Default::default();
            for b in bs {
                let v = b.column_by_name("v").unwrap().as_any().downcast_ref::<Int64Array>().unwrap().clone();
                let a = b.column_by_name("_rowaddr").unwrap().as_any().downcast_ref::<UInt64Array>().unwrap().clone();
                for i in 0..b.num_rows() {
                    per_frag.entry(a.value(i) >> 32).or_default().push(v.value(i));
                }
            }
            let class = per_frag.values().any(|vs| in_class(&vs.iter().map(|v| blob_bytes(&pat, *v)).collect::<Vec<_>>()));
            sink.count(if class { "blob:table-in-class" } else { "blob:table-outside-class" });
            hist.push("compact_files target_rows_per_fragment=100".into());
            let d3 = ds.clone();
            let r = tokio::spawn(async move {
                let mut d = d3;
                compact_files(&mut d, CompactionOptions { target_rows_per_fragment: 100, ..Default::default() }, None).await.map(|_| d)
            })
            .await;
            let case = json!({"history": hist});
            let known = if class { Some("blob_null_first_row_allbinary") } else { None };
            match r {
                Ok(Ok(d)) => {
                    let mut sc = d.scan();
                    sc.project(&["v"]).unwrap();
                    sc.with_row_address().scan_in_order(true);
                    let bs: Vec<RecordBatch> = sc.try_into_stream().await.unwrap().try_collect().await.unwrap();
                    let mut vs = vec![];
                    let mut addrs = vec![];
                    for b in bs {
                        let v = b.column_by_name("v").unwrap().as_any().downcast_ref::<Int64Array>().unwrap().clone();
                        let a = b.column_by_name("_rowaddr").unwrap().as_any().downcast_ref::<UInt64Array>().unwrap().clone();
                        for i in 0..b.num_rows() {
                            vs.push(v.value(i));
                            addrs.push(a.value(i));
                        }
                    }
                    let d4 = d.clone();
                    let a2 = addrs.clone();
                    match tokio::spawn(async move { take_all(&d4, &a2).await }).await {
                        Ok(Ok(t)) => {
                            let lost: Vec<i64> = vs.iter().zip(t.iter()).filter(|(v, b)| **b != blob_bytes(&pat, **v).unwrap_or_default()).map(|(v, _)| *v).collect();
                            if lost.is_empty() {
                                sink.oracle_ok();
                            } else {
                                sink.oracle_fail(known, &format!("after compact_files the blobs of rows v={lost:?} are not the bytes that were written (take_blobs)"), case);
                            }
                        }
                        Ok(Err(e)) => sink.oracle_fail(known, &format!("take_blobs after compact_files failed: {e}"), case),
                        Err(e) => sink.oracle_fail(known, &format!("take_blobs after compact_files panicked: {e}"), case),
                    }
                }
                Ok(Err(e)) => sink.oracle_fail(known, &format!("compact_files on a blob table failed: {e}"), case),
                Err(e) => sink.oracle_fail(known, &format!("compact_files on a blob table panicked: {e}"), case),
            }
        }
    });
    sink.notes.push(format!("blob: {n_tables} tables (2.0) with a blob column, NULL / empty / byte values, deletes, compact_files; take_blobs against the written bytes (oracle only)"));
}
