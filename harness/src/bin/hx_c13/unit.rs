//! Unit arm of C13, no I/O:
//!  * `transpose`: the public `lance::dataset::optimize::remapping::transpose_row_addrs` on generated task shapes
//!    (old fragments with deletions, new fragment sizes) against Table.Model_Compact.transpose, plus the direct
//!    oracle "k-th live old address -> k-th new address, deleted -> None, nothing else";
//!  * `build`: the REAL `Transaction::build_manifest` (verif hook) on Rewrite operations produced from generated
//!    tables by a harness-side task (groups contiguous or not, in any order, reserved or unassigned ids, indices
//!    covering / not covering / splitting a group, dangling old fragments) against Table.Model_Manifest.build_manifest,
//!    plus the direct oracle "the (row id, created, updated) of the live rows, per fragment-independent multiset,
//!    are unchanged; untouched fragments are kept as they are; index bitmaps follow the groups".
use crate::model::*;
use hxlib::util::{catch, coq, Args, Rng, Sink, Stream};
use lance::dataset::optimize::remapping::transpose_row_addrs;
use lance::dataset::transaction::{Operation, RewriteGroup, RewrittenIndex, Transaction};
use lance::dataset::verif_hooks::build_manifest;
use lance_core::datatypes::Schema;
use lance_file::version::LanceFileVersion;
use lance_table::format::{DataFile, DataStorageFormat, DeletionFile, DeletionFileType, Fragment, IndexMetadata, Manifest, RowDatasetVersionMeta, RowDatasetVersionRun, RowDatasetVersionSequence, RowIdMeta};
use lance_table::rowids::segment::U64Segment;
use lance_table::rowids::{write_row_ids, RowIdSequence};
use roaring::{RoaringBitmap, RoaringTreemap};
use serde_json::json;
use std::collections::{BTreeMap, BTreeSet, HashMap};
use std::sync::Arc;

pub const REQ_C: &str = "Common.Base Meta.Model_Flags Table.Model_Manifest Table.Model_Compact";

fn lance_schema(ids: &[i32]) -> Schema {
    let a = arrow_schema::Schema::new(ids.iter().enumerate().map(|(i, _)| arrow_schema::Field::new(format!("c{i}"), arrow_schema::DataType::Int32, true)).collect::<Vec<_>>());
    let mut s = Schema::try_from(&a).unwrap();
    for (f, id) in s.fields.iter_mut().zip(ids) {
        f.id = *id;
    }
    s
}
fn row_id_meta(ids: &[u64]) -> RowIdMeta {
    RowIdMeta::Inline(write_row_ids(&RowIdSequence::from(ids)))
}
fn version_meta(vs: &[u64]) -> RowDatasetVersionMeta {
    let mut runs = vec![];
    let mut i = 0;
    while i < vs.len() {
        let mut j = i + 1;
        while j < vs.len() && vs[j] == vs[i] {
            j += 1;
        }
        runs.push(RowDatasetVersionRun { span: U64Segment::Range(i as u64..j as u64), version: vs[i] });
        i = j;
    }
    RowDatasetVersionMeta::from_sequence(&RowDatasetVersionSequence { runs }).unwrap()
}

// ---------------------------------------------------------------- transpose
pub fn run_transpose(args: &Args, sink: &mut Sink, rng: &mut Rng) {
    let mut s = Stream::new("transpose", REQ_C, "chk_transpose", "list N * list (N * N) * list (N * N)", "outcome (list (N * option N))");
    s.shard = 100;
    let n = args.vol(200, 4000);
    for case in 0..n {
        // old fragments: ids ascending (as plan_compaction hands them over), rarely not
        let nf = rng.range(1, 4) as usize;
        let mut ids: Vec<u64> = vec![];
        let mut id = if rng.chance(1, 3) { 0 } else { rng.below(5) };
        for _ in 0..nf {
            ids.push(id);
            id += 1 + if rng.chance(1, 3) { rng.below(3) } else { 0 };
        }
        let unsorted = rng.chance(1, 15) && nf > 1;
        if unsorted {
            ids.swap(0, nf - 1);
        }
        let mut olds: Vec<(u64, u64)> = vec![];
        let mut live: Vec<u64> = vec![];
        let mut deleted: Vec<u64> = vec![];
        for fid in &ids {
            let phys = rng.range(1, 6);
            let pattern = rng.below(5); // 0 none deleted, 1 all deleted, else random
            for o in 0..phys {
                let del = match pattern {
                    0 => false,
                    1 => true,
                    _ => rng.chance(1, 3),
                };
                if del { deleted.push((fid << 32) | o) } else { live.push((fid << 32) | o) }
            }
            olds.push((*fid, phys));
        }
        // the captured addresses come out of a RoaringTreemap: ascending
        live.sort();
        // new fragments: the live rows cut into files; rarely a row count that does not add up
        let total = live.len() as u64 + if rng.chance(1, 20) { 1 } else { 0 } - if rng.chance(1, 20) && !live.is_empty() { 1 } else { 0 };
        let target = rng.range(1, 5);
        let mut news: Vec<(u64, u64)> = vec![];
        let mut nid = ids.iter().max().unwrap() + 1 + rng.below(3);
        let mut left = total;
        while left > 0 {
            let p = left.min(target);
            news.push((nid, p));
            nid += 1;
            left -= p;
        }
        let old_frags: Vec<Fragment> = olds.iter().map(|(i, p)| Fragment { id: *i, files: vec![], deletion_file: None, row_id_meta: None, physical_rows: Some(*p as usize), last_updated_at_version_meta: None, created_at_version_meta: None }).collect();
        let new_frags: Vec<Fragment> = news.iter().map(|(i, p)| Fragment { id: *i, files: vec![], deletion_file: None, row_id_meta: None, physical_rows: Some(*p as usize), last_updated_at_version_meta: None, created_at_version_meta: None }).collect();
        let tm = RoaringTreemap::from_iter(live.iter().cloned());
        let res = catch(|| transpose_row_addrs(tm, &old_frags, &new_frags));
        let out: Result<Vec<(u64, Option<u64>)>, bool> = res.map(|m| {
            let mut kv: Vec<(u64, Option<u64>)> = m.into_iter().collect();
            kv.sort();
            kv
        });
        sink.count(&format!("transpose:{}", match &out { Ok(_) => "ok", Err(_) => "panic" }));
        // direct oracle on well shaped tasks
        let anomaly = live.is_empty() && olds[0].0 == 0;
        if !unsorted && total == live.len() as u64 && !anomaly {
            let new_addrs: Vec<u64> = news.iter().flat_map(|(i, p)| (0..*p).map(move |o| (i << 32) | o)).collect();
            let mut want: BTreeMap<u64, Option<u64>> = BTreeMap::new();
            for (a, b) in live.iter().zip(new_addrs.iter()) {
                want.insert(*a, Some(*b));
            }
            for d in &deleted {
                want.insert(*d, None);
            }
            match &out {
                Ok(kv) if kv.iter().cloned().collect::<BTreeMap<_, _>>() == want => sink.oracle_ok(),
                _ => sink.oracle_fail(None, "transpose_row_addrs is not the bijection live old address -> new address (deleted -> None)", json!({"old(id,rows)": olds, "live": live, "new(id,rows)": news, "got": format!("{out:?}")})),
            }
        } else {
            sink.count(if anomaly { "transpose:all-deleted-first-fragment-0" } else { "transpose:ill-shaped" });
        }
        let mut rec = coq::outcome(&out.as_ref().map(|kv| coq::list(kv.iter().map(|(k, v)| format!("({}, {})", k, coq::opt(v.map(coq::n)))))).map_err(|e| *e));
        if crate::plant() == "transpose" && case == 0 {
            rec = "(Ok [])".into();
        }
        let pr = |l: &[(u64, u64)]| coq::list(l.iter().map(|(a, b)| format!("({}, {})", a, b)));
        let input = format!("({}, {}, {})", coq::nlist(live.iter()), pr(&olds), pr(&news));
        sink.nontrivial(&input);
        s.push(input, rec, json!({"old(id,rows)": olds, "live_addrs": live, "new(id,rows)": news}));
    }
    sink.add(s);
}

// ---------------------------------------------------------------- build_manifest on Rewrite operations
struct Gen<'a> {
    rng: &'a mut Rng,
    ctx: &'a mut Ctx,
    file_no: u64,
    del_no: u64,
    uuid_no: u128,
    ver: (u32, u32),
}

#[derive(Clone)]
struct LiveRow {
    rid: u64,
    created: u64,
    updated: u64,
}

impl<'a> Gen<'a> {
    fn file(&mut self, fields: Vec<i32>, rows: u64) -> DataFile {
        self.file_no += 1;
        let n = fields.len() as i32;
        let d = DataFile::new(format!("f{}.lance", self.file_no), fields, (0..n).collect(), self.ver.0, self.ver.1, None, None);
        self.ctx.file_rows.insert(file_key(&d), rows);
        d
    }
    fn deletion(&mut self, rows: Vec<u64>) -> DeletionFile {
        self.del_no += 1;
        let d = DeletionFile { read_version: 1, id: self.del_no, file_type: if self.rng.bool() { DeletionFileType::Array } else { DeletionFileType::Bitmap }, num_deleted_rows: if self.rng.chance(1, 8) { None } else { Some(rows.len()) }, base_id: None };
        self.ctx.del_rows.insert(del_key(u64::MAX, &d), rows);
        d
    }
}

/// live rows (row id, created, updated) of a generated fragment, in order
fn live_rows_of(f: &Fragment, deleted: &[u64]) -> Vec<LiveRow> {
    let phys = f.physical_rows.unwrap() as u64;
    let ids: Option<Vec<u64>> = f.row_id_meta.as_ref().map(decode_row_ids);
    let cr: Option<Vec<u64>> = f.created_at_version_meta.as_ref().map(|m| m.load_sequence().unwrap().versions().collect());
    let up: Option<Vec<u64>> = f.last_updated_at_version_meta.as_ref().map(|m| m.load_sequence().unwrap().versions().collect());
    (0..phys)
        .filter(|o| !deleted.contains(o))
        .map(|o| LiveRow { rid: ids.as_ref().map(|v| v[o as usize]).unwrap_or(u64::MAX), created: cr.as_ref().map(|v| v[o as usize]).unwrap_or(1), updated: up.as_ref().map(|v| v[o as usize]).unwrap_or(1) })
        .collect()
}

pub fn run_build(args: &Args, sink: &mut Sink, rng: &mut Rng) {
    let mut sb = Stream::new("build", REQ, "chk_build", "option Manifest * Operation * (bool * option fver)", "outcome Manifest");
    sb.shard = 40;
    let n = args.vol(120, 4000);
    for case in 0..n {
        let mut ctx = Ctx::default();
        let stable = rng.chance(1, 2);
        let storage = *rng.pick(&[LanceFileVersion::V2_0, LanceFileVersion::V2_0, LanceFileVersion::V2_1, LanceFileVersion::Legacy]);
        let mut g = Gen { rng, ctx: &mut ctx, file_no: 0, del_no: 0, uuid_no: case as u128 * 100, ver: storage.to_numbers() };
        let schema: Vec<i32> = vec![0, 1, 2];
        // ---- the table
        let nfrag = g.rng.range(1, 7) as usize;
        let mut frags: Vec<Fragment> = vec![];
        let mut dels: HashMap<u64, Vec<u64>> = HashMap::new();
        let mut id = g.rng.below(3);
        let mut next_rid = g.rng.below(3);
        let tbl_version = g.rng.range(2, 6);
        for _ in 0..nfrag {
            let phys = g.rng.range(1, 5);
            let mut f = Fragment::new(id);
            f.physical_rows = Some(phys as usize);
            f.files = if g.rng.chance(1, 4) { vec![g.file(vec![0, 1], phys), g.file(vec![2], phys)] } else if g.rng.chance(1, 6) { vec![g.file(vec![0, -2, 2], phys), g.file(vec![1], phys)] } else { vec![g.file(vec![0, 1, 2], phys)] };
            let deleted: Vec<u64> = match g.rng.below(4) {
                0 | 1 => vec![],
                2 => (0..phys).filter(|_| g.rng.chance(1, 2)).collect(),
                _ => (0..phys).filter(|_| g.rng.chance(1, 5)).collect(),
            };
            if !deleted.is_empty() {
                f.deletion_file = Some(g.deletion(deleted.clone()));
            }
            dels.insert(id, deleted);
            if stable {
                let mut ids: Vec<u64> = (next_rid..next_rid + phys).collect();
                next_rid += phys + g.rng.below(2);
                if g.rng.chance(1, 5) && ids.len() > 1 {
                    ids.reverse();
                }
                f.row_id_meta = Some(row_id_meta(&ids));
                if g.rng.chance(5, 6) {
                    let c: Vec<u64> = (0..phys).map(|i| 1 + (i / 2) % tbl_version).collect();
                    let u: Vec<u64> = c.iter().map(|c| c + g.rng.below(tbl_version - c + 1)).collect();
                    f.created_at_version_meta = Some(version_meta(&c));
                    f.last_updated_at_version_meta = Some(version_meta(&u));
                }
            }
            frags.push(f);
            id += 1 + if g.rng.chance(1, 4) { g.rng.below(3) } else { 0 };
        }
        let max_id = frags.iter().map(|f| f.id).max().unwrap();
        // ---- groups: runs of consecutive fragments, sometimes with a hole, in any order
        let mut groups_ids: Vec<Vec<u64>> = vec![];
        let mut i = 0usize;
        while i < frags.len() {
            if g.rng.chance(2, 3) {
                let len = g.rng.range(1, 3).min((frags.len() - i) as u64) as usize;
                let mut grp: Vec<u64> = frags[i..i + len].iter().map(|f| f.id).collect();
                if len == 3 && g.rng.chance(1, 3) {
                    grp.remove(1); // not contiguous
                }
                groups_ids.push(grp);
                i += len;
            } else {
                i += 1;
            }
        }
        if groups_ids.is_empty() {
            groups_ids.push(vec![frags[0].id]);
        }
        for k in (1..groups_ids.len()).rev() {
            let j = g.rng.below(k as u64 + 1) as usize;
            groups_ids.swap(k, j);
        }
        let mut valid = true;
        if g.rng.chance(1, 25) {
            valid = false;
            groups_ids[0].insert(0, max_id + 50); // a fragment that is gone: CommitConflict
        }
        if g.rng.chance(1, 30) && groups_ids.len() > 1 {
            valid = false;
            let x = groups_ids[1][0];
            groups_ids[0].push(x); // two groups rewrite the same fragment
        }
        // ---- indices
        let mut indices: Vec<IndexMetadata> = vec![];
        let n_idx = *g.rng.pick(&[0usize, 1, 1, 2]);
        let mut splits = false;
        for k in 0..n_idx {
            g.uuid_no += 1;
            let mut b = RoaringBitmap::new();
            let mode = g.rng.below(4);
            for grp in &groups_ids {
                let cover = g.rng.bool();
                for (j, fid) in grp.iter().enumerate() {
                    if cover && !(mode == 0 && j == 0 && grp.len() > 1 && g.rng.chance(1, 4)) {
                        b.insert(*fid as u32);
                    }
                }
            }
            for f in &frags {
                if !groups_ids.iter().any(|gr| gr.contains(&f.id)) && g.rng.bool() {
                    b.insert(f.id as u32);
                }
            }
            for grp in &groups_ids {
                let c = grp.iter().filter(|x| b.contains(**x as u32)).count();
                if c != 0 && c != grp.len() {
                    splits = true;
                }
            }
            let details = if k == 1 { "/lance.table.VectorIndexDetails" } else { "/lance.table.BTreeIndexDetails" };
            indices.push(IndexMetadata { uuid: uuid::Uuid::from_u128(g.uuid_no), fields: vec![*g.rng.pick(&schema)], name: format!("i{k}"), dataset_version: 1, fragment_bitmap: Some(b), index_details: Some(Arc::new(prost_types::Any { type_url: details.into(), value: vec![] })), index_version: 0, created_at: None, base_id: None });
        }
        // ---- the tasks: new fragments hold the live rows of the group, cut at `target`
        let reserved = !stable || g.rng.chance(2, 3);
        let target = g.rng.range(1, 6);
        let mut next_new_id = max_id + 1;
        let mut groups: Vec<RewriteGroup> = vec![];
        let mut expect_groups: Vec<(Vec<u64>, Vec<LiveRow>)> = vec![];
        for grp in &groups_ids {
            let olds: Vec<Fragment> = grp.iter().filter_map(|i| frags.iter().find(|f| f.id == *i).cloned()).collect();
            let live: Vec<LiveRow> = olds.iter().flat_map(|f| live_rows_of(f, &dels[&f.id])).collect();
            let mut news = vec![];
            let mut at = 0usize;
            while at < live.len() {
                let p = (live.len() - at).min(target as usize);
                let chunk = &live[at..at + p];
                let mut f = Fragment::new(if reserved { next_new_id } else { 0 });
                if reserved {
                    next_new_id += 1;
                }
                f.physical_rows = Some(p);
                f.files = vec![g.file(vec![0, 1, 2], p as u64)];
                if stable {
                    f.row_id_meta = Some(row_id_meta(&chunk.iter().map(|r| r.rid).collect::<Vec<_>>()));
                    f.created_at_version_meta = Some(version_meta(&chunk.iter().map(|r| r.created).collect::<Vec<_>>()));
                    f.last_updated_at_version_meta = Some(version_meta(&chunk.iter().map(|r| r.updated).collect::<Vec<_>>()));
                }
                news.push(f);
                at += p;
            }
            expect_groups.push((grp.clone(), live));
            groups.push(RewriteGroup { old_fragments: olds.iter().map(|f| Fragment::new(f.id)).chain(grp.iter().filter(|i| !frags.iter().any(|f| f.id == **i)).map(|i| Fragment::new(*i))).collect::<Vec<_>>(), new_fragments: news });
        }
        // old_fragments in the group's order (the chain above puts dangling ids last: restore the order)
        for (grp, rg) in groups_ids.iter().zip(groups.iter_mut()) {
            rg.old_fragments = grp.iter().map(|i| frags.iter().find(|f| f.id == *i).cloned().unwrap_or_else(|| Fragment::new(*i))).collect();
        }
        let mut m = Manifest::new(lance_schema(&schema), Arc::new(frags.clone()), DataStorageFormat::new(storage), HashMap::new());
        m.version = tbl_version;
        m.max_fragment_id = Some((next_new_id - 1) as u32);
        if stable {
            m.reader_feature_flags |= 2;
            m.writer_feature_flags |= 2;
            m.next_row_id = next_rid;
        }
        let rewritten: Vec<RewrittenIndex> = if stable {
            vec![]
        } else {
            indices
                .iter()
                .filter(|_| g.rng.chance(3, 4))
                .map(|i| {
                    g.uuid_no += 1;
                    RewrittenIndex { old_id: i.uuid, new_id: uuid::Uuid::from_u128(g.uuid_no + 5000), new_index_details: (**i.index_details.as_ref().unwrap()).clone(), new_index_version: 0 }
                })
                .collect()
        };
        let rewritten_ids: BTreeSet<u128> = rewritten.iter().map(|r| r.old_id.as_u128()).collect();
        drop(g);
        let op = Operation::Rewrite { groups: groups.clone(), rewritten_indices: rewritten, frag_reuse_index: None };
        let tx = Transaction::new(m.version, op.clone(), None);
        let res = catch(|| build_manifest(&tx, Some(&m), indices.clone(), "tx", false, None));
        let m_in = conv_manifest(&mut ctx, &m, &indices);
        let Some(m_op) = conv_op(&mut ctx, &op) else { continue };
        let mut out: Result<MManifest, bool> = match &res {
            Ok(Ok((mm, ii))) => Ok(conv_manifest(&mut ctx, mm, ii)),
            Ok(Err(_)) => Err(false),
            Err(_) => Err(true),
        };
        sink.count(&format!("build:{}{}", match &out { Ok(_) => "ok", Err(false) => "err", Err(true) => "panic" }, if valid && !splits { "" } else { ":ill-shaped" }));
        // ---- direct oracle
        let affected_split = splits && (stable || !rewritten_ids.is_empty());
        if valid && !affected_split {
            match &out {
                Ok(mo) => {
                    let mut bad = vec![];
                    let touched: BTreeSet<u64> = groups_ids.iter().flatten().cloned().collect();
                    // untouched fragments are kept, in order
                    let ub: Vec<&MFrag> = m_in.fragments.iter().filter(|f| !touched.contains(&f.id)).collect();
                    let ua: Vec<&MFrag> = mo.fragments.iter().filter(|f| f.id <= max_id).collect();
                    if ub != ua {
                        bad.push("untouched fragments changed".to_string());
                    }
                    // fragment ids unique, ascending
                    if !mo.fragments.windows(2).all(|w| w[0].id < w[1].id) {
                        bad.push("fragment ids not strictly ascending".into());
                    }
                    // the live rows (rid, created, updated) of every group are those of its new fragments, in order
                    for ((grp, live), rg) in expect_groups.iter().zip(groups.iter()) {
                        let paths: Vec<u64> = rg.new_fragments.iter().map(|f| ctx.path(&file_key(&f.files[0]))).collect();
                        let got: Vec<(u64, u64, u64)> = paths
                            .iter()
                            .flat_map(|p| {
                                let f = mo.fragments.iter().find(|f| f.files.first().map(|d| d.path == *p).unwrap_or(false));
                                match f {
                                    Some(f) => (0..f.phys.unwrap_or(0) as usize).map(|o| (f.row_ids.as_ref().map(|v| v[o]).unwrap_or(u64::MAX), f.created_at.as_ref().map(|v| v[o]).unwrap_or(1), f.updated_at.as_ref().map(|v| v[o]).unwrap_or(1))).collect::<Vec<_>>(),
                                    None => vec![(u64::MAX - 1, 0, 0)],
                                }
                            })
                            .collect();
                        let want: Vec<(u64, u64, u64)> = live.iter().map(|r| (r.rid, r.created, r.updated)).collect();
                        if got != want {
                            bad.push(format!("group {grp:?}: new fragments hold {got:?}, live rows were {want:?}"));
                        }
                    }
                    // bitmaps
                    for ix in &m_in.indices {
                        let was_rewritten = stable || rewritten_ids.iter().any(|u| ctx.uuid(*u) == ix.uuid);
                        let Some(after) = (if stable { mo.indices.iter().find(|j| j.uuid == ix.uuid) } else { mo.indices.iter().find(|j| j.name == ix.name) }) else {
                            bad.push(format!("index {} disappeared", ix.name));
                            continue;
                        };
                        let b0: BTreeSet<u64> = ix.bitmap.clone().unwrap_or_default().into_iter().collect();
                        let mut want = b0.clone();
                        if was_rewritten {
                            for (grp, rg) in groups_ids.iter().zip(groups.iter()) {
                                if grp.iter().all(|x| b0.contains(x)) {
                                    for x in grp {
                                        want.remove(x);
                                    }
                                    for nf in &rg.new_fragments {
                                        // the id as given in the transaction (0 stays 0: C05's finding)
                                        want.insert(nf.id);
                                    }
                                }
                            }
                        }
                        let got: BTreeSet<u64> = after.bitmap.clone().unwrap_or_default().into_iter().collect();
                        if got != want {
                            bad.push(format!("index {}: bitmap {:?}, expected {:?}", ix.name, got, want));
                        }
                    }
                    if bad.is_empty() {
                        sink.oracle_ok();
                    } else {
                        sink.oracle_fail(None, &format!("build_manifest(Rewrite) changed the table: {}", bad.join("; ")), json!({"manifest": m_in, "operation": m_op, "result": mo}));
                    }
                }
                Err(p) => sink.oracle_fail(None, &format!("build_manifest(Rewrite) {} on a valid compaction", if *p { "panicked" } else { "failed" }), json!({"manifest": m_in, "operation": m_op})),
            }
        }
        if crate::plant() == "build" && case == 0 {
            if let Ok(mo) = out.as_mut() {
                mo.fragments.reverse();
            }
        }
        let input = format!("(Some {}, {}, (false, None))", m_in.coq(), m_op.coq());
        sink.nontrivial(&input);
        sb.push(input, coq::outcome(&out.as_ref().map(|m| m.coq()).map_err(|e| *e)), json!({"manifest": m_in, "operation": m_op, "result": match &out { Ok(m) => json!(m), Err(false) => json!("Err"), Err(true) => json!("Panic") }}));
    }
    sink.add(sb);
}
