//! hx_c13: property C13 "compaction and other rewrites never change table contents".
//! unit arm (unit.rs): transpose_row_addrs (public) and Transaction::build_manifest for Rewrite operations
//! (verif hook) against Table/Model_Compact.v + Table/Model_Manifest.v;
//! e2e arm (e2e.rs): random histories -> plan_compaction / CompactionTask::execute / commit_compaction with
//! random options, task subsets and orders; contents, row ids, versions and index answers before/after;
//! blob arm (blob.rs): finding B1 (class blob_null_first_row_allbinary).
//! `model.rs` is a copy of hx_c05/model.rs (mirror of Table/Model_Manifest.v), kept private to this binary.
mod blob;
mod model;

fn main() {
    let (sub, args) = hxlib::util::Args::parse();
    let code = match sub.as_str() {
        "probe-blob" => {
            blob::probe();
            0
        }
        _ => {
            eprintln!("unknown subcommand {sub}");
            2
        }
    };
    std::process::exit(code);
}
