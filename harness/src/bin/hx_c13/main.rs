//! hx_c13: property C13 "compaction and other rewrites never change table contents".
//! unit arm (unit.rs): transpose_row_addrs (public) and Transaction::build_manifest for Rewrite operations
//! (verif hook) against Table/Model_Compact.v + Table/Model_Manifest.v;
//! e2e arm (e2e.rs): random histories -> plan_compaction / CompactionTask::execute / commit_compaction with
//! random options, task subsets and orders; contents, row ids, versions and index answers before/after;
//! blob arm (blob.rs): finding B1 (class blob_null_first_row_allbinary).
//! `model.rs` is a copy of hx_c05/model.rs (mirror of Table/Model_Manifest.v), kept private to this binary.
//!
//! `--plant <where>` (never set by checks.d) makes the harness RECORD a wrong implementation output once, to
//! demonstrate that the check detects it: plan | task | remap | commit | transpose | build | oracle.
mod blob;
mod e2e;
mod model;
mod probe;
mod tbl;
mod unit;

static PLANT: std::sync::OnceLock<String> = std::sync::OnceLock::new();
pub fn plant() -> &'static str {
    PLANT.get().map(|s| s.as_str()).unwrap_or("")
}

fn main() {
    let (sub, args) = hxlib::util::Args::parse();
    let mut it = args.rest.iter();
    while let Some(a) = it.next() {
        if a == "--plant" {
            let _ = PLANT.set(it.next().cloned().unwrap_or_default());
        }
    }
    let code = match sub.as_str() {
        "c13" => {
            let mut sink = hxlib::util::Sink::new("C13", &args.out);
            let mut rng = hxlib::util::Rng::new(args.seed);
            if !plant().is_empty() {
                sink.notes.push(format!("PLANTED BREAKAGE ACTIVE: {}", plant()));
            }
            let only = |k: &str| !args.rest.iter().any(|a| a.starts_with("--only")) || args.rest.iter().any(|a| a == &format!("--only-{k}"));
            if only("unit") {
                unit::run_transpose(&args, &mut sink, &mut rng.fork());
                unit::run_build(&args, &mut sink, &mut rng.fork());
            }
            if only("e2e") {
                e2e::run(&args, &mut sink, &mut rng.fork());
            }
            if only("blob") {
                blob::run(&args, &mut sink, &mut rng.fork());
            }
            sink.finish();
            0
        }
        "probe-stale" => {
            probe::stale_commit();
            0
        }
        "probe-blob" => {
            blob::probe();
            0
        }
        _ => {
            eprintln!("unknown subcommand {sub}");
            2
        }
    };
    std::process::exit(code);
}
