//! End-to-end arm of C13 (the main detector).  Random histories on temp-dir datasets produce many small and
//! partially deleted fragments (appends with a small max_rows_per_file, deletes, updates, an added column, a
//! BTree index on x, a small IVF_FLAT index on v), then compaction runs with random options
//!   mode "files"        compact_files
//!   mode "distributed"  plan_compaction / CompactionTask::execute (random order) / commit_compaction of a random
//!                       non-empty subset in random order, then (sometimes) the remaining tasks in a second commit
//!   mode "interleaved"  as distributed, with another writer committing (append / delete / update) between the
//!                       execution of the tasks and their commit through the stale planning handle
//! Direct oracles (model independent): the full scan (user columns, and with stable row ids _rowid and the two
//! version columns) is the same multiset before/after, order inside rewritten groups and of the untouched rows
//! kept; filter queries through the BTree index, k-nearest queries through the IVF index and take_rows by row id
//! answer the same before/after (and equal a brute-force evaluation over the scanned rows); the row_id_map a
//! task hands back maps the k-th live old address to the k-th new address and deleted rows to None.
//! Streams (model side): plan, task, task_remap, hyp (hypotheses of the theorems), commit (Model_Manifest
//! commit_step), scan (the abstraction function against the real scanner).
#![allow(dead_code)]
use crate::model::*;
use crate::tbl::*;
use hxlib::util::{coq, Args, Rng, Sink, Stream};
use lance::dataset::index::DatasetIndexRemapperOptions;
use lance::dataset::optimize::{commit_compaction, compact_files, plan_compaction, CompactionOptions, RewriteResult};
use lance::dataset::transaction::Operation;
use lance::Dataset;
use lance_file::version::LanceFileVersion;
use lance_index::DatasetIndexExt;
use lance_table::format::Fragment;
use lance_table::io::deletion::read_deletion_file;
use serde_json::json;
use std::collections::{BTreeMap, BTreeSet, HashMap};
use std::sync::Arc;

pub const REQ_C: &str = "Common.Base Meta.Model_Flags Table.Model_Manifest Table.Model_Compact";

pub struct Streams {
    pub plan: Stream,
    pub task: Stream,
    pub remap: Stream,
    pub remap_dom: Stream,
    pub hyp: Stream,
    pub commit: Stream,
    pub scan: Stream,
    pub tasks: Stream,
}
impl Streams {
    pub fn new() -> Self {
        let mut s = Streams {
            plan: Stream::new("plan", REQ_C, "chk_plan", "copts * list fmetric", "outcome (list (list N))"),
            task: Stream::new("task", REQ_C, "chk_task", "(bool * bool) * N * list Fragment", "list Fragment"),
            remap: Stream::new("task_remap", REQ_C, "chk_task_remap", "list Fragment * list Fragment", "list (N * option N)"),
            remap_dom: Stream::new("remap_dom", REQ_C, "chk_remap_dom", "list Fragment * list Fragment", "bool"),
            hyp: Stream::new("hyp", REQ_C, "chk_groups_ok", "Manifest * list RewriteGroup", "bool"),
            commit: Stream::new("commit", REQ, "chk_commit", "Manifest * Operation * option fver", "Manifest"),
            scan: Stream::new("scan", REQ_C, "chk_scan", "Manifest", "list (N * (option N * (N * N)))"),
            tasks: Stream::new("tasks", REQ_C, "chk_tasks_ok", "Manifest * Manifest * list RewriteGroup", "bool * bool"),
        };
        for st in [&mut s.plan, &mut s.task, &mut s.remap, &mut s.remap_dom, &mut s.hyp, &mut s.commit, &mut s.scan, &mut s.tasks] {
            st.shard = 60;
        }
        s
    }
    pub fn add_to(self, sink: &mut Sink) {
        for s in [self.plan, self.task, self.remap, self.remap_dom, self.hyp, self.commit, self.scan, self.tasks] {
            if !s.is_empty() {
                sink.add(s);
            }
        }
    }
}

/// make sure the storage facts (file lengths, deletion vectors) of these fragments are known to `ctx`
pub async fn load_facts(ctx: &mut Ctx, ds: &Dataset, frags: &[Fragment]) -> Result<(), String> {
    let dsa = Arc::new(ds.clone());
    for f in frags {
        for d in &f.files {
            let key = file_key(d);
            if ctx.file_rows.contains_key(&key) {
                continue;
            }
            let mut meta = Fragment::new(f.id);
            meta.files = vec![d.clone()];
            let ff = lance::dataset::fragment::FileFragment::new(dsa.clone(), meta);
            let rows = guarded(async move { ff.physical_rows().await }).await.map_err(|e| format!("cannot read length of data file {}: {}", d.path, e.1))?;
            ctx.file_rows.insert(key, rows as u64);
        }
        if let Some(d) = &f.deletion_file {
            let k = del_key(f.id, d);
            if ctx.del_rows.contains_key(&k) {
                continue;
            }
            let dv = read_deletion_file(f.id, d, &ds.branch_location().path, &ds.object_store).await.map_err(|e| format!("cannot read deletion file of fragment {}: {}", f.id, e))?;
            let mut rows: Vec<u64> = dv.iter().map(|x| x as u64).collect();
            rows.sort();
            ctx.del_rows.insert(k, rows);
        }
    }
    Ok(())
}

pub async fn export_manifest(ctx: &mut Ctx, ds: &Dataset, loaded_indices: bool) -> Result<MManifest, String> {
    load_facts(ctx, ds, &ds.manifest.fragments).await?;
    let idx = if loaded_indices {
        let d = ds.clone();
        let v = guarded(async move { d.load_indices().await }).await.map_err(|(p, e)| format!("load_indices {}: {}", if p { "PANICKED" } else { "failed" }, e))?;
        (*v).clone()
    } else {
        lance_table::io::manifest::read_manifest_indexes(&ds.object_store, ds.manifest_location(), &ds.manifest).await.map_err(|e| format!("index section: {e}"))?
    };
    Ok(conv_manifest(ctx, &ds.manifest, &idx))
}

// ---------------------------------------------------------------- options
#[derive(Clone, Debug)]
pub struct Opts {
    pub target: usize,
    pub materialize: bool,
    pub thr: (u64, u64, f32), // rational threshold and the f32 handed to lance
    pub defer: bool,
    pub batch_size: Option<usize>,
}
impl Opts {
    pub fn random(rng: &mut Rng) -> Opts {
        let thr = *rng.pick(&[(0u64, 1u64, 0.0f32), (1, 10, 0.1), (1, 4, 0.25), (1, 2, 0.5), (3, 2, 1.5)]);
        Opts { target: *rng.pick(&[2usize, 3, 4, 6, 8, 16, 64, 1024]), materialize: rng.chance(5, 6), thr, defer: rng.chance(1, 3), batch_size: if rng.chance(1, 3) { Some(*rng.pick(&[1usize, 2, 5])) } else { None } }
    }
    pub fn lance(&self) -> CompactionOptions {
        CompactionOptions { target_rows_per_fragment: self.target, materialize_deletions: self.materialize, materialize_deletions_threshold: self.thr.2, defer_index_remap: self.defer, batch_size: self.batch_size, max_rows_per_group: 1024, ..Default::default() }
    }
    pub fn coq(&self, validated: bool) -> String {
        // compact_files calls CompactionOptions::validate first
        let mat = if validated && self.materialize && self.thr.0 >= self.thr.1 { false } else { self.materialize };
        format!("(mkOpts {} {} {} {})", self.target, coq::b(mat), self.thr.0, self.thr.1)
    }
    pub fn text(&self) -> String {
        format!("target_rows_per_fragment={} materialize_deletions={} threshold={} defer_index_remap={} batch_size={:?}", self.target, self.materialize, self.thr.2, self.defer, self.batch_size)
    }
}

/// what plan_compaction reads: (id, physical_rows, deletions, positions of the indices covering the fragment)
pub async fn fmetrics(ctx: &mut Ctx, ds: &Dataset) -> Result<(Vec<(u64, u64, u64, Vec<u64>)>, bool), String> {
    load_facts(ctx, ds, &ds.manifest.fragments).await?;
    let d = ds.clone();
    let idx = guarded(async move { d.load_indices().await }).await.map_err(|(p, e)| format!("load_indices {}: {}", if p { "PANICKED" } else { "failed" }, e))?;
    let mut all_bitmaps = true;
    let mut out = vec![];
    for f in ds.manifest.fragments.iter() {
        let ndel = match &f.deletion_file {
            Some(d) => ctx.del_rows.get(&del_key(f.id, d)).map(|r| r.len() as u64).unwrap_or(0),
            None => 0,
        };
        let mut pos = vec![];
        for (i, ix) in idx.iter().enumerate() {
            match &ix.fragment_bitmap {
                Some(b) => {
                    if b.contains(f.id as u32) {
                        pos.push(i as u64)
                    }
                }
                None => all_bitmaps = false,
            }
        }
        out.push((f.id, f.physical_rows.unwrap_or(0) as u64, ndel, pos));
    }
    Ok((out, all_bitmaps))
}

// ---------------------------------------------------------------- snapshots and oracles
#[derive(Clone, Debug)]
pub struct Queries {
    pub filters: Vec<String>,
    pub knn: Vec<(i64, usize, Option<String>)>,
}
impl Queries {
    pub fn random(rng: &mut Rng, t: &Tbl) -> Queries {
        let mut filters = vec![];
        for _ in 0..3 {
            filters.push(match rng.below(5) {
                0 => format!("x = {}", rng.below(24)),
                1 => {
                    let a = rng.below(20);
                    format!("x >= {a} AND x < {}", a + rng.range(1, 8))
                }
                2 => format!("x > {}", rng.below(24)),
                3 => format!("x IN ({}, {}, {})", rng.below(24), rng.below(24), rng.below(24)),
                _ => format!("x <= {} AND k >= {}", rng.below(24), rng.below(t.next_k.max(1) as u64)),
            });
        }
        let mut knn = vec![];
        for _ in 0..2 {
            knn.push((rng.below(t.next_k.max(1) as u64) as i64, rng.range(1, 6) as usize, if rng.chance(1, 3) { Some(format!("k % 2 = {}", rng.below(2))) } else { None }));
        }
        Queries { filters, knn }
    }
}

#[derive(Clone, Debug)]
pub struct Snap {
    pub version: u64,
    pub rows: Vec<Row>,
    pub filters: Vec<Result<Vec<i64>, (bool, String)>>,
    pub knn: Vec<Result<Vec<i64>, (bool, String)>>,
    /// take_rows of every scanned _rowid, in scan order (stable tables)
    pub take: Option<Result<Vec<i64>, (bool, String)>>,
}

pub async fn snapshot(t: &Tbl, ds: &Dataset, q: &Queries) -> Result<Snap, (bool, String)> {
    let (d, hz, st) = (ds.clone(), t.has_z, t.stable);
    let rows = guarded(async move { scan_rows(&d, hz, st).await }).await?;
    let mut filters = vec![];
    for f in &q.filters {
        let (d, f) = (ds.clone(), f.clone());
        filters.push(guarded(async move { filter_keys(&d, &f, true).await }).await);
    }
    let mut knn = vec![];
    if t.ivf {
        for (c, n, p) in &q.knn {
            let (d, c, n, p) = (ds.clone(), *c, *n, p.clone());
            knn.push(guarded(async move { knn_keys(&d, c, n, p).await }).await);
        }
    }
    let take = if t.stable && !rows.is_empty() {
        let (d, ids) = (ds.clone(), rows.iter().map(|r| r.rowid).collect::<Vec<_>>());
        Some(guarded(async move { take_keys(&d, &ids).await }).await)
    } else {
        None
    };
    Ok(Snap { version: ds.version().version, rows, filters, knn, take })
}

fn eval_filter(f: &str, r: &Row) -> Option<bool> {
    // brute force for the query shapes of Queries::random (SQL three-valued logic: NULL -> not selected)
    let parts: Vec<&str> = f.split(" AND ").collect();
    let mut ok = true;
    for p in parts {
        let w: Vec<&str> = p.split_whitespace().collect();
        let col = |name: &str| -> Option<i64> {
            match name {
                "x" => r.x,
                "k" => Some(r.k),
                _ => None,
            }
        };
        if w.len() >= 3 && w[1] == "IN" {
            let vals: Vec<i64> = p[p.find('(').unwrap() + 1..p.find(')').unwrap()].split(',').map(|s| s.trim().parse().unwrap()).collect();
            match col(w[0]) {
                Some(v) => ok &= vals.contains(&v),
                None => return Some(false),
            }
            continue;
        }
        let c: i64 = w[2].parse().ok()?;
        let v = match col(w[0]) {
            Some(v) => v,
            None => return Some(false),
        };
        ok &= match w[1] {
            "=" => v == c,
            ">=" => v >= c,
            "<" => v < c,
            ">" => v > c,
            "<=" => v <= c,
            _ => return None,
        };
    }
    Some(ok)
}

fn brute_knn(rows: &[Row], c: i64, n: usize, pre: &Option<String>) -> Vec<i64> {
    let mut cand: Vec<(f32, i64)> = rows
        .iter()
        .filter(|r| match pre {
            Some(p) => {
                let m: i64 = p.rsplit(' ').next().unwrap().parse().unwrap();
                r.k % 2 == m
            }
            None => true,
        })
        .map(|r| {
            let d = f32::from_bits(r.v0) - (c as f32 + 0.3);
            (d * d, r.k)
        })
        .collect();
    cand.sort_by(|a, b| a.partial_cmp(b).unwrap());
    cand.into_iter().take(n).map(|x| x.1).collect()
}

fn is_f18(msg: &str) -> bool {
    msg.contains("Wrong range")
}

/// The statement of C13 on two snapshots of the same table taken before / after a compaction commit.
/// `touched`: fragment ids rewritten by the commit; `groups`: (old ids, new ids) per committed group.
#[allow(clippy::too_many_arguments)]
pub fn compare(t: &Tbl, q: &Queries, before: &Snap, after: &Snap, groups: &[(Vec<u64>, Vec<u64>)], what: &str, known: Option<&str>, sink: &mut Sink) {
    let case = |extra: serde_json::Value| json!({"history": t.hist, "step": what, "before_version": before.version, "after_version": after.version, "detail": extra});
    // 1. same multiset of rows: user columns (+ row id and versions with stable row ids)
    let key = |r: &Row| -> (i64, Option<i64>, Option<String>, u32, Option<i64>, u64, u64, u64) {
        let c = r.content();
        if t.stable {
            (c.0, c.1, c.2, c.3, c.4, r.rowid, r.created, r.updated)
        } else {
            (c.0, c.1, c.2, c.3, c.4, 0, 0, 0)
        }
    };
    let mut b: Vec<_> = before.rows.iter().map(key).collect();
    let mut a: Vec<_> = after.rows.iter().map(key).collect();
    b.sort_by(|x, y| x.partial_cmp(y).unwrap());
    a.sort_by(|x, y| x.partial_cmp(y).unwrap());
    if a == b {
        sink.oracle_ok();
    } else {
        let lost: Vec<_> = b.iter().filter(|r| !a.contains(r)).take(4).collect();
        let gained: Vec<_> = a.iter().filter(|r| !b.contains(r)).take(4).collect();
        sink.oracle_fail(known, &format!("{what}: the rows of the table (user columns{}) changed: {} rows before, {} after; only before: {:?}; only after: {:?}", if t.stable { ", _rowid, created/updated versions" } else { "" }, b.len(), a.len(), lost, gained), case(json!({})));
    }
    // 2. order: untouched rows keep their addresses and order; rows of a group keep their order
    let touched: BTreeSet<u64> = groups.iter().flat_map(|g| g.0.iter().cloned()).collect();
    let newids: BTreeSet<u64> = groups.iter().flat_map(|g| g.1.iter().cloned()).collect();
    let ub: Vec<_> = before.rows.iter().filter(|r| !touched.contains(&(r.addr >> 32))).map(|r| (r.addr, r.k)).collect();
    let ua: Vec<_> = after.rows.iter().filter(|r| !newids.contains(&(r.addr >> 32))).map(|r| (r.addr, r.k)).collect();
    if ub == ua {
        sink.oracle_ok();
    } else {
        sink.oracle_fail(known, &format!("{what}: rows of fragments outside the committed groups moved or changed"), case(json!({"before": ub.iter().take(12).collect::<Vec<_>>(), "after": ua.iter().take(12).collect::<Vec<_>>()})));
    }
    for (olds, news) in groups {
        let gb: Vec<i64> = olds.iter().flat_map(|id| before.rows.iter().filter(move |r| r.addr >> 32 == *id).map(|r| r.k)).collect();
        let ga: Vec<i64> = news.iter().flat_map(|id| after.rows.iter().filter(move |r| r.addr >> 32 == *id).map(|r| r.k)).collect();
        if gb == ga {
            sink.oracle_ok();
        } else {
            sink.oracle_fail(known, &format!("{what}: the new fragments {news:?} do not hold the live rows of {olds:?} in order"), case(json!({"old_keys": gb, "new_keys": ga})));
        }
    }
    // 3. index answers
    for (i, f) in q.filters.iter().enumerate() {
        let brute: Option<Vec<i64>> = {
            let mut v = vec![];
            let mut okk = true;
            for r in &after.rows {
                match eval_filter(f, r) {
                    Some(true) => v.push(r.k),
                    Some(false) => {}
                    None => okk = false,
                }
            }
            v.sort();
            if okk { Some(v) } else { None }
        };
        match (&before.filters[i], &after.filters[i]) {
            (Ok(x), Ok(y)) => {
                if x == y && brute.as_ref().map(|b| b == y).unwrap_or(true) {
                    sink.oracle_ok();
                } else if x != y {
                    sink.oracle_fail(known, &format!("{what}: filter `{f}` (BTree index on x: {}) answers differently after compaction", t.btree), case(json!({"before": x, "after": y, "brute_force": brute})));
                } else {
                    // before == after but both differ from brute force: not a compaction matter (C19/C20); recorded
                    sink.count("e2e:filter-differs-from-brute-force-before-and-after");
                }
            }
            (Err(_), _) => sink.count("e2e:filter-failed-before-compaction"),
            (Ok(_), Err((p, m))) => {
                let cls = if is_f18(m) && t.stable && t.updated { Some("rowid_index_overlapping_ranges_after_rechunk") } else { known };
                sink.oracle_fail(cls, &format!("{what}: filter `{f}` answered before compaction and {} after: {}", if *p { "PANICS" } else { "fails" }, m), case(json!({})))
            }
        }
    }
    for (i, (c, n, p)) in q.knn.iter().enumerate() {
        if i >= before.knn.len() || i >= after.knn.len() {
            continue;
        }
        let brute = brute_knn(&after.rows, *c, *n, p);
        match (&before.knn[i], &after.knn[i]) {
            (Ok(x), Ok(y)) => {
                if x == y && *y == brute {
                    sink.oracle_ok();
                } else if x != y {
                    sink.oracle_fail(known, &format!("{what}: {n} nearest to {c}.3 (IVF_FLAT, all partitions, prefilter {p:?}) differ after compaction"), case(json!({"before": x, "after": y, "brute_force": brute})));
                } else {
                    sink.count("e2e:knn-differs-from-brute-force-before-and-after");
                }
            }
            (Err(_), _) => sink.count("e2e:knn-failed-before-compaction"),
            (Ok(_), Err((pn, m))) => {
                let cls = if is_f18(m) && t.stable && t.updated { Some("rowid_index_overlapping_ranges_after_rechunk") } else { known };
                sink.oracle_fail(cls, &format!("{what}: knn query answered before compaction and {} after: {}", if *pn { "PANICS" } else { "fails" }, m), case(json!({})))
            }
        }
    }
    // 4. take_rows by stable row id
    if let (Some(Ok(x)), Some(y)) = (&before.take, &after.take) {
        // the ids of the before-scan, taken after compaction, must give the same rows
        let want: BTreeMap<u64, i64> = before.rows.iter().map(|r| (r.rowid, r.k)).collect();
        match y {
            Ok(y) => {
                let got: BTreeMap<u64, i64> = after.rows.iter().map(|r| r.rowid).zip(y.iter().cloned()).collect();
                let _ = x;
                if got == want {
                    sink.oracle_ok();
                } else {
                    sink.oracle_fail(known, &format!("{what}: take_rows by stable row id returns other rows after compaction"), case(json!({"before": want, "after": got})));
                }
            }
            Err((p, m)) => {
                let cls = if is_f18(m) && t.updated { Some("rowid_index_overlapping_ranges_after_rechunk") } else { known };
                sink.oracle_fail(cls, &format!("{what}: take_rows by stable row id worked before compaction and {} after: {}", if *p { "PANICS" } else { "fails" }, m), case(json!({})))
            }
        }
    } else if before.take.is_some() {
        sink.count("e2e:take-rows-failed-before-compaction");
    }
}

/// direct oracle of the remap on one task result
pub fn check_row_id_map(t: &Tbl, before: &Snap, olds: &[MFrag], news: &[MFrag], map: &HashMap<u64, Option<u64>>, what: &str, sink: &mut Sink) {
    let live: Vec<u64> = olds.iter().flat_map(|f| before.rows.iter().filter(move |r| r.addr >> 32 == f.id).map(|r| r.addr)).collect();
    let new_addrs: Vec<u64> = news.iter().flat_map(|f| (0..f.phys.unwrap_or(0)).map(move |o| (f.id << 32) | o)).collect();
    let mut bad = vec![];
    if live.len() != new_addrs.len() {
        bad.push(format!("{} live old rows but {} new rows", live.len(), new_addrs.len()));
    }
    for (a, b) in live.iter().zip(new_addrs.iter()) {
        if map.get(a) != Some(&Some(*b)) {
            bad.push(format!("live {:#x} -> {:?}, expected {:#x}", a, map.get(a), b));
        }
    }
    let live_set: BTreeSet<u64> = live.iter().cloned().collect();
    let mut all = BTreeSet::new();
    for f in olds {
        for o in 0..f.phys.unwrap_or(0) {
            let a = (f.id << 32) | o;
            all.insert(a);
            if !live_set.contains(&a) && map.get(&a) != Some(&None) {
                bad.push(format!("deleted {:#x} -> {:?}, expected None", a, map.get(&a)));
            }
        }
    }
    for k in map.keys() {
        if !all.contains(k) {
            bad.push(format!("key {:#x} is not an address of the task's fragments", k));
        }
    }
    if bad.is_empty() {
        sink.oracle_ok();
    } else {
        sink.oracle_fail(None, &format!("{what}: row_id_map of a task is not the bijection live old address -> new address (deleted -> None): {}", bad.iter().take(4).cloned().collect::<Vec<_>>().join("; ")), json!({"history": t.hist, "old": olds.iter().map(|f| f.id).collect::<Vec<_>>(), "new": news.iter().map(|f| f.id).collect::<Vec<_>>()}));
    }
}

// ---------------------------------------------------------------- exporting a committed Rewrite
/// Ok(Some((groups as (old ids, new ids), olds_changed))): `olds_changed` = an old fragment recorded in the
/// committed Rewrite (what the task read) differs from the fragment of that id in the manifest the Rewrite was
/// applied to (class commit_ignores_task_read_version)
pub async fn export_commit(ctx: &mut Ctx, t: &Tbl, v: u64, st: &mut Streams, sink: &mut Sink) -> Result<Option<(Vec<(Vec<u64>, Vec<u64>)>, bool)>, String> {
    let ds = t.ds.checkout_version(v).await.map_err(|e| format!("checkout {v}: {e}"))?;
    let tx = ds.read_transaction().await.map_err(|e| format!("read_transaction {v}: {e}"))?;
    let Some(tx) = tx else { return Err(format!("version {v} has no transaction file")) };
    sink.count(&format!("e2e:tx:{}", tx.operation));
    let Operation::Rewrite { groups, .. } = &tx.operation else { return Ok(None) };
    let m = export_manifest(ctx, &ds, false).await?;
    let prev = t.ds.checkout_version(v - 1).await.map_err(|e| e.to_string())?;
    let mp = export_manifest(ctx, &prev, true).await?;
    for g in groups {
        load_facts(ctx, &ds, &g.new_fragments).await?;
    }
    let Some(op) = conv_op(ctx, &tx.operation) else { return Ok(None) };
    let op = match op {
        MOp::Rewrite(g, r, None) => {
            let fri = m.indices.iter().find(|i| i.name == 0 && !mp.indices.iter().any(|j| j.uuid == i.uuid)).cloned();
            MOp::Rewrite(g, r, fri)
        }
        o => o,
    };
    let hist = json!(t.hist);
    let MOp::Rewrite(mg, _, fri) = &op else { unreachable!() };
    let recorded = if crate::plant() == "commit" && st.commit.is_empty() {
        // sanity test of the check itself: drop the last fragment of the recorded manifest
        let mut w = m.clone();
        w.fragments.pop();
        w
    } else {
        m.clone()
    };
    st.commit.push(format!("({}, {}, None)", mp.coq(), op.coq()), recorded.coq(), json!({"history": hist, "version": v, "previous": mp, "operation": op, "manifest": m}));
    let groups_coq = coq::list(mg.iter().map(|g| format!("(mkRewriteGroup {} {})", coq::nlist(g.old.iter()), frags_coq(&g.new))));
    // the old fragments as the tasks read them (recorded in the transaction) against the manifest committed on
    let mut read_frags: Vec<MFrag> = vec![];
    let mut olds_changed = false;
    for g in groups {
        for of in &g.old_fragments {
            load_facts(ctx, &prev, std::slice::from_ref(of)).await.ok();
            let known_del = of.deletion_file.as_ref().map(|d| ctx.del_rows.contains_key(&del_key(of.id, d))).unwrap_or(true);
            if !known_del {
                olds_changed = true; // its deletion file is not even readable any more
                continue;
            }
            let r = conv_frag(ctx, of);
            if mp.fragments.iter().find(|f| f.id == r.id) != Some(&r) {
                olds_changed = true;
            }
            read_frags.push(r);
        }
    }
    read_frags.sort_by_key(|f| f.id);
    let mut m_read = mp.clone();
    m_read.fragments = read_frags;
    st.tasks.push(format!("({}, {}, {})", m_read.coq(), mp.coq(), groups_coq), format!("(true, {})", coq::b(olds_changed)), json!({"history": hist, "version": v, "old_fragments_changed_since_the_tasks_ran": olds_changed}));
    if olds_changed {
        sink.count("e2e:commit-over-changed-old-fragments");
    } else {
        // hypotheses of the theorems (groups_ok only needs ids 0 or fresh, so the unassigned ids of the
        // stable-row-ids + deferred-remap finding do not matter here)
        st.hyp.push(format!("({}, {})", mp.coq(), groups_coq), "true".into(), json!({"history": hist, "version": v, "previous": mp, "groups": mg, "frag_reuse_index": fri.is_some()}));
    }
    sink.nontrivial(&format!("C13:{}:{}", groups_coq, mp.coq()));
    // new ids as committed: look the new fragments up in the new manifest by their data file
    let mut out = vec![];
    for g in groups {
        let olds: Vec<u64> = g.old_fragments.iter().map(|f| f.id).collect();
        let mut news = vec![];
        for nf in &g.new_fragments {
            let path = nf.files.first().map(|d| d.path.clone()).unwrap_or_default();
            if let Some(f) = ds.manifest.fragments.iter().find(|f| f.files.first().map(|d| d.path == path).unwrap_or(false)) {
                news.push(f.id);
            }
        }
        out.push((olds, news));
    }
    Ok(Some((out, olds_changed)))
}

pub fn push_scan(st: &mut Streams, t: &Tbl, m: &MManifest, snap: &Snap) {
    let o = coq::list(snap.rows.iter().map(|r| format!("({}, ({}, ({}, {})))", r.addr, if t.stable { format!("Some {}", r.rowid) } else { "None".into() }, r.created, r.updated)));
    st.scan.push(m.coq(), o, json!({"history": t.hist, "version": m.version}));
}

// ---------------------------------------------------------------- the driver
pub async fn history(rng: &mut Rng, h: usize, st: &mut Streams, sink: &mut Sink) {
    let stable = h % 2 == 1;
    let mut t = Tbl::create(rng, stable).await;
    let mut ctx = Ctx::default();
    sink.count(if stable { "e2e:history:stable-row-ids" } else { "e2e:history:address-row-ids" });
    let n_steps = rng.range(3, 9);
    let index_at = rng.below(n_steps + 2);
    let ivf_at = if rng.chance(1, 2) { rng.below(n_steps + 2) } else { 99 };
    for s in 0..n_steps {
        if s == index_at {
            if let Err(e) = t.index_btree().await {
                t.hist.push(format!("   -> {e:?}"));
            }
        }
        if s == ivf_at {
            if let Err(e) = t.index_ivf().await {
                t.hist.push(format!("   -> {e:?}"));
            }
        }
        let which = *rng.pick(&[0usize, 0, 0, 1, 1, 1, 2, 2, 3, 4]);
        let name = ["append", "delete", "update", "add_z", "drop_z"][which];
        sink.count(&format!("e2e:step:{name}"));
        let r = match which {
            0 => t.append(rng).await,
            1 => t.delete(rng).await,
            2 => t.update(rng).await,
            3 => t.add_z().await,
            _ => t.drop_z().await,
        };
        if let Err((p, e)) = r {
            sink.count(&format!("e2e:step-{}:{name}", if p { "panicked" } else { "refused" }));
            t.hist.push(format!("   -> {}: {}", if p { "PANIC" } else { "error" }, e.chars().take(160).collect::<String>()));
            let mut d = t.ds.clone();
            if d.checkout_latest().await.is_ok() {
                t.ds = d;
            }
        }
    }
    // up to two rounds of compaction
    for round in 0..rng.range(1, 2) {
        let opts = Opts::random(rng);
        let mode = *rng.pick(&["files", "files", "distributed", "distributed", "distributed", "interleaved"]);
        compaction_round(rng, &mut t, &mut ctx, &opts, mode, round, st, sink).await;
        if round == 0 && rng.chance(1, 2) {
            // more damage before the second round
            let _ = t.delete(rng).await;
            let _ = t.append(rng).await;
        }
    }
}

fn known_class(t: &Tbl) -> Option<&'static str> {
    if t.deferred_on_stable {
        Some("stable_rowids_deferred_remap_unassigned_fragment_ids")
    } else {
        None
    }
}

#[allow(clippy::too_many_arguments)]
pub async fn compaction_round(rng: &mut Rng, t: &mut Tbl, ctx: &mut Ctx, opts: &Opts, mode: &str, round: u64, st: &mut Streams, sink: &mut Sink) {
    sink.count(&format!("e2e:compaction:{mode}"));
    sink.count(&format!("e2e:compaction:defer_index_remap={}", opts.defer));
    let q = Queries::random(rng, t);
    let what = format!("round {round} {mode} compaction [{}]", opts.text());
    t.hist.push(format!("{mode} compaction {}", opts.text()));
    if opts.defer && t.stable {
        t.deferred_on_stable = true;
    }
    let before = match snapshot(t, &t.ds, &q).await {
        Ok(s) => s,
        Err((p, e)) => {
            sink.oracle_fail(known_class(t), &format!("{what}: the table cannot be scanned before compaction ({}): {e}", if p { "panic" } else { "error" }), json!({"history": t.hist}));
            return;
        }
    };
    let v0 = t.ds.version().version;
    // the model's view of the table that is planned on + the abstraction function against the real scan
    let m0 = match export_manifest(ctx, &t.ds, true).await {
        Ok(m) => m,
        Err(e) => {
            sink.oracle_fail(known_class(t), &format!("{what}: manifest cannot be exported: {e}"), json!({"history": t.hist}));
            return;
        }
    };
    push_scan(st, t, &m0, &before);
    // ---- plan
    let lopts = opts.lance();
    let (fm, all_bitmaps) = match fmetrics(ctx, &t.ds).await {
        Ok(x) => x,
        Err(e) => {
            sink.oracle_fail(known_class(t), &format!("{what}: {e}"), json!({"history": t.hist}));
            return;
        }
    };
    let validated = mode == "files";
    let mut popts = lopts.clone();
    if validated {
        popts.validate();
    }
    let (d, po) = (t.ds.clone(), popts.clone());
    let plan = guarded(async move { plan_compaction(&d, &po).await }).await;
    let fm_coq = coq::list(fm.iter().map(|(id, p, nd, ix)| format!("(mkFM {} {} {} {})", id, p, nd, coq::nlist(ix.iter()))));
    let plan_out: Result<String, bool> = match &plan {
        Ok(p) => Ok(coq::list(p.tasks.iter().map(|tk| coq::nlist(tk.fragments.iter().map(|f| &f.id))))),
        Err((true, _)) => Err(true),
        Err((false, _)) => Err(false),
    };
    if all_bitmaps {
        let mut rec = coq::outcome(&plan_out);
        if crate::plant() == "plan" && st.plan.is_empty() {
            rec = "(Ok [[4294967295]])".into();
        }
        st.plan.push(format!("({}, {})", opts.coq(validated), fm_coq), rec, json!({"history": t.hist, "options": opts.text(), "fragments(id,physical_rows,deleted,indices)": fm, "plan": plan.as_ref().map(|p| p.tasks.iter().map(|tk| tk.fragments.iter().map(|f| f.id).collect::<Vec<_>>()).collect::<Vec<_>>()).map_err(|e| e.1.clone())}));
    }
    let plan = match plan {
        Ok(p) => p,
        Err((p, e)) => {
            sink.oracle_fail(known_class(t), &format!("{what}: plan_compaction {}: {e}", if p { "panicked" } else { "failed" }), json!({"history": t.hist}));
            return;
        }
    };
    sink.count(&format!("e2e:plan:tasks={}", plan.tasks.len().min(4)));
    if mode == "files" {
        let (mut d, lo) = (t.ds.clone(), lopts.clone());
        match guarded(async move {
            let m = compact_files(&mut d, lo, None).await?;
            Ok((d, m))
        })
        .await
        {
            Ok((d, _)) => t.ds = d,
            Err((p, e)) => {
                sink.oracle_fail(known_class(t), &format!("{what}: compact_files {}: {e}", if p { "panicked" } else { "failed" }), json!({"history": t.hist}));
                let mut d = t.ds.clone();
                if d.checkout_latest().await.is_ok() {
                    t.ds = d;
                }
                return;
            }
        }
        after_commits(rng, t, ctx, &q, &before, v0, &what, st, sink).await;
        return;
    }
    // ---- distributed: execute the tasks in a random order against the planning version
    let mut tasks: Vec<_> = plan.compaction_tasks().collect();
    for i in (1..tasks.len()).rev() {
        let j = rng.below(i as u64 + 1) as usize;
        tasks.swap(i, j);
    }
    let planning = t.ds.clone();
    let mut results: Vec<RewriteResult> = vec![];
    for tk in tasks {
        let (d, tk2) = (planning.clone(), tk.clone());
        match guarded(async move { tk2.execute(&d).await }).await {
            Ok(r) => {
                // the task as the model sees it
                let olds: Vec<MFrag> = tk.task.fragments.iter().map(|f| conv_frag(ctx, f)).collect();
                if load_facts(ctx, &planning, &r.new_fragments).await.is_ok() {
                    let news: Vec<MFrag> = r.new_fragments.iter().map(|f| conv_frag(ctx, f)).collect();
                    let exact = t.ver != LanceFileVersion::Legacy;
                    let mut rec = frags_coq(&news);
                    if crate::plant() == "task" && st.task.is_empty() && !news.is_empty() {
                        let mut w = news.clone();
                        w[0].phys = w[0].phys.map(|p| p + 1);
                        rec = frags_coq(&w);
                    }
                    st.task.push(format!("(({}, {}), {}, {})", coq::b(t.stable), coq::b(exact), opts.target, frags_coq(&olds)), rec, json!({"history": t.hist, "options": opts.text(), "old": olds, "new": news}));
                    if !t.stable {
                        st.remap_dom.push(format!("({}, {})", frags_coq(&olds), frags_coq(&news)), "true".into(), json!({"history": t.hist, "old": olds.iter().map(|f| f.id).collect::<Vec<_>>()}));
                    }
                    if let Some(map) = &r.row_id_map {
                        if !t.stable {
                            let mut kv: Vec<(u64, Option<u64>)> = map.iter().map(|(k, v)| (*k, *v)).collect();
                            kv.sort();
                            if crate::plant() == "remap" && st.remap.is_empty() && !kv.is_empty() {
                                kv[0].1 = Some(12345);
                            }
                            st.remap.push(format!("({}, {})", frags_coq(&olds), frags_coq(&news)), coq::list(kv.iter().map(|(k, v)| format!("({}, {})", k, coq::opt(v.map(coq::n))))), json!({"history": t.hist, "old": olds.iter().map(|f| f.id).collect::<Vec<_>>(), "new": news.iter().map(|f| f.id).collect::<Vec<_>>(), "row_id_map_len": kv.len()}));
                            check_row_id_map(t, &before, &olds, &news, map, &what, sink);
                        } else if !map.is_empty() {
                            sink.oracle_fail(None, &format!("{what}: a task on a table with stable row ids returned a non-empty row_id_map"), json!({"history": t.hist}));
                        }
                    }
                }
                results.push(r);
            }
            Err((p, e)) => {
                sink.oracle_fail(known_class(t), &format!("{what}: CompactionTask::execute {}: {e}", if p { "panicked" } else { "failed" }), json!({"history": t.hist, "task": tk.task.fragments.iter().map(|f| f.id).collect::<Vec<_>>()}));
            }
        }
    }
    if results.is_empty() {
        sink.count("e2e:nothing-to-compact");
        return;
    }
    // ---- interleaved: another writer commits before the compaction does
    let mut reference = before.clone();
    if mode == "interleaved" {
        let other = *rng.pick(&["append", "delete", "update"]);
        sink.count(&format!("e2e:interleaved:{other}"));
        t.hist.push(format!("-- meanwhile another writer: {other}"));
        let r = match other {
            "append" => t.append(rng).await,
            "delete" => t.delete(rng).await,
            _ => t.update(rng).await,
        };
        if let Err((p, e)) = r {
            t.hist.push(format!("   -> {}: {}", if p { "PANIC" } else { "error" }, e.chars().take(160).collect::<String>()));
        }
        match snapshot(t, &t.ds, &q).await {
            Ok(s) => reference = s,
            Err((p, e)) => {
                sink.oracle_fail(known_class(t), &format!("{what}: scan after the concurrent write {}: {e}", if p { "panicked" } else { "failed" }), json!({"history": t.hist}));
                return;
            }
        }
    }
    // ---- commit a random non-empty subset (in the shuffled order), then sometimes the rest
    let k = rng.range(1, results.len() as u64) as usize;
    let rest = results.split_off(k);
    let mut batches = vec![results];
    if !rest.is_empty() && rng.chance(1, 2) {
        batches.push(rest);
    }
    // the planning handle (stale if another writer committed meanwhile), or a handle refreshed to the latest version
    let refreshed = mode == "interleaved" && rng.chance(1, 2);
    if refreshed {
        sink.count("e2e:interleaved:commit-through-refreshed-handle");
    }
    let mut handle = if refreshed { t.ds.clone() } else { planning.clone() };
    let v_ref = t.ds.version().version;
    let mut reference = reference;
    for (bi, batch) in batches.into_iter().enumerate() {
        let ids: Vec<Vec<u64>> = batch.iter().map(|r| r.original_fragments.iter().map(|f| f.id).collect()).collect();
        t.hist.push(format!("commit_compaction of tasks {ids:?} through the handle at version {}", handle.version().version));
        let (mut d, lo) = (handle.clone(), lopts.clone());
        let r = guarded(async move {
            commit_compaction(&mut d, batch, Arc::new(DatasetIndexRemapperOptions::default()), &lo).await?;
            Ok(d)
        })
        .await;
        match r {
            Ok(d) => {
                handle = d.clone();
                t.ds = d;
                let vb = if bi == 0 { v_ref } else { reference.version };
                after_commits(rng, t, ctx, &q, &reference, vb, &format!("{what} commit #{bi} of tasks {ids:?}"), st, sink).await;
                match snapshot(t, &t.ds, &q).await {
                    Ok(s) => reference = s,
                    Err(_) => return,
                }
            }
            Err((false, e)) if mode == "interleaved" => {
                // a conflict with the concurrent write: nothing may have been committed
                sink.count("e2e:interleaved:commit-refused");
                t.hist.push(format!("   -> refused: {}", e.chars().take(160).collect::<String>()));
                let mut d = t.ds.clone();
                if d.checkout_latest().await.is_ok() {
                    t.ds = d;
                }
                after_commits(rng, t, ctx, &q, &reference, v_ref, &format!("{what} refused commit #{bi}"), st, sink).await;
                return;
            }
            Err((p, e)) => {
                sink.oracle_fail(known_class(t), &format!("{what}: commit_compaction of executed tasks {ids:?} {}: {e}", if p { "panicked" } else { "failed" }), json!({"history": t.hist}));
                let mut d = t.ds.clone();
                if d.checkout_latest().await.is_ok() {
                    t.ds = d;
                }
                return;
            }
        }
    }
}

/// after a compaction call returned: export every version committed since `v_before` and run the oracles on the
/// latest one against the reference snapshot
#[allow(clippy::too_many_arguments)]
pub async fn after_commits(_rng: &mut Rng, t: &mut Tbl, ctx: &mut Ctx, q: &Queries, reference: &Snap, v_before: u64, what: &str, st: &mut Streams, sink: &mut Sink) {
    let latest = t.ds.version().version;
    let mut groups: Vec<(Vec<u64>, Vec<u64>)> = vec![];
    let mut olds_changed = false;
    for v in (v_before + 1)..=latest {
        match export_commit(ctx, t, v, st, sink).await {
            Ok(Some((g, ch))) => {
                groups.extend(g);
                olds_changed |= ch;
            }
            Ok(None) => {}
            Err(e) => {
                let class = if t.deferred_on_stable && e.contains("split of indexed and non-indexed") { Some("stable_rowids_deferred_remap_unassigned_fragment_ids") } else { None };
                sink.oracle_fail(class, &format!("{what}: committed version {v} cannot be read back: {}", e.chars().take(260).collect::<String>()), json!({"history": t.hist, "version": v}))
            }
        }
    }
    if groups.is_empty() {
        sink.count("e2e:no-rewrite-committed");
    }
    // rows rewritten twice in one call (cannot happen): chains of groups are not composed here
    match snapshot(t, &t.ds, q).await {
        Ok(after) => {
            let known = if olds_changed { Some("commit_ignores_task_read_version") } else { known_class(t) };
            compare(t, q, reference, &after, &groups, what, known, sink);
            if let Ok(m) = export_manifest(ctx, &t.ds, false).await {
                push_scan(st, t, &m, &after);
            }
        }
        Err((p, e)) => {
            let class = if t.deferred_on_stable && e.contains("split of indexed and non-indexed") { Some("stable_rowids_deferred_remap_unassigned_fragment_ids") } else { None };
            sink.oracle_fail(class, &format!("{what}: the table cannot be scanned after compaction ({}): {e}", if p { "panic" } else { "error" }), json!({"history": t.hist}))
        }
    }
}

pub fn run(args: &Args, sink: &mut Sink, rng: &mut Rng) {
    let rt = tokio::runtime::Builder::new_multi_thread().worker_threads(4).enable_all().build().unwrap();
    let n_hist = args.vol(8, 150);
    let mut st = Streams::new();
    rt.block_on(async {
        for h in 0..n_hist {
            history(rng, h, &mut st, sink).await;
        }
    });
    st.add_to(sink);
    sink.notes.push(format!("e2e: {n_hist} histories (3..9 data steps, 1..2 compaction rounds), every committed Rewrite exported"));
}
