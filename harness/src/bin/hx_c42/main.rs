//! hx_c42: a copied table root is a complete, identical table (C42).
//!   c42   random histories on a local directory; at random points and at the end the table directory is
//!         copied with std::fs to a new location, the original is removed, and every version and tag is read
//!         at the copy (fresh session) and compared with its commit-time snapshot; the history then continues
//!         at the copy.  Model-side streams: every manifest's stored paths are relative (chk_relative), and the
//!         model's `open` closure evaluated on the real manifest + directory listing reads the same objects
//!         at the copied root after the source keys are removed (chk_copy_open).
#[path = "../hx_c06/hist.rs"]
mod hist;

use hist::*;
use hxlib::util::{coq, Args, Rng, Sink, Stream};
use lance::session::Session;
use lance::Dataset;
use lance_index::DatasetIndexExt;
use serde_json::json;
use std::collections::BTreeMap;
use std::path::Path;
use std::sync::Arc;

/// the manifest of `ds` as a term of the Coq record `manifest` (Store/Model_History.v) plus synthetic listing
/// entries `(RIndex u 0, digest)` standing for each index directory
async fn coq_manifest(ds: &Dataset, listing: &[(String, u64)], names: &mut Names) -> (String, Vec<String>) {
    let m = ds.manifest();
    let b = |x: Option<u32>| coq::opt(x.map(|v| v.to_string()));
    let mut frags = vec![];
    for f in m.fragments.iter() {
        let files = coq::list(f.files.iter().map(|df| format!("{{| fr_base := {}; fr_name := {} |}}", b(df.base_id), names.id(df.path.trim_end_matches(".lance")))));
        let del = coq::opt(f.deletion_file.as_ref().map(|d| format!("{{| dr_base := {}; dr_rv := {}; dr_id := {} |}}", b(d.base_id), d.read_version, d.id)));
        frags.push(format!("{{| f_id := {}; f_files := {}; f_del := {}; f_meta := {} |}}", f.id, files, del, f.physical_rows.unwrap_or(0)));
    }
    let mut idx = vec![];
    let mut synth = vec![];
    if let Ok(ix) = ds.load_indices().await {
        for i in ix.iter() {
            let u = i.uuid.to_string();
            let id = names.id(&u);
            idx.push(format!("{{| ix_base := {}; ix_uuid := {}; ix_meta := 0 |}}", b(i.base_id), id));
            let pre = format!("_indices/{u}/");
            let files: Vec<&(String, u64)> = listing.iter().filter(|e| e.0.starts_with(&pre)).collect();
            if !files.is_empty() {
                let d = files.iter().fold(0u64, |a, e| a.wrapping_mul(31).wrapping_add(e.1));
                synth.push(format!("(RIndex {} 0, {})", id, d));
            }
        }
    }
    let txn = coq::opt(m.transaction_file.as_ref().and_then(|t| {
        let stem = t.trim_end_matches(".txn");
        stem.split_once('-').map(|(rv, u)| format!("({}, {})", rv, names.id(u)))
    }));
    let bases = coq::list(m.base_paths.keys().map(|k| format!("({}, 9)", k)));
    let term = format!(
        "{{| m_version := {}; m_meta := 0; m_frags := {}; m_indices := {}; m_txn := {}; m_bases := {}; m_max_frag := {} |}}",
        m.version,
        coq::list(frags),
        coq::list(idx),
        txn,
        bases,
        m.max_fragment_id.unwrap_or(0)
    );
    (term, synth)
}

fn run_c42(args: &Args) -> i32 {
    let rt = runtime();
    let mut sink = Sink::new("C42", &args.out);
    let mut rel_stream = Stream::new("stored_paths", "Common.Base Store.Model_History", "chk_relative", "list (list N * option N)", "bool");
    rel_stream.shard = 200;
    let mut open_stream = Stream::new("copy_open", "Common.Base Store.Model_History", "chk_copy_open", "(list (rel * N)) * manifest", "bool");
    open_stream.shard = 40;
    let plant = std::env::var("HX_C42_PLANT").unwrap_or_default();
    let mut rng = Rng::new(args.seed);
    let nhist = args.vol(12, 80);
    for h in 0..nhist {
        let mut r = rng.fork();
        let stable = r.chance(1, 2);
        let nsteps = r.range(6, if args.thorough() { 16 } else { 11 }) as usize;
        let opts = GenOpts { overwrite: r.chance(1, 3), cleanup: r.chance(1, 3), tags: true, schema_changes: r.chance(1, 2) };
        let (_guard, root) = tmp_root("c42");
        let mut uri = root.join("loc0").join("t.lance").to_str().unwrap().to_string();
        let n0 = r.range(3, 10) as usize;
        let mrf = *r.pick(&[3usize, 5, 100]);
        let mut copy_points: Vec<usize> = vec![nsteps - 1];
        if r.chance(2, 3) {
            copy_points.push(r.below(nsteps as u64) as usize);
        }
        let res: Result<(), String> = rt.block_on(async {
            let mut t = Tbl::create(&uri, n0, 0, mrf, stable, Arc::new(Session::default())).await?;
            let mut names = Names::new();
            let mut recorded: BTreeMap<u64, Obs> = BTreeMap::new();
            recorded.insert(1, observe(&open_fresh(&uri, Some(1)).await?).await);
            let mut ncopies = 0;
            for si in 0..nsteps {
                let cur = recorded.values().next_back().unwrap().clone();
                let versions: Vec<u64> = recorded.keys().copied().collect();
                let step = gen_step(&mut r, &t, &cur, &versions, &opts);
                let latest_before = t.ds.manifest().version;
                if let Err(e) = t.apply(&step).await {
                    sink.count(&format!("step_err/{}", step.kind()));
                    t.log.push(format!("   -> failed: {}", e.chars().take(100).collect::<String>()));
                } else {
                    sink.count(&format!("step/{}", step.kind()));
                }
                let latest = t.ds.manifest().version;
                for v in (latest_before + 1)..=latest {
                    let d = open_fresh(&uri, Some(v)).await?;
                    recorded.insert(v, observe(&d).await);
                    // model side: every stored path is relative and carries no base id
                    let refs = referenced(&d).await;
                    let want = refs.iter().all(|(p, b)| b.is_none() && !p.starts_with('/') && !p.contains("://") && !p.split('/').any(|s| s == ".." || s.is_empty()));
                    rel_stream.push(coq::list(refs.iter().map(|(p, b)| format!("({}, {})", coq::str_bytes(p), coq::opt(b.map(|x| x.to_string()))))), coq::b(want), json!({"history": h, "version": v, "paths": refs.iter().map(|x| x.0.clone()).collect::<Vec<_>>()}));
                    if !want {
                        sink.oracle_fail(None, &format!("version {v} stores a path that is not relative to the root or carries a base id"), json!({"history": h, "version": v, "refs": refs.iter().map(|x| format!("{:?}", x)).collect::<Vec<_>>(), "log": t.log.clone()}));
                    } else {
                        sink.oracle_ok();
                    }
                }
                if step.is_cleanup() {
                    let listed = t.listed_versions().await?;
                    recorded.retain(|v, _| listed.contains(v));
                }
                if !copy_points.contains(&si) {
                    continue;
                }
                // ---- cp -r to a new location, delete the original
                ncopies += 1;
                let src = std::path::PathBuf::from(&uri);
                let listing_src = list_dir(&src);
                let dst = root.join(format!("loc{}", ncopies)).join(if r.bool() { "t.lance".to_string() } else { format!("moved_{ncopies}") });
                copy_dir(&src, &dst).map_err(|e| format!("copy failed: {e}"))?;
                std::fs::remove_dir_all(&src).map_err(|e| format!("remove failed: {e}"))?;
                if plant == "drop_file" && h == 0 {
                    // sanity plant: the copy lost one data file
                    if let Some(e) = list_dir(&dst).iter().find(|e| e.0.starts_with("data/")) {
                        let _ = std::fs::remove_file(dst.join(&e.0));
                    }
                }
                let new_uri = dst.to_str().unwrap().to_string();
                sink.count("copies");
                let case = |v: u64, d: serde_json::Value| json!({"history": h, "seed": args.seed, "stable_row_ids": stable, "version": v, "copy": ncopies, "after_step": si, "log": t.log.clone(), "diff": d});
                // every version at the copy
                for (v, exp) in recorded.iter() {
                    match open_fresh(&new_uri, Some(*v)).await {
                        Ok(d) => {
                            let o = observe(&d).await;
                            let df = diff(exp, &o);
                            if df.is_empty() {
                                sink.oracle_ok();
                            } else {
                                sink.oracle_fail(None, &format!("version {v} read at the copied root differs from its snapshot in {:?}", df), case(*v, diff_json(exp, &o, "snapshot", "copy")));
                            }
                            // model side: open closure of the real manifest over the real listing, copied and source removed
                            let listing_dst = list_dir(&dst);
                            let (term, synth) = coq_manifest(&d, &listing_dst, &mut names).await;
                            let mut l = coq_listing(&listing_dst, &mut names);
                            if !synth.is_empty() {
                                l = format!("({} ++ {})", coq::list(synth), l);
                            }
                            open_stream.push(format!("({}, {})", l, term), "true".into(), json!({"history": h, "version": v, "copy": ncopies, "files": listing_dst.len()}));
                            sink.nontrivial(&format!("{h}/{ncopies}/{v}"));
                        }
                        Err(e) => sink.oracle_fail(None, &format!("version {v} does not open at the copied root: {e}"), case(*v, json!(null))),
                    }
                }
                // the copy holds exactly the source's files
                if plant.is_empty() && list_dir(&dst) != listing_src {
                    sink.oracle_fail(None, "copied directory listing differs from the source listing", case(0, json!(null)));
                }
                // tags resolve identically
                let dl = open_fresh(&new_uri, None).await?;
                let dl2 = dl.clone();
                let tags: BTreeMap<String, u64> = guarded(async move { Ok(dl2.tags().list().await?.into_iter().map(|(k, v)| (k, v.version)).collect()) }).await?;
                if tags != t.tags {
                    sink.oracle_fail(None, &format!("tags at the copy {:?} differ from the tags set {:?}", tags, t.tags), case(0, json!(null)));
                } else {
                    sink.oracle_ok();
                }
                for (name, v) in t.tags.iter() {
                    let Some(exp) = recorded.get(v) else { continue };
                    let dl3 = dl.clone();
                    let nm = name.clone();
                    match guarded(async move { dl3.checkout_version(nm.as_str()).await }).await {
                        Ok(d) => {
                            let o = observe(&d).await;
                            let df = diff(exp, &o);
                            if df.is_empty() {
                                sink.oracle_ok();
                            } else {
                                sink.oracle_fail(None, &format!("tag {name} -> version {v} read at the copied root differs in {:?}", df), case(*v, diff_json(exp, &o, "snapshot", "copy")));
                            }
                        }
                        Err(e) => sink.oracle_fail(None, &format!("tag {name} does not check out at the copied root: {e}"), case(*v, json!(null))),
                    }
                }
                // continue the history at the copy
                t.reopen_at(&new_uri, Arc::new(Session::default())).await?;
                uri = new_uri;
            }
            Ok(())
        });
        if let Err(e) = res {
            sink.oracle_fail(None, &format!("history {h} aborted: {e}"), json!({"history": h, "seed": args.seed}));
        }
        let _ = Path::new(&uri);
    }
    sink.add(rel_stream);
    sink.add(open_stream);
    sink.finish();
    0
}

fn main() {
    let (sub, args) = Args::parse();
    std::panic::set_hook(Box::new(|_| {}));
    let code = match sub.as_str() {
        "c42" => run_c42(&args),
        _ => {
            eprintln!("unknown subcommand {sub}");
            2
        }
    };
    std::process::exit(code);
}
