//! C27 unit arm: correspondence streams against lance_encoding::repdef + direct oracles.
use crate::stack::*;
use hxlib::util::{catch, coq, Args, Rng, Sink, Stream};
use lance_encoding::repdef::{build_control_word_iterator, ControlWordParser};
use serde_json::json;

pub const REQ: &str = "Common.Base Codec.Model_RepDef";
const CREC: &str = "N * (list N * (option (list bool) * (N * N)))";
const SER: &str = "option (list N) * option (list N) * list N * option N";
const LOUT: &str = "option (list bool) * option (list N)";

pub struct Streams {
    pub ser: Stream,
    pub unr: Stream,
    pub slicer: Stream,
    pub cwe: Stream,
    pub cwp: Stream,
}
impl Streams {
    pub fn new() -> Self {
        Streams {
            ser: Stream::new("serialize", REQ, "chk_serialize", &format!("list (list ({CREC}))"), &format!("outcome (list (list bool) * ({SER}))")),
            unr: Stream::new("unravel", REQ, "chk_unravel", "list (option (list N) * option (list N) * list N * N) * list (N * N)", &format!("outcome (list ({LOUT}))")),
            slicer: Stream::new("slicer", REQ, "chk_slicer", "list N * option (list N) * option N * list (option N)", "outcome (list (list N))"),
            cwe: Stream::new("cw_encode", REQ, "chk_cw_encode", "option (list N) * option (list N) * N * N * N * N", "outcome (N * N * N * bool * list N * list (bool * bool * bool) * bool)"),
            cwp: Stream::new("cw_parse", REQ, "chk_cw_parse", "N * N * list N * N * N", "outcome (N * bool * list N * list N * list (bool * bool * bool))"),
        }
    }
    pub fn finish(self, sink: &mut Sink) {
        for s in [self.ser, self.unr, self.slicer, self.cwe, self.cwp] {
            if !s.is_empty() {
                sink.add(s);
            }
        }
    }
}

fn unr_in_coq(us: &[(Ser, usize)], kinds: &[Kind]) -> String {
    format!(
        "({}, {})",
        coq::list(us.iter().map(|(s, n)| format!("({}, {}, {}, {})", onl(&s.rep), onl(&s.def), coq::nlist(s.meaning.iter()), n))),
        kinds_coq(kinds)
    )
}

/// One composite case: every page serialized on its own, then unravelled together. Pushes the
/// correspondence cases (serialize per page, unravel of the composite) and evaluates the round-trip oracle.
pub fn run_pages(sink: &mut Sink, st: &mut Streams, pages: &[Stack], tag: &str) {
    let case = json!({"pages": pages.iter().map(stack_json).collect::<Vec<_>>(), "kind": tag});
    let mut us = vec![];
    let mut panicked = false;
    for p in pages {
        let r = real_serialize(std::slice::from_ref(p));
        let out = coq::outcome(&r.as_ref().map(|(f, s)| format!("({}, {})", coq::list(f.iter().map(|x| blist(x))), s.coq())).map_err(|e| *e));
        st.ser.push(coq::list([stack_coq(p)]), out, json!({"builders": [stack_json(p)], "out": r.as_ref().map(|(_, s)| s.json()).map_err(|_| "panic")}));
        match r {
            Ok((_, s)) => us.push((s, items_of(p))),
            Err(_) => panicked = true,
        }
    }
    sink.nontrivial(&format!("{:?}", pages));
    let class = known_class(pages);
    if panicked {
        sink.count("serialize:panic");
        sink.oracle_fail(class, "RepDefBuilder::serialize panics on a well-formed layer stack", case);
        return;
    }
    let kinds = kinds_of(&pages[0]);
    let wide = pages.iter().flatten().any(|c| matches!(c, Call::Offsets { wide: true, .. }));
    let got = real_unravel(&us, &kinds, wide);
    st.unr.push(unr_in_coq(&us, &kinds), outs_coq(&got), json!({"case": case, "out": format!("{:?}", got)}));
    // direct oracle: the unravelled structure equals the input structure
    let want = expected_pages(pages);
    match &got {
        Ok(g) if *g == want => sink.oracle_ok(),
        Ok(g) => sink.oracle_fail(class, "rep/def round trip does not reproduce the offsets/validity", json!({"case": case, "got": format!("{:?}", g), "want": format!("{:?}", want)})),
        Err(_) => sink.oracle_fail(class, "unraveler fails on levels produced by serialize", case.clone()),
    }
    if let Some(c) = class {
        sink.count(&format!("class:{c}"));
    }
    if pages.iter().any(class_len_bookkeeping) {
        sink.count("regression:former-list_of_nullable_struct_repdef");
    }
    if pages.iter().any(class_allvalid_list) {
        sink.count("regression:former-allvalid_list_over_nullable_items");
    }
    // levels-only invariants (model independent): one rep/def entry per item or special
    if pages.len() == 1 {
        let (s, items) = &us[0];
        if let (Some(rep), Some(mv)) = (&s.rep, s.max_visible) {
            let vis = match &s.def {
                Some(d) => d.iter().filter(|x| **x <= mv).count(),
                None => rep.len(),
            };
            if vis != *items && class.is_none() {
                sink.oracle_fail(None, "number of visible levels differs from the number of items", case.clone());
            } else {
                sink.oracle_ok();
            }
        }
    }
}

/// several builders concatenated by one serialize call == serialize of the concatenated data (oracle),
/// plus the correspondence case for concat_layers.
pub fn run_multi_builder(sink: &mut Sink, st: &mut Streams, builders: &[Stack]) {
    let r = real_serialize(builders);
    let out = coq::outcome(&r.as_ref().map(|(f, s)| format!("({}, {})", coq::list(f.iter().map(|x| blist(x))), s.coq())).map_err(|e| *e));
    let case = json!({"builders": builders.iter().map(stack_json).collect::<Vec<_>>(), "out": r.as_ref().map(|(_, s)| s.json()).map_err(|_| "panic")});
    st.ser.push(coq::list(builders.iter().map(stack_coq)), out, case.clone());
    sink.count("serialize:multi-builder");
    sink.nontrivial(&format!("mb{:?}", builders));
    // oracle: unravel equals the concatenation of the expectations
    let class = concat_stack(builders).as_ref().and_then(|c| known_class(std::slice::from_ref(c)));
    match r {
        Err(_) => sink.oracle_fail(class, "serialize of several builders panics", case),
        Ok((_, s)) => {
            let items: usize = builders.iter().map(items_of).sum();
            let kinds = kinds_of(&builders[0]);
            let got = real_unravel(&[(s.clone(), items)], &kinds, true);
            st.unr.push(unr_in_coq(&[(s, items)], &kinds), outs_coq(&got), json!({"case": case, "out": format!("{:?}", got)}));
            let want = concat_stack(builders).map(|c| expected(&c));
            match (&got, want) {
                (Ok(g), Some(w)) if *g == w => sink.oracle_ok(),
                (_, None) => {}
                (g, Some(w)) => sink.oracle_fail(class, "multi-builder serialize + unravel differs from the concatenated input", json!({"case": case, "got": format!("{:?}", g), "want": format!("{:?}", w)})),
            }
        }
    }
}

/// the stack equal to the concatenation of several same-shape stacks
pub fn concat_stack(bs: &[Stack]) -> Option<Stack> {
    let nl = bs[0].len();
    if bs.iter().any(|b| b.len() != nl) {
        return None;
    }
    let mut out = vec![];
    for li in 0..nl {
        let any_val = bs.iter().any(|b| matches!(&b[li], Call::Validity(_) | Call::Offsets { validity: Some(_), .. } | Call::Fsl { validity: Some(_), .. }));
        match &bs[0][li] {
            Call::Validity(_) | Call::NoNull(_) => {
                let mut v = vec![];
                let mut n = 0;
                for b in bs {
                    match &b[li] {
                        Call::Validity(x) => {
                            v.extend(x.iter().copied());
                            n += x.len()
                        }
                        Call::NoNull(k) => {
                            v.extend(std::iter::repeat(true).take(*k));
                            n += k
                        }
                        _ => return None,
                    }
                }
                out.push(if any_val { Call::Validity(v) } else { Call::NoNull(n) });
            }
            Call::Offsets { .. } => {
                let mut offs = vec![0i64];
                let mut val = vec![];
                for b in bs {
                    let Call::Offsets { validity, .. } = &b[li] else { return None };
                    let (norm, lists) = normalized(&b[li]);
                    let base = *offs.last().unwrap();
                    offs.extend(norm.iter().skip(1).map(|x| *x as i64 + base));
                    match validity {
                        Some(v) => val.extend(v.iter().copied()),
                        None => val.extend(std::iter::repeat(true).take(lists.len())),
                    }
                }
                out.push(Call::Offsets { offs, validity: if any_val { Some(val) } else { None }, wide: true });
            }
            Call::Fsl { dim, .. } => {
                let mut v = vec![];
                let mut n = 0;
                for b in bs {
                    let Call::Fsl { validity, n: k, dim: d2 } = &b[li] else { return None };
                    if d2 != dim {
                        return None;
                    }
                    match validity {
                        Some(x) => v.extend(x.iter().copied()),
                        None => v.extend(std::iter::repeat(true).take(*k)),
                    }
                    n += k;
                }
                out.push(Call::Fsl { validity: if any_val { Some(v) } else { None }, dim: *dim, n });
            }
        }
    }
    Some(out)
}

/// RepDefSlicer over the rep and def buffers of a serialized page
pub fn run_slicer(sink: &mut Sink, st: &mut Streams, rng: &mut Rng, stack: &Stack) {
    let Ok(s) = real_serialize_raw(stack) else { return };
    let ser = Ser::of(&s);
    let items = items_of(stack);
    // chunk sizes in values: all but the last chunk use slice_next, the last slice_rest
    let mut ops: Vec<Option<usize>> = vec![];
    let mut left = items;
    while left > 0 && ops.len() < 6 {
        let take = rng.range(1, left as u64) as usize;
        if take == left {
            break;
        }
        ops.push(Some(take));
        left -= take;
    }
    ops.push(None);
    for which in 0..2 {
        let levels = if which == 0 { ser.rep.clone() } else { ser.def.clone() };
        let Some(levels) = levels else { continue };
        let r = catch(|| {
            let mut slicer = if which == 0 { s.rep_slicer().unwrap() } else { s.def_slicer().unwrap() };
            let mut out = vec![];
            for op in &ops {
                let buf = match op {
                    Some(n) => slicer.slice_next(*n),
                    None => slicer.slice_rest(),
                };
                let sl = buf.borrow_to_typed_slice::<u16>();
                out.push(sl.as_ref().iter().map(|x| *x as u64).collect::<Vec<u64>>());
            }
            (out, slicer.num_levels_remaining())
        });
        let out = coq::outcome(&r.as_ref().map(|(o, _)| coq::list(o.iter().map(|x| coq::nlist(x.iter())))).map_err(|e| *e));
        let inp = format!(
            "({}, {}, {}, {})",
            coq::nlist(levels.iter()),
            onl(&ser.def),
            coq::opt(ser.max_visible.map(coq::n)),
            coq::list(ops.iter().map(|o| coq::opt(o.map(|n| coq::n(n as u64)))))
        );
        let case = json!({"stack": stack_json(stack), "which": if which == 0 { "rep" } else { "def" }, "ops": ops, "out": format!("{:?}", r)});
        st.slicer.push(inp, out, case.clone());
        sink.count("slicer");
        // oracle: slices concatenate to the whole buffer; slice k (k < last) covers exactly ops[k] visible items
        match r {
            Ok((slices, remaining)) => {
                let cat: Vec<u64> = slices.iter().flatten().copied().collect();
                let mut ok = cat == levels && remaining == 0;
                if let (Some(def), Some(mv)) = (&ser.def, ser.max_visible) {
                    let mut pos = 0;
                    for (k, op) in ops.iter().enumerate() {
                        if let Some(n) = op {
                            let vis = def[pos..pos + slices[k].len()].iter().filter(|d| **d <= mv).count();
                            ok &= vis == *n;
                        }
                        pos += slices[k].len();
                    }
                }
                if ok {
                    sink.oracle_ok()
                } else {
                    sink.oracle_fail(known_class(std::slice::from_ref(stack)), "RepDefSlicer slices do not partition the levels by item counts", case)
                }
            }
            Err(_) => sink.oracle_fail(known_class(std::slice::from_ref(stack)), "RepDefSlicer panics", case),
        }
    }
}

fn desc_coq(d: &(bool, bool, bool)) -> String {
    format!("({}, {}, {})", coq::b(d.0), coq::b(d.1), coq::b(d.2))
}

/// control word iterator + parser on (rep, def) levels
pub fn run_control_words(sink: &mut Sink, st: &mut Streams, rep: Option<&[u16]>, def: Option<&[u16]>, max_rep: u16, max_def: u16, max_vis: u16, len: usize, tag: &str) {
    let n = rep.map(|r| r.len()).or(def.map(|d| d.len())).unwrap_or(len);
    let n = match (rep, def) {
        (Some(r), Some(d)) => r.len().min(d.len()),
        _ => n,
    };
    let r = catch(|| {
        let mut it = build_control_word_iterator(rep, max_rep, def, max_def, max_vis, len);
        let bpw = it.bytes_per_word();
        let (br, bd, hr) = (it.bits_rep(), it.bits_def(), it.has_repetition());
        let mut buf = vec![];
        let mut descs = vec![];
        for _ in 0..n {
            let d = it.append_next(&mut buf).unwrap();
            descs.push((d.is_new_row, d.is_visible, d.is_valid_item));
        }
        (bpw, br, bd, hr, buf, descs, it)
    });
    let r = r.map(|(bpw, br, bd, hr, buf, descs, mut it)| {
        // one more call after exhaustion: None, or a panic (Unary16 unwraps)
        let mut scratch = vec![];
        let extra = catch(|| it.append_next(&mut scratch).is_none());
        (bpw, br, bd, hr, buf, descs, extra == Ok(true))
    });
    let out = coq::outcome(
        &r.as_ref()
            .map(|(bpw, br, bd, hr, buf, descs, extra)| format!("({}, {}, {}, {}, {}, {}, {})", bpw, br, bd, coq::b(*hr), coq::bytes(buf), coq::list(descs.iter().map(desc_coq)), coq::b(*extra)))
            .map_err(|e| *e),
    );
    let l16 = |x: Option<&[u16]>| coq::opt(x.map(|v| coq::list(v.iter().map(|y| coq::n(*y as u64)))));
    let inp = format!("({}, {}, {}, {}, {}, {})", l16(rep), l16(def), max_rep, max_def, max_vis, len);
    let case = json!({"rep": rep, "def": def, "max_rep": max_rep, "max_def": max_def, "max_vis": max_vis, "kind": tag});
    st.cwe.push(inp, out, case.clone());
    sink.count(&format!("cw:{tag}"));
    sink.nontrivial(&format!("cw{:?}{:?}{}{}", rep, def, max_rep, max_def));
    let Ok((bpw, br, bd, _hr, buf, descs, _)) = r else { return };
    // parser side
    let pr = catch(|| {
        let p = ControlWordParser::new(br, bd);
        let mut ro = vec![];
        let mut dout = vec![];
        let mut ds = vec![];
        let w = p.bytes_per_word();
        if w > 0 {
            for chunk in buf.chunks_exact(w) {
                p.parse(chunk, &mut ro, &mut dout);
                let d = p.parse_desc(chunk, max_rep, max_vis);
                ds.push((d.is_new_row, d.is_visible, d.is_valid_item));
            }
        }
        (w, p.has_rep(), ro, dout, ds)
    });
    let pout = coq::outcome(
        &pr.as_ref()
            .map(|(w, hr, ro, d, ds)| {
                format!("({}, {}, {}, {}, {})", w, coq::b(*hr), coq::list(ro.iter().map(|y| coq::n(*y as u64))), coq::list(d.iter().map(|y| coq::n(*y as u64))), coq::list(ds.iter().map(desc_coq)))
            })
            .map_err(|e| *e),
    );
    st.cwp.push(format!("({}, {}, {}, {}, {})", br, bd, coq::bytes(&buf), max_rep, max_vis), pout, json!({"case": case, "bytes": buf}));
    // oracle: parse(pack(rep, def)) == (rep, def) when the declared maxima bound the levels; descs agree
    let bounded = rep.map(|r| r.iter().all(|x| *x <= max_rep)).unwrap_or(true) && def.map(|d| d.iter().all(|x| *x <= max_def)).unwrap_or(true);
    // (a level buffer that is present has a maximum of at least 1 in every caller)
    if !bounded || (rep.is_some() && max_rep == 0) || (def.is_some() && max_def == 0) {
        return;
    }
    match pr {
        Ok((w, _, ro, dout, ds)) => {
            let mut ok = w == bpw;
            if let Some(r) = rep {
                ok &= ro.as_slice() == &r[..n];
            }
            if let Some(d) = def {
                ok &= dout.as_slice() == &d[..n];
            }
            // descs of writer and reader agree on is_new_row / is_visible wherever both levels are present
            if rep.is_some() && def.is_some() {
                ok &= ds == descs;
                for (i, d) in descs.iter().enumerate() {
                    ok &= d.0 == (rep.unwrap()[i] == max_rep) && d.1 == (def.unwrap()[i] <= max_vis) && d.2 == (def.unwrap()[i] == 0);
                }
            }
            if ok {
                sink.oracle_ok()
            } else {
                sink.oracle_fail(None, "control words do not round trip (rep, def)", case)
            }
        }
        Err(_) => sink.oracle_fail(None, "ControlWordParser panics on words written by the iterator", case),
    }
}

pub fn run(args: &Args) -> i32 {
    let mut sink = Sink::new("C27", &args.out);
    let mut rng = Rng::new(args.seed);
    let mut st = Streams::new();

    // ---- corpus: the Rust unit tests' inputs + the inputs that exhibited the findings
    let t = true;
    let f = false;
    let off = |o: &[i64], v: Option<&[bool]>| Call::Offsets { offs: o.to_vec(), validity: v.map(|x| x.to_vec()), wide: true };
    let corpus: Vec<Vec<Stack>> = vec![
        vec![vec![off(&[0, 2, 2, 5], Some(&[t, f, t])), off(&[0, 1, 3, 5, 5, 9], Some(&[t, t, t, f, t])), Call::Validity(vec![t, t, t, f, f, f, t, t, f])]],
        vec![vec![off(&[0, 2, 2, 5], Some(&[t, f, t])), Call::Validity(vec![t, t, t, f, t])]],
        vec![vec![off(&[0, 2, 5, 5], None), Call::Validity(vec![t, t, t, f, t])]],
        vec![vec![off(&[0, 2, 5, 8], Some(&[t, f, t])), Call::NoNull(5)]],
        vec![vec![off(&[5, 7, 7, 10], Some(&[t, f, t])), Call::NoNull(5)]],
        vec![vec![Call::Fsl { validity: Some(vec![t, f]), dim: 2, n: 2 }, Call::Fsl { validity: None, dim: 2, n: 4 }, Call::Validity(vec![t, f, t, f, t, f, t, f])]],
        vec![vec![off(&[0, 4, 4, 4, 6], Some(&[t, f, t, t])), off(&[0, 1, 1, 2, 2, 2, 3], Some(&[t, f, t, f, t, t])), Call::NoNull(3)]],
        vec![vec![off(&[0, 2, 3, 5], None), off(&[0, 1, 3, 5, 7, 9], None), Call::NoNull(9)]],
        vec![vec![Call::NoNull(5), Call::Validity(vec![f, f, t, t, t]), Call::Validity(vec![f, t, t, t, f])]],
        vec![vec![Call::Validity(vec![t, f, t]), off(&[0, 0, 0, 0], Some(&[f, f, f])), Call::NoNull(0)]],
        vec![vec![off(&[0, 1, 2, 2], Some(&[t, t, f])), off(&[0, 1, 1], Some(&[t, f])), Call::NoNull(1)]],
        // findings
        vec![vec![off(&[0, 1, 1], None), Call::Validity(vec![t]), Call::Validity(vec![f])]],
        vec![vec![off(&[0, 0, 0], Some(&[f, t])), Call::Validity(vec![])]],
        vec![vec![off(&[0, 2, 3], None), Call::Validity(vec![f, t, t])]],
        vec![
            vec![Call::Validity(vec![t, f]), off(&[0, 2, 2], Some(&[t, f])), Call::NoNull(2)],
            vec![Call::NoNull(2), off(&[0, 3, 5], None), Call::NoNull(5)],
        ],
        vec![
            vec![off(&[0, 2, 3], None), off(&[0, 1, 3, 4], None), Call::NoNull(4)],
            vec![off(&[0, 2, 3], None), off(&[0, 1, 3, 4], None), Call::NoNull(4)],
        ],
        vec![vec![off(&[0, 1, 1], Some(&[t, f])), Call::Validity(vec![t]), off(&[0, 2], None), Call::NoNull(2)]],
        // composite of the unit tests
        vec![vec![off(&[0, 2, 2, 5], Some(&[t, f, t])), Call::NoNull(5)], vec![off(&[0, 1, 3, 5, 7, 9], None), Call::NoNull(9)]],
    ];
    for pages in &corpus {
        run_pages(&mut sink, &mut st, pages, "corpus");
        sink.count("pages:corpus");
    }
    run_multi_builder(
        &mut sink,
        &mut st,
        &[
            vec![off(&[0, 2], None), off(&[0, 1, 3], None), Call::Validity(vec![t, t, t])],
            vec![off(&[0, 0, 3], Some(&[f, t])), off(&[0, 2, 2, 6], Some(&[t, f, t])), Call::Validity(vec![f, f, f, t, t, f])],
        ],
    );

    // ---- exhaustive tiny universes: every well-formed stack of the shape
    let shapes_quick: Vec<(Vec<u8>, usize, u64)> = vec![
        (vec![0], 3, 0),
        (vec![0, 0], 2, 0),
        (vec![2, 0], 2, 2),
        (vec![3, 0], 2, 2),
        (vec![2, 1], 3, 1),
        (vec![0, 2, 1], 2, 1),
        (vec![2, 2, 1], 2, 1),
        (vec![3, 3, 0], 1, 2),
        (vec![2, 0, 1], 2, 1),
        (vec![4, 0], 2, 0),
        (vec![0, 4, 1], 2, 0),
    ];
    let shapes_thorough: Vec<(Vec<u8>, usize, u64)> = vec![
        (vec![0, 0, 0], 2, 0),
        (vec![2, 0], 3, 2),
        (vec![3, 0], 3, 2),
        (vec![2, 2, 0], 2, 1),
        (vec![2, 3, 0], 2, 1),
        (vec![3, 2, 0], 2, 1),
        (vec![0, 2, 0], 2, 1),
        (vec![2, 0, 0], 2, 1),
        (vec![0, 2, 2, 1], 2, 1),
        (vec![2, 0, 2, 1], 2, 1),
        (vec![2, 2, 2, 1], 2, 1),
        (vec![4, 4, 0], 1, 0),
        (vec![1, 3, 1], 4, 2),
    ];
    let mut shapes = shapes_quick;
    if args.thorough() {
        shapes.extend(shapes_thorough);
    }
    let limit = args.vol(1500, 40000);
    for (shape, rows, max_len) in &shapes {
        for r in 1..=*rows {
            let all = enum_stacks(shape, r, *max_len, limit);
            sink.count_n(&format!("pages:exhaustive:{:?}", shape), all.len() as u64);
            for s in &all {
                run_pages(&mut sink, &mut st, std::slice::from_ref(s), "exhaustive");
            }
        }
    }

    // ---- random larger stacks, single page
    let cfg = GenCfg { max_rows: 12, max_layers: 4, max_len: 4, allow_fsl_with_lists: true };
    for i in 0..args.vol(2500, 40000) {
        let shape = gen_shape(&mut rng, &cfg);
        let rows = if i % 5 == 0 { rng.range(1, 40) as usize } else { rng.range(1, cfg.max_rows as u64) as usize };
        let s = gen_stack(&mut rng, &cfg, rows, &shape);
        let out_of_domain = has_fsl(&s) && n_lists(&s) > 0;
        if out_of_domain {
            // FSL mixed with lists: declared unsupported (todo!()) - correspondence only, no round-trip oracle
            let r = real_serialize(std::slice::from_ref(&s));
            let out = coq::outcome(&r.as_ref().map(|(f, x)| format!("({}, {})", coq::list(f.iter().map(|x| blist(x))), x.coq())).map_err(|e| *e));
            st.ser.push(coq::list([stack_coq(&s)]), out, json!({"builders": [stack_json(&s)], "kind": "fsl-with-lists (unsupported)"}));
            sink.count("serialize:fsl-with-lists");
            continue;
        }
        sink.count("pages:random-single");
        run_pages(&mut sink, &mut st, std::slice::from_ref(&s), "random");
        if i % 4 == 0 {
            run_slicer(&mut sink, &mut st, &mut rng, &s);
        }
    }

    // ---- composites of 2..3 pages with one shape, and several builders in one serialize call
    let cfg2 = GenCfg { max_rows: 5, max_layers: 3, max_len: 3, allow_fsl_with_lists: false };
    for i in 0..args.vol(800, 12000) {
        let shape = gen_shape(&mut rng, &cfg2);
        let np = rng.range(2, 3) as usize;
        let pages: Vec<Stack> = (0..np).map(|_| { let rows = rng.range(1, cfg2.max_rows as u64) as usize; gen_stack(&mut rng, &cfg2, rows, &shape) }).collect();
        if pages.iter().any(|p| has_fsl(p) && n_lists(p) > 0) {
            continue;
        }
        // FSL dims must agree across pages
        let dims_ok = (0..shape.len()).all(|li| {
            let d: Vec<usize> = pages.iter().filter_map(|p| if let Call::Fsl { dim, .. } = &p[li] { Some(*dim) } else { None }).collect();
            d.windows(2).all(|w| w[0] == w[1])
        });
        if !dims_ok {
            continue;
        }
        if i % 2 == 0 {
            sink.count("pages:random-composite");
            run_pages(&mut sink, &mut st, &pages, "composite");
        } else {
            run_multi_builder(&mut sink, &mut st, &pages);
        }
    }

    // ---- control words
    // exhaustive small: every (max_rep, max_def) in 0..=5 x 0..=9 with all level pairs once
    for max_rep in 0u16..=5 {
        for max_def in 0u16..=9 {
            let mut rep = vec![];
            let mut def = vec![];
            for r in 0..=max_rep {
                for d in 0..=max_def {
                    rep.push(r);
                    def.push(d);
                }
            }
            let mv = rng.below(max_def as u64 + 2) as u16;
            run_control_words(&mut sink, &mut st, Some(&rep), Some(&def), max_rep, max_def, mv, rep.len(), "binary-small");
            run_control_words(&mut sink, &mut st, Some(&rep), None, max_rep, 0, 0, rep.len(), "rep-only");
            run_control_words(&mut sink, &mut st, None, Some(&def), 0, max_def, mv, def.len(), "def-only");
        }
    }
    run_control_words(&mut sink, &mut st, None, None, 0, 0, 0, 11, "nilary");
    // width boundaries: total width 8/9, 16/17, masks at powers of two
    for _ in 0..args.vol(300, 4000) {
        let max_rep = *rng.pick(&[0u16, 1, 2, 3, 7, 8, 15, 16, 127, 128, 255, 256, 1023, 4095, 16383, 32767]);
        let max_def = *rng.pick(&[0u16, 1, 2, 3, 4, 7, 8, 15, 16, 31, 63, 127, 128, 255, 256, 511, 1024, 32767, 32768, 65535]);
        let n = rng.range(1, 12) as usize;
        let in_range = rng.chance(4, 5);
        let lv = |rng: &mut Rng, m: u16| -> u16 {
            if in_range { rng.below(m as u64 + 1) as u16 } else { rng.below(65536) as u16 }
        };
        let rep: Vec<u16> = (0..n).map(|_| if rng.chance(1, 3) { max_rep } else { lv(&mut rng, max_rep) }).collect();
        let def: Vec<u16> = (0..n).map(|_| if rng.chance(1, 3) { 0 } else { lv(&mut rng, max_def) }).collect();
        let mv = rng.below(max_def as u64 + 2).min(65535) as u16;
        match rng.below(4) {
            0 => run_control_words(&mut sink, &mut st, Some(&rep), None, max_rep, 0, 0, n, "rep-only-wide"),
            1 => run_control_words(&mut sink, &mut st, None, Some(&def), 0, max_def, mv, n, "def-only-wide"),
            _ => run_control_words(&mut sink, &mut st, Some(&rep), Some(&def), max_rep, max_def, mv, n, "binary-wide"),
        }
    }
    // control words of real serialized pages
    for _ in 0..args.vol(200, 2000) {
        let shape = gen_shape(&mut rng, &cfg2);
        let rows = rng.range(1, 8) as usize;
        let s = gen_stack(&mut rng, &cfg2, rows, &shape);
        if has_fsl(&s) && n_lists(&s) > 0 {
            continue;
        }
        if let Ok((_, ser)) = real_serialize(std::slice::from_ref(&s)) {
            let rep: Option<Vec<u16>> = ser.rep.as_ref().map(|l| l.iter().map(|x| *x as u16).collect());
            let def: Option<Vec<u16>> = ser.def.as_ref().map(|l| l.iter().map(|x| *x as u16).collect());
            let max_rep = n_lists(&s) as u16;
            let max_def = def.as_ref().map(|d| d.iter().copied().max().unwrap_or(0)).unwrap_or(0);
            let mv = ser.max_visible.unwrap_or(max_def as u64) as u16;
            run_control_words(&mut sink, &mut st, rep.as_deref(), def.as_deref(), max_rep, max_def, mv, items_of(&s), "from-serialize");
        }
    }

    // ---- end-to-end arm through lance::Dataset (oracle only)
    crate::e2e::run(&mut sink, &mut rng, !args.thorough());

    st.finish(&mut sink);
    sink.notes.push("e2e arm: lance::Dataset write (2.1/2.2) + scan (batch sizes) + take on list<int32>, list<list<int32>>, struct<list<int32>> vs the Arrow input".into());
    sink.notes.push("unit arm: lance_encoding::repdef public API (RepDefBuilder, CompositeRepDefUnraveler, RepDefSlicer, control words)".into());
    sink.finish();
    0
}
