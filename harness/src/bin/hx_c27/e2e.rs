//! C27 end-to-end arm: nested list columns written through lance::Dataset (file format 2.1 / 2.2) and read
//! back by scan (several batch sizes) and by random-access take (mini-block repetition index in
//! primitive.rs).  Oracle only (brute force = the Arrow input).  Generated data keeps a null or an
//! empty list at every list level of every page, so that the known-finding classes of the unit arm
//! (all-valid list layers, list<struct> with two nullable layers) are not entered; those are
//! re-confirmed by the fixed corpus cases below, tagged with their class.
use arrow_array::builder::{Int32Builder, ListBuilder};
use arrow_array::types::Int32Type;
use arrow_array::*;
use arrow_buffer::NullBuffer;
use arrow_schema::{DataType, Field, Fields, Schema};
use futures::TryStreamExt;
use hxlib::util::{Rng, Sink};
use lance::dataset::{ProjectionRequest, WriteParams};
use lance::Dataset;
use lance_encoding::version::LanceFileVersion;
use serde_json::json;
use std::sync::Arc;

fn gen_l1(rng: &mut Rng, n: usize, nullp: u64) -> ListArray {
    let mut rows: Vec<Option<Vec<Option<i32>>>> = (0..n)
        .map(|_| {
            if rng.below(100) < nullp {
                None
            } else {
                Some((0..rng.below(4)).map(|_| if rng.below(100) < nullp { None } else { Some(rng.below(1000) as i32) }).collect())
            }
        })
        .collect();
    // every page keeps a special list (see module comment)
    rows[0] = if rng.bool() { None } else { Some(vec![]) };
    ListArray::from_iter_primitive::<Int32Type, _, _>(rows)
}

fn gen_l2(rng: &mut Rng, n: usize, nullp: u64) -> ListArray {
    let mut b = ListBuilder::new(ListBuilder::new(Int32Builder::new()));
    for i in 0..n {
        if i == 0 {
            // outer list 0: one empty inner list and one null inner list
            b.values().append(true);
            b.values().append(false);
            b.append(true);
            continue;
        }
        if i == 1 || rng.below(100) < nullp {
            b.append(i != 1 && rng.bool()); // row 1: an empty outer list; otherwise null or empty
            continue;
        }
        for _ in 0..rng.below(3) {
            if rng.below(100) < nullp {
                b.values().append(false);
            } else {
                for _ in 0..rng.below(3) {
                    if rng.below(100) < nullp {
                        b.values().values().append_null();
                    } else {
                        b.values().values().append_value(rng.below(9) as i32);
                    }
                }
                b.values().append(true);
            }
        }
        b.append(true);
    }
    b.finish()
}

fn gen_s1(rng: &mut Rng, n: usize, nullp: u64) -> StructArray {
    let l = gen_l1(rng, n, nullp);
    let nulls = NullBuffer::from((0..n).map(|i| i == 0 || rng.below(100) >= nullp).collect::<Vec<bool>>());
    let fields: Fields = vec![Field::new("a", l.data_type().clone(), true)].into();
    StructArray::try_new(fields, vec![Arc::new(l) as ArrayRef], Some(nulls)).unwrap()
}

/// number of valid (non-null) leaf values of a nested list/struct column
fn valid_leaves(a: &ArrayRef) -> usize {
    match a.data_type() {
        DataType::List(_) => {
            let l = a.as_any().downcast_ref::<ListArray>().unwrap();
            // only the values referenced by valid lists count
            let mut n = 0;
            for i in 0..l.len() {
                if l.is_valid(i) {
                    n += valid_leaves(&l.value(i));
                }
            }
            n
        }
        DataType::Struct(_) => {
            let s = a.as_any().downcast_ref::<StructArray>().unwrap();
            let c = s.column(0);
            let idx: Vec<u64> = (0..s.len()).filter(|i| s.is_valid(*i)).map(|i| i as u64).collect();
            let taken = arrow_select::take::take(c.as_ref(), &UInt64Array::from(idx), None).unwrap();
            valid_leaves(&taken)
        }
        _ => a.len() - a.null_count(),
    }
}

/// logical comparison (nulls compare equal regardless of what lies behind them)
fn same(a: &ArrayRef, b: &ArrayRef) -> bool {
    if a.len() != b.len() || a.data_type() != b.data_type() {
        return false;
    }
    let fa = format!("{:?}", arrow::util::pretty::pretty_format_columns("c", &[a.clone()]).map(|t| t.to_string()));
    let fb = format!("{:?}", arrow::util::pretty::pretty_format_columns("c", &[b.clone()]).map(|t| t.to_string()));
    fa == fb
}

async fn roundtrip(col: ArrayRef, version: LanceFileVersion, take_idx: Vec<u64>) -> Result<Vec<String>, String> {
    let schema = Arc::new(Schema::new(vec![Field::new("c", col.data_type().clone(), true)]));
    let batch = RecordBatch::try_new(schema.clone(), vec![col.clone()]).map_err(|e| e.to_string())?;
    let dir = tempfile::tempdir().map_err(|e| e.to_string())?;
    let params = WriteParams { data_storage_version: Some(version), ..Default::default() };
    let ds = Dataset::write(RecordBatchIterator::new(vec![Ok(batch)], schema.clone()), dir.path().to_str().unwrap(), Some(params))
        .await
        .map_err(|e| format!("write: {e}"))?;
    let mut bad = vec![];
    for bs in [None, Some(1usize), Some(7)] {
        let mut sc = ds.scan();
        sc.scan_in_order(true);
        if let Some(bs) = bs {
            sc.batch_size(bs);
        }
        let got: Vec<RecordBatch> = sc.try_into_stream().await.map_err(|e| format!("scan: {e}"))?.try_collect().await.map_err(|e| format!("scan: {e}"))?;
        let cols: Vec<&dyn Array> = got.iter().map(|b| b.column(0).as_ref()).collect();
        let all: ArrayRef = if cols.is_empty() { arrow_array::new_empty_array(col.data_type()) } else { arrow_select::concat::concat(&cols).map_err(|e| e.to_string())? };
        if !same(&col, &all) {
            bad.push(format!("scan(batch_size={bs:?}) differs: want {:?} got {:?}", col, all).chars().take(700).collect());
        }
    }
    if !take_idx.is_empty() {
        let got = ds.take(&take_idx, ProjectionRequest::from_schema(ds.schema().clone())).await.map_err(|e| format!("take: {e}"))?;
        let idx = UInt64Array::from(take_idx.clone());
        let want = arrow_select::take::take(col.as_ref(), &idx, None).map_err(|e| e.to_string())?;
        if !same(&want, got.column(0)) {
            bad.push(format!("take {take_idx:?} differs"));
        }
    }
    Ok(bad)
}

pub fn run(sink: &mut Sink, rng: &mut Rng, quick: bool) {
    let rt = tokio::runtime::Builder::new_multi_thread().worker_threads(2).enable_all().build().unwrap();
    let versions = [LanceFileVersion::V2_1, LanceFileVersion::V2_2];
    // ---- generated columns (outside the known classes)
    let n_cases = if quick { 12 } else { 120 };
    for i in 0..n_cases {
        let n = *rng.pick(&[2usize, 3, 9, 40, 300]);
        let nullp = *rng.pick(&[0u64, 10, 40]);
        let kind = i % 3;
        let col: ArrayRef = match kind {
            0 => Arc::new(gen_l1(rng, n, nullp)),
            1 => Arc::new(gen_l2(rng, n, nullp)),
            _ => Arc::new(gen_s1(rng, n, nullp)),
        };
        let version = versions[(i / 3) % 2];
        let take_idx: Vec<u64> = (0..rng.range(1, 6)).map(|_| rng.below(n as u64)).collect();
        let tname = ["list<int32>", "list<list<int32>>", "struct<list<int32>>"][kind];
        let case = json!({"e2e": tname, "rows": n, "null_pct": nullp, "version": version.to_string(), "take": take_idx.clone()});
        sink.count(&format!("e2e:{}", ["list", "list-list", "struct-list"][kind]));
        // a page without any valid leaf value takes the complex-all-null layout (known finding)
        let class = if valid_leaves(&col) == 0 { sink.count("e2e:no-valid-leaf"); Some("complex_all_null_page_rows_as_levels") } else { None };
        let r = rt.block_on(async {
            let h = tokio::spawn(roundtrip(col, version, take_idx));
            h.await
        });
        match r {
            Ok(Ok(bad)) if bad.is_empty() => sink.oracle_ok(),
            Ok(Ok(bad)) => sink.oracle_fail(class, &format!("e2e write/read of a nested column differs: {}", bad.join("; ")), case),
            Ok(Err(e)) => sink.oracle_fail(class, &format!("e2e write/read of a nested column fails: {}", e.chars().take(200).collect::<String>()), case),
            Err(e) => sink.oracle_fail(class, &format!("e2e write/read of a nested column panics: {}", e.to_string().chars().take(200).collect::<String>()), case),
        }
    }
    // ---- re-confirmation of the findings through the file format (corpus, class tagged)
    let k3: ArrayRef = Arc::new(ListArray::from_iter_primitive::<Int32Type, _, _>(vec![Some(vec![None, Some(1)]), Some(vec![Some(2)])]));
    for version in versions {
        let case = json!({"e2e": "list<int32> [[null,1],[2]] (no null/empty list in the page)", "version": version.to_string()});
        let c = k3.clone();
        let r = rt.block_on(async { tokio::spawn(roundtrip(c, version, vec![0, 1])).await });
        sink.count("e2e:corpus-allvalid-list");
        match r {
            Ok(Ok(bad)) if bad.is_empty() => sink.oracle_ok(),
            other => sink.oracle_fail(None, &format!("e2e: all-valid list over nullable items does not round trip: {:?}", other).chars().take(300).collect::<String>(), case),
        }
    }
    // complex all-null page: rows with more than one level entry
    {
        let mut b = ListBuilder::new(ListBuilder::new(Int32Builder::new()));
        b.values().append(true);
        b.values().append(false);
        b.append(true);
        b.append(false);
        b.append(true);
        let c: ArrayRef = Arc::new(b.finish());
        for version in versions {
            let case = json!({"e2e": "list<list<int32>> [[[],null],null,[]] (no valid leaf value)", "version": version.to_string()});
            let cc = c.clone();
            let r = rt.block_on(async { tokio::spawn(roundtrip(cc, version, vec![0, 2])).await });
            sink.count("e2e:corpus-complex-all-null");
            match r {
                Ok(Ok(bad)) if bad.is_empty() => sink.oracle_ok(),
                other => sink.oracle_fail(Some("complex_all_null_page_rows_as_levels"), &format!("e2e: complex all-null page loses rows: {:?}", other).chars().take(300).collect::<String>(), case),
            }
        }
    }
    // F21: list<struct{p: int32?}> with an empty list, null struct items and null leaves
    {
        let p = Int32Array::from(vec![Some(1), None, Some(3)]);
        let fields: Fields = vec![Field::new("p", DataType::Int32, true)].into();
        let st = StructArray::try_new(fields.clone(), vec![Arc::new(p) as ArrayRef], Some(NullBuffer::from(vec![true, true, false]))).unwrap();
        let offsets = arrow_buffer::OffsetBuffer::from_lengths([2usize, 0, 1]);
        let ls: ArrayRef = Arc::new(ListArray::try_new(Arc::new(Field::new("item", DataType::Struct(fields), true)), offsets, Arc::new(st), None).unwrap());
        for version in versions {
            let case = json!({"e2e": "list<struct{p:int32?}> [[{1},{null}],[],[null]]", "version": version.to_string()});
            let c = ls.clone();
            let r = rt.block_on(async { tokio::spawn(roundtrip(c, version, vec![0, 2])).await });
            sink.count("e2e:corpus-list-of-nullable-struct");
            match r {
                Ok(Ok(bad)) if bad.is_empty() => sink.oracle_ok(),
                other => sink.oracle_fail(None, &format!("e2e: list<struct> with nulls does not round trip: {:?}", other).chars().take(300).collect::<String>(), case),
            }
        }
    }
}
