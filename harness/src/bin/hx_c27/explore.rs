use arrow_buffer::{NullBuffer, OffsetBuffer, ScalarBuffer, BooleanBufferBuilder};
use hxlib::util::{catch, Args};
use lance_encoding::repdef::*;

fn validity(values: &[bool]) -> NullBuffer {
    NullBuffer::from_iter(values.iter().copied())
}
fn offsets_64(values: &[i64]) -> OffsetBuffer<i64> {
    OffsetBuffer::<i64>::new(ScalarBuffer::from_iter(values.iter().copied()))
}

pub fn run(_args: &Args) -> i32 {
    // F21 subclass 1
    let r = catch(|| {
        let mut b = RepDefBuilder::default();
        b.add_offsets(offsets_64(&[0, 1, 1]), None);
        b.add_validity_bitmap(validity(&[true]));
        b.add_validity_bitmap(validity(&[false]));
        let s = RepDefBuilder::serialize(vec![b]);
        format!("{:?}", s)
    });
    println!("two validity after special: {:?}", r);
    // subclass 2
    let r = catch(|| {
        let mut b = RepDefBuilder::default();
        b.add_offsets(offsets_64(&[0, 0, 0]), Some(validity(&[false, true])));
        b.add_validity_bitmap(NullBuffer::new(BooleanBufferBuilder::new(0).finish()));
        let s = RepDefBuilder::serialize(vec![b]);
        format!("{:?}", s)
    });
    println!("empty validity after specials: {:?}", r);
    // list<fsl> with empty
    let r = catch(|| {
        let mut b = RepDefBuilder::default();
        b.add_offsets(offsets_64(&[0, 1, 1, 3]), None);
        b.add_fsl(Some(validity(&[true, false, true])), 2, 3);
        b.add_no_null(6);
        let s = RepDefBuilder::serialize(vec![b]);
        format!("{:?}", s)
    });
    println!("list<fsl>: {:?}", r);
    // composite: outer struct over list, page 2 all valid
    let r = catch(|| {
        let mut b = RepDefBuilder::default();
        b.add_validity_bitmap(validity(&[true, false]));
        b.add_offsets(offsets_64(&[0, 2, 2]), Some(validity(&[true, false])));
        b.add_no_null(2);
        let s1 = RepDefBuilder::serialize(vec![b]);
        let mut b = RepDefBuilder::default();
        b.add_no_null(2);
        b.add_offsets(offsets_64(&[0, 3, 5]), None);
        b.add_no_null(5);
        let s2 = RepDefBuilder::serialize(vec![b]);
        println!("s1 {:?}\ns2 {:?}", s1, s2);
        let u1 = RepDefUnraveler::new(s1.repetition_levels.map(|l| l.to_vec()), s1.definition_levels.map(|l| l.to_vec()), s1.def_meaning.into(), 2);
        let u2 = RepDefUnraveler::new(s2.repetition_levels.map(|l| l.to_vec()), s2.definition_levels.map(|l| l.to_vec()), s2.def_meaning.into(), 5);
        let mut c = CompositeRepDefUnraveler::new(vec![u1, u2]);
        let v0 = c.unravel_validity(7);
        let (o, v1) = c.unravel_offsets::<i32>().unwrap();
        let v2 = c.unravel_validity(4);
        format!("{:?} {:?} {:?} {:?}", v0, o, v1, v2.map(|v| v.iter().collect::<Vec<_>>()))
    });
    println!("composite: {:?}", r);
    let r = catch(|| {
        let mut b = RepDefBuilder::default();
        b.add_offsets(offsets_64(&[0, 2, 3]), None);
        b.add_validity_bitmap(validity(&[false, true, true]));
        let s1 = RepDefBuilder::serialize(vec![b]);
        println!("s1 {:?}", s1);
        let u1 = RepDefUnraveler::new(s1.repetition_levels.map(|l| l.to_vec()), s1.definition_levels.map(|l| l.to_vec()), s1.def_meaning.into(), 3);
        let mut c = CompositeRepDefUnraveler::new(vec![u1]);
        let v0 = c.unravel_validity(3);
        let (o, v1) = c.unravel_offsets::<i32>().unwrap();
        format!("{:?} {:?} {:?}", v0.map(|v| v.iter().collect::<Vec<_>>()), o, v1)
    });
    println!("allvalidlist with null first item: {:?}", r);
    let r = catch(|| {
        let mk = || {
            let mut b = RepDefBuilder::default();
            b.add_offsets(offsets_64(&[0, 2, 3]), None);
            b.add_offsets(offsets_64(&[0, 1, 3, 4]), None);
            b.add_no_null(4);
            let s1 = RepDefBuilder::serialize(vec![b]);
            RepDefUnraveler::new(s1.repetition_levels.map(|l| l.to_vec()), s1.definition_levels.map(|l| l.to_vec()), s1.def_meaning.into(), 4)
        };
        let mut c = CompositeRepDefUnraveler::new(vec![mk(), mk()]);
        let v0 = c.unravel_validity(8);
        let (o, v1) = c.unravel_offsets::<i32>().unwrap();
        let (o2, v2) = c.unravel_offsets::<i32>().unwrap();
        format!("{:?} {:?} {:?} {:?} {:?}", v0, o, v1, o2, v2)
    });
    println!("composite rep-only two-level: {:?}", r);
    0
}

pub fn e2e() -> i32 {
    use arrow_array::types::Int32Type;
    use arrow_array::*;
    use arrow_schema::{DataType, Field, Schema};
    use futures::TryStreamExt;
    use lance::dataset::WriteParams;
    use lance::Dataset;
    use lance_encoding::version::LanceFileVersion;
    use std::sync::Arc;
    let rt = tokio::runtime::Builder::new_multi_thread().enable_all().build().unwrap();
    rt.block_on(async {
        let l = ListArray::from_iter_primitive::<Int32Type, _, _>(vec![
            Some(vec![None, Some(1)]),
            Some(vec![Some(2)]),
        ]);
        let schema = Arc::new(Schema::new(vec![Field::new("l", l.data_type().clone(), true)]));
        let b = RecordBatch::try_new(schema.clone(), vec![Arc::new(l)]).unwrap();
        for v in [LanceFileVersion::V2_1, LanceFileVersion::V2_2] {
            let params = WriteParams { data_storage_version: Some(v), ..Default::default() };
            let dir = tempfile::tempdir().unwrap();
            let ds = Dataset::write(RecordBatchIterator::new(vec![Ok(b.clone())], schema.clone()), dir.path().to_str().unwrap(), Some(params)).await.unwrap();
            let got: Vec<RecordBatch> = ds.scan().try_into_stream().await.unwrap().try_collect().await.unwrap();
            println!("{v}: {:?}", got);
        }
    });
    0
}

pub fn e2e2() -> i32 {
    use arrow_array::builder::{Int32Builder, ListBuilder};
    use arrow_array::types::Int32Type;
    use arrow_array::*;
    use arrow_schema::{Field, Schema};
    use futures::TryStreamExt;
    use lance::dataset::WriteParams;
    use lance::Dataset;
    use lance_encoding::version::LanceFileVersion;
    use std::sync::Arc;
    let rt = tokio::runtime::Builder::new_multi_thread().enable_all().build().unwrap();
    let mut cols: Vec<(&str, ArrayRef)> = vec![];
    cols.push(("l1 [null, []]", Arc::new(ListArray::from_iter_primitive::<Int32Type, _, _>(vec![None, Some(Vec::<Option<i32>>::new())]))));
    cols.push(("l1 [[], [], null]", Arc::new(ListArray::from_iter_primitive::<Int32Type, _, _>(vec![Some(vec![]), Some(Vec::<Option<i32>>::new()), None]))));
    let mk = |spec: &[Option<Vec<Option<Vec<i32>>>>]| -> ArrayRef {
        let mut b = ListBuilder::new(ListBuilder::new(Int32Builder::new()));
        for row in spec {
            match row {
                None => b.append(false),
                Some(inner) => {
                    for il in inner {
                        match il {
                            None => b.values().append(false),
                            Some(v) => { for x in v { b.values().values().append_value(*x); } b.values().append(true); }
                        }
                    }
                    b.append(true);
                }
            }
        }
        Arc::new(b.finish())
    };
    cols.push(("l2 [[[],null],null,[]]", mk(&[Some(vec![Some(vec![]), None]), None, Some(vec![])])));
    cols.push(("l2 [[[],null],null,[[1]]]", mk(&[Some(vec![Some(vec![]), None]), None, Some(vec![Some(vec![1])])])));
    cols.push(("l2 [[[]],[]]", mk(&[Some(vec![Some(vec![])]), Some(vec![])])));
    cols.push(("l2 [[null],[]]", mk(&[Some(vec![None]), Some(vec![])])));
    cols.push(("l2 [[],[[]]]", mk(&[Some(vec![]), Some(vec![Some(vec![])])])));
    cols.push(("l2 [null,[[]]]", mk(&[None, Some(vec![Some(vec![])])])));
    rt.block_on(async {
        for (name, col) in cols {
            let schema = Arc::new(Schema::new(vec![Field::new("c", col.data_type().clone(), true)]));
            let b = RecordBatch::try_new(schema.clone(), vec![col.clone()]).unwrap();
            let dir = tempfile::tempdir().unwrap();
            let params = WriteParams { data_storage_version: Some(LanceFileVersion::V2_1), ..Default::default() };
            let r = tokio::spawn(async move {
                let ds = Dataset::write(RecordBatchIterator::new(vec![Ok(b)], schema.clone()), dir.path().to_str().unwrap(), Some(params)).await.unwrap();
                let got: Vec<RecordBatch> = ds.scan().try_into_stream().await.unwrap().try_collect().await.unwrap();
                got.iter().map(|g| format!("{:?}", g.column(0))).collect::<Vec<_>>().join(" | ").replace("\n", " ")
            }).await;
            println!("{name}: {:?}", r.map(|s| s.chars().take(260).collect::<String>()));
        }
    });
    0
}
