//! hx_c27: repetition/definition levels (C27).
mod explore;

fn main() {
    let (sub, args) = hxlib::util::Args::parse();
    let code = match sub.as_str() {
        "explore" => explore::run(&args),
        "e2e" => explore::e2e(),
        _ => {
            eprintln!("unknown subcommand {sub}");
            2
        }
    };
    std::process::exit(code);
}
