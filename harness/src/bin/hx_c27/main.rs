//! hx_c27: repetition/definition levels (C27).
mod e2e;
mod explore;
mod stack;
mod unit;

fn main() {
    let (sub, args) = hxlib::util::Args::parse();
    let code = match sub.as_str() {
        "c27" => unit::run(&args),
        "explore" => explore::run(&args),
        "e2e" => explore::e2e(),
        "e2e2" => explore::e2e2(),
        _ => {
            eprintln!("unknown subcommand {sub}");
            2
        }
    };
    std::process::exit(code);
}
