//! Layer stacks (sequences of RepDefBuilder calls, outermost first), their Coq printing, the real
//! serialize / unravel drivers, a brute-force expectation of the round trip and the class predicates
//! of the known findings.
use arrow_buffer::{BooleanBuffer, NullBuffer, OffsetBuffer, ScalarBuffer};
use hxlib::util::{catch, coq, Rng};
use lance_encoding::repdef::{
    CompositeRepDefUnraveler, DefinitionInterpretation, RepDefBuilder, RepDefUnraveler, SerializedRepDefs,
};
use serde_json::{json, Value};

#[derive(Clone, Debug, PartialEq)]
pub enum Call {
    Validity(Vec<bool>),
    NoNull(usize),
    /// raw offsets as the caller passes them (may start above 0, may keep garbage behind nulls)
    Offsets { offs: Vec<i64>, validity: Option<Vec<bool>>, wide: bool },
    Fsl { validity: Option<Vec<bool>>, dim: usize, n: usize },
}

pub type Stack = Vec<Call>;

pub fn nullbuf(v: &[bool]) -> NullBuffer {
    NullBuffer::new(BooleanBuffer::from_iter(v.iter().copied()))
}

pub fn blist(v: &[bool]) -> String {
    coq::list(v.iter().map(|b| coq::b(*b)))
}
pub fn obl(v: &Option<Vec<bool>>) -> String {
    coq::opt(v.as_ref().map(|v| blist(v)))
}
pub fn onl(v: &Option<Vec<u64>>) -> String {
    coq::opt(v.as_ref().map(|v| coq::nlist(v.iter())))
}

impl Call {
    pub fn coq(&self) -> String {
        // (tag, (offsets, (validity, (a, b))))
        match self {
            Call::Validity(v) => format!("(0, ([], (Some {}, (0, 0))))", blist(v)),
            Call::NoNull(n) => format!("(1, ([], (None, ({}, 0))))", n),
            Call::Offsets { offs, validity, .. } => {
                format!("(2, ({}, ({}, (0, 0))))", coq::list(offs.iter().map(|o| coq::n(*o as u64))), obl(validity))
            }
            Call::Fsl { validity, dim, n } => format!("(3, ([], ({}, ({}, {}))))", obl(validity), dim, n),
        }
    }
    pub fn json(&self) -> Value {
        let bits = |v: &Vec<bool>| v.iter().map(|b| if *b { '1' } else { '0' }).collect::<String>();
        match self {
            Call::Validity(v) => json!({"validity": bits(v)}),
            Call::NoNull(n) => json!({"no_null": n}),
            Call::Offsets { offs, validity, wide } => json!({"offsets": offs, "validity": validity.as_ref().map(bits), "i64": wide}),
            Call::Fsl { validity, dim, n } => json!({"fsl": dim, "n": n, "validity": validity.as_ref().map(bits)}),
        }
    }
    /// apply to a real builder; returns has_garbage_values
    pub fn apply(&self, b: &mut RepDefBuilder) -> bool {
        match self {
            Call::Validity(v) => {
                b.add_validity_bitmap(nullbuf(v));
                false
            }
            Call::NoNull(n) => {
                b.add_no_null(*n);
                false
            }
            Call::Offsets { offs, validity, wide } => {
                let val = validity.as_ref().map(|v| nullbuf(v));
                if *wide {
                    b.add_offsets(OffsetBuffer::<i64>::new(ScalarBuffer::from_iter(offs.iter().copied())), val)
                } else {
                    b.add_offsets(OffsetBuffer::<i32>::new(ScalarBuffer::from_iter(offs.iter().map(|o| *o as i32))), val)
                }
            }
            Call::Fsl { validity, dim, n } => {
                b.add_fsl(validity.as_ref().map(|v| nullbuf(v)), *dim, *n);
                false
            }
        }
    }
}

pub fn stack_coq(s: &Stack) -> String {
    coq::list(s.iter().map(|c| c.coq()))
}
pub fn stack_json(s: &Stack) -> Value {
    Value::Array(s.iter().map(|c| c.json()).collect())
}

pub fn meaning_code(m: &DefinitionInterpretation) -> u64 {
    match m {
        DefinitionInterpretation::AllValidItem => 0,
        DefinitionInterpretation::AllValidList => 1,
        DefinitionInterpretation::NullableItem => 2,
        DefinitionInterpretation::NullableList => 3,
        DefinitionInterpretation::EmptyableList => 4,
        DefinitionInterpretation::NullableAndEmptyableList => 5,
    }
}
pub fn meaning_of(c: u64) -> DefinitionInterpretation {
    match c {
        0 => DefinitionInterpretation::AllValidItem,
        1 => DefinitionInterpretation::AllValidList,
        2 => DefinitionInterpretation::NullableItem,
        3 => DefinitionInterpretation::NullableList,
        4 => DefinitionInterpretation::EmptyableList,
        _ => DefinitionInterpretation::NullableAndEmptyableList,
    }
}

/// What serialize returned, in plain data.
#[derive(Clone, Debug, PartialEq)]
pub struct Ser {
    pub rep: Option<Vec<u64>>,
    pub def: Option<Vec<u64>>,
    pub meaning: Vec<u64>,
    pub max_visible: Option<u64>,
}
impl Ser {
    pub fn of(s: &SerializedRepDefs) -> Self {
        Ser {
            rep: s.repetition_levels.as_ref().map(|l| l.iter().map(|x| *x as u64).collect()),
            def: s.definition_levels.as_ref().map(|l| l.iter().map(|x| *x as u64).collect()),
            meaning: s.def_meaning.iter().map(meaning_code).collect(),
            max_visible: s.max_visible_level.map(|x| x as u64),
        }
    }
    pub fn coq(&self) -> String {
        format!("({}, {}, {}, {})", onl(&self.rep), onl(&self.def), coq::nlist(self.meaning.iter()), coq::opt(self.max_visible.map(coq::n)))
    }
    pub fn json(&self) -> Value {
        json!({"rep": self.rep, "def": self.def, "meaning": self.meaning, "max_visible": self.max_visible})
    }
}

/// Real code: build the builders and serialize. Err(true) = panic.
pub fn real_serialize(builders: &[Stack]) -> Result<(Vec<Vec<bool>>, Ser), bool> {
    catch(|| {
        let mut flags = vec![];
        let mut bs = vec![];
        for st in builders {
            let mut b = RepDefBuilder::default();
            let mut f = vec![];
            for c in st {
                f.push(c.apply(&mut b));
            }
            flags.push(f);
            bs.push(b);
        }
        let s = RepDefBuilder::serialize(bs);
        (flags, Ser::of(&s))
    })
}

/// The SerializedRepDefs themselves (for the slicers).
pub fn real_serialize_raw(st: &Stack) -> Result<SerializedRepDefs, bool> {
    catch(|| {
        let mut b = RepDefBuilder::default();
        for c in st {
            c.apply(&mut b);
        }
        RepDefBuilder::serialize(vec![b])
    })
}

#[derive(Clone, Copy, Debug, PartialEq)]
pub enum Kind {
    Validity,
    Offsets,
    Fsl(usize),
}
pub fn kinds_of(st: &Stack) -> Vec<Kind> {
    st.iter()
        .rev()
        .map(|c| match c {
            Call::Validity(_) | Call::NoNull(_) => Kind::Validity,
            Call::Offsets { .. } => Kind::Offsets,
            Call::Fsl { dim, .. } => Kind::Fsl(*dim),
        })
        .collect()
}
pub fn kinds_coq(ks: &[Kind]) -> String {
    coq::list(ks.iter().map(|k| match k {
        Kind::Validity => "(0, 0)".to_string(),
        Kind::Offsets => "(1, 0)".to_string(),
        Kind::Fsl(d) => format!("(2, {})", d),
    }))
}

/// number of leaf items a stack describes
pub fn items_of(st: &Stack) -> usize {
    let mut len = 0usize;
    for c in st {
        match c {
            Call::Validity(v) => len = v.len(),
            Call::NoNull(n) => len = *n,
            Call::Offsets { .. } => len = *normalized(c).0.last().unwrap() as usize,
            Call::Fsl { dim, n, .. } => len = n * dim,
        }
    }
    len
}

pub type LayerOut = (Option<Vec<bool>>, Option<Vec<u64>>);
pub fn layer_out_coq(l: &LayerOut) -> String {
    format!("({}, {})", obl(&l.0), onl(&l.1))
}
pub fn outs_coq(o: &Result<Vec<LayerOut>, bool>) -> String {
    coq::outcome(&o.as_ref().map(|v| coq::list(v.iter().map(layer_out_coq))).map_err(|e| *e))
}

/// Real code: unravel a composite of unravelers, innermost layer first. Err(false) = Err(..), Err(true) = panic.
pub fn real_unravel(us: &[(Ser, usize)], kinds: &[Kind], wide: bool) -> Result<Vec<LayerOut>, bool> {
    let r = catch(|| {
        let unravelers = us
            .iter()
            .map(|(s, items)| {
                RepDefUnraveler::new(
                    s.rep.as_ref().map(|l| l.iter().map(|x| *x as u16).collect()),
                    s.def.as_ref().map(|l| l.iter().map(|x| *x as u16).collect()),
                    s.meaning.iter().map(|c| meaning_of(*c)).collect::<Vec<_>>().into(),
                    *items as u64,
                )
            })
            .collect::<Vec<_>>();
        let mut comp = CompositeRepDefUnraveler::new(unravelers);
        let mut out: Vec<LayerOut> = vec![];
        let bits = |v: Option<NullBuffer>| v.map(|n| n.iter().collect::<Vec<bool>>());
        for k in kinds {
            match k {
                Kind::Validity => out.push((bits(comp.unravel_validity(0)), None)),
                Kind::Fsl(d) => out.push((bits(comp.unravel_fsl_validity(0, *d)), None)),
                Kind::Offsets => {
                    if wide {
                        match comp.unravel_offsets::<i64>() {
                            Ok((o, v)) => out.push((bits(v), Some(o.iter().map(|x| *x as u64).collect()))),
                            Err(_) => return Err(()),
                        }
                    } else {
                        match comp.unravel_offsets::<i32>() {
                            Ok((o, v)) => out.push((bits(v), Some(o.iter().map(|x| *x as u64).collect()))),
                            Err(_) => return Err(()),
                        }
                    }
                }
            }
        }
        Ok(out)
    });
    match r {
        Ok(Ok(v)) => Ok(v),
        Ok(Err(())) => Err(false),
        Err(_) => Err(true),
    }
}

/// normalized offsets / per-list (valid, length) of an Offsets call, as do_add_offsets computes them
pub fn normalized(c: &Call) -> (Vec<u64>, Vec<(bool, u64)>) {
    let Call::Offsets { offs, validity, .. } = c else { panic!() };
    let mut norm = vec![0u64];
    let mut lists = vec![];
    let mut last = 0u64;
    for (i, w) in offs.windows(2).enumerate() {
        let len = (w[1] - w[0]) as u64;
        let valid = validity.as_ref().map(|v| v[i]).unwrap_or(true);
        let l = if valid { len } else { 0 };
        last += l;
        norm.push(last);
        lists.push((valid, l));
    }
    (norm, lists)
}

/// Model-independent expectation of the round trip of ONE page: per layer, innermost first, the validity
/// (None when the layer carries no validity buffer; bits are AND-ed with the validity of all enclosing
/// layers, which is all Arrow defines) and the normalized offsets.
pub fn expected(st: &Stack) -> Vec<LayerOut> {
    let mut out = vec![];
    let mut mask: Vec<bool> = vec![];
    let mut first = true;
    for c in st {
        match c {
            Call::Validity(v) => {
                if first {
                    mask = vec![true; v.len()];
                }
                let eff: Vec<bool> = v.iter().zip(mask.iter()).map(|(a, b)| *a && *b).collect();
                out.push((Some(eff.clone()), None));
                mask = eff;
            }
            Call::NoNull(n) => {
                if first {
                    mask = vec![true; *n];
                }
                out.push((None, None));
            }
            Call::Offsets { validity, .. } => {
                let (norm, lists) = normalized(c);
                if first {
                    mask = vec![true; lists.len()];
                }
                let eff: Vec<bool> = lists.iter().zip(mask.iter()).map(|(l, m)| l.0 && *m).collect();
                out.push((validity.as_ref().map(|_| eff), Some(norm.clone())));
                mask = vec![true; *norm.last().unwrap() as usize];
            }
            Call::Fsl { validity, dim, n } => {
                if first {
                    mask = vec![true; *n];
                }
                let eff: Vec<bool> = match validity {
                    Some(v) => v.iter().zip(mask.iter()).map(|(a, b)| *a && *b).collect(),
                    None => mask.clone(),
                };
                out.push((validity.as_ref().map(|_| eff.clone()), None));
                mask = eff.iter().flat_map(|b| std::iter::repeat(*b).take(*dim)).collect();
            }
        }
        first = false;
    }
    out.reverse();
    out
}

/// Expected result of reading several pages through one composite: concatenation per layer; a layer's
/// validity is None only if no page carries validity at that layer.
pub fn expected_pages(pages: &[Stack]) -> Vec<LayerOut> {
    let per: Vec<Vec<LayerOut>> = pages.iter().map(expected).collect();
    let nl = per[0].len();
    let mut out = vec![];
    for li in 0..nl {
        let any_val = per.iter().any(|p| p[li].0.is_some());
        let is_list = per[0][li].1.is_some();
        let mut vals = vec![];
        let mut offs = vec![0u64];
        for (pi, p) in per.iter().enumerate() {
            // slots of this layer in this page
            let slots = slots_at(&pages[pi], nl - 1 - li);
            match &p[li].0 {
                Some(v) => vals.extend(v.iter().copied()),
                None => vals.extend(std::iter::repeat(true).take(slots)),
            }
            if let Some(o) = &p[li].1 {
                let base = *offs.last().unwrap();
                offs.extend(o.iter().skip(1).map(|x| x + base));
            }
        }
        out.push((if any_val { Some(vals) } else { None }, if is_list { Some(offs) } else { None }));
    }
    out
}

/// number of slots of layer `idx` (outermost = 0) of a stack
pub fn slots_at(st: &Stack, idx: usize) -> usize {
    match &st[idx] {
        Call::Validity(v) => v.len(),
        Call::NoNull(n) => *n,
        Call::Offsets { offs, .. } => offs.len() - 1,
        Call::Fsl { n, .. } => *n,
    }
}

// ---------------------------------------------------------------------------------------------------
// class predicates of the known findings (mirrors of the Coq Known_C27_* predicates)

fn layer_has_levels(c: &Call) -> bool {
    match c {
        Call::Validity(_) => true,
        Call::NoNull(_) => false,
        Call::Offsets { validity, .. } => validity.is_some() || normalized(c).1.iter().any(|l| l.0 && l.1 == 0),
        Call::Fsl { validity, .. } => validity.is_some(),
    }
}

/// F21: SerializerContext.current_len bookkeeping (do_record_validity sets current_len = validity.len()
/// without the specials): over-strict debug_assert at repdef.rs:626, or current_len == 0 in build().
pub fn class_len_bookkeeping(st: &Stack) -> bool {
    let mut cur = 0usize;
    let mut sp = 0usize;
    let mut bad = false;
    let mut check = |cur: &mut usize, sp: usize, n: usize| {
        if !(*cur == 0 || *cur == n + sp) {
            bad = true;
        }
        *cur = n;
    };
    for c in st {
        match c {
            Call::Validity(v) => check(&mut cur, sp, v.len()),
            Call::NoNull(_) => {}
            Call::Offsets { validity, .. } => {
                let (_, lists) = normalized(c);
                if validity.is_some() {
                    check(&mut cur, sp, lists.len());
                }
                let new_len: usize = lists.iter().map(|l| if l.0 && l.1 > 0 { l.1 as usize } else { 1 }).sum::<usize>() + sp;
                cur = new_len;
                sp += lists.iter().filter(|l| !(l.0 && l.1 > 0)).count();
            }
            Call::Fsl { validity, dim, n } => {
                if validity.is_some() {
                    check(&mut cur, sp, *n);
                }
                cur = cur.saturating_sub(sp) * dim + sp;
            }
        }
    }
    let total = items_of(st) + sp;
    bad || (cur == 0 && total > 0)
}

/// New finding: unravel_offsets of an AllValidList layer (no null and no empty list in the page) uses
/// max_level = 0, so definition levels of inner nullable layers are treated as invisible / null.
pub fn class_allvalid_list(st: &Stack) -> bool {
    for (i, c) in st.iter().enumerate() {
        if let Call::Offsets { .. } = c {
            if !layer_has_levels(c) && st[i + 1..].iter().any(layer_has_levels) {
                return true;
            }
        }
    }
    false
}

/// New finding: RepDefUnraveler::new does not count AllValidList layers in levels_to_rep, so
/// unravel_validity of a nullable item layer that has a list outside and an all-valid list inside
/// sees the outer lists' special entries as items.
pub fn class_allvalid_list_inside(st: &Stack) -> bool {
    for (m, c) in st.iter().enumerate() {
        let nullable_item = matches!(c, Call::Validity(_) | Call::Fsl { validity: Some(_), .. });
        if nullable_item
            && st[..m].iter().any(|x| matches!(x, Call::Offsets { .. }))
            && st[m + 1..].iter().any(|x| matches!(x, Call::Offsets { .. }) && !layer_has_levels(x))
        {
            return true;
        }
    }
    false
}

pub fn n_lists(st: &Stack) -> usize {
    st.iter().filter(|c| matches!(c, Call::Offsets { .. })).count()
}
pub fn has_fsl(st: &Stack) -> bool {
    st.iter().any(|c| matches!(c, Call::Fsl { .. }))
}
pub fn page_has_def(st: &Stack) -> bool {
    st.iter().any(layer_has_levels)
}

/// New finding (composite only): RepDefUnraveler::unravel_validity appends num_items bits for an
/// AllValidItem layer; wrong when the layer lies outside a list and another page has nulls there.
pub fn class_composite_allvalid_item(pages: &[Stack]) -> bool {
    let nl = pages[0].len();
    for li in 0..nl {
        let nullable_somewhere = pages.iter().any(|p| matches!(p[li], Call::Validity(_) | Call::Fsl { validity: Some(_), .. }));
        if !nullable_somewhere {
            continue;
        }
        for p in pages {
            let all_valid_here = matches!(p[li], Call::NoNull(_) | Call::Fsl { validity: None, .. });
            if all_valid_here && slots_at(p, li) != items_of(p) {
                return true;
            }
        }
    }
    false
}

/// New finding (composite only): the rep-only branch of unravel_offsets truncates the rewritten rep
/// levels to offsets.len() - 1, which counts the lists of the earlier unravelers too.
pub fn class_composite_rep_truncate(pages: &[Stack]) -> bool {
    pages.iter().enumerate().any(|(i, p)| i > 0 && !page_has_def(p) && n_lists(p) >= 2)
}

pub fn known_class(pages: &[Stack]) -> Option<&'static str> {
    // (repaired in /repo d90c193, acc257d: list_of_nullable_struct_repdef, allvalid_list_over_nullable_items;
    //  their inputs stay in the generators and the corpus as regression cases)
    if pages.iter().any(class_allvalid_list_inside) {
        return Some("allvalid_list_inside_nullable_struct");
    }
    if pages.len() > 1 && class_composite_allvalid_item(pages) {
        return Some("composite_allvalid_item_outside_list");
    }
    if pages.len() > 1 && class_composite_rep_truncate(pages) {
        return Some("composite_rep_only_truncate");
    }
    None
}

// ---------------------------------------------------------------------------------------------------
// generators

pub struct GenCfg {
    pub max_rows: usize,
    pub max_layers: usize, // structural layers above the leaf
    pub max_len: u64,
    pub allow_fsl_with_lists: bool,
}

fn gen_bits(rng: &mut Rng, n: usize, p_null_pct: u64) -> Vec<bool> {
    (0..n).map(|_| rng.below(100) >= p_null_pct).collect()
}

/// A well-formed random stack in the shape the encoders produce: lists behind null ancestors are empty
/// after normalization; validity bits behind nulls are arbitrary; offsets may be sliced / carry garbage
/// behind null lists.  `kinds`: optional fixed layer kinds (0 validity-some, 1 no-null, 2 list, 3 list
/// without validity, 4 fsl) so that pages of one composite agree in shape.
pub fn gen_stack(rng: &mut Rng, cfg: &GenCfg, rows: usize, shape: &[u8]) -> Stack {
    let mut st: Stack = vec![];
    let mut n = rows;
    let mut mask = vec![true; rows];
    let nullp = *rng.pick(&[0u64, 10, 30, 60, 100]);
    for k in shape {
        match k {
            0 => {
                let v = gen_bits(rng, n, nullp);
                mask = v.iter().zip(mask.iter()).map(|(a, b)| *a && *b).collect();
                st.push(Call::Validity(v));
            }
            1 => st.push(Call::NoNull(n)),
            2 | 3 => {
                let with_val = *k == 2;
                let start = if rng.chance(1, 4) { rng.below(7) as i64 } else { 0 };
                let mut offs = vec![start];
                let mut val = vec![];
                let emptyp = *rng.pick(&[0u64, 0, 20, 50, 100]);
                for i in 0..n {
                    let mut len = if rng.below(100) < emptyp { 0 } else { rng.range(1, cfg.max_len.max(1)) };
                    let mut valid = true;
                    if with_val {
                        valid = rng.below(100) >= nullp;
                    }
                    if !mask[i] {
                        // behind a null ancestor: the encoder pushes the null down (list is null) or the list is empty
                        if with_val && rng.chance(3, 4) {
                            valid = false;
                        } else {
                            len = 0;
                        }
                    }
                    if !valid && rng.chance(2, 3) {
                        len = 0; // most null lists are empty; the rest keep garbage behind the null
                    }
                    val.push(valid);
                    offs.push(offs.last().unwrap() + len as i64);
                }
                let c = Call::Offsets { offs, validity: if with_val { Some(val) } else { None }, wide: rng.bool() };
                n = *normalized(&c).0.last().unwrap() as usize;
                mask = vec![true; n];
                st.push(c);
            }
            _ => {
                let dim = rng.range(1, 3) as usize;
                let validity = if rng.bool() { Some(gen_bits(rng, n, nullp)) } else { None };
                if let Some(v) = &validity {
                    mask = v.iter().zip(mask.iter()).map(|(a, b)| *a && *b).collect();
                }
                mask = mask.iter().flat_map(|b| std::iter::repeat(*b).take(dim)).collect();
                st.push(Call::Fsl { validity, dim, n });
                n *= dim;
            }
        }
    }
    st
}

/// a random shape: `layers` structural layers + a leaf validity layer
pub fn gen_shape(rng: &mut Rng, cfg: &GenCfg) -> Vec<u8> {
    let layers = rng.below(cfg.max_layers as u64 + 1) as usize;
    let mut shape: Vec<u8> = vec![];
    let with_fsl = rng.chance(1, 6);
    for _ in 0..layers {
        let k = if with_fsl && (cfg.allow_fsl_with_lists && rng.chance(1, 8)) {
            *rng.pick(&[0u8, 1, 2, 3, 4])
        } else if with_fsl {
            *rng.pick(&[0u8, 1, 4, 4])
        } else {
            *rng.pick(&[0u8, 1, 2, 2, 3])
        };
        shape.push(k);
    }
    shape.push(*rng.pick(&[0u8, 0, 1]));
    shape
}

/// all well-formed stacks with the given shape over tiny universes (exhaustive arm)
pub fn enum_stacks(shape: &[u8], rows: usize, max_len: u64, limit: usize) -> Vec<Stack> {
    fn bits_all(n: usize) -> Vec<Vec<bool>> {
        (0..(1u32 << n)).map(|m| (0..n).map(|i| m >> i & 1 == 1).collect()).collect()
    }
    fn rec(shape: &[u8], n: usize, mask: Vec<bool>, max_len: u64, cur: &mut Stack, out: &mut Vec<Stack>, limit: usize) {
        if out.len() >= limit {
            return;
        }
        let Some(k) = shape.first() else {
            out.push(cur.clone());
            return;
        };
        match k {
            0 => {
                if n > 10 {
                    return;
                }
                for v in bits_all(n) {
                    let m2 = v.iter().zip(mask.iter()).map(|(a, b)| *a && *b).collect();
                    cur.push(Call::Validity(v));
                    rec(&shape[1..], n, m2, max_len, cur, out, limit);
                    cur.pop();
                }
            }
            1 => {
                cur.push(Call::NoNull(n));
                rec(&shape[1..], n, mask, max_len, cur, out, limit);
                cur.pop();
            }
            2 | 3 => {
                // per list: (valid, len); masked lists have length 0
                let opts: Vec<(bool, u64)> = if *k == 2 {
                    let mut o = vec![(false, 0)];
                    o.extend((0..=max_len).map(|l| (true, l)));
                    o
                } else {
                    (0..=max_len).map(|l| (true, l)).collect()
                };
                let mut idx = vec![0usize; n];
                loop {
                    let ok = (0..n).all(|i| mask[i] || !(opts[idx[i]].0 && opts[idx[i]].1 > 0));
                    if ok {
                        let mut offs = vec![0i64];
                        let mut val = vec![];
                        for i in 0..n {
                            let (v, l) = opts[idx[i]];
                            val.push(v);
                            offs.push(offs.last().unwrap() + l as i64);
                        }
                        let c = Call::Offsets { offs, validity: if *k == 2 { Some(val) } else { None }, wide: false };
                        let n2 = *normalized(&c).0.last().unwrap() as usize;
                        cur.push(c);
                        rec(&shape[1..], n2, vec![true; n2], max_len, cur, out, limit);
                        cur.pop();
                    }
                    // next
                    let mut i = 0;
                    while i < n {
                        idx[i] += 1;
                        if idx[i] < opts.len() {
                            break;
                        }
                        idx[i] = 0;
                        i += 1;
                    }
                    if i == n {
                        break;
                    }
                }
            }
            _ => {
                let dim = 2usize;
                let mut vals: Vec<Option<Vec<bool>>> = vec![None];
                if n <= 6 {
                    vals.extend(bits_all(n).into_iter().map(Some));
                }
                for validity in vals {
                    let eff: Vec<bool> = match &validity {
                        Some(v) => v.iter().zip(mask.iter()).map(|(a, b)| *a && *b).collect(),
                        None => mask.clone(),
                    };
                    let m2 = eff.iter().flat_map(|b| std::iter::repeat(*b).take(dim)).collect();
                    cur.push(Call::Fsl { validity, dim, n });
                    rec(&shape[1..], n * dim, m2, max_len, cur, out, limit);
                    cur.pop();
                }
            }
        }
    }
    let mut out = vec![];
    let mut cur = vec![];
    rec(shape, rows, vec![true; rows], max_len, &mut cur, &mut out, limit);
    out
}
