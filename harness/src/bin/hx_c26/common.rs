//! Helpers shared by the C26 codec arms: Coq printers for buffers / chunk tables, block builders,
//! the per-chunk slicing that the mini-block reader performs, and structured value generators.
use hxlib::util::{coq, Rng, Sink};
use lance_encoding::buffer::LanceBuffer;
use lance_encoding::compression::MiniBlockDecompressor;
use lance_encoding::data::{BlockInfo, DataBlock, FixedWidthDataBlock, VariableWidthBlock};
use lance_encoding::encodings::logical::primitive::miniblock::{MiniBlockChunk, MiniBlockCompressed};
use lance_encoding::statistics::ComputeStat;
use serde_json::{json, Value};

pub const MAX_MINIBLOCK_BYTES: u64 = 8186;
pub const MAX_MINIBLOCK_VALUES: u64 = 4096;

pub fn mask(bytes: usize) -> u64 {
    if bytes >= 8 {
        u64::MAX
    } else {
        (1u64 << (8 * bytes)) - 1
    }
}

/// little-endian bytes of typed values
pub fn to_bytes(vals: &[u64], ts: usize) -> Vec<u8> {
    let mut out = Vec::with_capacity(vals.len() * ts);
    for v in vals {
        out.extend_from_slice(&v.to_le_bytes()[..ts]);
    }
    out
}
pub fn from_bytes(bytes: &[u8], ts: usize) -> Vec<u64> {
    bytes
        .chunks_exact(ts)
        .map(|c| {
            let mut b = [0u8; 8];
            b[..ts].copy_from_slice(c);
            u64::from_le_bytes(b)
        })
        .collect()
}

pub fn fixed_block(bytes: Vec<u8>, bits_per_value: u64, num_values: u64, stats: bool) -> DataBlock {
    let mut b = FixedWidthDataBlock { data: LanceBuffer::from(bytes), bits_per_value, num_values, block_info: BlockInfo::new() };
    if stats {
        b.compute_stat();
    }
    DataBlock::FixedWidth(b)
}

pub fn var_block(offsets: &[u64], data: Vec<u8>, bits_per_offset: u8, stats: bool) -> DataBlock {
    let off = if bits_per_offset == 32 {
        LanceBuffer::reinterpret_vec(offsets.iter().map(|o| *o as u32).collect::<Vec<u32>>())
    } else {
        LanceBuffer::reinterpret_vec(offsets.to_vec())
    };
    let mut b = VariableWidthBlock { data: LanceBuffer::from(data), offsets: off, bits_per_offset, num_values: offsets.len() as u64 - 1, block_info: BlockInfo::new() };
    if stats {
        b.compute_stat();
    }
    DataBlock::VariableWidth(b)
}

pub fn var_offsets(b: &VariableWidthBlock) -> Vec<u64> {
    if b.bits_per_offset == 32 {
        b.offsets.borrow_to_typed_slice::<u32>().iter().map(|x| *x as u64).collect()
    } else {
        b.offsets.borrow_to_typed_slice::<u64>().to_vec()
    }
}

pub fn coq_chunks(chunks: &[MiniBlockChunk]) -> String {
    coq::list(chunks.iter().map(|c| format!("({}, {})", coq::list(c.buffer_sizes.iter().map(|s| coq::n(*s as u64))), c.log_num_values)))
}
pub fn coq_bufs(bufs: &[LanceBuffer]) -> String {
    coq::list(bufs.iter().map(|b| coq::bytes(b.as_ref())))
}
pub fn coq_compressed(c: &MiniBlockCompressed) -> String {
    format!("({}, {})", coq_bufs(&c.data), coq_chunks(&c.chunks))
}
pub fn json_chunks(chunks: &[MiniBlockChunk]) -> Value {
    json!(chunks.iter().map(|c| json!({"sizes": c.buffer_sizes, "log": c.log_num_values})).collect::<Vec<_>>())
}

/// What the mini-block reader does with a page: per chunk, slice every buffer by `buffer_sizes`
/// and hand the slices with the chunk's value count to the decompressor.
pub fn split_chunks(c: &MiniBlockCompressed) -> Vec<(Vec<LanceBuffer>, u64)> {
    let mut offs = vec![0usize; c.data.len()];
    let mut prev = 0u64;
    let mut out = vec![];
    for ch in &c.chunks {
        let n = if ch.log_num_values == 0 { c.num_values.saturating_sub(prev) } else { 1u64 << ch.log_num_values };
        let mut bufs = vec![];
        for (i, sz) in ch.buffer_sizes.iter().enumerate() {
            let sz = *sz as usize;
            let end = (offs[i] + sz).min(c.data[i].len());
            let start = offs[i].min(end);
            bufs.push(LanceBuffer::from(c.data[i].as_ref()[start..end].to_vec()));
            offs[i] += sz;
        }
        prev += n;
        out.push((bufs, n));
    }
    out
}

/// The documented limits of a chunk table; returns a description of the first breach.
pub fn chunk_limit_breach(c: &MiniBlockCompressed, check_bytes: bool) -> Option<String> {
    let total = c.num_values;
    if c.chunks.is_empty() {
        return if total == 0 { None } else { Some(format!("no chunks for {total} values")) };
    }
    let mut prev = 0u64;
    for (i, ch) in c.chunks.iter().enumerate() {
        let last = i + 1 == c.chunks.len();
        let n = if ch.log_num_values == 0 { total.saturating_sub(prev) } else { 1u64 << ch.log_num_values };
        if n == 0 || n > MAX_MINIBLOCK_VALUES {
            return Some(format!("chunk {i} has {n} values"));
        }
        // the last chunk is normally flagged 0; a full last chunk may keep its power-of-two flag
        if !last && (ch.log_num_values == 0 || ch.log_num_values > 12) {
            return Some(format!("non-last chunk {i} has log_num_values {}", ch.log_num_values));
        }
        let bytes: u64 = ch.buffer_sizes.iter().map(|s| *s as u64).sum();
        if check_bytes && bytes > MAX_MINIBLOCK_BYTES {
            return Some(format!("chunk {i} has {bytes} bytes"));
        }
        prev += n;
        if prev > total {
            return Some(format!("chunk {i}: counts exceed page ({prev} > {total})"));
        }
    }
    if prev != total {
        return Some(format!("chunk counts sum to {prev}, page has {total}"));
    }
    // the buffer sizes of all chunks must add up to the buffers
    for (bi, b) in c.data.iter().enumerate() {
        let s: usize = c.chunks.iter().map(|ch| *ch.buffer_sizes.get(bi).unwrap_or(&0) as usize).sum();
        if s != b.len() {
            return Some(format!("buffer {bi}: chunk sizes sum to {s}, buffer has {} bytes", b.len()));
        }
    }
    None
}

/// Decode a fixed-width page chunk by chunk with a real decompressor; concatenated bytes.
pub fn decode_fixed_page(dec: &dyn MiniBlockDecompressor, c: &MiniBlockCompressed) -> Result<Vec<u8>, String> {
    let mut out = vec![];
    for (bufs, n) in split_chunks(c) {
        let r = hxlib::util::catch(|| dec.decompress(bufs, n));
        match r {
            Ok(Ok(DataBlock::FixedWidth(f))) => {
                if f.num_values != n {
                    return Err(format!("chunk decoded to {} values, expected {n}", f.num_values));
                }
                out.extend_from_slice(f.data.as_ref())
            }
            Ok(Ok(other)) => return Err(format!("unexpected block {}", other.name())),
            Ok(Err(e)) => return Err(format!("decode error {}", short(&e.to_string()))),
            Err(_) => return Err("decode panic".into()),
        }
    }
    Ok(out)
}

pub fn short(s: &str) -> String {
    s.chars().take(160).collect()
}

pub fn oracle(sink: &mut Sink, ok: bool, what: &str, case: Value) {
    if ok {
        sink.oracle_ok()
    } else {
        sink.oracle_fail(None, what, case)
    }
}

/// Interesting lengths around the chunking boundaries.
pub const EDGE_LENS: [usize; 40] = [
    1, 2, 3, 7, 8, 9, 63, 64, 65, 127, 128, 129, 254, 255, 256, 257, 510, 511, 512, 513, 1023, 1024, 1025, 2047, 2048, 2049, 2050, 3071, 3072, 4095,
    4096, 4097, 4352, 5000, 6143, 6144, 6145, 8191, 8192, 8193,
];

pub fn pick_len(rng: &mut Rng, max: usize) -> usize {
    loop {
        let n = if rng.chance(1, 2) { *rng.pick(&EDGE_LENS) } else { rng.range(1, max as u64) as usize };
        if n <= max {
            return n;
        }
    }
}

/// A random typed value of `ts` bytes, biased to extremes.
pub fn rand_val(rng: &mut Rng, ts: usize) -> u64 {
    let m = mask(ts);
    match rng.below(8) {
        0 => 0,
        1 => m,
        2 => m >> 1,
        3 => (m >> 1) + 1,
        4 => rng.below(4),
        5 => rng.next() & m & 0xFF,
        _ => rng.next() & m,
    }
}

/// Values made of runs. `style` selects the run-length distribution.
pub fn gen_runs(rng: &mut Rng, ts: usize, n: usize, style: u64) -> Vec<u64> {
    let mut v = Vec::with_capacity(n);
    let few: Vec<u64> = (0..3).map(|_| rand_val(rng, ts)).collect();
    while v.len() < n {
        let len = match style {
            0 => n,                                                   // one run
            1 => 1,                                                   // all distinct
            2 => *rng.pick(&[254usize, 255, 256, 257, 509, 510, 511, 765, 766]), // around the 255 split
            3 => rng.range(1, 4) as usize,                            // short runs
            4 => rng.range(1, 40) as usize,
            5 => { if rng.chance(1, 3) { rng.range(200, 1200) as usize } else { 1 } } // long runs between distinct stretches
            6 => { if v.len() < n / 2 { 1 } else { rng.range(100, 600) as usize } }   // distinct first, runs later
            7 => { if v.len() < n / 2 { rng.range(300, 3000) as usize } else { 1 } }  // runs first, distinct later
            _ => rng.range(1, 600) as usize,
        };
        let mut x = if rng.chance(1, 4) { *rng.pick(&few) } else { rand_val(rng, ts) };
        if style == 1 || ((style == 5 || style == 6 || style == 7) && len == 1) {
            // force a change of value
            x = (v.len() as u64).wrapping_mul(0x9E37_79B9_7F4A_7C15) & mask(ts);
        }
        if let Some(last) = v.last() {
            if *last == x {
                x = (x ^ 1) & mask(ts);
            }
        }
        for _ in 0..len.min(n - v.len()) {
            v.push(x);
        }
    }
    v
}

pub fn nlist(xs: &[u64]) -> String {
    coq::nlist(xs.iter())
}

/// Byte budget of a correspondence stream (the coqc side costs roughly in proportion to the text).
pub struct Budget {
    pub left: i64,
    pub skipped: u64,
}
impl Budget {
    pub fn new(args: &hxlib::util::Args, quick_kb: i64) -> Self {
        Budget { left: if args.thorough() { quick_kb * 12 * 1024 } else { quick_kb * 1024 }, skipped: 0 }
    }
    /// push the case if it fits the remaining budget
    pub fn push(&mut self, s: &mut hxlib::util::Stream, input: String, output: String, human: Value) -> bool {
        let sz = (input.len() + output.len()) as i64;
        if sz > self.left {
            self.skipped += 1;
            return false;
        }
        self.left -= sz;
        s.push(input, output, human);
        true
    }
}
