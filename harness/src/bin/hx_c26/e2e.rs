//! End-to-end arm: arrays go through the real lance-file writer (2.1, some 2.2) with every
//! compression setting and come back through the reader; the oracle is array equality.
//! This covers the glue the unit arms do not: compressor selection in compression.rs,
//! serialize_miniblocks / decode_miniblock_chunk, full-zip, dictionary pages, description protobufs.
use hxlib::util::{catch, Args, Rng, Sink};
use arrow_array::{Array, ArrayRef, RecordBatch, RecordBatchIterator};
use arrow_schema::{DataType, Field, Schema};
use lance_encoding::decoder::{DecoderPlugins, FilterExpression};
use lance_encoding::version::LanceFileVersion;
use lance_file::testing::{read_lance_file, write_lance_file, FsFixture};
use lance_file::writer::FileWriterOptions;
use serde_json::json;
use std::collections::HashMap;
use std::sync::Arc;

fn nulls(rng: &mut Rng, n: usize, nullable: bool) -> Option<arrow_buffer::NullBuffer> {
    if !nullable {
        return None;
    }
    let style = rng.below(3);
    let bits: Vec<bool> = (0..n).map(|i| match style { 0 => !rng.chance(1, 10), 1 => i % 2 == 0, _ => i > n / 3 }).collect();
    Some(arrow_buffer::NullBuffer::from(bits))
}

fn int_values(rng: &mut Rng, n: usize, pattern: u64, bits: u32) -> Vec<u64> {
    let m = if bits >= 64 { u64::MAX } else { (1u64 << bits) - 1 };
    let mut v = Vec::with_capacity(n);
    let mut cur = rng.next() & m;
    let mut left = 0usize;
    for i in 0..n {
        let x = match pattern {
            0 => rng.next() & m,                               // random full width
            1 => rng.below(16),                                // small range -> bit packing
            2 => {                                             // runs -> RLE
                if left == 0 {
                    left = *rng.pick(&[1usize, 3, 40, 255, 256, 300, 700]);
                    cur = rng.next() & m;
                }
                left -= 1;
                cur
            }
            3 => (i as u64) & m,                               // sequential
            4 => 7,                                            // constant
            5 => { if (i / 1024) % 2 == 0 { 0 } else { rng.next() & m & 0xFFF } } // zero chunk / narrow chunk
            6 => { if i % 500 == 0 { m } else { rng.below(4) } }                  // outliers force full width
            _ => { if i < n / 2 { rng.next() & m } else { 5 } }                   // distinct then run
        };
        v.push(x);
    }
    v
}

fn make_array(rng: &mut Rng, kind: u64, n: usize, nullable: bool) -> (ArrayRef, String) {
    use arrow_array::*;
    let nb = nulls(rng, n, nullable);
    let pat = rng.below(8);
    macro_rules! prim {
        ($arr:ty, $t:ty, $bits:expr, $name:expr) => {{
            let vals: Vec<$t> = int_values(rng, n, pat, $bits).into_iter().map(|x| x as $t).collect();
            (Arc::new(<$arr>::new(vals.into(), nb)) as ArrayRef, format!("{}:p{}", $name, pat))
        }};
    }
    match kind {
        0 => prim!(Int8Array, i8, 8, "i8"),
        1 => prim!(Int16Array, i16, 16, "i16"),
        2 => prim!(Int32Array, i32, 32, "i32"),
        3 => prim!(Int64Array, i64, 64, "i64"),
        4 => prim!(UInt8Array, u8, 8, "u8"),
        5 => prim!(UInt16Array, u16, 16, "u16"),
        6 => prim!(UInt32Array, u32, 32, "u32"),
        7 => prim!(UInt64Array, u64, 64, "u64"),
        8 => {
            let vals: Vec<f32> = int_values(rng, n, pat, 32).into_iter().map(|x| if pat == 0 { f32::from_bits(x as u32) } else { x as f32 * 0.5 }).collect();
            (Arc::new(Float32Array::new(vals.into(), nb)) as ArrayRef, format!("f32:p{pat}"))
        }
        9 => {
            let vals: Vec<f64> = int_values(rng, n, pat, 64).into_iter().map(|x| if pat == 0 { f64::from_bits(x) } else { (x % 100_000) as f64 * 0.25 }).collect();
            (Arc::new(Float64Array::new(vals.into(), nb)) as ArrayRef, format!("f64:p{pat}"))
        }
        10 | 11 | 12 => {
            // strings: short random / low cardinality / skewed / long
            let style = rng.below(6);
            let pool: Vec<String> = (0..8).map(|i| format!("val-{}-{}", i, "x".repeat(rng.below(20) as usize))).collect();
            let strs: Vec<Option<String>> = (0..n)
                .map(|i| {
                    if nb.as_ref().map(|b| b.is_null(i)).unwrap_or(false) {
                        return None;
                    }
                    Some(match style {
                        0 => (0..rng.below(12)).map(|_| (b'a' + rng.below(26) as u8) as char).collect(),
                        1 => rng.pick(&pool).clone(),
                        2 => format!("user_{i}"),
                        3 => { if i < n / 2 { String::new() } else { "y".repeat(rng.range(100, 250) as usize) } }
                        4 => "z".repeat(rng.range(0, 600) as usize),
                        _ => format!("{}{}", rng.pick(&pool), rng.below(50)),
                    })
                })
                .collect();
            let name = format!("{}:s{}", ["utf8", "large_utf8", "binary"][(kind - 10) as usize], style);
            let arr: ArrayRef = match kind {
                10 => Arc::new(StringArray::from(strs)),
                11 => Arc::new(LargeStringArray::from(strs)),
                _ => Arc::new(BinaryArray::from_iter(strs.iter().map(|s| s.as_ref().map(|x| x.as_bytes())))),
            };
            (arr, name)
        }
        13 => {
            let vals: Vec<bool> = (0..n).map(|i| match pat { 0 => rng.bool(), 1 => true, _ => i % 3 == 0 }).collect();
            (Arc::new(BooleanArray::new(vals.into(), nb)) as ArrayRef, format!("bool:p{pat}"))
        }
        14 => {
            let dim = *rng.pick(&[1i32, 3, 8, 17, 64]);
            let vals: Vec<f32> = (0..n * dim as usize).map(|i| (i % 97) as f32 + rng.below(3) as f32).collect();
            let items = Arc::new(Float32Array::from(vals));
            (Arc::new(FixedSizeListArray::new(Arc::new(Field::new("item", DataType::Float32, true)), dim, items, nb)) as ArrayRef, format!("fsl{dim}"))
        }
        _ => {
            let w = *rng.pick(&[2i32, 12, 16, 33]);
            let vals: Vec<u8> = (0..n * w as usize).map(|_| rng.below(5) as u8).collect();
            (Arc::new(FixedSizeBinaryArray::new(w, vals.into(), nb)) as ArrayRef, format!("fsb{w}"))
        }
    }
}

fn round_trip(rt: &tokio::runtime::Runtime, field: Field, arrays: Vec<ArrayRef>, version: LanceFileVersion) -> Result<bool, String> {
    round_trip_v(rt, field, arrays, version, false)
}

fn round_trip_v(rt: &tokio::runtime::Runtime, field: Field, arrays: Vec<ArrayRef>, version: LanceFileVersion, verbose: bool) -> Result<bool, String> {
    let schema = Arc::new(Schema::new(vec![field]));
    let batches: Vec<RecordBatch> = arrays.iter().map(|a| RecordBatch::try_new(schema.clone(), vec![a.clone()]).unwrap()).collect();
    let expected = arrow_select::concat::concat(&arrays.iter().map(|a| a.as_ref()).collect::<Vec<_>>()).map_err(|e| e.to_string())?;
    let guard = |f: &mut dyn FnMut() -> Vec<RecordBatch>| -> Result<Vec<RecordBatch>, bool> {
        if verbose {
            std::panic::catch_unwind(std::panic::AssertUnwindSafe(f)).map_err(|_| true)
        } else {
            catch(f)
        }
    };
    let mut batches_opt = Some(batches);
    let res = guard(&mut || {
        let batches = batches_opt.take().unwrap();
        rt.block_on(async {
            let fs = FsFixture::default();
            let reader = RecordBatchIterator::new(batches.into_iter().map(Ok), schema.clone());
            write_lance_file(reader, &fs, FileWriterOptions { format_version: Some(version), ..Default::default() }).await;
            read_lance_file(&fs, Arc::<DecoderPlugins>::default(), FilterExpression::no_filter()).await
        })
    });
    match res {
        Ok(out) => {
            let cols: Vec<ArrayRef> = out.iter().map(|b| b.column(0).clone()).collect();
            if cols.is_empty() {
                return Ok(expected.is_empty());
            }
            let got = arrow_select::concat::concat(&cols.iter().map(|a| a.as_ref()).collect::<Vec<_>>()).map_err(|e| e.to_string())?;
            Ok(got.to_data() == expected.to_data() || got.as_ref() == expected.as_ref())
        }
        Err(_) => Err("writer/reader panicked".into()),
    }
}

pub fn run(args: &Args, sink: &mut Sink, rng: &mut Rng) {
    let rt = tokio::runtime::Builder::new_multi_thread().worker_threads(4).enable_all().build().unwrap();
    let comps = ["", "none", "lz4", "zstd", "fsst"];
    let n_cases = args.vol(70, 900);
    for k in 0..n_cases {
        let kind = (k as u64) % 16;
        let is_str = (10..=12).contains(&kind);
        let n = match rng.below(5) {
            0 => rng.range(1, 50) as usize,
            1 => *rng.pick(&[1023usize, 1024, 1025, 2048, 4096, 4097]),
            2 => rng.range(100, 3000) as usize,
            _ => rng.range(1000, if args.thorough() { 40000 } else { 9000 }) as usize,
        };
        let nullable = rng.chance(1, 3);
        let mut md: HashMap<String, String> = HashMap::new();
        let comp = *rng.pick(&comps);
        if !comp.is_empty() && (comp != "fsst" || is_str) {
            md.insert("lance-encoding:compression".into(), comp.into());
            if comp == "zstd" && rng.bool() {
                md.insert("lance-encoding:compression-level".into(), "3".into());
            }
        }
        if rng.chance(1, 2) {
            md.insert("lance-encoding:bss".into(), rng.pick(&["on", "off", "auto"]).to_string());
        }
        if rng.chance(1, 3) {
            md.insert("lance-encoding:rle-threshold".into(), rng.pick(&["0", "0.5", "1.0", "0.9"]).to_string());
        }
        if rng.chance(1, 5) && kind != 13 {
            md.insert("lance-encoding:structural-encoding".into(), rng.pick(&["miniblock", "fullzip"]).to_string());
        }
        let version = if rng.chance(1, 5) { LanceFileVersion::V2_2 } else { LanceFileVersion::V2_1 };
        // a forced mini-block layout is outside the encoder's contract for wide values (it may refuse)
        let parts = if rng.chance(1, 4) { 2 } else { 1 };
        let (arr, name) = make_array(rng, kind, n, nullable);
        let forced_mini_wide = md.get("lance-encoding:structural-encoding").map(|s| s == "miniblock").unwrap_or(false) && (name.contains(":s3") || name.contains(":s4") || name.starts_with("fsl") || name.starts_with("fsb"));
        if forced_mini_wide {
            md.remove("lance-encoding:structural-encoding");
        }
        let arrays: Vec<ArrayRef> = if parts == 2 && n > 1 { vec![arr.slice(0, n / 2), arr.slice(n / 2, n - n / 2)] } else { vec![arr.clone()] };
        let field = Field::new("c", arr.data_type().clone(), true).with_metadata(md.clone());
        let human = json!({"codec": "e2e", "array": name, "n": n, "nullable": nullable, "metadata": md, "version": format!("{version}"), "batches": arrays.len()});
        sink.count(&format!("e2e:{}", name.split(':').next().unwrap()));
        sink.count(&format!("e2e:compression={}", if comp.is_empty() { "default" } else { comp }));
        sink.nontrivial(&format!("e2e:{name}:{n}:{nullable}:{:?}:{k}", md));
        let class: Option<&str> = None;
        match round_trip(&rt, field, arrays, version) {
            Ok(true) => sink.oracle_ok(),
            Ok(false) => sink.oracle_fail(class, "file round trip returned different values", human),
            Err(e) => sink.oracle_fail(class, &format!("file round trip failed: {e}"), human),
        }
    }

    // fixed regression input of the defect repaired in repo commit b9f1526 (must round trip now):
    // 256 short unique strings then 256 x 255 random bytes, plus 512 short + 512 x 250
    for (short, long, len, comp) in [(256usize, 256usize, 255usize, ""), (512, 512, 250, ""), (512, 512, 250, "none")] {
        use arrow_array::StringArray;
        let mut r2 = Rng::new(26);
        let strs: Vec<String> = (0..short + long).map(|i| if i < short { format!("{:x}", i) } else { (0..len).map(|_| (b' ' + r2.below(90) as u8) as char).collect() }).collect();
        let arr: ArrayRef = Arc::new(StringArray::from(strs));
        let mut md = HashMap::new();
        if !comp.is_empty() {
            md.insert("lance-encoding:compression".to_string(), comp.to_string());
        }
        let field = Field::new("c", DataType::Utf8, true).with_metadata(md);
        let human = json!({"codec": "e2e", "array": format!("utf8: {short} short unique strings then {long} random {len}-byte strings"), "compression": comp, "version": "2.1"});
        sink.count("e2e:binary-skew-regression");
        match round_trip(&rt, field, vec![arr], LanceFileVersion::V2_1) {
            Ok(true) => sink.oracle_ok(),
            Ok(false) => sink.oracle_fail(None, "file round trip returned different values", human),
            Err(e) => sink.oracle_fail(None, &format!("file round trip failed: {e}"), human),
        }
    }

    // packed structs (fixed children: 2.1 mini-block; with a variable child: 2.2 per value)
    for k in 0..args.vol(10, 120) {
        use arrow_array::*;
        let n = rng.range(1, if args.thorough() { 20000 } else { 5000 }) as usize;
        let with_var = k % 3 == 2;
        let (pa, pb) = (rng.below(8), rng.below(8));
        let a: ArrayRef = Arc::new(Int32Array::from(int_values(rng, n, pa, 32).into_iter().map(|x| x as i32).collect::<Vec<_>>()));
        let b: ArrayRef = Arc::new(UInt8Array::from(int_values(rng, n, pb, 8).into_iter().map(|x| x as u8).collect::<Vec<_>>()));
        let c: ArrayRef = if with_var {
            Arc::new(StringArray::from((0..n).map(|i| format!("s{}", "q".repeat(i % 9))).collect::<Vec<_>>()))
        } else {
            Arc::new(Float64Array::from((0..n).map(|i| i as f64 * 1.5).collect::<Vec<_>>()))
        };
        let fields = vec![
            Arc::new(Field::new("a", DataType::Int32, false)),
            Arc::new(Field::new("b", DataType::UInt8, false)),
            Arc::new(Field::new("c", c.data_type().clone(), false)),
        ];
        let st: ArrayRef = Arc::new(StructArray::new(fields.clone().into(), vec![a, b, c], None));
        let mut md = HashMap::new();
        md.insert("lance-encoding:packed".to_string(), "true".to_string());
        let field = Field::new("c", st.data_type().clone(), false).with_metadata(md);
        let version = if with_var { LanceFileVersion::V2_2 } else { LanceFileVersion::V2_1 };
        let human = json!({"codec": "e2e", "array": "packed-struct", "n": n, "variable_child": with_var});
        sink.count(if with_var { "e2e:packed-struct-variable" } else { "e2e:packed-struct-fixed" });
        sink.nontrivial(&format!("e2e:packed:{n}:{k}"));
        match round_trip(&rt, field, vec![st], version) {
            Ok(true) => sink.oracle_ok(),
            Ok(false) => sink.oracle_fail(None, "packed struct file round trip returned different values", human),
            Err(e) => sink.oracle_fail(None, &format!("packed struct file round trip failed: {e}"), human),
        }
    }
}

/// Experiments on the real writer (not part of the check): `--only=probe`.
pub fn probe(rng: &mut Rng) {
    use arrow_array::*;
    let rt = tokio::runtime::Builder::new_multi_thread().worker_threads(4).enable_all().build().unwrap();
    for (short, long, len, comp) in [(512usize, 512usize, 250usize, ""), (256, 256, 255, ""), (512, 512, 250, "none"), (64, 64, 250, ""), (128, 128, 200, "none"), (1024, 1024, 60, "none"), (300, 300, 255, "none")] {
        let strs: Vec<String> = (0..short + long).map(|i| if i < short { format!("{:x}", i) } else { (0..len).map(|_| (b' ' + rng.below(90) as u8) as char).collect() }).collect();
        let arr: ArrayRef = Arc::new(StringArray::from(strs));
        let mut md = HashMap::new();
        if !comp.is_empty() {
            md.insert("lance-encoding:compression".to_string(), comp.to_string());
        }
        let field = Field::new("c", DataType::Utf8, true).with_metadata(md);
        let r = round_trip_v(&rt, field, vec![arr], LanceFileVersion::V2_1, true);
        println!("probe short={short} long={long} len={len} comp={comp:?}: {r:?}");
    }
}

pub fn probe2(rng: &mut Rng) {
    use lance_encoding::compression::{CompressionStrategy, DefaultCompressionStrategy};
    use lance_encoding::encodings::logical::primitive::miniblock::MiniBlockCompressor;
    for (short, long, len) in [(512usize, 512usize, 250usize), (256, 256, 255), (300, 300, 255)] {
        let mut offs = vec![0u64];
        let mut data = vec![];
        for i in 0..short + long {
            if i >= short {
                for _ in 0..len {
                    data.push(b' ' + rng.below(90) as u8);
                }
            }
            offs.push(data.len() as u64);
        }
        let block = crate::common::var_block(&offs, data.clone(), 32, true);
        let f = arrow_schema::Field::new("x", arrow_schema::DataType::Utf8, false);
        let field = lance_core::datatypes::Field::try_from(&f).unwrap();
        let c = DefaultCompressionStrategy::new().create_miniblock_compressor(&field, &block).unwrap();
        println!("strategy picks {:?}", c);
        let r = hxlib::util::catch(|| c.compress(block.clone()));
        match r {
            Ok(Ok((c, _))) => println!("  chunks {:?} buffer len {}", c.chunks.iter().map(|c| (c.buffer_sizes.clone(), c.log_num_values)).collect::<Vec<_>>(), c.data[0].len()),
            other => println!("  compress: {:?}", other.map(|r| r.map(|_| ()).map_err(|e| e.to_string()))),
        }
        let r = hxlib::util::catch(|| lance_encoding::encodings::physical::binary::BinaryMiniBlockEncoder::default().compress(block));
        match r {
            Ok(Ok((c, _))) => println!("  binary chunks {:?} buffer len {}", c.chunks.iter().map(|c| (c.buffer_sizes.clone(), c.log_num_values)).collect::<Vec<_>>(), c.data[0].len()),
            other => println!("  binary compress: {:?}", other.map(|r| r.map(|_| ()).map_err(|e| e.to_string()))),
        }
    }
}
