//! Variable-width codecs: binary mini-block chunking, the VariableEncoder block layout,
//! dictionary encoding, packed structs (fixed mini-block and variable per-value).
use crate::common::*;
use hxlib::util::{catch, coq, Args, Rng, Sink, Stream};
use lance_core::datatypes::Field;
use lance_encoding::buffer::LanceBuffer;
use lance_encoding::compression::{BlockCompressor, BlockDecompressor, DecompressionStrategy, DefaultCompressionStrategy, DefaultDecompressionStrategy, MiniBlockDecompressor};
use lance_encoding::data::{BlockInfo, DataBlock, StructDataBlock, VariableWidthBlock};
use lance_encoding::encodings::logical::primitive::dict::dictionary_encode;
use lance_encoding::encodings::logical::primitive::fullzip::{PerValueCompressor, PerValueDataBlock};
use lance_encoding::encodings::logical::primitive::miniblock::MiniBlockCompressor;
use lance_encoding::encodings::physical::binary::{BinaryBlockDecompressor, BinaryMiniBlockDecompressor, BinaryMiniBlockEncoder, VariableEncoder};
use lance_encoding::encodings::physical::packed::{PackedStructFixedWidthMiniBlockEncoder, PackedStructVariablePerValueEncoder};
use lance_encoding::statistics::ComputeStat;
use lance_encoding::version::LanceFileVersion;
use serde_json::json;

/// strings: (offsets, data)
pub fn gen_strings(rng: &mut Rng, n: usize, style: u64) -> (Vec<u64>, Vec<u8>) {
    let mut offs = vec![0u64];
    let mut data = vec![];
    let vocab: Vec<Vec<u8>> = (0..5).map(|i| (0..rng.range(0, 12)).map(|k| b'a' + ((i * 7 + k) % 26) as u8).collect()).collect();
    for i in 0..n {
        let len = match style {
            0 => rng.range(0, 12) as usize,
            1 => 0,
            2 => rng.range(0, 255) as usize,
            3 => { if i < n / 2 { rng.range(0, 3) as usize } else { rng.range(150, 255) as usize } } // short first, long later
            4 => { if i % 64 == 63 { 255 } else { 1 } }
            5 => rng.range(30, 70) as usize,
            6 => usize::MAX, // vocabulary
            _ => rng.range(0, 40) as usize,
        };
        if len == usize::MAX {
            let word: &Vec<u8> = rng.pick(&vocab);
            data.extend_from_slice(word);
        } else {
            for _ in 0..len {
                data.push(b' ' + rng.below(90) as u8);
            }
        }
        offs.push(data.len() as u64);
    }
    (offs, data)
}

pub fn values_of(offs: &[u64], data: &[u8]) -> Vec<Vec<u8>> {
    offs.windows(2).map(|w| data[w[0] as usize..w[1] as usize].to_vec()).collect()
}
fn coq_values(vals: &[Vec<u8>]) -> String {
    coq::list(vals.iter().map(|v| coq::bytes(v)))
}

pub fn run_binary(args: &Args, sink: &mut Sink, rng: &mut Rng) {
    const REQ: &str = "Common.Base Codec.Model_Bytes Codec.Model_Binary";
    let mut s_enc = Stream::new("binary_encode", REQ, "chk_binary_encode", "N * list N * list N", "outcome (list (list N) * list chunk)");
    let mut b_enc = Budget::new(args, 140);
    s_enc.shard = 6;
    let mut s_dec = Stream::new("binary_decode", REQ, "chk_binary_decode", "N * list N * N", "outcome (list N * list N)");
    let mut b_dec = Budget::new(args, 70);
    s_dec.shard = 10;
    let mut shapes: Vec<(u8, usize, u64)> = vec![(32, 1, 0), (64, 1, 0), (32, 5, 1), (32, 1100, 1), (64, 600, 1), (32, 300, 4), (32, 700, 3), (64, 500, 3)];
    for k in 0..args.vol(22, 500) {
        let bits = if rng.chance(2, 3) { 32 } else { 64 };
        let style = k as u64 % 8;
        let n = match style {
            2 | 5 => rng.range(1, if args.thorough() { 400 } else { 120 }) as usize,
            3 => rng.range(2, if args.thorough() { 1200 } else { 500 }) as usize,
            _ => rng.range(1, if args.thorough() { 3000 } else { 900 }) as usize,
        };
        shapes.push((bits, n, style));
    }
    // style 100: the repaired defect's input (256 one-byte values, then 256 values of 255 bytes)
    shapes.insert(0, (32, 512, 100));
    for (bits, n, style) in shapes {
        let bw = (bits / 8) as u64;
        let (offs, data) = if style == 100 {
            let mut o = vec![0u64];
            let mut d = vec![];
            for i in 0..512u64 {
                let len = if i < 256 { 1 } else { 255 };
                d.extend(std::iter::repeat((i % 251) as u8).take(len));
                o.push(d.len() as u64);
            }
            (o, d)
        } else {
            gen_strings(rng, n, style)
        };
        let vals = values_of(&offs, &data);
        let human = json!({"codec": "binary", "bits": bits, "n": n, "style": style, "bytes": data.len()});
        sink.count(&format!("binary:style{style}"));
        sink.nontrivial(&format!("bin:{bits}:{:?}", &offs[..offs.len().min(40)]));
        let block = var_block(&offs, data.clone(), bits, true);
        let enc = BinaryMiniBlockEncoder::default();
        let r = catch(|| enc.compress(block));
        let out = match &r {
            Ok(Ok((c, _))) => Ok(coq_compressed(c)),
            Ok(Err(_)) => Err(false),
            Err(_) => Err(true),
        };
        b_enc.push(&mut s_enc, format!("({}, {}, {})", bw, nlist(&offs), coq::bytes(&data)), coq::outcome(&out), human.clone());
        match &r {
            Ok(Ok((c, _))) => {
                match chunk_limit_breach(c, true) {
                    None => sink.oracle_ok(),
                    Some(b) => sink.oracle_fail(None, &format!("binary chunk limits: {b}"), human.clone()),
                }
                // round trip chunk by chunk
                let dec = BinaryMiniBlockDecompressor::new(bits);
                let mut back: Vec<Vec<u8>> = vec![];
                let mut ok = true;
                for (bufs, cn) in split_chunks(c) {
                    let b0 = bufs[0].clone();
                    let b2 = bufs.clone();
                    let dr = catch(|| dec.decompress(b2, cn));
                    let o = match &dr {
                        Ok(Ok(DataBlock::VariableWidth(v))) => {
                            let vo = var_offsets(v);
                            back.extend(values_of(&vo, v.data.as_ref()));
                            Ok(format!("({}, {})", nlist(&vo), coq::bytes(v.data.as_ref())))
                        }
                        Ok(_) => {
                            ok = false;
                            Err(false)
                        }
                        Err(_) => {
                            ok = false;
                            Err(true)
                        }
                    };
                    if b0.len() <= 2500 || rng.chance(1, 6) {
                        b_dec.push(&mut s_dec, format!("({}, {}, {})", bw, coq::bytes(b0.as_ref()), cn), coq::outcome(&o), json!({"codec": "binary-decode", "bits": bits, "n": cn, "len": b0.len()}));
                        // a prefix request (the reader may ask for fewer values than the chunk holds)
                        if cn > 1 && rng.chance(1, 4) {
                            let k = rng.range(1, cn - 1);
                            let b3 = vec![b0.clone()];
                            let dr = catch(|| dec.decompress(b3, k));
                            let o = match &dr {
                                Ok(Ok(DataBlock::VariableWidth(v))) => Ok(format!("({}, {})", nlist(&var_offsets(v)), coq::bytes(v.data.as_ref()))),
                                Ok(_) => Err(false),
                                Err(_) => Err(true),
                            };
                            b_dec.push(&mut s_dec, format!("({}, {}, {})", bw, coq::bytes(b0.as_ref()), k), coq::outcome(&o), json!({"codec": "binary-decode", "bits": bits, "n": k, "len": b0.len()}));
                        }
                    }
                }
                let good = ok && back == vals;
                oracle(sink, good, "binary round trip differs", human.clone());
            }
            _ => oracle(sink, false, "binary compress failed on a valid block", human.clone()),
        }
    }
    sink.add(s_enc);
    sink.add(s_dec);

    // ---- block layout: VariableEncoder / BinaryBlockDecompressor
    let mut s_be = Stream::new("varblock_encode", REQ, "chk_variable_block_encode", "N * list N * list N", "list N");
    let mut b_be = Budget::new(args, 50);
    s_be.shard = 30;
    let mut s_bd = Stream::new("varblock_decode", REQ, "chk_variable_block_decode", "list N * N", "outcome (N * list N * list N)");
    let mut b_bd = Budget::new(args, 60);
    s_bd.shard = 30;
    for k in 0..args.vol(24, 400) {
        let bits: u8 = if k % 2 == 0 { 32 } else { 64 };
        let n = rng.range(0, 30) as usize;
        let st = rng.below(8);
        let (offs, data) = gen_strings(rng, n, st);
        let block = var_block(&offs, data.clone(), bits, false);
        let off_bytes: Vec<u8> = match &block {
            DataBlock::VariableWidth(v) => v.offsets.as_ref().to_vec(),
            _ => unreachable!(),
        };
        let human = json!({"codec": "variable-block", "bits": bits, "n": n});
        sink.count("varblock");
        sink.nontrivial(&format!("vb:{bits}:{:?}:{:?}", offs, &data[..data.len().min(16)]));
        let r = catch(|| BlockCompressor::compress(&VariableEncoder::default(), block));
        let Ok(Ok(buf)) = r else {
            oracle(sink, false, "variable block compress failed", human.clone());
            continue;
        };
        b_be.push(&mut s_be, format!("({}, {}, {})", bits / 8, coq::bytes(&off_bytes), coq::bytes(&data)), coq::bytes(buf.as_ref()), human.clone());
        let mut reqs: Vec<(Vec<u8>, u64)> = vec![(buf.as_ref().to_vec(), n as u64)];
        // the old header scheme and damaged headers
        if bits == 32 {
            let mut old = vec![32u8];
            old.extend_from_slice(&(n as u32).to_le_bytes());
            old.extend_from_slice(&((9 + off_bytes.len()) as u32).to_le_bytes());
            old.extend_from_slice(&off_bytes);
            old.extend_from_slice(&data);
            if n >= 256 || rng.chance(1, 2) {
                reqs.push((old, n as u64));
            }
        }
        if rng.chance(1, 4) {
            let mut b = buf.as_ref().to_vec();
            b[0] = *rng.pick(&[0u8, 16, 33, 64, 32]);
            reqs.push((b, n as u64));
        }
        if rng.chance(1, 6) {
            reqs.push((buf.as_ref()[..rng.range(0, 9) as usize % (buf.len() + 1)].to_vec(), n as u64));
        }
        for (i, (b, nv)) in reqs.into_iter().enumerate() {
            let b2 = LanceBuffer::from(b.clone());
            let dr = catch(|| BlockDecompressor::decompress(&BinaryBlockDecompressor::default(), b2, nv));
            let o = match &dr {
                Ok(Ok(DataBlock::VariableWidth(v))) => Ok(format!("({}, {}, {})", v.bits_per_offset, coq::bytes(v.offsets.as_ref()), coq::bytes(v.data.as_ref()))),
                Ok(_) => Err(false),
                Err(_) => Err(true),
            };
            if i == 0 {
                let ok = matches!(&dr, Ok(Ok(DataBlock::VariableWidth(v))) if v.offsets.as_ref() == off_bytes.as_slice() && v.data.as_ref() == data.as_slice() && v.bits_per_offset == bits);
                oracle(sink, ok, "variable block round trip differs", human.clone());
            }
            b_bd.push(&mut s_bd, format!("({}, {})", coq::bytes(&b), nv), coq::outcome(&o), json!({"codec": "variable-block-decode", "len": b.len(), "n": nv}));
        }
    }
    sink.add(s_be);
    sink.add(s_bd);
}

pub fn run_dict(args: &Args, sink: &mut Sink, rng: &mut Rng) {
    const REQ: &str = "Common.Base Codec.Model_Bytes Codec.Model_Value Codec.Model_Packed";
    let mut s = Stream::new("dict_encode", REQ, "chk_dict_encode", "list (list N)", "list N * list (list N)");
    let mut b_s = Budget::new(args, 60);
    s.shard = 20;
    for k in 0..args.vol(30, 500) {
        let n = rng.range(1, if args.thorough() { 400 } else { 150 }) as usize;
        let kind = k % 3; // 0: strings 32, 1: strings 64, 2: u128 fixed
        let card = rng.range(1, 12) as usize;
        let (vals, block): (Vec<Vec<u8>>, DataBlock) = if kind < 2 {
            let bits = if kind == 0 { 32 } else { 64 };
            let pool: Vec<Vec<u8>> = (0..card).map(|_| (0..rng.range(0, 9)).map(|_| b'a' + rng.below(4) as u8).collect()).collect();
            let vals: Vec<Vec<u8>> = (0..n).map(|_| rng.pick(&pool).clone()).collect();
            let mut offs = vec![0u64];
            let mut data = vec![];
            for v in &vals {
                data.extend_from_slice(v);
                offs.push(data.len() as u64);
            }
            (vals, var_block(&offs, data, bits, true))
        } else {
            let pool: Vec<u128> = (0..card).map(|_| ((rng.next() as u128) << 64 | rng.next() as u128) >> rng.below(128)).collect();
            let xs: Vec<u128> = (0..n).map(|_| *rng.pick(&pool)).collect();
            let bytes: Vec<u8> = xs.iter().flat_map(|x| x.to_le_bytes()).collect();
            (xs.iter().map(|x| x.to_le_bytes().to_vec()).collect(), fixed_block(bytes, 128, n as u64, true))
        };
        let human = json!({"codec": "dict", "kind": kind, "n": n, "card": card});
        sink.count(&format!("dict:kind{kind}"));
        sink.nontrivial(&format!("dict:{:?}", &vals[..vals.len().min(12)]));
        let r = catch(|| dictionary_encode(block));
        let Ok((idx, dict)) = r else {
            oracle(sink, false, "dictionary_encode panicked", human.clone());
            continue;
        };
        let (DataBlock::FixedWidth(idxb), dvals): (_, Vec<Vec<u8>>) = (idx, match &dict {
            DataBlock::VariableWidth(v) => values_of(&var_offsets(v), v.data.as_ref()),
            DataBlock::FixedWidth(f) => f.data.as_ref().chunks(16).map(|c| c.to_vec()).collect(),
            _ => vec![],
        }) else {
            oracle(sink, false, "dictionary_encode returned unexpected blocks", human.clone());
            continue;
        };
        let ib = (idxb.bits_per_value / 8) as usize;
        let indices = from_bytes(idxb.data.as_ref(), ib);
        b_s.push(&mut s, coq_values(&vals), format!("({}, {})", nlist(&indices), coq_values(&dvals)), human.clone());
        // oracle: indices resolve to the input, dictionary has no duplicates
        let back: Vec<Vec<u8>> = indices.iter().map(|i| dvals.get(*i as usize).cloned().unwrap_or_default()).collect();
        let mut dd = dvals.clone();
        dd.sort();
        dd.dedup();
        oracle(sink, back == vals && dd.len() == dvals.len() && indices.len() == n, "dictionary does not reproduce the values", human);
    }
    sink.add(s);
}

pub fn run_packed(args: &Args, sink: &mut Sink, rng: &mut Rng) {
    const REQ: &str = "Common.Base Codec.Model_Bytes Codec.Model_Value Codec.Model_Packed";
    let mut s_fe = Stream::new("packed_fixed_encode", REQ, "chk_packed_fixed_encode", "children_t * N", "outcome (list N * list chunk)");
    let mut b_fe = Budget::new(args, 90);
    s_fe.shard = 6;
    let mut s_fd = Stream::new("packed_fixed_decode", REQ, "chk_packed_fixed_decode", "list N * list N * N", "outcome (list (list N))");
    let mut b_fd = Budget::new(args, 40);
    s_fd.shard = 8;
    for k in 0..args.vol(16, 300) {
        let nf = rng.range(1, 4) as usize;
        let widths: Vec<usize> = (0..nf).map(|_| *rng.pick(&[1usize, 2, 4, 8, 16])).collect();
        let row: usize = widths.iter().sum();
        let n = if k % 4 == 0 { (9000 / row).min(2000) + rng.range(0, 40) as usize } else { rng.range(1, 120) as usize };
        let children: Vec<Vec<u8>> = widths.iter().map(|w| (0..n * w).map(|_| rng.next() as u8).collect()).collect();
        let human = json!({"codec": "packed-fixed", "widths": widths, "n": n});
        sink.count("packed:fixed");
        sink.nontrivial(&format!("pf:{:?}:{n}:{:?}", widths, &children[0][..children[0].len().min(16)]));
        let mut sb = StructDataBlock { children: widths.iter().zip(children.iter()).map(|(w, d)| fixed_block(d.clone(), (*w * 8) as u64, n as u64, true)).collect(), block_info: BlockInfo::new(), validity: None };
        sb.compute_stat();
        let r = catch(|| PackedStructFixedWidthMiniBlockEncoder::default().compress(DataBlock::Struct(sb)));
        let cin = coq::list(widths.iter().zip(children.iter()).map(|(w, d)| format!("({}, {})", w, coq::bytes(d))));
        let out = match &r {
            Ok(Ok((c, _))) if c.data.len() == 1 => Ok(format!("({}, {})", coq::bytes(c.data[0].as_ref()), coq_chunks(&c.chunks))),
            Ok(_) => Err(false),
            Err(_) => Err(true),
        };
        b_fe.push(&mut s_fe, format!("({}, {})", cin, n), coq::outcome(&out), human.clone());
        if let Ok(Ok((c, enc))) = &r {
            let breach = chunk_limit_breach(c, true);
            oracle(sink, breach.is_none(), &format!("packed struct chunk limits: {}", breach.clone().unwrap_or_default()), human.clone());
            let strat = DefaultDecompressionStrategy::default();
            let dec: Box<dyn MiniBlockDecompressor> = strat.create_miniblock_decompressor(enc, &strat).unwrap();
            let mut back: Vec<Vec<u8>> = vec![vec![]; nf];
            let mut ok = true;
            for (bufs, cn) in split_chunks(c) {
                let b0 = bufs[0].clone();
                let dr = catch(|| dec.decompress(bufs, cn));
                let o = match &dr {
                    Ok(Ok(DataBlock::Struct(st))) => {
                        let mut parts = vec![];
                        for (i, ch) in st.children.iter().enumerate() {
                            if let DataBlock::FixedWidth(f) = ch {
                                back[i].extend_from_slice(f.data.as_ref());
                                parts.push(coq::bytes(f.data.as_ref()));
                            }
                        }
                        Ok(coq::list(parts))
                    }
                    Ok(_) => {
                        ok = false;
                        Err(false)
                    }
                    Err(_) => {
                        ok = false;
                        Err(true)
                    }
                };
                if b0.len() <= 3000 {
                    b_fd.push(&mut s_fd, format!("({}, {}, {})", coq::list(widths.iter().map(|w| w.to_string())), coq::bytes(b0.as_ref()), cn), coq::outcome(&o), json!({"codec": "packed-fixed-decode", "n": cn}));
                }
            }
            oracle(sink, ok && back == children, "packed struct (fixed) round trip differs", human.clone());
        } else {
            oracle(sink, false, "packed struct (fixed) compress failed", human.clone());
        }
    }
    sink.add(s_fe);
    sink.add(s_fd);

    // ---- variable packed struct, per value (file version 2.2)
    let mut s_ve = Stream::new("packed_var_encode", REQ, "chk_packed_var_encode", "list pfield_t * N", "list (list N)");
    let mut b_ve = Budget::new(args, 60);
    s_ve.shard = 12;
    let mut s_vd = Stream::new("packed_var_decode", REQ, "chk_packed_var_decode", "list (bool * N) * list (list N)", "outcome (list (list (list N)))");
    let mut b_vd = Budget::new(args, 60);
    s_vd.shard = 12;
    let strat = DefaultCompressionStrategy::new().with_version(LanceFileVersion::V2_2);
    for _ in 0..args.vol(24, 400) {
        let nf = rng.range(1, 4) as usize;
        let n = rng.range(1, 40) as usize;
        // (is_var, width or offset bytes)
        let mut kinds: Vec<(bool, usize)> = (0..nf).map(|_| if rng.bool() { (true, *rng.pick(&[4usize, 8])) } else { (false, *rng.pick(&[1usize, 2, 4, 8])) }).collect();
        if !kinds.iter().any(|k| k.0) {
            kinds[0] = (true, 4);
        }
        let mut blocks = vec![];
        let mut fields = vec![];
        let mut cin = vec![];
        let mut expect: Vec<Vec<Vec<u8>>> = vec![];
        for (i, (isv, w)) in kinds.iter().enumerate() {
            if *isv {
                let st = rng.below(2) * 7;
                let (offs, data) = gen_strings(rng, n, st);
                expect.push(values_of(&offs, &data));
                cin.push(format!("(true, {}, {}, {})", w, nlist(&offs), coq::bytes(&data)));
                blocks.push(var_block(&offs, data, (*w * 8) as u8, true));
                fields.push(Field::new_arrow(&format!("f{i}"), if *w == 4 { arrow_schema::DataType::Binary } else { arrow_schema::DataType::LargeBinary }, false).unwrap());
            } else {
                let data: Vec<u8> = (0..n * w).map(|_| rng.next() as u8).collect();
                expect.push(data.chunks(*w).map(|c| c.to_vec()).collect());
                cin.push(format!("(false, {}, [], {})", w, coq::bytes(&data)));
                blocks.push(fixed_block(data, (*w * 8) as u64, n as u64, true));
                let dt = match w {
                    1 => arrow_schema::DataType::UInt8,
                    2 => arrow_schema::DataType::UInt16,
                    4 => arrow_schema::DataType::UInt32,
                    _ => arrow_schema::DataType::UInt64,
                };
                fields.push(Field::new_arrow(&format!("f{i}"), dt, false).unwrap());
            }
        }
        let human = json!({"codec": "packed-variable", "kinds": kinds, "n": n});
        sink.count("packed:variable");
        sink.nontrivial(&format!("pv:{:?}:{n}:{:?}", kinds, expect[0].first()));
        let enc = PackedStructVariablePerValueEncoder::new(strat.clone(), fields);
        let sb = StructDataBlock { children: blocks, block_info: BlockInfo::new(), validity: None };
        let r = catch(|| enc.compress(DataBlock::Struct(sb)));
        let Ok(Ok((PerValueDataBlock::Variable(rows), desc))) = r else {
            oracle(sink, false, "packed struct (variable) compress failed", human.clone());
            continue;
        };
        let row_vals = values_of(&var_offsets(&rows), rows.data.as_ref());
        b_ve.push(&mut s_ve, format!("({}, {})", coq::list(cin), n), coq_values(&row_vals), human.clone());
        let dstrat = DefaultDecompressionStrategy::default();
        let dec = catch(|| dstrat.create_variable_per_value_decompressor(&desc));
        let Ok(Ok(dec)) = dec else {
            oracle(sink, false, "no decompressor for variable packed struct", human.clone());
            continue;
        };
        let kin = coq::list(kinds.iter().map(|(v, w)| format!("({}, {})", coq::b(*v), w)));
        let mut reqs: Vec<VariableWidthBlock> = vec![rows.clone()];
        if rng.chance(1, 3) {
            // damage: drop the last byte of the last row
            let mut offs = var_offsets(&rows);
            let l = offs.len();
            if offs[l - 1] > offs[l - 2] {
                offs[l - 1] -= 1;
                let data = rows.data.as_ref()[..offs[l - 1] as usize].to_vec();
                if let DataBlock::VariableWidth(v) = var_block(&offs, data, rows.bits_per_offset, false) {
                    reqs.push(v);
                }
            }
        }
        for (qi, q) in reqs.into_iter().enumerate() {
            let qvals = values_of(&var_offsets(&q), q.data.as_ref());
            let dr = catch(|| dec.decompress(q));
            let mut got: Vec<Vec<Vec<u8>>> = vec![];
            let o = match &dr {
                Ok(Ok(DataBlock::Struct(st))) => {
                    for ch in &st.children {
                        match ch {
                            DataBlock::FixedWidth(f) => got.push(f.data.as_ref().chunks((f.bits_per_value / 8) as usize).map(|c| c.to_vec()).collect()),
                            DataBlock::VariableWidth(v) => got.push(values_of(&var_offsets(v), v.data.as_ref())),
                            _ => got.push(vec![]),
                        }
                    }
                    Ok(coq::list(got.iter().map(|f| coq_values(f))))
                }
                Ok(Ok(_)) | Ok(Err(_)) => Err(false),
                Err(_) => Err(true),
            };
            if qi == 0 {
                oracle(sink, got == expect, "packed struct (variable) round trip differs", human.clone());
            }
            b_vd.push(&mut s_vd, format!("({}, {})", kin, coq_values(&qvals)), coq::outcome(&o), json!({"codec": "packed-variable-decode", "kinds": kinds, "damaged": qi > 0}));
        }
    }
    sink.add(s_ve);
    sink.add(s_vd);
}
