//! hx_c26: every compression codec is lossless and respects the mini-block chunk limits (C26).
//! One arm per codec (model correspondence + direct round-trip oracle on the real compressor /
//! decompressor pair) and an end-to-end arm through the lance-file 2.1 writer/reader.
mod common;
mod rle;

fn main() {
    let (sub, args) = hxlib::util::Args::parse();
    let code = match sub.as_str() {
        "c26" => run(&args),
        _ => {
            eprintln!("unknown subcommand {sub}");
            2
        }
    };
    std::process::exit(code);
}

fn run(args: &hxlib::util::Args) -> i32 {
    let mut sink = hxlib::util::Sink::new("C26", &args.out);
    let mut rng = hxlib::util::Rng::new(args.seed);
    let only: Option<String> = args.rest.iter().find_map(|a| a.strip_prefix("--only=").map(|s| s.to_string()));
    let want = |name: &str| only.as_deref().map(|o| o.split(',').any(|x| x == name)).unwrap_or(true);
    if want("rle") {
        rle::run(args, &mut sink, &mut rng.fork());
    }
    sink.finish();
    0
}
