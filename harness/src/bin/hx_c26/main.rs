//! hx_c26: every compression codec is lossless and respects the mini-block chunk limits (C26).
//! One arm per codec (model correspondence + direct round-trip oracle on the real compressor /
//! decompressor pair) and an end-to-end arm through the lance-file 2.1 writer/reader.
mod bitpack;
mod common;
mod e2e;
mod fixed;
mod general;
mod rle;
mod variable;

fn main() {
    let (sub, args) = hxlib::util::Args::parse();
    let code = match sub.as_str() {
        "c26" => run(&args),
        _ => {
            eprintln!("unknown subcommand {sub}");
            2
        }
    };
    std::process::exit(code);
}

fn run(args: &hxlib::util::Args) -> i32 {
    let mut sink = hxlib::util::Sink::new("C26", &args.out);
    let mut rng = hxlib::util::Rng::new(args.seed);
    let only: Option<String> = args.rest.iter().find_map(|a| a.strip_prefix("--only=").map(|s| s.to_string()));
    let want = |name: &str| only.as_deref().map(|o| o.split(',').any(|x| x == name)).unwrap_or(true);
    // every arm gets its own forked generator so that --only=<arm> replays the same cases
    let mut forks: Vec<hxlib::util::Rng> = (0..12).map(|_| rng.fork()).collect();
    if want("rle") {
        rle::run(args, &mut sink, &mut forks[0]);
    }
    if want("bss") {
        fixed::run_bss(args, &mut sink, &mut forks[1]);
    }
    if want("bytepack") {
        fixed::run_bytepack(args, &mut sink, &mut forks[2]);
    }
    if want("value") {
        fixed::run_value(args, &mut sink, &mut forks[3]);
    }
    if want("bitpack") {
        bitpack::run(args, &mut sink, &mut forks[4]);
    }
    if want("binary") {
        variable::run_binary(args, &mut sink, &mut forks[5]);
    }
    if want("dict") {
        variable::run_dict(args, &mut sink, &mut forks[6]);
    }
    if want("packed") {
        variable::run_packed(args, &mut sink, &mut forks[7]);
    }
    if want("general") {
        general::run(args, &mut sink, &mut forks[8]);
    }
    if only.as_deref() == Some("probe") {
        e2e::probe2(&mut forks[11]);
        e2e::probe(&mut forks[10]);
    }
    if want("e2e") {
        e2e::run(args, &mut sink, &mut forks[9]);
    }
    // Shard layout: every coqc process pays a fixed start-up cost, so the quick tier uses one shard
    // per stream (a few for the heaviest streams); the thorough tier has 12x the volume.
    let scale = if args.thorough() { 12 } else { 1 };
    for s in sink.streams.iter_mut() {
        let shards = scale
            * match s.name.as_str() {
                "rle_encode_w" => 3,
                "general_wrap" | "binary_encode" | "bitpack_ool" | "bitpack_inline" | "rle_decode" | "packed_fixed_encode" | "bss_encode" => 2,
                _ => 1,
            };
        s.shard = s.len().div_ceil(shards).max(1);
    }
    sink.finish();
    0
}
