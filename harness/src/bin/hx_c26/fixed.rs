//! Fixed-width codecs with a simple byte layout: byte-stream-split, byte-pack, value (flat) chunking.
use crate::common::*;
use hxlib::util::{catch, coq, Args, Rng, Sink, Stream};
use lance_encoding::compression::{DecompressionStrategy, DefaultDecompressionStrategy, MiniBlockDecompressor};
use lance_encoding::data::DataBlock;
use lance_encoding::encodings::logical::primitive::miniblock::MiniBlockCompressor;
use lance_encoding::encodings::physical::byte_stream_split::{ByteStreamSplitDecompressor, ByteStreamSplitEncoder};
use lance_encoding::encodings::physical::value::ValueEncoder;
use lance_encoding::utils::bytepack::{ByteUnpacker, BytepackedIntegerEncoder};
use serde_json::json;

pub fn run_bss(args: &Args, sink: &mut Sink, rng: &mut Rng) {
    const REQ: &str = "Common.Base Codec.Model_Bytes Codec.Model_Bss";
    let mut s_enc = Stream::new("bss_encode", REQ, "chk_bss_encode", "N * list N", "outcome (list (list N) * list chunk)");
    let mut b_enc = Budget::new(args, 90);
    s_enc.shard = 8;
    let mut s_dec = Stream::new("bss_decode", REQ, "chk_bss_decode", "N * list (list N) * N", "outcome (list N)");
    let mut b_dec = Budget::new(args, 40);
    s_dec.shard = 10;
    let mut cases: Vec<(usize, usize)> = vec![];
    for w in [4usize, 8] {
        let m = if w == 4 { 1024 } else { 512 };
        // quick: one multi-chunk case per width (m+1 values); thorough: all the edges
        let edges: Vec<usize> = if args.thorough() { vec![1, 2, 3, m - 1, m, m + 1, 2 * m + 1] } else if w == 4 { vec![1, 3, m] } else { vec![1, 2, m + 1] };
        for n in edges {
            cases.push((w, n));
        }
    }
    for _ in 0..args.vol(16, 400) {
        let w = *rng.pick(&[4usize, 8]);
        let n = if rng.chance(5, 6) || !args.thorough() { rng.range(1, 160) as usize } else { pick_len(rng, 5000) };
        cases.push((w, n));
    }
    for (w, n) in cases {
        let bytes: Vec<u8> = match rng.below(3) {
            0 => (0..n * w).map(|_| rng.next() as u8).collect(),
            1 => (0..n * w).map(|i| if i % w == w - 1 { 0x40 } else { rng.next() as u8 & 3 }).collect(),
            _ => (0..n * w).map(|i| (i % 251) as u8).collect(),
        };
        let human = json!({"codec": "bss", "w": w, "n": n});
        sink.count(&format!("bss:w{w}"));
        sink.nontrivial(&format!("bss{w}:{n}:{:?}", &bytes[..bytes.len().min(32)]));
        let enc = ByteStreamSplitEncoder::new(w * 8);
        let r = catch(|| enc.compress(fixed_block(bytes.clone(), (w * 8) as u64, n as u64, false)));
        let out = match &r {
            Ok(Ok((c, _))) => Ok(coq_compressed(c)),
            Ok(Err(_)) => Err(false),
            Err(_) => Err(true),
        };
        b_enc.push(&mut s_enc, format!("({}, {})", w, coq::bytes(&bytes)), coq::outcome(&out), human.clone());
        match &r {
            Ok(Ok((c, _))) => {
                let breach = chunk_limit_breach(c, true);
                oracle(sink, breach.is_none(), &format!("bss chunk limits: {}", breach.clone().unwrap_or_default()), human.clone());
                let dec = ByteStreamSplitDecompressor::new(w * 8);
                let back = decode_fixed_page(&dec, c);
                oracle(sink, back.as_ref().ok() == Some(&bytes), &format!("bss round trip differs ({})", back.as_ref().err().cloned().unwrap_or_default()), human.clone());
                for (ci, (bufs, cn)) in split_chunks(c).into_iter().enumerate() {
                    if ci > 0 && !rng.chance(1, 4) {
                        continue;
                    }
                    if bufs[0].len() > 1500 && !rng.chance(1, 4) {
                        continue;
                    }
                    let mut reqs = vec![cn];
                    if rng.chance(1, 4) {
                        reqs.push(cn + 1);
                    }
                    if rng.chance(1, 6) {
                        reqs.push(0);
                    }
                    for nreq in reqs {
                        let dec = ByteStreamSplitDecompressor::new(w * 8);
                        let b2 = bufs.clone();
                        let dr = catch(|| dec.decompress(b2, nreq));
                        let o = match dr {
                            Ok(Ok(DataBlock::FixedWidth(f))) => Ok(coq::bytes(f.data.as_ref())),
                            Ok(Ok(_)) | Ok(Err(_)) => Err(false),
                            Err(_) => Err(true),
                        };
                        b_dec.push(&mut s_dec, format!("({}, {}, {})", w, coq_bufs(&bufs), nreq), coq::outcome(&o), json!({"codec": "bss-decode", "w": w, "n": nreq}));
                    }
                }
            }
            _ => oracle(sink, false, "bss compress failed on a valid block", human.clone()),
        }
    }
    sink.add(s_enc);
    sink.add(s_dec);
}

pub fn run_bytepack(args: &Args, sink: &mut Sink, rng: &mut Rng) {
    const REQ: &str = "Common.Base Codec.Model_Bytes Codec.Model_BytePack";
    let mut s_p = Stream::new("bytepack_pack", REQ, "chk_bp_pack", "N * list N", "list N");
    let mut b_p = Budget::new(args, 40);
    s_p.shard = 60;
    let mut s_u = Stream::new("bytepack_unpack", REQ, "chk_bp_unpack", "N * list N", "outcome (list N)");
    let mut b_u = Budget::new(args, 60);
    s_u.shard = 60;
    let edges: [u64; 14] = [0, 1, 2, 254, 255, 256, 65534, 65535, 65536, u32::MAX as u64 - 1, u32::MAX as u64, u32::MAX as u64 + 1, u64::MAX - 1, u64::MAX];
    let mut maxes: Vec<u64> = edges.to_vec();
    for _ in 0..args.vol(40, 1500) {
        maxes.push(rng.next() >> rng.below(64));
    }
    for max in maxes {
        let n = rng.range(0, 40) as usize;
        let in_domain = !rng.chance(1, 6);
        let vals: Vec<u64> = (0..n)
            .map(|_| {
                if in_domain {
                    match rng.below(4) {
                        0 => max,
                        1 => 0,
                        2 => max / 2,
                        _ => {
                            if max == u64::MAX {
                                rng.next()
                            } else {
                                rng.below(max + 1)
                            }
                        }
                    }
                } else {
                    rng.next() >> rng.below(64)
                }
            })
            .collect();
        let mut e = BytepackedIntegerEncoder::with_capacity(n, max);
        for v in &vals {
            unsafe { e.append(*v) };
        }
        let data = e.into_data();
        let human = json!({"codec": "bytepack", "max": max, "vals": vals, "in_domain": in_domain});
        sink.count(if in_domain { "bytepack:in-domain" } else { "bytepack:truncating" });
        sink.nontrivial(&format!("bp:{max}:{:?}", vals));
        b_p.push(&mut s_p, format!("({}, {})", max, nlist(&vals)), coq::bytes(&data), human.clone());
        // oracle: unpack returns the values (width chosen from max); Zero means "no data"
        if in_domain {
            let width = if max == 0 { 0 } else if max <= 0xFF { 1 } else if max <= 0xFFFF { 2 } else if max <= 0xFFFF_FFFF { 4 } else { 8 };
            if width == 0 {
                oracle(sink, data.is_empty(), "bytepack Zero encoder produced bytes", human.clone());
            } else {
                let d2 = data.clone();
                let back = catch(move || ByteUnpacker::new(d2, width).collect::<Vec<u64>>());
                oracle(sink, back.as_ref().ok() == Some(&vals) && data.len() == width * n, "bytepack round trip differs", human.clone());
            }
        }
        // unpack correspondence, also with wrong sizes / truncated input
        if !data.is_empty() || rng.chance(1, 4) {
            let mut reqs: Vec<(usize, Vec<u8>)> = vec![];
            for size in [1usize, 2, 4, 8] {
                if rng.chance(1, 2) {
                    reqs.push((size, data.clone()));
                }
            }
            if rng.chance(1, 5) {
                reqs.push((*rng.pick(&[0usize, 3, 5, 16]), data.clone()));
            }
            if rng.chance(1, 4) && !data.is_empty() {
                reqs.push((*rng.pick(&[2usize, 4, 8]), data[..data.len() - 1].to_vec()));
            }
            for (size, d) in reqs {
                let d2 = d.clone();
                let r = catch(move || ByteUnpacker::new(d2, size).collect::<Vec<u64>>());
                let o = match r {
                    Ok(v) => Ok(nlist(&v)),
                    Err(_) => Err(true),
                };
                sink.count("bytepack:unpack-case");
                b_u.push(&mut s_u, format!("({}, {})", size, coq::bytes(&d)), coq::outcome(&o), json!({"codec": "byteunpack", "size": size, "len": d.len()}));
            }
        }
    }
    sink.add(s_p);
    sink.add(s_u);
}

pub fn run_value(args: &Args, sink: &mut Sink, rng: &mut Rng) {
    const REQ: &str = "Common.Base Codec.Model_Bytes Codec.Model_Value";
    let mut s = Stream::new("value_chunks", REQ, "chk_value_chunks", "N * N * N", "outcome (list chunk)");
    let mut b_s = Budget::new(args, 90);
    s.shard = 200;
    // every bit width that can reach the value encoder: sub-byte (bool / FSL<bool>), bytes, wide FSL
    let mut bitss: Vec<u64> = vec![1, 2, 3, 4, 5, 7, 8, 16, 24, 32, 40, 48, 64, 96, 128, 160, 256, 512, 1024, 2048, 4096, 8192, 16384, 24 * 1024, 32 * 1024, 32744, 32752];
    for _ in 0..args.vol(8, 60) {
        bitss.push(8 * rng.range(1, 4093));
    }
    let mut seen = std::collections::HashSet::new();
    for bits in bitss {
        // values per chunk the real code will choose, to aim at its boundaries
        let mut ns: Vec<u64> = vec![0, 1, 2, 3, 7, 8, 9, 15, 16, 17, 4095, 4096, 4097, 8192, 8193, 10000];
        let (bpw, vpw) = if bits % 8 == 0 { (bits / 8, 1) } else { (bits, 8) };
        let mut size = 2 * bpw;
        let mut nv = if vpw == 1 { 2 } else { 8 };
        while 2 * size < MAX_MINIBLOCK_BYTES && 2 * nv <= MAX_MINIBLOCK_VALUES {
            size *= 2;
            nv *= 2;
        }
        for k in [1u64, 2, 3] {
            ns.extend_from_slice(&[k * nv - 1, k * nv, k * nv + 1]);
        }
        for _ in 0..args.vol(2, 10) {
            ns.push(rng.range(1, 6 * nv));
        }
        for n in ns {
            let len = (n * bits).div_ceil(8);
            if len > 4_000_000 || !seen.insert((bits, n)) {
                continue;
            }
            let bytes: Vec<u8> = (0..len).map(|i| (i as u8).wrapping_mul(31).wrapping_add(n as u8)).collect();
            let human = json!({"codec": "value", "bits": bits, "n": n, "len": len});
            sink.count(if bits % 8 == 0 { "value:byte-aligned" } else { "value:sub-byte" });
            sink.nontrivial(&format!("value:{bits}:{n}"));
            let block = fixed_block(bytes.clone(), bits, n, false);
            let r = catch(|| MiniBlockCompressor::compress(&ValueEncoder::default(), block));
            let out = match &r {
                Ok(Ok((c, _))) => Ok(coq_chunks(&c.chunks)),
                Ok(Err(_)) => Err(false),
                Err(_) => Err(true),
            };
            b_s.push(&mut s, format!("({}, {}, {})", bits, n, len), coq::outcome(&out), human.clone());
            if let Ok(Ok((c, encoding))) = &r {
                // oracle: buffer untouched, limits hold, chunk-by-chunk decode gives the bytes back
                let same = c.data.len() == 1 && c.data[0].as_ref() == bytes.as_slice() && c.num_values == n;
                oracle(sink, same, "value encoder altered the data buffer", human.clone());
                let breach = chunk_limit_breach(c, true);
                oracle(sink, breach.is_none(), &format!("value chunk limits: {}", breach.clone().unwrap_or_default()), human.clone());
                if len <= 200_000 {
                    let strat = DefaultDecompressionStrategy::default();
                    let dec: Box<dyn MiniBlockDecompressor> = strat.create_miniblock_decompressor(encoding, &strat).unwrap();
                    let back = decode_fixed_page(dec.as_ref(), c);
                    oracle(sink, back.as_ref().ok() == Some(&bytes), &format!("value round trip differs ({})", back.as_ref().err().cloned().unwrap_or_default()), human.clone());
                }
            } else if 2 * bpw < MAX_MINIBLOCK_BYTES {
                oracle(sink, false, "value compress failed on a valid block", human.clone());
            }
        }
    }
    sink.add(s);
}
