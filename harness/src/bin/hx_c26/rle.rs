//! RLE mini-block codec: model correspondence for compress (buffers + chunk table byte for byte on
//! small inputs, word for word on large ones) and for decompress (including truncated / inconsistent
//! chunk buffers); oracle = round trip + chunk limits.
use crate::common::*;
use hxlib::util::{catch, coq, Args, Rng, Sink, Stream};
use lance_encoding::buffer::LanceBuffer;
use lance_encoding::compression::MiniBlockDecompressor;
use lance_encoding::data::DataBlock;
use lance_encoding::encodings::logical::primitive::miniblock::MiniBlockCompressor;
use lance_encoding::encodings::physical::rle::{RleMiniBlockDecompressor, RleMiniBlockEncoder};
use serde_json::json;

const REQ: &str = "Common.Base Codec.Model_Bytes Codec.Model_Rle";

fn run_spec(vals: &[u64]) -> String {
    let mut spec: Vec<(u64, u64)> = vec![];
    for v in vals {
        match spec.last_mut() {
            Some((x, c)) if x == v => *c += 1,
            _ => spec.push((*v, 1)),
        }
    }
    coq::list(spec.iter().map(|(v, c)| format!("({v}, {c})")))
}

pub fn run(args: &Args, sink: &mut Sink, rng: &mut Rng) {
    let mut s_enc = Stream::new("rle_encode", REQ, "chk_rle_encode", "N * list N", "outcome (list (list N) * list chunk)");
    s_enc.shard = 10;
    let mut b_enc = Budget::new(args, 110);
    let mut s_w = Stream::new("rle_encode_w", REQ, "chk_rle_encode_w", "N * list (N * N)", "outcome (list N * list N * list chunk)");
    s_w.shard = 3;
    let mut b_w = Budget::new(args, 260);
    let mut s_dec = Stream::new("rle_decode", REQ, "chk_rle_decode", "N * list (list N) * N", "outcome (list N)");
    s_dec.shard = 12;
    let mut b_dec = Budget::new(args, 90);

    let mut inputs: Vec<(usize, Vec<u64>, String)> = vec![];
    // fixed regression inputs: the unit tests of rle.rs and the boundary shapes of the proof
    inputs.push((4, vec![1, 1, 1, 2, 2, 3, 3, 3, 3], "unit:basic".into()));
    inputs.push((4, vec![42; 1000], "unit:long-run".into()));
    inputs.push((1, vec![7], "single".into()));
    for ts in [4usize, 8] {
        // byte budget reached / exceeded by one run: 8186 / (ts+1) runs inside one 2048-value window
        let per = 8186 / (ts + 1);
        for d in [per - 1, per, per + 1] {
            let mut v: Vec<u64> = (0..d as u64).map(|i| (i * 3 + 1) & mask(ts)).collect();
            for i in 1..v.len() {
                if v[i] == v[i - 1] {
                    v[i] = (v[i] ^ 1) & mask(ts);
                }
            }
            v.extend(std::iter::repeat(v[v.len() - 1] ^ 1).take(600));
            inputs.push((ts, v, format!("budget:{ts}:{d}")));
        }
    }
    for ts in [1usize, 2] {
        inputs.push((ts, (0..2300u64).map(|i| ((i * 7) ^ (i >> 3)) & mask(ts)).collect(), format!("distinct2300:{ts}")));
    }
    let n_random = args.vol(90, 2500);
    for k in 0..n_random {
        let ts = *rng.pick(&[1usize, 2, 4, 8]);
        let style = (k as u64) % 9;
        let n = match k % 3 {
            0 => rng.range(1, 90) as usize,
            1 => *rng.pick(&[63usize, 64, 65, 127, 128, 129, 255, 256, 257, 511, 512, 513, 765]),
            _ => pick_len(rng, if args.thorough() { 9000 } else { 4400 }),
        };
        inputs.push((ts, gen_runs(rng, ts, n, style), format!("style{style}")));
    }

    for (ts, vals, kind) in inputs {
        let n = vals.len();
        let bytes = to_bytes(&vals, ts);
        let block = fixed_block(bytes.clone(), (ts * 8) as u64, n as u64, false);
        let enc = RleMiniBlockEncoder::new();
        let r = catch(|| enc.compress(block));
        sink.count(&format!("rle:{}", kind.split(':').next().unwrap()));
        sink.nontrivial(&format!("rle{ts}:{n}:{:?}", &vals[..vals.len().min(64)]));
        let human = json!({"codec": "rle", "ts": ts, "n": n, "kind": kind, "head": &vals[..n.min(24)]});
        // byte-exact stream for small cases, compact stream otherwise
        let small = n <= 300;
        if small {
            let out = match &r {
                Ok(Ok((c, _))) => Ok(coq_compressed(c)),
                Ok(Err(_)) => Err(false),
                Err(_) => Err(true),
            };
            b_enc.push(&mut s_enc, format!("({}, {})", ts, nlist(&vals)), coq::outcome(&out), human.clone());
        } else {
            let out = match &r {
                Ok(Ok((c, _))) if c.data.len() == 2 && c.data[0].len() % ts == 0 => Ok(format!("({}, {}, {})", nlist(&from_bytes(c.data[0].as_ref(), ts)), coq::bytes(c.data[1].as_ref()), coq_chunks(&c.chunks))),
                Ok(Ok(_)) => Err(false),
                Ok(Err(_)) => Err(false),
                Err(_) => Err(true),
            };
            b_w.push(&mut s_w, format!("({}, {})", ts, run_spec(&vals)), coq::outcome(&out), human.clone());
        }

        // oracle: chunk limits + round trip through the real decompressor, chunk by chunk
        match &r {
            Ok(Ok((c, _))) => {
                let breach = chunk_limit_breach(c, true);
                oracle(sink, breach.is_none(), &format!("rle chunk limits: {}", breach.clone().unwrap_or_default()), human.clone());
                let dec = RleMiniBlockDecompressor::new((ts * 8) as u64);
                let back = decode_fixed_page(&dec, c);
                oracle(sink, back.as_ref().ok() == Some(&bytes), &format!("rle round trip differs ({})", back.as_ref().err().cloned().unwrap_or_default()), human.clone());
                // decode correspondence on the real chunks, plus perturbed requests
                for (bufs, cn) in split_chunks(c).into_iter() {
                    if bufs[0].len() > 700 && !rng.chance(1, 12) {
                        continue;
                    }
                    let mut reqs = vec![(bufs.clone(), cn)];
                    if rng.chance(1, 3) {
                        reqs.push((bufs.clone(), rng.range(0, cn)));
                    }
                    if rng.chance(1, 6) && cn < 400 {
                        reqs.push((bufs.clone(), cn + rng.range(1, 300)));
                    }
                    if rng.chance(1, 6) && bufs[1].len() > 1 {
                        // drop the last run length: inconsistent buffers
                        let l = bufs[1].len();
                        reqs.push((vec![bufs[0].clone(), LanceBuffer::from(bufs[1].as_ref()[..l - 1].to_vec())], cn));
                    }
                    if rng.chance(1, 6) && ts > 1 {
                        let l = bufs[0].len();
                        reqs.push((vec![LanceBuffer::from(bufs[0].as_ref()[..l - 1].to_vec()), bufs[1].clone()], cn));
                    }
                    if rng.chance(1, 10) {
                        reqs.push((vec![LanceBuffer::from(Vec::<u8>::new()), bufs[1].clone()], cn));
                    }
                    if rng.chance(1, 12) {
                        reqs.push((vec![bufs[0].clone()], cn));
                    }
                    for (b, nreq) in reqs {
                        if nreq * ts as u64 > 6000 {
                            continue;
                        }
                        let dec = RleMiniBlockDecompressor::new((ts * 8) as u64);
                        let b2 = b.clone();
                        let dr = catch(|| dec.decompress(b2, nreq));
                        let o = match dr {
                            Ok(Ok(DataBlock::FixedWidth(f))) => Ok(coq::bytes(f.data.as_ref())),
                            Ok(Ok(_)) => Err(false),
                            Ok(Err(_)) => Err(false),
                            Err(_) => Err(true),
                        };
                        if b_dec.push(&mut s_dec, format!("({}, {}, {})", ts, coq_bufs(&b), nreq), coq::outcome(&o), json!({"codec": "rle-decode", "ts": ts, "n": nreq, "sizes": b.iter().map(|x| x.len()).collect::<Vec<_>>()})) {
                            sink.count("rle:decode-case");
                        }
                    }
                }
            }
            _ => oracle(sink, false, "rle compress failed on a valid block", human.clone()),
        }
    }
    sink.count_n("rle:skipped-for-budget", b_enc.skipped + b_w.skipped + b_dec.skipped);
    sink.add(s_enc);
    sink.add(s_w);
    sink.add(s_dec);
}
