//! RLE mini-block codec: model correspondence for compress (buffers + chunk table byte for byte)
//! and for decompress (including truncated / inconsistent chunk buffers); oracle = round trip + limits.
use crate::common::*;
use hxlib::util::{catch, coq, Args, Rng, Sink, Stream};
use lance_encoding::buffer::LanceBuffer;
use lance_encoding::compression::MiniBlockDecompressor;
use lance_encoding::data::DataBlock;
use lance_encoding::encodings::logical::primitive::miniblock::MiniBlockCompressor;
use lance_encoding::encodings::physical::rle::{RleMiniBlockDecompressor, RleMiniBlockEncoder};
use serde_json::json;

const REQ: &str = "Common.Base Codec.Model_Bytes Codec.Model_Rle";

pub fn run(args: &Args, sink: &mut Sink, rng: &mut Rng) {
    let mut s_enc = Stream::new("rle_encode", REQ, "chk_rle_encode", "N * list N", "outcome (list (list N) * list chunk)");
    s_enc.shard = 12;
    let mut s_dec = Stream::new("rle_decode", REQ, "chk_rle_decode", "N * list (list N) * N", "outcome (list N)");
    s_dec.shard = 40;

    let mut inputs: Vec<(usize, Vec<u64>, String)> = vec![];
    // fixed regression inputs: the unit tests of rle.rs and the boundary shapes of the proof
    inputs.push((4, vec![1, 1, 1, 2, 2, 3, 3, 3, 3], "unit:basic".into()));
    inputs.push((4, vec![42; 1000], "unit:long-run".into()));
    inputs.push((1, vec![7], "single".into()));
    for ts in [1usize, 2, 4, 8] {
        inputs.push((ts, (0..3000u64).map(|i| i & mask(ts)).collect(), format!("distinct3000:{ts}")));
        // byte budget exactly reached / exceeded by one run: 8186 / (ts+1) runs
        let per = 8186 / (ts + 1);
        for d in [per - 1, per, per + 1] {
            if d <= 2048 {
                let mut v: Vec<u64> = (0..d as u64).map(|i| (i * 3 + 1) & mask(ts)).collect();
                // make neighbours distinct even after masking
                for i in 1..v.len() {
                    if v[i] == v[i - 1] {
                        v[i] = (v[i] ^ 1) & mask(ts);
                    }
                }
                v.extend(std::iter::repeat(v[v.len() - 1] ^ 1).take(300));
                inputs.push((ts, v, format!("budget:{ts}:{d}")));
            }
        }
    }
    let n_random = args.vol(70, 1500);
    for k in 0..n_random {
        let ts = *rng.pick(&[1usize, 2, 4, 8]);
        let n = pick_len(rng, if args.thorough() { 9000 } else { 5000 });
        let style = (k as u64) % 9;
        inputs.push((ts, gen_runs(rng, ts, n, style), format!("style{style}")));
    }

    for (ts, vals, kind) in inputs {
        let n = vals.len();
        let bytes = to_bytes(&vals, ts);
        let block = fixed_block(bytes.clone(), (ts * 8) as u64, n as u64, false);
        let enc = RleMiniBlockEncoder::new();
        let r = catch(|| enc.compress(block));
        sink.count(&format!("rle:{}", kind.split(':').next().unwrap()));
        sink.nontrivial(&format!("rle{ts}:{:?}", &vals[..vals.len().min(64)]));
        let human = json!({"codec": "rle", "ts": ts, "n": n, "kind": kind, "head": &vals[..n.min(24)]});
        let out = match &r {
            Ok(Ok((c, _))) => Ok(coq_compressed(c)),
            Ok(Err(_)) => Err(false),
            Err(_) => Err(true),
        };
        s_enc.push(format!("({}, {})", ts, nlist(&vals)), coq::outcome(&out), human.clone());

        // oracle: chunk limits + round trip through the real decompressor, chunk by chunk
        match &r {
            Ok(Ok((c, _))) => {
                let breach = chunk_limit_breach(c, true);
                oracle(sink, breach.is_none(), &format!("rle chunk limits: {}", breach.clone().unwrap_or_default()), human.clone());
                let dec = RleMiniBlockDecompressor::new((ts * 8) as u64);
                let back = decode_fixed_page(&dec, c);
                oracle(sink, back.as_ref().ok() == Some(&bytes), &format!("rle round trip differs ({})", back.as_ref().err().cloned().unwrap_or_default()), human.clone());
                // decode correspondence on the real chunks, plus perturbed requests
                for (ci, (bufs, cn)) in split_chunks(c).into_iter().enumerate() {
                    if ci > 2 && !rng.chance(1, 4) {
                        continue;
                    }
                    let mut reqs = vec![(bufs.clone(), cn)];
                    if rng.chance(1, 3) {
                        reqs.push((bufs.clone(), rng.range(0, cn)));
                    }
                    if rng.chance(1, 6) {
                        reqs.push((bufs.clone(), cn + rng.range(1, 300)));
                    }
                    if rng.chance(1, 8) && bufs[1].len() > 1 {
                        // drop the last run length: inconsistent buffers
                        let l = bufs[1].len();
                        reqs.push((vec![bufs[0].clone(), LanceBuffer::from(bufs[1].as_ref()[..l - 1].to_vec())], cn));
                    }
                    if rng.chance(1, 8) && ts > 1 {
                        let l = bufs[0].len();
                        reqs.push((vec![LanceBuffer::from(bufs[0].as_ref()[..l - 1].to_vec()), bufs[1].clone()], cn));
                    }
                    if rng.chance(1, 10) {
                        reqs.push((vec![LanceBuffer::from(Vec::<u8>::new()), bufs[1].clone()], cn));
                    }
                    for (b, nreq) in reqs {
                        if b[0].len() > 3000 && !rng.chance(1, 5) {
                            continue;
                        }
                        let dec = RleMiniBlockDecompressor::new((ts * 8) as u64);
                        let b2 = b.clone();
                        let dr = catch(|| dec.decompress(b2, nreq));
                        let o = match dr {
                            Ok(Ok(DataBlock::FixedWidth(f))) => Ok(coq::bytes(f.data.as_ref())),
                            Ok(Ok(_)) => Err(false),
                            Ok(Err(_)) => Err(false),
                            Err(_) => Err(true),
                        };
                        sink.count("rle:decode-case");
                        s_dec.push(format!("({}, {}, {})", ts, coq_bufs(&b), nreq), coq::outcome(&o), json!({"codec": "rle-decode", "ts": ts, "n": nreq, "sizes": [b[0].len(), b[1].len()]}));
                    }
                }
            }
            _ => oracle(sink, false, "rle compress failed on a valid block", human.clone()),
        }
    }
    sink.add(s_enc);
    sink.add(s_dec);
}
