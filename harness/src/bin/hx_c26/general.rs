//! Opaque compressors: the general (LZ4/ZSTD) mini-block wrapper (model correspondence of the glue),
//! CompressedBufferEncoder per value / per block, FSST mini-block and per-value (round-trip oracles:
//! these are the Section-variable hypotheses of the theorems, tested on the real libraries).
use crate::common::*;
use crate::variable::{gen_strings, values_of};
use hxlib::util::{catch, coq, Args, Rng, Sink, Stream};
use lance_encoding::compression::{BlockCompressor, BlockDecompressor, CompressionStrategy, DecompressionStrategy, DefaultCompressionStrategy, DefaultDecompressionStrategy, MiniBlockDecompressor};
use lance_encoding::data::DataBlock;
use lance_encoding::encodings::logical::primitive::fullzip::{PerValueCompressor, PerValueDataBlock};
use lance_encoding::encodings::logical::primitive::miniblock::{MiniBlockCompressed, MiniBlockCompressor};
use lance_encoding::encodings::physical::binary::{BinaryMiniBlockEncoder, VariableEncoder};
use lance_encoding::encodings::physical::block::{CompressedBufferEncoder, CompressionConfig, GeneralBufferCompressor};
use lance_encoding::encodings::physical::byte_stream_split::ByteStreamSplitEncoder;
use lance_encoding::encodings::physical::fsst::{FsstMiniBlockEncoder, FsstPerValueEncoder};
use lance_encoding::encodings::physical::general::GeneralMiniBlockCompressor;
use lance_encoding::encodings::physical::rle::RleMiniBlockEncoder;
use lance_encoding::encodings::physical::value::ValueEncoder;
use lance_encoding::format::pb21::compressive_encoding::Compression;
use serde_json::json;

const REQ: &str = "Common.Base Codec.Model_Bytes Codec.Model_Binary Codec.Model_General";

/// per-value / block encoders constructible through the public API: zstd (default) and lz4
fn buffer_encoder(k: usize) -> CompressedBufferEncoder {
    if k % 2 == 0 {
        CompressedBufferEncoder::default()
    } else {
        CompressedBufferEncoder::from_scheme(lance_encoding::format::pb21::CompressionScheme::CompressionAlgorithmLz4).unwrap()
    }
}

fn strategy_compressor(block: &DataBlock, comp: Option<&str>) -> Box<dyn MiniBlockCompressor> {
    let mut md = std::collections::HashMap::new();
    md.insert("lance-encoding:bss".to_string(), "off".to_string());
    if let Some(c) = comp {
        md.insert("lance-encoding:compression".to_string(), c.to_string());
    }
    let f = arrow_schema::Field::new("x", arrow_schema::DataType::UInt32, false).with_metadata(md);
    let field = lance_core::datatypes::Field::try_from(&f).unwrap();
    DefaultCompressionStrategy::new().create_miniblock_compressor(&field, block).unwrap()
}

fn var_values(b: &DataBlock) -> Option<Vec<Vec<u8>>> {
    match b {
        DataBlock::VariableWidth(v) => Some(values_of(&var_offsets(v), v.data.as_ref())),
        _ => None,
    }
}

pub fn run(args: &Args, sink: &mut Sink, rng: &mut Rng) {
    let mut s = Stream::new("general_wrap", REQ, "chk_general_compress", "list (list N) * list chunk * list (list N)", "bool * list (list N) * list chunk");
    let mut b_s = Budget::new(args, 170);
    s.shard = 2;
    for k in 0..args.vol(8, 120) {
        // scheme: 0 = LZ4 with an explicit inner compressor (CompressionConfig::default() is the only
        // config constructible from outside the crate); 1,2 = zstd / lz4 chosen by the strategy from
        // field metadata, inner compressor = what the strategy picks without the compression key.
        let scheme = k % 3;
        let inner_kind = (k / 3) % 4;
        let (block, label): (DataBlock, &str) = match inner_kind {
            0 => {
                let n = rng.range(900, 1400) as usize;
                let vals: Vec<u64> = (0..n).map(|i| if rng.chance(1, 2) { (i as u64 / 7) % 50 } else { rng.next() & 0xFFFF_FFFF }).collect();
                (fixed_block(to_bytes(&vals, 4), 32, n as u64, true), "value")
            }
            1 => {
                let n = rng.range(1500, 2600) as usize;
                let vals = gen_runs(rng, 4, n, 3);
                (fixed_block(to_bytes(&vals, 4), 32, n as u64, true), "rle")
            }
            2 => {
                let n = rng.range(500, 1200) as usize;
                let vals: Vec<u64> = (0..n).map(|i| (1.0f32 + (i % 37) as f32 * 0.25).to_bits() as u64).collect();
                (fixed_block(to_bytes(&vals, 4), 32, n as u64, true), "bss")
            }
            _ => {
                let n = rng.range(20, 900) as usize; // sometimes below the 4 KiB threshold
                let vals: Vec<u64> = (0..n).map(|_| rng.below(4) << 20).collect();
                (fixed_block(to_bytes(&vals, 4), 32, n as u64, true), "value-small")
            }
        };
        let orig = match &block {
            DataBlock::FixedWidth(f) => f.data.as_ref().to_vec(),
            _ => unreachable!(),
        };
        let scheme_name = ["lz4-direct", "zstd-strategy", "lz4-strategy"][scheme];
        let human = json!({"codec": "general", "inner": label, "scheme": scheme_name, "bytes": orig.len()});
        sink.count(&format!("general:{label}:{scheme_name}"));
        sink.nontrivial(&format!("gen:{label}:{scheme_name}:{:?}", &orig[..orig.len().min(32)]));
        let (inner_res, g): (_, Box<dyn MiniBlockCompressor>) = if scheme == 0 {
            let mk = |kind: usize| -> Box<dyn MiniBlockCompressor> {
                match kind {
                    0 | 3 => Box::new(ValueEncoder::default()),
                    1 => Box::new(RleMiniBlockEncoder::new()),
                    _ => Box::new(ByteStreamSplitEncoder::new(32)),
                }
            };
            (mk(inner_kind).compress(block.clone()), Box::new(GeneralMiniBlockCompressor::new(mk(inner_kind), CompressionConfig::default())))
        } else {
            let comp = if scheme == 1 { "zstd" } else { "lz4" };
            (strategy_compressor(&block, None).compress(block.clone()), strategy_compressor(&block, Some(comp)))
        };
        let Ok((ic, _)) = inner_res else {
            oracle(sink, false, "inner compressor failed", human.clone());
            continue;
        };
        let r = catch(|| g.compress(block));
        let Ok(Ok((c, enc))) = r else {
            oracle(sink, false, "general mini-block compress failed", human.clone());
            continue;
        };
        let wrapped = matches!(enc.compression.as_ref(), Some(Compression::General(_)));
        // the pieces comp(slice): recomputed with the same library call (lz4), or read off the output (zstd)
        let mut pieces: Option<Vec<Vec<u8>>> = None;
        if scheme != 1 {
            let comp = GeneralBufferCompressor::get_compressor(CompressionConfig::default()).unwrap();
            let mut ps = vec![];
            if !ic.data.is_empty() {
                let mut off = 0usize;
                for ch in &ic.chunks {
                    let sz = ch.buffer_sizes[0] as usize;
                    let mut out = vec![];
                    comp.compress(&ic.data[0].as_ref()[off..(off + sz).min(ic.data[0].len())], &mut out).unwrap();
                    ps.push(out);
                    off += sz;
                }
            }
            pieces = Some(ps);
        } else if wrapped {
            let mut ps = vec![];
            let mut off = 0usize;
            for ch in &c.chunks {
                let sz = ch.buffer_sizes[0] as usize;
                ps.push(c.data[0].as_ref()[off..(off + sz).min(c.data[0].len())].to_vec());
                off += sz;
            }
            pieces = Some(ps);
        }
        if let Some(pieces) = pieces {
            b_s.push(
                &mut s,
                format!("({}, {}, {})", coq_bufs(&ic.data), coq_chunks(&ic.chunks), coq::list(pieces.iter().map(|p| coq::bytes(p)))),
                format!("({}, {}, {})", coq::b(wrapped), coq_bufs(&c.data), coq_chunks(&c.chunks)),
                human.clone(),
            );
        }
        sink.count(if wrapped { "general:wrapped" } else { "general:not-wrapped" });
        // oracle: the decompressor built from the returned description reproduces the block
        let breach = chunk_limit_breach(&c, false);
        oracle(sink, breach.is_none(), &format!("general wrapper chunk table: {}", breach.clone().unwrap_or_default()), human.clone());
        let strat = DefaultDecompressionStrategy::default();
        let dec: Box<dyn MiniBlockDecompressor> = strat.create_miniblock_decompressor(&enc, &strat).unwrap();
        let back = decode_fixed_page(dec.as_ref(), &c);
        oracle(sink, back.as_ref().ok() == Some(&orig), &format!("general wrapper round trip differs ({})", back.as_ref().err().cloned().unwrap_or_default()), human.clone());
    }
    sink.add(s);

    // ---- hypotheses of the theorems, tested on the real libraries (oracle only)
    for k in 0..args.vol(30, 400) {
        let bits: u8 = if k % 2 == 0 { 32 } else { 64 };
        let n = rng.range(1, 300) as usize;
        let st = rng.below(8);
        let (offs, data) = gen_strings(rng, n, st);
        let vals = values_of(&offs, &data);
        let human = json!({"codec": "opaque", "k": k, "bits": bits, "n": n, "bytes": data.len()});
        match k % 5 {
            0 | 1 => {
                // per-value LZ4/ZSTD
                let enc = buffer_encoder(k / 5);
                sink.count("opaque:per-value-general");
                let r = catch(|| PerValueCompressor::compress(&enc, var_block(&offs, data.clone(), bits, true)));
                let ok = match r {
                    Ok(Ok((PerValueDataBlock::Variable(v), desc))) => {
                        let strat = DefaultDecompressionStrategy::default();
                        match catch(|| strat.create_variable_per_value_decompressor(&desc).and_then(|d| d.decompress(v))) {
                            Ok(Ok(b)) => var_values(&b).as_ref() == Some(&vals),
                            _ => false,
                        }
                    }
                    _ => false,
                };
                oracle(sink, ok, "per-value general compression round trip differs", human);
            }
            2 => {
                // block: VariableEncoder layout + general compression
                let enc = buffer_encoder(k / 5);
                sink.count("opaque:block-general");
                let r = catch(|| BlockCompressor::compress(&enc, var_block(&offs, data.clone(), bits, true)));
                let ok = match r {
                    Ok(Ok(buf)) => match catch(|| BlockDecompressor::decompress(&enc, buf, n as u64)) {
                        Ok(Ok(b)) => var_values(&b).as_ref() == Some(&vals),
                        _ => false,
                    },
                    _ => false,
                };
                oracle(sink, ok, "block general compression round trip differs", human);
            }
            3 => {
                // FSST mini-block (binary chunks of FSST-compressed values)
                sink.count("opaque:fsst-miniblock");
                let r = catch(|| FsstMiniBlockEncoder::default().compress(var_block(&offs, data.clone(), bits, true)));
                let ok = match r {
                    Ok(Ok((c, desc))) => {
                        let strat = DefaultDecompressionStrategy::default();
                        let dec = strat.create_miniblock_decompressor(&desc, &strat).unwrap();
                        let mut back = vec![];
                        let mut ok = chunk_limit_breach(&c, false).is_none();
                        for (bufs, cn) in split_chunks(&c) {
                            match catch(|| dec.decompress(bufs, cn)) {
                                Ok(Ok(b)) => back.extend(var_values(&b).unwrap_or_default()),
                                _ => ok = false,
                            }
                        }
                        ok && back == vals
                    }
                    _ => false,
                };
                oracle(sink, ok, "FSST mini-block round trip differs", human);
            }
            _ => {
                sink.count("opaque:fsst-per-value");
                let enc = FsstPerValueEncoder::new(Box::new(VariableEncoder::default()));
                let r = catch(|| enc.compress(var_block(&offs, data.clone(), bits, true)));
                let ok = match r {
                    Ok(Ok((PerValueDataBlock::Variable(v), desc))) => {
                        let strat = DefaultDecompressionStrategy::default();
                        match catch(|| strat.create_variable_per_value_decompressor(&desc).and_then(|d| d.decompress(v))) {
                            Ok(Ok(b)) => var_values(&b).map(|x| x == vals).unwrap_or(false),
                            _ => false,
                        }
                    }
                    _ => false,
                };
                oracle(sink, ok, "FSST per-value round trip differs", human);
            }
        }
    }
    let _ = (BinaryMiniBlockEncoder::default(), MiniBlockCompressed { data: vec![], chunks: vec![], num_values: 0 });
}
