//! Bit-packing codec layer (inline + out-of-line) around the FastLanes kernel, and the selection
//! rules of compression.rs for fixed-width data.
use crate::common::*;
use hxlib::util::{catch, coq, Args, Rng, Sink, Stream};
use lance_core::datatypes::Field;
use lance_encoding::compression::{BlockCompressor, BlockDecompressor, CompressionStrategy, DefaultCompressionStrategy, MiniBlockDecompressor};
use lance_encoding::data::DataBlock;
use lance_encoding::encodings::logical::primitive::miniblock::MiniBlockCompressor;
use lance_encoding::encodings::physical::bitpacking::{InlineBitpacking, OutOfLineBitpacking};
use lance_encoding::format::pb21::compressive_encoding::Compression;
use serde_json::json;

const REQ: &str = "Common.Base Codec.Model_Bytes Codec.Model_Bitpack";

/// values whose bit width varies per 1024-chunk
fn gen_vals(rng: &mut Rng, ts: usize, n: usize) -> Vec<u64> {
    let bits = ts * 8;
    let mut v = Vec::with_capacity(n);
    let mut i = 0;
    while i < n {
        let w = match rng.below(6) {
            0 => 0,
            1 => bits as u64,
            2 => 1,
            3 => bits as u64 - 1,
            _ => rng.range(0, bits as u64),
        };
        let m = if w == 0 { 0 } else if w >= 64 { u64::MAX } else { (1u64 << w) - 1 };
        let cnt = (1024 - i % 1024).min(n - i);
        for k in 0..cnt {
            // make sure the chunk's maximum is reached at least once
            v.push(if k == cnt / 2 { m } else { rng.next() & m });
        }
        i += cnt;
    }
    v
}

pub fn run(args: &Args, sink: &mut Sink, rng: &mut Rng) {
    // ---------------- inline
    let mut s_in = Stream::new("bitpack_inline", REQ, "chk_inline_compress", "N * list N", "list N * list chunk");
    let mut b_in = Budget::new(args, 110);
    s_in.shard = 6;
    let mut shapes: Vec<(usize, usize)> = vec![];
    // one boundary length per word size in the quick tier (rotating with the seed), all in thorough
    let edge = [1usize, 1023, 1024, 1025, 2048, 2049];
    for (i, ts) in [1usize, 2, 4, 8].into_iter().enumerate() {
        if args.thorough() {
            for n in edge {
                shapes.push((ts, n));
            }
        } else {
            shapes.push((ts, 1));
            shapes.push((ts, edge[1 + (args.seed as usize + i) % 5]));
        }
    }
    for _ in 0..args.vol(14, 300) {
        let n = if rng.chance(2, 3) && !args.thorough() { rng.range(2, 300) as usize } else { pick_len(rng, if args.thorough() { 5000 } else { 2300 }) };
        shapes.push((*rng.pick(&[1usize, 2, 4, 8]), n));
    }
    for (ts, n) in shapes {
        let vals = gen_vals(rng, ts, n);
        let bytes = to_bytes(&vals, ts);
        let human = json!({"codec": "inline-bitpack", "ts": ts, "n": n, "head": &vals[..n.min(8)]});
        sink.count(&format!("bitpack-inline:ts{ts}"));
        sink.nontrivial(&format!("ibp:{ts}:{n}:{:?}", &vals[..n.min(32)]));
        let enc = InlineBitpacking::new((ts * 8) as u64);
        let r = catch(|| MiniBlockCompressor::compress(&enc, fixed_block(bytes.clone(), (ts * 8) as u64, n as u64, true)));
        match &r {
            Ok(Ok((c, _))) => {
                let words = if c.data.len() == 1 && c.data[0].len() % ts == 0 { from_bytes(c.data[0].as_ref(), ts) } else { vec![] };
                b_in.push(&mut s_in, format!("({}, {})", ts * 8, nlist(&vals)), format!("({}, {})", nlist(&words), coq_chunks(&c.chunks)), human.clone());
                // limits: 8200-byte chunks of 64-bit data packed with 64 bits are a known breach of MAX_MINIBLOCK_BYTES
                let breach = chunk_limit_breach(c, true);
                let full64 = ts == 8 && vals.chunks(1024).any(|ch| ch.iter().fold(0u64, |a, x| a | x) >> 63 == 1);
                match (&breach, full64) {
                    (None, _) => sink.oracle_ok(),
                    (Some(b), true) if b.contains("8200 bytes") => sink.oracle_fail(Some("Known_C26_inline_bitpack_full_u64"), b, human.clone()),
                    (Some(b), _) => sink.oracle_fail(None, &format!("inline bitpack chunk limits: {b}"), human.clone()),
                }
                let dec = InlineBitpacking::new((ts * 8) as u64);
                let back = decode_fixed_page(&dec as &dyn MiniBlockDecompressor, c);
                oracle(sink, back.as_ref().ok() == Some(&bytes), &format!("inline bitpack round trip differs ({})", back.as_ref().err().cloned().unwrap_or_default()), human.clone());
            }
            _ => oracle(sink, false, "inline bitpack compress failed on a valid block", human.clone()),
        }
    }
    sink.add(s_in);

    // ---------------- out of line
    let mut s_ool = Stream::new("bitpack_ool", REQ, "chk_ool_compress", "N * N * list N", "outcome (list N)");
    let mut b_ool = Budget::new(args, 110);
    s_ool.shard = 6;
    let mut cases: Vec<(usize, u64, usize)> = vec![];
    for _ in 0..args.vol(28, 600) {
        let ts = *rng.pick(&[1usize, 2, 4, 8]);
        let bits = (ts * 8) as u64;
        let w = if rng.chance(1, 12) { bits } else { rng.range(1, bits - 1) };
        let wpc = (1024 * w).div_ceil(bits) as usize;
        let whole = rng.below(if args.thorough() { 4 } else { 2 }) as usize + if rng.chance(1, 3) { 0 } else { 1 };
        let r = match rng.below(7) {
            0 => 0,
            1 => wpc.saturating_sub(1),
            2 => wpc,
            3 => wpc + 1,
            4 => 1,
            5 => 1023,
            _ => rng.range(1, 1023) as usize,
        }
        .min(1023);
        if whole * 1024 + r > 0 {
            cases.push((ts, w, whole * 1024 + r));
        }
    }
    for (ts, w, n) in cases {
        let bits = (ts * 8) as u64;
        let m = if w >= 64 { u64::MAX } else { (1u64 << w) - 1 };
        let vals: Vec<u64> = (0..n).map(|i| if i % 97 == 0 { m } else { rng.next() & m }).collect();
        let bytes = to_bytes(&vals, ts);
        let human = json!({"codec": "ool-bitpack", "ts": ts, "w": w, "n": n, "tail": n % 1024});
        sink.count(&format!("bitpack-ool:{}", if n % 1024 == 0 { "no-tail" } else if w == bits { "w=T" } else { "tail" }));
        sink.nontrivial(&format!("ool:{ts}:{w}:{n}:{:?}", &vals[..n.min(16)]));
        let enc = OutOfLineBitpacking::new(w, bits);
        let r = catch(|| BlockCompressor::compress(&enc, fixed_block(bytes.clone(), bits, n as u64, true)));
        let out = match &r {
            Ok(Ok(buf)) => Ok(nlist(&from_bytes(buf.as_ref(), ts))),
            Ok(Err(_)) => Err(false),
            Err(_) => Err(true),
        };
        b_ool.push(&mut s_ool, format!("({}, {}, {})", bits, w, nlist(&vals)), coq::outcome(&out), human.clone());
        match r {
            Ok(Ok(buf)) => {
                let dec = OutOfLineBitpacking::new(w, bits);
                let back = catch(|| BlockDecompressor::decompress(&dec, buf, n as u64));
                let ok = matches!(&back, Ok(Ok(DataBlock::FixedWidth(f))) if f.data.as_ref() == bytes.as_slice() && f.num_values == n as u64);
                oracle(sink, ok, "out-of-line bitpack round trip differs", human.clone());
            }
            Err(_) if w == bits && n % 1024 != 0 => sink.count("bitpack-ool:debug-assert-w=T"),
            _ => oracle(sink, false, "out-of-line bitpack compress failed on a valid block", human.clone()),
        }
    }
    sink.add(s_ool);

    // ---------------- selection rules (default parameters)
    let mut s_sel = Stream::new("bitpack_select", REQ, "chk_bitpack_select", "N * list N", "bool * block_choice");
    let mut b_sel = Budget::new(args, 60);
    s_sel.shard = 40;
    let strat = DefaultCompressionStrategy::new();
    for k in 0..args.vol(60, 1200) {
        let ts = *rng.pick(&[1usize, 2, 4, 8]);
        let bits = (ts * 8) as u64;
        let n = match k % 4 {
            0 => rng.range(1, 40) as usize,
            1 => rng.range(100, 600) as usize,
            2 => *rng.pick(&[1023usize, 1024, 1025, 1100]),
            _ => rng.range(1, 1500) as usize,
        };
        let w = rng.range(0, bits);
        let m = if w == 0 { 0 } else if w >= 64 { u64::MAX } else { (1u64 << w) - 1 };
        // no two equal neighbours, so that RLE is never preferred and the bit-pack rule decides
        let mut vals: Vec<u64> = (0..n).map(|_| rng.next() & m).collect();
        if w >= 2 {
            for i in 1..n {
                if vals[i] == vals[i - 1] {
                    vals[i] = (vals[i] ^ 1) & m;
                }
            }
        }
        let runs = 1 + (1..n).filter(|i| vals[*i] != vals[*i - 1]).count();
        if 2 * runs < n {
            continue; // RLE would be chosen first; outside this stream's domain
        }
        let block = fixed_block(to_bytes(&vals, ts), bits, n as u64, true);
        let dt = match ts {
            1 => arrow_schema::DataType::UInt8,
            2 => arrow_schema::DataType::UInt16,
            4 => arrow_schema::DataType::UInt32,
            _ => arrow_schema::DataType::UInt64,
        };
        let field = Field::new_arrow("x", dt, false).unwrap();
        let mini = catch(|| strat.create_miniblock_compressor(&field, &block).map(|c| format!("{c:?}")));
        let blk = catch(|| strat.create_block_compressor(&field, &block).map(|(_, e)| e));
        let (Ok(Ok(mini)), Ok(Ok(enc))) = (mini, blk) else {
            oracle(sink, false, "compressor selection failed", json!({"ts": ts, "n": n, "w": w}));
            continue;
        };
        let uses_inline = mini.starts_with("InlineBitpacking");
        let choice = match enc.compression.as_ref() {
            Some(Compression::InlineBitpacking(_)) => "BlockInline".to_string(),
            Some(Compression::OutOfLineBitpacking(o)) => {
                let cw = match o.values.as_ref().and_then(|v| v.compression.as_ref()) {
                    Some(Compression::Flat(f)) => f.bits_per_value,
                    _ => 9999,
                };
                format!("(BlockOutOfLine {cw})")
            }
            _ => "BlockNone".to_string(),
        };
        sink.count(&format!("select:{}", if uses_inline { "inline" } else { "value" }));
        sink.nontrivial(&format!("sel:{ts}:{n}:{w}:{:?}", &vals[..n.min(16)]));
        b_sel.push(&mut s_sel, format!("({}, {})", bits, nlist(&vals)), format!("({}, {})", coq::b(uses_inline), choice), json!({"codec": "select", "ts": ts, "n": n, "w": w, "mini": mini, "block": choice}));
    }
    sink.add(s_sel);
}
