//! Unit arms.
//!  * `frags`: write_fragments_internal / do_write_fragments driven through the public
//!    InsertBuilder::execute_uncommitted_stream (no commit): batch-size lists (empty batches, failing
//!    readers), max_rows_per_file / max_rows_per_group, legacy / 2.x, byte limit -> physical_rows of the
//!    fragments in the returned transaction, compared with Table/Model_Write.v.
//!  * `bm`: the Append / Overwrite arms of Transaction::build_manifest through the verif hook, on hand-made
//!    manifests (unsorted / duplicate / zero / pre-assigned ids, stale or missing max_fragment_id, ids at
//!    the u32 / u64 edges).
use crate::common::*;
use arrow_array::{Int64Array, LargeBinaryArray, RecordBatch};
use arrow_schema::{DataType, Field, Schema as ArrowSchema, SchemaRef};
use hxlib::util::{catch, coq, Args, Rng, Sink, Stream};
use lance::dataset::transaction::{Operation, Transaction};
use lance::dataset::verif_hooks::build_manifest;
use lance::dataset::{InsertBuilder, WriteMode, WriteParams};
use lance_file::version::LanceFileVersion;
use lance_table::format::{DataStorageFormat, Fragment, Manifest};
use serde_json::json;
use std::collections::HashMap;
use std::sync::Arc;

fn id_schema() -> SchemaRef {
    Arc::new(ArrowSchema::new(vec![Field::new("id", DataType::Int64, false)]))
}
fn id_batch(start: i64, n: usize) -> RecordBatch {
    RecordBatch::try_new(id_schema(), vec![Arc::new(Int64Array::from((start..start + n as i64).collect::<Vec<_>>()))]).unwrap()
}
fn fat_schema() -> SchemaRef {
    Arc::new(ArrowSchema::new(vec![Field::new("id", DataType::Int64, false), Field::new("blob", DataType::LargeBinary, true)]))
}
fn fat_batch(start: i64, n: usize, bytes_per_row: usize) -> RecordBatch {
    let ids = Int64Array::from((start..start + n as i64).collect::<Vec<_>>());
    // incompressible bytes (a constant payload is compressed away and the byte limit is never reached)
    let mut x = 0x2545_F491_4F6C_DD1Du64 ^ (start as u64);
    let v: Vec<Option<Vec<u8>>> = (0..n)
        .map(|_| {
            Some(
                (0..bytes_per_row)
                    .map(|_| {
                        x ^= x << 13;
                        x ^= x >> 7;
                        x ^= x << 17;
                        (x >> 24) as u8
                    })
                    .collect(),
            )
        })
        .collect();
    RecordBatch::try_new(fat_schema(), vec![Arc::new(ids), Arc::new(LargeBinaryArray::from_iter(v))]).unwrap()
}

/// physical_rows of the fragments a write produces (uncommitted), or Err(false) / Err(true) = panic;
/// also the data file sizes when known
async fn write_uncommitted(items: Vec<Option<RecordBatch>>, schema: SchemaRef, params: WriteParams, tag: u64) -> Guarded<Vec<(u64, Option<u64>)>> {
    guarded(async move {
        let uri = format!("memory://c11u{tag}");
        let reader = reader_of(&items, schema);
        let txn = InsertBuilder::new(uri.as_str()).with_params(&params).execute_uncommitted_stream(reader).await?;
        let frags: Vec<Fragment> = match txn.operation {
            Operation::Overwrite { fragments, .. } => fragments,
            Operation::Append { fragments } => fragments,
            _ => vec![],
        };
        Ok(frags.iter().map(|f| (f.physical_rows.map(|x| x as u64).unwrap_or(u64::MAX), f.files.first().and_then(|df| df.file_size_bytes.get()).map(|x| x.get()))).collect())
    })
    .await
}

pub struct FragCase {
    pub legacy: bool,
    pub version: LanceFileVersion,
    pub max: u64,
    pub g: u64,
    /// 0 default byte limit (never reached), 1 legacy with max_bytes_per_file = 1 (reached after every group),
    /// 2 small byte limit on the 2.x writer: not observable, inferred by the checker
    pub bmode: u64,
    pub max_bytes: usize,
    pub items: Vec<Option<RecordBatch>>,
    pub schema: SchemaRef,
}

/// model-independent restatement for one write; returns (class, message) on failure
pub fn frags_oracle(legacy: bool, max: u64, g: u64, bmode: u64, sizes: &[Option<u64>], out: &Result<Vec<u64>, bool>) -> Option<(Option<&'static str>, String)> {
    let has_err = sizes.iter().any(|s| s.is_none());
    let total: u64 = sizes.iter().flatten().sum();
    let gg = g.min(max);
    match out {
        Err(true) => Some((None, "write panicked".into())),
        Err(false) => {
            if has_err {
                None
            } else {
                Some((None, "write failed on a valid input".into()))
            }
        }
        Ok(fr) => {
            if has_err {
                return Some((None, "write succeeded although the reader failed".into()));
            }
            if fr.iter().sum::<u64>() != total {
                return Some((None, format!("fragments hold {} rows, {} were written", fr.iter().sum::<u64>(), total)));
            }
            if fr.iter().any(|x| *x == 0) {
                return Some((None, "empty fragment".into()));
            }
            // upper bounds: what is proved for every byte oracle
            let hard = if legacy { max + gg } else { 2 * max };
            if fr.iter().any(|x| *x >= hard) {
                return Some((None, format!("fragment with {} rows, bound {}", fr.iter().max().unwrap(), hard)));
            }
            // max_rows_per_file itself
            if fr.iter().any(|x| *x > max) {
                let class = if legacy && max % gg != 0 {
                    Some("Known_C11_rows_limit_legacy_group")
                } else if !legacy && bmode != 0 {
                    Some("Known_C11_rows_limit_byte_roll")
                } else {
                    None
                };
                return Some((class, format!("fragment with {} rows exceeds max_rows_per_file {}", fr.iter().max().unwrap(), max)));
            }
            if bmode == 0 && !fr.is_empty() {
                let body = &fr[..fr.len() - 1];
                if !legacy && body.iter().any(|x| *x != max) {
                    return Some((None, "a fragment before the last is not full although no limit but max_rows_per_file applies".into()));
                }
                if legacy && body.iter().any(|x| *x < max || *x % gg != 0) {
                    return Some((None, "legacy: a fragment before the last is below max_rows_per_file or not a whole number of groups".into()));
                }
            }
            None
        }
    }
}

fn gen_sizes(rng: &mut Rng, max: u64, g: u64, allow_err: bool) -> Vec<Option<u64>> {
    let len = match rng.below(10) {
        0 => 0,
        1 => 1,
        _ => rng.range(2, 7),
    };
    let with_err = allow_err && rng.chance(1, 8);
    let gg = g.min(max).max(1);
    (0..len)
        .map(|_| {
            if with_err && rng.chance(1, 3) {
                return None;
            }
            let s = match rng.below(14) {
                0 | 1 => 0,
                2 => 1,
                3 => max,
                4 => max + 1,
                5 => max.saturating_sub(1),
                6 => 2 * max,
                7 => 2 * max + 1,
                8 => 3 * max - 1,
                9 => gg,
                10 => gg + 1,
                11 => rng.range(1, max),
                _ => rng.range(0, 40),
            };
            Some(s.min(600))
        })
        .collect()
}

pub fn run_frags(args: &Args, sink: &mut Sink, rng: &mut Rng, rt: &tokio::runtime::Runtime) {
    let mut s = Stream::new("frags", REQ, "chk_write_frags", "bool * (N * N) * N * list (option N)", "outcome (list N)");
    s.shard = 60;
    let mut cases: Vec<FragCase> = vec![];
    let mk = |sizes: &[Option<u64>]| -> Vec<Option<RecordBatch>> {
        let mut start = 0i64;
        sizes
            .iter()
            .map(|x| {
                x.map(|n| {
                    let b = id_batch(start, n as usize);
                    start += n as i64;
                    b
                })
            })
            .collect()
    };
    // fixed cases first: the doc comment of break_stream, test_chunking_* shapes, boundaries
    let fixed: Vec<(bool, u64, u64, u64, Vec<Option<u64>>)> = vec![
        (false, 10, 1024, 0, vec![Some(3), Some(5), Some(8), Some(3), Some(5)]),
        (true, 10, 3, 0, vec![Some(3), Some(5), Some(8), Some(3), Some(5)]),
        (true, 10, 3, 1, vec![Some(3), Some(5), Some(8), Some(3), Some(5)]),
        (true, 10, 5, 1, vec![Some(23)]),
        (false, 1, 1, 0, vec![Some(5)]),
        (true, 1, 1024, 0, vec![Some(5)]),
        (false, 7, 3, 0, vec![Some(0), Some(0)]),
        (true, 7, 3, 0, vec![Some(0), Some(0)]),
        (false, 7, 3, 0, vec![]),
        (false, 5, 2, 0, vec![Some(4), None, Some(4)]),
        (true, 5, 2, 0, vec![Some(4), None, Some(4)]),
        (false, 5, 2, 0, vec![None]),
        (false, 1 << 20, 1024, 0, vec![Some(10), Some(300)]),
        (true, 1 << 20, 1024, 0, vec![Some(10), Some(300), Some(2000)]),
        (true, 100, 1000, 0, vec![Some(250)]),
        (true, 4, 3, 0, vec![Some(20)]),
    ];
    for (legacy, max, g, bmode, sizes) in fixed {
        cases.push(FragCase { legacy, version: if legacy { LanceFileVersion::Legacy } else { LanceFileVersion::V2_0 }, max, g, bmode, max_bytes: if bmode == 1 { 1 } else { usize::MAX / 2 }, items: mk(&sizes), schema: id_schema() });
    }
    for _ in 0..args.vol(260, 3000) {
        let version = *rng.pick(&VERSIONS);
        let legacy = is_legacy(version);
        let max = *rng.pick(&[1u64, 2, 3, 4, 5, 7, 8, 10, 16, 33, 100, 256]);
        let g = *rng.pick(&[1u64, 2, 3, 4, 5, 7, 10, 16, 64, 1024, 100000]);
        let bmode = if legacy && rng.chance(1, 4) { 1 } else { 0 };
        let sizes = gen_sizes(rng, max, g, true);
        cases.push(FragCase { legacy, version, max, g, bmode, max_bytes: if bmode == 1 { 1 } else { WriteParams::default().max_bytes_per_file }, items: mk(&sizes), schema: id_schema() });
    }
    // 2.x with a byte limit that the writer reaches: a first batch of fat rows (more than the 8 MiB the
    // column writer buffers), then thin rows.  The file is closed early; the row counter restarts but
    // break_stream keeps cutting at multiples of max_rows_per_file of the whole stream.
    for k in 0..args.vol(2, 10) {
        let version = *rng.pick(&[LanceFileVersion::V2_0, LanceFileVersion::V2_1, LanceFileVersion::V2_2]);
        let max = if k == 0 { 1000 } else { rng.range(200, 1200) };
        let fat_rows = if k == 0 { 100 } else { rng.range(90, 130) };
        let a = if k == 0 { 950 } else { rng.range(max / 2, max) };
        let b = if k == 0 { 950 } else { rng.range(max / 2, 2 * max) };
        let mut items = vec![Some(fat_batch(0, fat_rows as usize, 100 * 1024))];
        items.push(Some(fat_batch(fat_rows as i64, a as usize, 1)));
        items.push(Some(fat_batch((fat_rows + a) as i64, b as usize, 1)));
        cases.push(FragCase { legacy: false, version, max, g: 1024, bmode: 2, max_bytes: 1024 * 1024, items, schema: fat_schema() });
    }
    for (tag, c) in cases.into_iter().enumerate() {
        let params = WriteParams {
            max_rows_per_file: c.max as usize,
            max_rows_per_group: c.g as usize,
            max_bytes_per_file: c.max_bytes,
            data_storage_version: Some(c.version),
            mode: WriteMode::Create,
            ..Default::default()
        };
        let sizes = sizes_of(&c.items);
        let res = rt.block_on(write_uncommitted(c.items.clone(), c.schema.clone(), params, tag as u64));
        let out: Result<Vec<u64>, bool> = match &res {
            Ok(v) => Ok(v.iter().map(|x| x.0).collect()),
            Err((p, _)) => Err(*p),
        };
        let human = json!({"version": version_name(c.version), "max_rows_per_file": c.max, "max_rows_per_group": c.g, "byte_mode": c.bmode, "max_bytes_per_file": c.max_bytes as u64,
            "batch_rows": sizes, "physical_rows": format!("{:?}", out), "error": res.as_ref().err().map(|e| e.1.clone())});
        match frags_oracle(c.legacy, c.max, c.g, c.bmode, &sizes, &out) {
            None => sink.oracle_ok(),
            Some((class, what)) => sink.oracle_fail(class, &what, human.clone()),
        }
        // byte limit reached: every file that was closed early is at least max_bytes long
        if c.bmode == 2 {
            if let Ok(v) = &res {
                let early = v.iter().take(v.len().saturating_sub(1)).filter(|(rows, _)| *rows < c.max).collect::<Vec<_>>();
                sink.count(if early.is_empty() { "frags:byte-limit-not-reached" } else { "frags:byte-limit-closed-a-file" });
                if early.iter().any(|(_, sz)| sz.map(|s| s < c.max_bytes as u64).unwrap_or(false)) {
                    sink.oracle_fail(None, "a file was closed before max_rows_per_file although it is smaller than max_bytes_per_file", human.clone());
                } else {
                    sink.oracle_ok();
                }
            }
        }
        let inp = format!("({}, ({}, {}), {}, {})", coq::b(c.legacy), c.max, c.g, c.bmode, coq_sizes(&sizes));
        sink.nontrivial(&inp);
        sink.count(&format!("frags:{}", if c.legacy { "legacy" } else { "v2" }));
        sink.count(match &out {
            Ok(v) if v.is_empty() => "frags:no-fragment",
            Ok(v) if v.len() == 1 => "frags:one-fragment",
            Ok(_) => "frags:many-fragments",
            Err(false) => "frags:err",
            Err(true) => "frags:panic",
        });
        s.push(inp, coq::outcome(&out.as_ref().map(|v| coq::nlist(v.iter())).map_err(|e| *e)), human);
    }
    sink.add(s);
}

// ------------------------------------------------------------------------------------------ build_manifest

fn lance_schema() -> lance_core::datatypes::Schema {
    lance_core::datatypes::Schema::try_from(id_schema().as_ref()).unwrap()
}

fn frag_of(id: u64, rows: u64) -> Fragment {
    let mut f = Fragment::new(id);
    f.physical_rows = Some(rows as usize);
    f
}

fn manifest_of(v: &ManView) -> Manifest {
    let frags: Vec<Fragment> = v.1.iter().map(|(id, rows)| frag_of(*id, *rows)).collect();
    let mut m = Manifest::new(lance_schema(), Arc::new(frags), DataStorageFormat::new(LanceFileVersion::V2_0), HashMap::new());
    m.version = v.0;
    m.max_fragment_id = v.2.map(|x| x as u32);
    m
}

fn well_formed(v: &ManView) -> bool {
    let ids: Vec<u64> = v.1.iter().map(|x| x.0).collect();
    ids.windows(2).all(|w| w[0] < w[1])
        && match v.2 {
            Some(mx) => ids.iter().all(|i| *i <= mx),
            None => ids.is_empty(),
        }
        && ids.iter().all(|i| *i < (1 << 31))
}

pub fn run_bm(args: &Args, sink: &mut Sink, rng: &mut Rng) {
    let mut s = Stream::new("bm", REQ, "chk_build_manifest", "option man_view * (bool * list (N * N))", "outcome man_view");
    s.shard = 200;
    let mut cases: Vec<(Option<ManView>, bool, Vec<(u64, u64)>)> = vec![
        (None, true, vec![(0, 5), (0, 6)]),
        (None, true, vec![]),
        (None, false, vec![(0, 5)]),
        (Some((1, vec![], None)), false, vec![(0, 3), (0, 4)]),
        (Some((1, vec![(0, 5), (1, 6)], Some(1))), false, vec![(0, 3), (0, 4)]),
        (Some((7, vec![(0, 5), (1, 6)], Some(9))), false, vec![(0, 3)]),
        (Some((7, vec![(0, 5), (1, 6)], Some(9))), true, vec![(0, 3), (0, 1)]),
        (Some((7, vec![(0, 5), (1, 6)], None)), false, vec![(0, 3)]),
        (Some((7, vec![(3, 5), (1, 6)], None)), false, vec![(0, 3)]),
        (Some((7, vec![(0, 5), (1, 6)], Some(1))), false, vec![(5, 3), (0, 2)]),
        (Some((7, vec![(0, 5), (1, 6)], Some(0))), false, vec![(0, 3)]),
        (Some((2, vec![(0, 5)], Some(0))), false, vec![]),
        (Some((2, vec![(0, 5)], Some(0))), true, vec![]),
        // u32 edge of update_max_fragment_id, u64 edge of `id + 1`
        (Some((2, vec![(u32::MAX as u64 - 1, 5)], Some(u32::MAX as u64 - 1))), false, vec![(0, 1)]),
        (Some((2, vec![(u32::MAX as u64 - 1, 5)], Some(u32::MAX as u64 - 1))), false, vec![(0, 1), (0, 1)]),
        (Some((2, vec![(u32::MAX as u64, 5)], Some(u32::MAX as u64))), false, vec![(0, 1)]),
        (Some((2, vec![(u32::MAX as u64 + 1, 5)], None)), false, vec![]),
        (Some((2, vec![(u64::MAX, 5)], None)), false, vec![(0, 1)]),
        (Some((2, vec![(u64::MAX, 5)], None)), true, vec![(0, 1)]),
    ];
    for _ in 0..args.vol(500, 6000) {
        let cur = if rng.chance(1, 8) {
            None
        } else {
            let k = rng.below(6) as usize;
            let shape = rng.below(10);
            let mut ids: Vec<u64> = vec![];
            let mut next = rng.below(3);
            for _ in 0..k {
                ids.push(next);
                next += rng.range(1, 3);
            }
            match shape {
                0 => ids.reverse(),
                1 => {
                    if k > 1 {
                        let j = rng.below(k as u64) as usize;
                        ids[j] = ids[0];
                    }
                }
                2 => {
                    for x in ids.iter_mut() {
                        *x = rng.below(6);
                    }
                }
                _ => {}
            }
            let mx = ids.iter().max().copied();
            let stored = match rng.below(8) {
                0 => None,
                1 => mx.map(|m| m + rng.range(1, 5)),
                2 => mx.map(|m| m.saturating_sub(1)),
                3 => Some(rng.below(4)),
                _ => mx,
            };
            Some((rng.range(1, 50), ids.into_iter().map(|i| (i, rng.range(1, 20))).collect::<Vec<_>>(), stored))
        };
        let ow = rng.chance(1, 3);
        let nk = rng.below(5) as usize;
        let preassigned = rng.chance(1, 6);
        let new: Vec<(u64, u64)> = (0..nk).map(|_| (if preassigned && rng.bool() { rng.range(1, 12) } else { 0 }, rng.range(1, 20))).collect();
        cases.push((cur, ow, new));
    }
    for (cur, ow, new) in cases {
        let cur_m = cur.as_ref().map(manifest_of);
        let frs: Vec<Fragment> = new.iter().map(|(id, rows)| frag_of(*id, *rows)).collect();
        let op = if ow { Operation::Overwrite { fragments: frs, schema: lance_schema(), config_upsert_values: None, initial_bases: None } } else { Operation::Append { fragments: frs } };
        let txn = Transaction::new(cur.as_ref().map(|c| c.0).unwrap_or(0), op, None);
        let r = catch(|| build_manifest(&txn, cur_m.as_ref(), vec![], "txn", false, None));
        let out: Result<ManView, bool> = match &r {
            Ok(Ok((m, _))) => Ok(view_of_manifest(m)),
            Ok(Err(_)) => Err(false),
            Err(_) => Err(true),
        };
        let human = json!({"current": cur.as_ref().map(|c| json!({"version": c.0, "fragments(id,rows)": c.1, "max_fragment_id": c.2})), "operation": if ow { "Overwrite" } else { "Append" },
            "new_fragments(id,rows)": new, "result": format!("{:?}", out)});
        // direct oracle on well-formed inputs with unassigned new fragments
        let wf = cur.as_ref().map(well_formed).unwrap_or(true) && new.iter().all(|f| f.0 == 0);
        if wf {
            let verdict: Option<String> = match (&cur, ow, &out) {
                (None, false, Err(false)) => None,
                (None, false, _) => Some("Append without a manifest must fail".into()),
                (_, _, Err(_)) => Some("build_manifest failed on a well-formed input".into()),
                (c, _, Ok((ver, frags, stored))) => {
                    let old: Vec<(u64, u64)> = if ow { vec![] } else { c.as_ref().map(|c| c.1.clone()).unwrap_or_default() };
                    let prev_max = c.as_ref().and_then(|c| c.2);
                    let rows_ok = frags.iter().map(|f| f.1).collect::<Vec<_>>() == old.iter().chain(new.iter()).map(|f| f.1).collect::<Vec<_>>();
                    let old_kept = frags.len() >= old.len() && frags[..old.len()] == old[..];
                    let inc = frags.windows(2).all(|w| w[0].0 < w[1].0);
                    let fresh = ow || frags[old.len().min(frags.len())..].iter().all(|f| prev_max.map(|m| f.0 > m).unwrap_or(true));
                    let from_zero = !ow || frags.iter().enumerate().all(|(i, f)| f.0 == i as u64);
                    let ver_ok = *ver == c.as_ref().map(|c| c.0 + 1).unwrap_or(1);
                    let hw = frags.iter().all(|f| stored.map(|m| f.0 <= m).unwrap_or(false)) && stored.unwrap_or(0) >= prev_max.unwrap_or(0);
                    if rows_ok && old_kept && inc && fresh && from_zero && ver_ok && (hw || (frags.is_empty() && *stored == prev_max)) {
                        None
                    } else {
                        Some(format!("new manifest is not old ++ new with fresh increasing ids (rows {rows_ok} old {old_kept} increasing {inc} fresh {fresh} from_zero {from_zero} version {ver_ok} high-water {hw})"))
                    }
                }
            };
            match verdict {
                None => sink.oracle_ok(),
                Some(w) => sink.oracle_fail(None, &w, human.clone()),
            }
            sink.count("bm:well-formed");
        } else {
            sink.count("bm:odd-ids");
        }
        sink.count(match &out {
            Ok(_) => "bm:ok",
            Err(false) => "bm:err",
            Err(true) => "bm:panic",
        });
        let inp = format!("({}, ({}, {}))", coq::opt(cur.as_ref().map(coq_man_view)), coq::b(ow), coq_nn_list(&new));
        sink.nontrivial(&inp);
        s.push(inp, coq::outcome(&out.as_ref().map(coq_man_view).map_err(|e| *e)), human);
    }
    sink.add(s);
}
