//! hx_c11: write / append / overwrite / read returns exactly the rows written (C11).
mod gen;
mod probe;

fn main() {
    let (sub, args) = hxlib::util::Args::parse();
    let code = match sub.as_str() {
        "probe" => probe::run(&args),
        _ => {
            eprintln!("unknown subcommand {sub}");
            2
        }
    };
    std::process::exit(code);
}
