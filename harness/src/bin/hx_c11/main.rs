//! hx_c11: write / append / overwrite / read returns exactly the rows written (C11).
//!
//! Streams (model = coq/theories/Table/Model_Write.v, evaluated by coqc):
//!   frags  write_fragments_internal + do_write_fragments (file rolling) through execute_uncommitted_stream
//!   bm     Transaction::build_manifest, Append / Overwrite arms, through the verif hook
//!   hist   whole histories through Dataset::write / append / InsertBuilder on temp-dir tables
//! Direct oracles: ordered scan == rows written since the last overwrite, count_rows, fragment shape,
//! failed calls leave the table unchanged.
//!
//! Declared domain of the generated e2e DATA (the write path itself is unrestricted): values whose
//! file-level round trip is known to fail are left to the properties that own the file format -
//!   * 2.1 / 2.2: no null items inside lists, no List<List<..>> (C27's rep/def finding classes),
//!     variable-width values < 256 bytes (full-zip decode, C25/C26);
//!   * 0.1: one dictionary per dictionary column for the whole table, no empty string / binary values.
//! The two legacy restrictions are exercised on purpose by the `known` arm (finding classes of C11).
mod common;
mod e2e;
mod gen;
mod known;
mod probe;
mod unit;

use hxlib::util::{Args, Rng, Sink};

fn run(args: &Args) -> i32 {
    let mut sink = Sink::new("C11", &args.out);
    let mut rng = Rng::new(args.seed);
    let rt = common::runtime();
    if std::env::var("C11_LOUD").is_err() {
        common::quiet_panics();
    }
    unit::run_frags(args, &mut sink, &mut rng, &rt);
    unit::run_bm(args, &mut sink, &mut rng);
    known::run(args, &mut sink, &mut rng, &rt);
    e2e::run(args, &mut sink, &mut rng, &rt);
    sink.notes.push(
        "frags: fixed boundary cases + random size lists (0, 1, max-1, max, max+1, 2max, 3max-1, group, group+1, reader errors) x {0.1,2.0,2.1,2.2} x max_rows_per_file x max_rows_per_group x byte limit {default, 1 (legacy), 1 MiB with >8 MiB first batch (2.x)}; \
         bm: hand-made manifests incl. unsorted/duplicate/zero/pre-assigned ids, stale or missing max_fragment_id, u32/u64 edges; \
         hist: random histories (1-5 calls; create/append/overwrite, create-over-existing, failing readers) over 34 column kinds, sliced/empty/all-null batches"
            .into(),
    );
    sink.finish();
    0
}

fn main() {
    let (sub, args) = Args::parse();
    let code = match sub.as_str() {
        "c11" => run(&args),
        "probe" => probe::run(&args),
        "probe-overwrite" => probe::run_overwrite(&args),
        "probe-legacy" => probe::run_legacy(&args),
        _ => {
            eprintln!("unknown subcommand {sub}");
            2
        }
    };
    std::process::exit(code);
}
