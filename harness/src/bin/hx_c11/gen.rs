//! Arrow data generator for the C11 e2e arm and the comparison "modulo the documented per-version
//! normalisations" (docs/src/format/file/versioning.md: 0.1/legacy has no validity for primitives, lists and
//! fixed-size lists; struct-level validity only from 2.1).
use arrow_array::builder::*;
use arrow_array::types::*;
use arrow_array::*;
use arrow_buffer::{NullBuffer, OffsetBuffer};
use arrow_schema::{DataType, Field, Fields, Schema, SchemaRef, TimeUnit};
use hxlib::util::Rng;
use lance_file::version::LanceFileVersion;
use std::sync::Arc;

#[derive(Clone, Copy, Debug, PartialEq, Eq, Hash)]
pub enum Kind {
    I8,
    I16,
    I32,
    I64,
    U8,
    U16,
    U32,
    U64,
    F16,
    F32,
    F64,
    Bool,
    Utf8,
    LargeUtf8,
    Binary,
    LargeBinary,
    Fsb,
    Date32,
    Date64,
    TsUs,
    TsNsTz,
    Time32S,
    Time64Us,
    DurMs,
    Dec128,
    ListI32,
    LargeListUtf8,
    FslF32,
    StructPQ,
    DictI32Utf8,
    DictI8Utf8,
    ListStruct,
    StructNested,
    ListList,
}

pub const ALL_KINDS: [Kind; 34] = [
    Kind::I8,
    Kind::I16,
    Kind::I32,
    Kind::I64,
    Kind::U8,
    Kind::U16,
    Kind::U32,
    Kind::U64,
    Kind::F16,
    Kind::F32,
    Kind::F64,
    Kind::Bool,
    Kind::Utf8,
    Kind::LargeUtf8,
    Kind::Binary,
    Kind::LargeBinary,
    Kind::Fsb,
    Kind::Date32,
    Kind::Date64,
    Kind::TsUs,
    Kind::TsNsTz,
    Kind::Time32S,
    Kind::Time64Us,
    Kind::DurMs,
    Kind::Dec128,
    Kind::ListI32,
    Kind::LargeListUtf8,
    Kind::FslF32,
    Kind::StructPQ,
    Kind::DictI32Utf8,
    Kind::DictI8Utf8,
    Kind::ListStruct,
    Kind::StructNested,
    Kind::ListList,
];

/// value distribution of one write: 0 random, 1 all null, 2 constant / runs, 3 wide / extreme values
#[derive(Clone, Copy, Debug)]
pub struct Dist {
    pub mode: u64,
    /// null percentage 0..100 at every nullable level
    pub nullp: u64,
    /// nulls among the ITEMS of list-like columns (a separate switch: C27's finding classes live there)
    pub item_nulls: bool,
    /// null lists (when false every list is valid: the "all valid list" layer of the 2.1 rep/def encoding)
    pub list_nulls: bool,
    /// all batches of a dictionary column share one dictionary (required by the legacy format)
    pub shared_dict: bool,
    /// never generate "" / empty binary values (the legacy format conflates them with NULL)
    pub no_empty_str: bool,
    /// longest generated string / binary value in bytes
    pub max_str: u64,
}

fn isnull(r: &mut Rng, d: &Dist) -> bool {
    d.mode == 1 || r.below(100) < d.nullp
}
fn item_null(r: &mut Rng, d: &Dist) -> bool {
    d.item_nulls && r.below(100) < d.nullp
}
fn list_null(r: &mut Rng, d: &Dist) -> bool {
    d.list_nulls && isnull(r, d)
}

fn pq_fields() -> Fields {
    vec![Field::new("p", DataType::Int64, true), Field::new("q", DataType::Utf8, true)].into()
}

pub fn data_type(k: Kind) -> DataType {
    match k {
        Kind::I8 => DataType::Int8,
        Kind::I16 => DataType::Int16,
        Kind::I32 => DataType::Int32,
        Kind::I64 => DataType::Int64,
        Kind::U8 => DataType::UInt8,
        Kind::U16 => DataType::UInt16,
        Kind::U32 => DataType::UInt32,
        Kind::U64 => DataType::UInt64,
        Kind::F16 => DataType::Float16,
        Kind::F32 => DataType::Float32,
        Kind::F64 => DataType::Float64,
        Kind::Bool => DataType::Boolean,
        Kind::Utf8 => DataType::Utf8,
        Kind::LargeUtf8 => DataType::LargeUtf8,
        Kind::Binary => DataType::Binary,
        Kind::LargeBinary => DataType::LargeBinary,
        Kind::Fsb => DataType::FixedSizeBinary(5),
        Kind::Date32 => DataType::Date32,
        Kind::Date64 => DataType::Date64,
        Kind::TsUs => DataType::Timestamp(TimeUnit::Microsecond, None),
        Kind::TsNsTz => DataType::Timestamp(TimeUnit::Nanosecond, Some("UTC".into())),
        Kind::Time32S => DataType::Time32(TimeUnit::Second),
        Kind::Time64Us => DataType::Time64(TimeUnit::Microsecond),
        Kind::DurMs => DataType::Duration(TimeUnit::Millisecond),
        Kind::Dec128 => DataType::Decimal128(20, 3),
        Kind::ListI32 => DataType::List(Arc::new(Field::new("item", DataType::Int32, true))),
        Kind::LargeListUtf8 => DataType::LargeList(Arc::new(Field::new("item", DataType::Utf8, true))),
        Kind::FslF32 => DataType::FixedSizeList(Arc::new(Field::new("item", DataType::Float32, true)), 3),
        Kind::StructPQ => DataType::Struct(pq_fields()),
        Kind::DictI32Utf8 => DataType::Dictionary(Box::new(DataType::Int32), Box::new(DataType::Utf8)),
        Kind::DictI8Utf8 => DataType::Dictionary(Box::new(DataType::Int8), Box::new(DataType::Utf8)),
        Kind::ListStruct => DataType::List(Arc::new(Field::new("item", DataType::Struct(pq_fields()), true))),
        Kind::StructNested => DataType::Struct(
            vec![
                Field::new("a", DataType::Int32, true),
                Field::new("inner", DataType::Struct(pq_fields()), true),
                Field::new("l", DataType::List(Arc::new(Field::new("item", DataType::Int32, true))), true),
            ]
            .into(),
        ),
        Kind::ListList => DataType::List(Arc::new(Field::new(
            "item",
            DataType::List(Arc::new(Field::new("item", DataType::Int32, true))),
            true,
        ))),
    }
}

fn int_val(r: &mut Rng, d: &Dist, i: usize) -> i64 {
    match d.mode {
        2 => (i / 37) as i64,
        3 => *r.pick(&[i64::MIN, i64::MAX, 0, -1, 1, i64::MIN + 1, i64::MAX - 1]),
        _ => (r.next() as i64) >> r.below(64),
    }
}
fn str_val(r: &mut Rng, d: &Dist, i: usize) -> String {
    match d.mode {
        2 => "same".into(),
        3 => {
            let lo = if d.no_empty_str { 1 } else { 0 };
            match r.below(4) {
                0 if !d.no_empty_str => String::new(),
                1 => "x".repeat(r.range(lo, d.max_str.max(1) - 1) as usize),
                2 => "\u{e9}\u{4e2d}\u{1F600}".repeat(r.range(lo, 4) as usize),
                _ => format!("k{}", i),
            }
        }
        _ => format!("s{}\u{e9}{}", r.below(50), i % 7),
    }
}
fn f64_val(r: &mut Rng, d: &Dist, i: usize) -> f64 {
    match d.mode {
        2 => (i / 50) as f64,
        3 => *r.pick(&[f64::NAN, f64::INFINITY, f64::NEG_INFINITY, 0.0, -0.0, f64::MIN_POSITIVE, f64::MAX, 1e-310]),
        _ => (r.next() as i64 >> r.below(40)) as f64 / 8.0,
    }
}

macro_rules! prim {
    ($ty:ty, $n:expr, $r:expr, $d:expr, $f:expr) => {{
        let a: PrimitiveArray<$ty> = (0..$n).map(|i| if isnull($r, $d) { None } else { Some($f(i)) }).collect();
        a
    }};
}

fn gen_pq(r: &mut Rng, d: &Dist, n: usize, struct_nulls: bool) -> StructArray {
    let p: Int64Array = (0..n).map(|i| if isnull(r, d) { None } else { Some(int_val(r, d, i)) }).collect();
    let q: StringArray = (0..n).map(|i| if isnull(r, d) { None } else { Some(str_val(r, d, i)) }).collect();
    let nulls = if struct_nulls { Some(NullBuffer::from((0..n).map(|_| !isnull(r, d)).collect::<Vec<bool>>())) } else { None };
    StructArray::try_new(pq_fields(), vec![Arc::new(p), Arc::new(q)], nulls).unwrap()
}

fn gen_list_i32(r: &mut Rng, d: &Dist, n: usize) -> ListArray {
    ListArray::from_iter_primitive::<Int32Type, _, _>((0..n).map(|i| {
        if list_null(r, d) {
            None
        } else {
            let len = if d.mode == 3 { r.below(40) } else { r.below(4) };
            Some((0..len).map(|_| if item_null(r, d) { None } else { Some(int_val(r, d, i) as i32) }).collect::<Vec<_>>())
        }
    }))
}

/// one column of `n` rows
pub fn gen_col(k: Kind, r: &mut Rng, d: &Dist, n: usize) -> ArrayRef {
    match k {
        Kind::I8 => Arc::new(prim!(Int8Type, n, r, d, |i| int_val(r, d, i) as i8)),
        Kind::I16 => Arc::new(prim!(Int16Type, n, r, d, |i| int_val(r, d, i) as i16)),
        Kind::I32 => Arc::new(prim!(Int32Type, n, r, d, |i| int_val(r, d, i) as i32)),
        Kind::I64 => Arc::new(prim!(Int64Type, n, r, d, |i| int_val(r, d, i))),
        Kind::U8 => Arc::new(prim!(UInt8Type, n, r, d, |i| int_val(r, d, i) as u8)),
        Kind::U16 => Arc::new(prim!(UInt16Type, n, r, d, |i| int_val(r, d, i) as u16)),
        Kind::U32 => Arc::new(prim!(UInt32Type, n, r, d, |i| int_val(r, d, i) as u32)),
        Kind::U64 => Arc::new(prim!(UInt64Type, n, r, d, |i| int_val(r, d, i) as u64)),
        Kind::F16 => Arc::new(prim!(Float16Type, n, r, d, |i| half::f16::from_f64(f64_val(r, d, i)))),
        Kind::F32 => Arc::new(prim!(Float32Type, n, r, d, |i| f64_val(r, d, i) as f32)),
        Kind::F64 => Arc::new(prim!(Float64Type, n, r, d, |i| f64_val(r, d, i))),
        Kind::Bool => {
            let a: BooleanArray = (0..n).map(|i| if isnull(r, d) { None } else { Some(if d.mode == 2 { i % 100 < 50 } else { r.bool() }) }).collect();
            Arc::new(a)
        }
        Kind::Utf8 => {
            let a: StringArray = (0..n).map(|i| if isnull(r, d) { None } else { Some(str_val(r, d, i)) }).collect();
            Arc::new(a)
        }
        Kind::LargeUtf8 => {
            let a: LargeStringArray = (0..n).map(|i| if isnull(r, d) { None } else { Some(str_val(r, d, i)) }).collect();
            Arc::new(a)
        }
        Kind::Binary => {
            let v: Vec<Option<Vec<u8>>> = (0..n).map(|i| if isnull(r, d) { None } else { Some(str_val(r, d, i).into_bytes()) }).collect();
            Arc::new(BinaryArray::from_iter(v))
        }
        Kind::LargeBinary => {
            let v: Vec<Option<Vec<u8>>> = (0..n).map(|i| if isnull(r, d) { None } else { Some(str_val(r, d, i).into_bytes()) }).collect();
            Arc::new(LargeBinaryArray::from_iter(v))
        }
        Kind::Fsb => {
            let mut b = FixedSizeBinaryBuilder::new(5);
            for i in 0..n {
                if isnull(r, d) {
                    b.append_null();
                } else {
                    let x = int_val(r, d, i).to_le_bytes();
                    b.append_value(&x[0..5]).unwrap();
                }
            }
            Arc::new(b.finish())
        }
        Kind::Date32 => Arc::new(prim!(Date32Type, n, r, d, |i| int_val(r, d, i) as i32)),
        Kind::Date64 => Arc::new(prim!(Date64Type, n, r, d, |i| int_val(r, d, i))),
        Kind::TsUs => Arc::new(prim!(TimestampMicrosecondType, n, r, d, |i| int_val(r, d, i))),
        Kind::TsNsTz => Arc::new(prim!(TimestampNanosecondType, n, r, d, |i| int_val(r, d, i)).with_timezone("UTC")),
        Kind::Time32S => Arc::new(prim!(Time32SecondType, n, r, d, |i| (int_val(r, d, i) as i32).rem_euclid(86400))),
        Kind::Time64Us => Arc::new(prim!(Time64MicrosecondType, n, r, d, |i| int_val(r, d, i).rem_euclid(86_400_000_000))),
        Kind::DurMs => Arc::new(prim!(DurationMillisecondType, n, r, d, |i| int_val(r, d, i))),
        Kind::Dec128 => Arc::new(
            prim!(Decimal128Type, n, r, d, |i| (int_val(r, d, i) as i128) * 1000 + (i as i128 % 1000))
                .with_precision_and_scale(20, 3)
                .unwrap_or_else(|_| Decimal128Array::from(vec![None::<i128>; n]).with_precision_and_scale(20, 3).unwrap()),
        ),
        Kind::ListI32 => Arc::new(gen_list_i32(r, d, n)),
        Kind::LargeListUtf8 => {
            let mut b = LargeListBuilder::new(StringBuilder::new());
            for i in 0..n {
                if list_null(r, d) {
                    b.append(false);
                } else {
                    for _ in 0..r.below(4) {
                        if item_null(r, d) {
                            b.values().append_null();
                        } else {
                            b.values().append_value(str_val(r, d, i));
                        }
                    }
                    b.append(true);
                }
            }
            Arc::new(b.finish())
        }
        Kind::FslF32 => {
            let mut b = FixedSizeListBuilder::new(Float32Builder::new(), 3);
            for i in 0..n {
                for _ in 0..3 {
                    if item_null(r, d) {
                        b.values().append_null();
                    } else {
                        b.values().append_value(f64_val(r, d, i) as f32);
                    }
                }
                b.append(!list_null(r, d));
            }
            Arc::new(b.finish())
        }
        Kind::StructPQ => Arc::new(gen_pq(r, d, n, true)),
        Kind::DictI32Utf8 => {
            let v: Vec<Option<usize>> = (0..n).map(|i| if isnull(r, d) { None } else { Some(if d.mode == 2 { 0 } else { ((i as u64 + r.below(5)) % 9) as usize }) }).collect();
            if d.shared_dict || v.iter().all(|x| x.is_none()) {
                let dict = StringArray::from((0..9).map(|j| format!("d{j}")).collect::<Vec<_>>());
                let keys: Int32Array = v.iter().map(|x| x.map(|j| j as i32)).collect();
                Arc::new(DictionaryArray::<Int32Type>::try_new(keys, Arc::new(dict)).unwrap())
            } else {
                let sv: Vec<Option<String>> = v.iter().map(|x| x.map(|j| format!("d{j}"))).collect();
                let a: DictionaryArray<Int32Type> = sv.iter().map(|x| x.as_deref()).collect();
                Arc::new(a)
            }
        }
        Kind::DictI8Utf8 => {
            let v: Vec<Option<usize>> = (0..n).map(|i| if isnull(r, d) { None } else { Some(((i as u64 + r.below(3)) % 5) as usize) }).collect();
            if d.shared_dict || v.iter().all(|x| x.is_none()) {
                let dict = StringArray::from((0..5).map(|j| format!("e{j}")).collect::<Vec<_>>());
                let keys: Int8Array = v.iter().map(|x| x.map(|j| j as i8)).collect();
                Arc::new(DictionaryArray::<Int8Type>::try_new(keys, Arc::new(dict)).unwrap())
            } else {
                let sv: Vec<Option<String>> = v.iter().map(|x| x.map(|j| format!("e{j}"))).collect();
                let a: DictionaryArray<Int8Type> = sv.iter().map(|x| x.as_deref()).collect();
                Arc::new(a)
            }
        }
        Kind::ListStruct => {
            // struct items are never null (List<Struct> with null items is C25/C27's finding F21)
            let lens: Vec<usize> = (0..n).map(|_| r.below(3) as usize).collect();
            let tot: usize = lens.iter().sum();
            let dd = Dist { nullp: if d.item_nulls { d.nullp } else { 0 }, mode: if !d.item_nulls && d.mode == 1 { 0 } else { d.mode }, ..*d };
            let inner = gen_pq(r, &dd, tot, false);
            let nulls = NullBuffer::from((0..n).map(|i| !(lens[i] == 0 && list_null(r, d))).collect::<Vec<bool>>());
            let f = Arc::new(Field::new("item", DataType::Struct(pq_fields()), true));
            Arc::new(ListArray::try_new(f, OffsetBuffer::from_lengths(lens), Arc::new(inner), Some(nulls)).unwrap())
        }
        Kind::StructNested => {
            let a: Int32Array = (0..n).map(|i| if isnull(r, d) { None } else { Some(int_val(r, d, i) as i32) }).collect();
            let inner = gen_pq(r, d, n, true);
            let l = gen_list_i32(r, d, n);
            let DataType::Struct(fields) = data_type(Kind::StructNested) else { unreachable!() };
            let nulls = NullBuffer::from((0..n).map(|_| !isnull(r, d)).collect::<Vec<bool>>());
            Arc::new(StructArray::try_new(fields, vec![Arc::new(a), Arc::new(inner), Arc::new(l)], Some(nulls)).unwrap())
        }
        Kind::ListList => {
            let mut b = ListBuilder::new(ListBuilder::new(Int32Builder::new()));
            for i in 0..n {
                if list_null(r, d) {
                    b.append(false);
                } else {
                    for _ in 0..r.below(3) {
                        if item_null(r, d) {
                            b.values().append(false);
                        } else {
                            for _ in 0..r.below(3) {
                                if item_null(r, d) {
                                    b.values().values().append_null();
                                } else {
                                    b.values().values().append_value(int_val(r, d, i) as i32);
                                }
                            }
                            b.values().append(true);
                        }
                    }
                    b.append(true);
                }
            }
            Arc::new(b.finish())
        }
    }
}

pub fn schema_of(kinds: &[Kind]) -> SchemaRef {
    let mut fields = vec![Field::new("id", DataType::Int64, false)];
    for (i, k) in kinds.iter().enumerate() {
        fields.push(Field::new(format!("c{i}"), data_type(*k), true));
    }
    Arc::new(Schema::new(fields))
}

/// a batch of `n` rows with ids `start..start+n` in column `id`; sometimes a slice of a larger batch
/// (non-zero array offsets)
pub fn gen_batch(kinds: &[Kind], r: &mut Rng, d: &Dist, start: i64, n: usize) -> RecordBatch {
    let (pre, post) = if r.chance(1, 3) { (r.below(4) as usize, r.below(3) as usize) } else { (0, 0) };
    let tot = pre + n + post;
    let ids: Int64Array = (0..tot).map(|k| Some(start - pre as i64 + k as i64)).collect();
    let mut cols: Vec<ArrayRef> = vec![Arc::new(ids)];
    for k in kinds {
        cols.push(gen_col(*k, r, d, tot));
    }
    RecordBatch::try_new(schema_of(kinds), cols).unwrap().slice(pre, n)
}

// ---------------------------------------------------------------- expected read-back

fn zero_fill(a: &ArrayRef) -> ArrayRef {
    // null slots -> zero value / empty, validity removed (what a format without validity stores)
    use arrow_select::zip::zip;
    if a.null_count() == 0 {
        return a.clone();
    }
    let mask = BooleanArray::from((0..a.len()).map(|i| a.is_valid(i)).collect::<Vec<bool>>());
    let zeros = arrow_array::new_null_array(a.data_type(), 0);
    let _ = zeros;
    let z = zero_array(a.data_type(), a.len());
    zip(&mask, a, &z).unwrap()
}

fn zero_array(dt: &DataType, n: usize) -> ArrayRef {
    let data = arrow_data::ArrayData::new_null(dt, n);
    // new_null gives all-null with zeroed buffers; rebuild without the null buffer
    let b = data.into_builder().nulls(None).null_count(0);
    arrow_array::make_array(unsafe { b.build_unchecked() })
}

/// What a full scan is expected to return for `a` written with `version`:
/// * 0.1 (legacy): no validity for primitives, lists and fixed-size lists: nulls read back as zero / empty;
/// * 0.1 and 2.0: no struct-level validity: a null struct reads back as a struct of its children
/// * everything else: identical.
pub fn normalize(a: &ArrayRef, version: LanceFileVersion) -> ArrayRef {
    let legacy = version == LanceFileVersion::Legacy;
    let no_struct_validity = legacy || version == LanceFileVersion::V2_0;
    match a.data_type() {
        DataType::Struct(fields) => {
            let s = a.as_any().downcast_ref::<StructArray>().unwrap();
            let cols: Vec<ArrayRef> = s.columns().iter().map(|c| normalize(c, version)).collect();
            let nulls = if no_struct_validity { None } else { s.nulls().cloned() };
            Arc::new(StructArray::try_new(fields.clone(), cols, nulls).unwrap())
        }
        DataType::List(f) => {
            let l = a.as_any().downcast_ref::<ListArray>().unwrap();
            let l = if legacy { zero_fill(a) } else { Arc::new(l.clone()) };
            let l = l.as_any().downcast_ref::<ListArray>().unwrap();
            let vals = normalize(l.values(), version);
            Arc::new(ListArray::try_new(f.clone(), l.offsets().clone(), vals, l.nulls().cloned()).unwrap())
        }
        DataType::LargeList(f) => {
            let l = if legacy { zero_fill(a) } else { a.clone() };
            let l = l.as_any().downcast_ref::<LargeListArray>().unwrap();
            let vals = normalize(l.values(), version);
            Arc::new(LargeListArray::try_new(f.clone(), l.offsets().clone(), vals, l.nulls().cloned()).unwrap())
        }
        DataType::FixedSizeList(f, sz) => {
            let l = a.as_any().downcast_ref::<FixedSizeListArray>().unwrap();
            let vals = normalize(l.values(), version);
            let nulls = if legacy { None } else { l.nulls().cloned() };
            Arc::new(FixedSizeListArray::try_new(f.clone(), *sz, vals, nulls).unwrap())
        }
        DataType::Dictionary(_, _) if legacy => {
            // the keys are a primitive array: no validity in 0.1, a null key reads back as key 0
            use arrow_array::cast::AsArray;
            let any = a.as_any_dictionary();
            let keys: ArrayRef = zero_fill(&make_array(any.keys().to_data()));
            arrow_select::take::take(any.values().as_ref(), keys.as_ref(), None).unwrap()
        }
        DataType::Utf8 | DataType::LargeUtf8 | DataType::Binary | DataType::LargeBinary | DataType::Dictionary(_, _) => a.clone(),
        _ => {
            if legacy {
                zero_fill(a)
            } else {
                a.clone()
            }
        }
    }
}

/// Dictionary columns are compared by value (the dictionary itself may be re-built by the reader).
fn canon(a: &ArrayRef) -> ArrayRef {
    match a.data_type() {
        DataType::Dictionary(_, v) => arrow_cast::cast(a, v).unwrap(),
        _ => a.clone(),
    }
}

/// first difference between the batches written (normalised per batch, then concatenated) and the scan, or None
pub fn diff_batches(expected: &[RecordBatch], schema: &SchemaRef, got: &RecordBatch, version: LanceFileVersion) -> Option<String> {
    let rows: usize = expected.iter().map(|b| b.num_rows()).sum();
    if rows != got.num_rows() {
        return Some(format!("rows {} vs {}", rows, got.num_rows()));
    }
    if schema.fields().len() != got.num_columns() {
        return Some(format!("columns {} vs {}", schema.fields().len(), got.num_columns()));
    }
    for (i, f) in schema.fields().iter().enumerate() {
        let Some(gc) = got.column_by_name(f.name()) else { return Some(format!("missing column {}", f.name())) };
        if got.schema().field(i).name() != f.name() {
            return Some(format!("column order: position {i} is {} expected {}", got.schema().field(i).name(), f.name()));
        }
        if f.data_type() != gc.data_type() {
            return Some(format!("column {} type {:?} vs {:?}", f.name(), f.data_type(), gc.data_type()));
        }
        // per batch: the dictionary a null key falls back to (0.1) is the dictionary of THAT batch
        let parts: Vec<ArrayRef> = expected.iter().map(|b| canon(&normalize(b.column(i), version))).collect();
        let gn = canon(gc);
        let en: ArrayRef = if parts.is_empty() {
            arrow_array::new_empty_array(gn.data_type())
        } else {
            arrow_select::concat::concat(&parts.iter().map(|p| p.as_ref()).collect::<Vec<_>>()).unwrap()
        };
        if en.to_data() != gn.to_data() {
            for r in 0..en.len() {
                if en.slice(r, 1).to_data() != gn.slice(r, 1).to_data() {
                    let show = |a: &ArrayRef| {
                        let opts = arrow_cast::display::FormatOptions::default().with_null("NULL");
                        arrow_cast::display::ArrayFormatter::try_new(a.as_ref(), &opts).map(|f| f.value(r).to_string()).unwrap_or_else(|_| "?".into()).chars().take(200).collect::<String>()
                    };
                    return Some(format!("column {} row {}: expected {} got {}", f.name(), r, show(&en), show(&gn)));
                }
            }
            return Some(format!("column {} differs (no single row)", f.name()));
        }
    }
    None
}
