//! End-to-end arm: histories of create / append / overwrite on tables in a temp dir, through
//! Dataset::write, Dataset::append and InsertBuilder, with generated Arrow data of every supported kind,
//! random batch boundaries, max_rows_per_file / max_rows_per_group, storage versions 0.1 / 2.0 / 2.1 / 2.2.
//!
//! After every call: (a) direct oracles on the implementation alone - ordered scan == concatenation of the
//! batches written since the last overwrite (Arrow logical equality modulo the documented per-version
//! normalisations), count_rows, fragment shape; failed calls leave the table unchanged -
//! (b) the manifest (version, fragment ids, physical_rows, max_fragment_id) is recorded and compared with
//! Table/Model_Write.v run over the same history inside coqc.
use crate::common::*;
use crate::gen::*;
use crate::unit::frags_oracle;
use arrow_array::RecordBatch;
use arrow_schema::SchemaRef;
use futures::TryStreamExt;
use hxlib::util::{coq, Args, Rng, Sink, Stream};
use lance::dataset::{InsertBuilder, WriteDestination, WriteMode, WriteParams};
use lance::Dataset;
use lance_file::version::LanceFileVersion;
use serde_json::{json, Value};
use std::sync::Arc;

/// kinds the e2e arm draws from for a table of `version` (see the domain notes in main.rs)
pub fn kinds_for(version: LanceFileVersion) -> Vec<Kind> {
    ALL_KINDS
        .iter()
        .copied()
        .filter(|k| match version {
            // List<List<..>> in 2.1 / 2.2: C27's composite rep/def finding classes
            LanceFileVersion::V2_1 | LanceFileVersion::V2_2 => *k != Kind::ListList,
            _ => true,
        })
        .collect()
}

pub fn dist_for(rng: &mut Rng, version: LanceFileVersion) -> Dist {
    let mode = match rng.below(10) {
        0 => 1,
        1 | 2 => 2,
        3 | 4 => 3,
        _ => 0,
    };
    let nullp = *rng.pick(&[0u64, 10, 50, 90]);
    let v21 = matches!(version, LanceFileVersion::V2_1 | LanceFileVersion::V2_2);
    Dist {
        mode,
        nullp,
        // 2.1 / 2.2: null ITEMS inside lists are C27's finding classes (allvalid_list_over_nullable_items, ...)
        item_nulls: !v21 && rng.bool(),
        list_nulls: rng.chance(3, 4),
        // the legacy format stores one dictionary per column; 2.x re-encodes per page
        shared_dict: is_legacy(version) || mode == 1 || rng.bool(),
        // legacy conflates "" and NULL for strings; 2.1+ full-zip decode of >= 256 byte values (C25/C26 territory)
        no_empty_str: is_legacy(version),
        max_str: if v21 { 200 } else { 300 },
    }
}

#[derive(Clone)]
pub struct Step {
    pub mode: u64, // 0 create, 1 append, 2 overwrite
    pub version: Option<LanceFileVersion>,
    pub max: u64,
    pub g: u64,
    pub bmode: u64,
    pub items: Vec<Option<RecordBatch>>,
    pub schema: SchemaRef,
    pub kinds: Vec<Kind>,
    /// 0 Dataset::write(uri), 1 Dataset::append on the handle, 2 InsertBuilder on Arc<Dataset>
    pub via: u64,
    pub stable_row_ids: bool,
    pub scan_batch_size: Option<usize>,
}

pub struct Table {
    pub _dir: tempfile::TempDir,
    pub uri: String,
    pub ds: Option<Dataset>,
    pub version: LanceFileVersion,
    pub kinds: Vec<Kind>,
    /// batches written since the last overwrite
    pub expected: Vec<RecordBatch>,
    pub next_id: i64,
    pub stable: bool,
}

impl Table {
    pub fn new() -> Table {
        let dir = tempfile::tempdir().unwrap();
        let uri = dir.path().join("t.lance").to_str().unwrap().to_string();
        Table { _dir: dir, uri, ds: None, version: LanceFileVersion::V2_0, kinds: vec![], expected: vec![], next_id: 0, stable: false }
    }
}

fn params_of(st: &Step) -> WriteParams {
    WriteParams {
        mode: match st.mode {
            0 => WriteMode::Create,
            1 => WriteMode::Append,
            _ => WriteMode::Overwrite,
        },
        max_rows_per_file: st.max as usize,
        max_rows_per_group: st.g as usize,
        max_bytes_per_file: if st.bmode == 1 { 1 } else { WriteParams::default().max_bytes_per_file },
        data_storage_version: st.version,
        enable_stable_row_ids: st.stable_row_ids,
        ..Default::default()
    }
}

async fn do_step(ds: Option<Dataset>, uri: String, st: Step) -> Guarded<Dataset> {
    guarded(async move {
        let params = params_of(&st);
        let reader = reader_of(&st.items, st.schema.clone());
        match (st.via, ds) {
            (1, Some(mut ds)) if st.mode == 1 => {
                ds.append(reader, Some(params)).await?;
                Ok(ds)
            }
            (2, Some(ds)) if st.mode != 0 => InsertBuilder::new(WriteDestination::Dataset(Arc::new(ds))).with_params(&params).execute_stream(reader).await,
            _ => Dataset::write(reader, uri.as_str(), Some(params)).await,
        }
    })
    .await
}

async fn read_back(ds: Dataset, batch_size: Option<usize>, schema: SchemaRef) -> Guarded<(RecordBatch, usize)> {
    guarded(async move {
        let mut sc = ds.scan();
        sc.scan_in_order(true);
        if let Some(bs) = batch_size {
            sc.batch_size(bs);
        }
        let got: Vec<RecordBatch> = sc.try_into_stream().await?.try_collect().await?;
        let gs = got.first().map(|b| b.schema()).unwrap_or(schema);
        let all = arrow_select::concat::concat_batches(&gs, got.iter()).map_err(|e| lance::Error::invalid_input(e.to_string(), snafu::location!()))?;
        let n = ds.count_rows(None).await?;
        Ok((all, n))
    })
    .await
}

fn step_json(st: &Step) -> Value {
    let mode_name = ["create", "append", "overwrite"][st.mode as usize];
    json!({"mode": mode_name, "data_storage_version": st.version.map(version_name), "max_rows_per_file": st.max,
        "max_rows_per_group": st.g, "byte_mode": st.bmode, "batch_rows": sizes_of(&st.items), "columns": format!("{:?}", st.kinds), "via": st.via, "stable_row_ids": st.stable_row_ids})
}

fn coq_step(st: &Step) -> String {
    format!(
        "({}, {}, ({}, {}), {}, {})",
        st.mode,
        coq::opt(st.version.map(|v| coq::b(is_legacy(v)))),
        st.max,
        st.g,
        st.bmode,
        coq_sizes(&sizes_of(&st.items))
    )
}

/// Generate the next step of a history given the table state.
pub fn gen_step(rng: &mut Rng, t: &Table, big: bool) -> (Step, Dist) {
    let exists = t.ds.is_some();
    let mode = if !exists {
        *rng.pick(&[0u64, 0, 0, 1, 2])
    } else {
        match rng.below(12) {
            0 => 0, // must fail: already exists
            1..=7 => 1,
            _ => 2,
        }
    };
    // effective mode / version / schema
    let eff_mode = if !exists { 0 } else { mode };
    let version = if rng.chance(1, 4) { None } else { Some(*rng.pick(&VERSIONS)) };
    // stable row ids are fixed when the table is created (a later call cannot switch them on), 2.x only
    let version = if exists && t.stable && version == Some(LanceFileVersion::Legacy) { None } else { version };
    let eff_version = match (exists, eff_mode) {
        (true, 1) => t.version,
        (true, 0) => t.version,
        (true, _) => version.unwrap_or(t.version),
        (false, _) => version.unwrap_or(LanceFileVersion::V2_0),
    };
    let kinds: Vec<Kind> = if exists && eff_mode != 2 {
        t.kinds.clone()
    } else {
        let mut pool = kinds_for(eff_version);
        // overwriting a 0.1 table with 2.1 / 2.2 list or struct columns is rejected (finding class
        // Known_C11_overwrite_legacy_with_v21_nested, exercised by the `known` arm)
        if exists && is_legacy(t.version) && matches!(eff_version, LanceFileVersion::V2_1 | LanceFileVersion::V2_2) {
            pool.retain(|k| !matches!(k, Kind::ListI32 | Kind::LargeListUtf8 | Kind::StructPQ | Kind::ListStruct | Kind::StructNested | Kind::ListList));
        }
        let n = rng.range(1, 4) as usize;
        (0..n).map(|_| *rng.pick(&pool)).collect()
    };
    let d = dist_for(rng, eff_version);
    let max = if rng.chance(1, 40) { 1 << 20 } else { *rng.pick(&[1u64, 2, 3, 5, 7, 10, 16, 33, 64, 100, 1000]) };
    let g = *rng.pick(&[1u64, 2, 3, 4, 7, 10, 64, 1024, 100000]);
    let bmode = if is_legacy(eff_version) && rng.chance(1, 5) { 1 } else { 0 };
    let nb = match rng.below(10) {
        0 => 0,
        1 => 1,
        _ => rng.range(1, 5),
    } as usize;
    let with_err = rng.chance(1, 15);
    // 0.1 takes the dictionary of a dictionary column from the first batch of the reader: a reader without a
    // first batch is rejected ("misses dictionary info" / "dictionary did not match"), so give it one
    let needs_first = is_legacy(eff_version) && kinds.iter().any(|k| matches!(k, Kind::DictI32Utf8 | Kind::DictI8Utf8));
    let nb = if needs_first { nb.max(1) } else { nb };
    let mut first = true;
    let mut start = if eff_mode == 1 { t.next_id } else { 0 };
    let items: Vec<Option<RecordBatch>> = (0..nb)
        .map(|_| {
            let is_first = std::mem::replace(&mut first, false);
            if with_err && rng.chance(1, 2) && !(needs_first && is_first) {
                return None;
            }
            let n = match rng.below(12) {
                0 | 1 => 0,
                2 => 1,
                3 => max.min(300),
                4 => (max + 1).min(300),
                5 => (2 * max).min(300),
                6 if big => rng.range(300, 1500),
                _ => rng.range(1, 60),
            } as usize;
            // cap the fragment count of one write
            let n = if max <= 3 { n.min(40) } else { n };
            let b = gen_batch(&kinds, rng, &d, start, n);
            start += n as i64;
            Some(b)
        })
        .collect();
    let schema = schema_of(&kinds);
    let via = rng.below(3);
    let stable_row_ids = if exists { t.stable } else { !is_legacy(eff_version) && rng.chance(1, 4) };
    let scan_batch_size = match rng.below(4) {
        0 => Some(1 + rng.below(5) as usize),
        1 => Some(33),
        _ => None,
    };
    (Step { mode, version, max, g, bmode, items, schema, kinds, via, stable_row_ids, scan_batch_size }, d)
}

/// Run one history; pushes one correspondence case and the oracle verdicts.
pub fn run_history(rt: &tokio::runtime::Runtime, sink: &mut Sink, s: &mut Stream, steps_in: Vec<Step>, rng: Option<(&mut Rng, usize, bool)>) {
    run_history_class(rt, sink, Some(s), steps_in, rng, None)
}

/// `class`: the known-finding class every step of this (fixed) history lies in; such histories are not
/// sent to the model (`s` = None).
pub fn run_history_class(rt: &tokio::runtime::Runtime, sink: &mut Sink, s: Option<&mut Stream>, steps_in: Vec<Step>, rng: Option<(&mut Rng, usize, bool)>, class: Option<&str>) {
    let mut t = Table::new();
    let mut coq_steps: Vec<String> = vec![];
    let mut coq_outs: Vec<String> = vec![];
    let mut human_steps: Vec<Value> = vec![];
    let mut fixed = steps_in.into_iter();
    let (mut rng, nsteps, big) = match rng {
        Some((r, n, b)) => (Some(r), n, b),
        None => (None, usize::MAX, false),
    };
    let mut k = 0;
    loop {
        if k >= nsteps {
            break;
        }
        let st = match fixed.next() {
            Some(s) => s,
            None => match rng.as_mut() {
                Some(r) => gen_step(r, &t, big).0,
                None => break,
            },
        };
        k += 1;
        let exists = t.ds.is_some();
        let eff_mode = if !exists { 0 } else { st.mode };
        let has_err = st.items.iter().any(|i| i.is_none());
        let must_fail = has_err || (exists && st.mode == 0);
        let res = rt.block_on(do_step(t.ds.clone(), t.uri.clone(), st.clone()));
        let mut hj = step_json(&st);
        sink.count(&format!("e2e:{}", ["create", "append", "overwrite"][eff_mode as usize]));
        match res {
            Err((is_panic, msg)) => {
                hj["result"] = json!(format!("{}: {}", if is_panic { "PANIC" } else { "Err" }, msg));
                human_steps.push(hj.clone());
                if is_panic || !must_fail {
                    sink.oracle_fail(class, if is_panic { "write panicked" } else { "write failed on an input in the domain" }, json!({"history": human_steps}));
                } else {
                    sink.oracle_ok();
                }
                sink.count("e2e:failed-call");
                coq_steps.push(coq_step(&st));
                coq_outs.push(if is_panic { "Panic".into() } else { "Err".into() });
                // the table must be unchanged: re-open and compare below
                if exists {
                    let ds = rt.block_on(guarded({
                        let uri = t.uri.clone();
                        async move { Dataset::open(&uri).await }
                    }));
                    match ds {
                        Ok(ds) => {
                            if Some(ds.manifest().version) != t.ds.as_ref().map(|d| d.manifest().version) {
                                sink.oracle_fail(class, "a failed write changed the table version", json!({"history": human_steps}));
                            } else {
                                sink.oracle_ok();
                            }
                        }
                        Err((_, m)) => sink.oracle_fail(class, "table cannot be opened after a failed write", json!({"history": human_steps, "error": m})),
                    }
                }
            }
            Ok(ds) => {
                if must_fail {
                    hj["result"] = json!("Ok");
                    human_steps.push(hj.clone());
                    sink.oracle_fail(class, "write succeeded although it must fail (reader error / create over an existing table)", json!({"history": human_steps}));
                    break;
                }
                // update the expected table
                let prev_frags: Vec<(u64, u64)> = t.ds.as_ref().map(|d| view_of_manifest(d.manifest()).1).unwrap_or_default();
                let new_batches: Vec<RecordBatch> = st.items.iter().flatten().cloned().collect();
                let written: i64 = new_batches.iter().map(|b| b.num_rows() as i64).sum();
                if eff_mode == 1 {
                    t.expected.extend(new_batches);
                    t.next_id += written;
                } else {
                    t.expected = new_batches;
                    t.next_id = written;
                    t.kinds = st.kinds.clone();
                    t.version = match (exists, st.version) {
                        (_, Some(v)) => v,
                        (true, None) => t.version,
                        (false, None) => LanceFileVersion::V2_0,
                    };
                }
                let view = view_of_manifest(ds.manifest());
                hj["result"] = json!({"version": view.0, "fragments(id,rows)": view.1, "max_fragment_id": view.2});
                human_steps.push(hj.clone());
                let case = json!({"history": human_steps});
                // storage version the table reports
                let reported = ds.manifest().data_storage_format.lance_file_version().ok();
                if reported.map(|v| v.resolve()) != Some(t.version.resolve()) {
                    sink.oracle_fail(class, &format!("table reports storage version {:?}, expected {}", reported, version_name(t.version)), case.clone());
                } else {
                    sink.oracle_ok();
                }
                // fragment shape of this write
                let new_rows: Vec<u64> = if eff_mode == 1 { view.1[prev_frags.len().min(view.1.len())..].iter().map(|f| f.1).collect() } else { view.1.iter().map(|f| f.1).collect() };
                if eff_mode == 1 && (view.1.len() < prev_frags.len() || view.1[..prev_frags.len()] != prev_frags[..]) {
                    sink.oracle_fail(class, "append changed the existing fragments", case.clone());
                } else {
                    sink.oracle_ok();
                }
                if !view.1.windows(2).all(|w| w[0].0 < w[1].0) {
                    sink.oracle_fail(class, "fragment ids are not strictly increasing", case.clone());
                } else {
                    sink.oracle_ok();
                }
                match frags_oracle(is_legacy(t.version), st.max, st.g, st.bmode, &sizes_of(&st.items), &Ok(new_rows)) {
                    None => sink.oracle_ok(),
                    Some((cl, what)) => sink.oracle_fail(cl.or(class), &what, case.clone()),
                }
                // ordered scan == expected, count_rows
                let schema = schema_of(&t.kinds);
                let expected_rows: usize = t.expected.iter().map(|b| b.num_rows()).sum();
                let reopen = rng.as_mut().map(|r| r.chance(1, 3)).unwrap_or(true);
                let rds = if reopen {
                    match rt.block_on(guarded({
                        let uri = t.uri.clone();
                        async move { Dataset::open(&uri).await }
                    })) {
                        Ok(d) => d,
                        Err((_, m)) => {
                            sink.oracle_fail(class, "table cannot be re-opened after a successful write", json!({"history": human_steps, "error": m}));
                            break;
                        }
                    }
                } else {
                    ds.clone()
                };
                match rt.block_on(read_back(rds, st.scan_batch_size, schema.clone())) {
                    Err((p, m)) => {
                        sink.oracle_fail(class, if p { "scan panicked" } else { "scan failed" }, json!({"history": human_steps, "error": m}));
                    }
                    Ok((got, n)) => {
                        match diff_batches(&t.expected, &schema, &got, t.version) {
                            None => sink.oracle_ok(),
                            Some(d) => sink.oracle_fail(class, &format!("ordered scan differs from the rows written since the last overwrite: {d}"), case.clone()),
                        }
                        if n != expected_rows {
                            sink.oracle_fail(class, &format!("count_rows = {n}, expected {}", expected_rows), case.clone());
                        } else {
                            sink.oracle_ok();
                        }
                    }
                }
                sink.count(&format!("e2e:version-{}", version_name(t.version)));
                for kd in &t.kinds {
                    sink.count(&format!("e2e:kind-{:?}", kd));
                }
                coq_steps.push(coq_step(&st));
                coq_outs.push(format!("(Ok {})", coq_man_view(&view)));
                if !exists {
                    t.stable = st.stable_row_ids;
                }
                t.ds = Some(ds);
            }
        }
    }
    if let Some(s) = s {
        let inp = coq::list(coq_steps);
        sink.nontrivial(&inp);
        s.push(inp, coq::list(coq_outs), json!({"history": human_steps}));
    }
}

pub fn run(args: &Args, sink: &mut Sink, rng: &mut Rng, rt: &tokio::runtime::Runtime) {
    let mut s = Stream::new("hist", REQ, "chk_history", "list step_in", "list (outcome man_view)");
    s.shard = 12;
    for k in 0..args.vol(70, 900) {
        let n = rng.range(1, 5) as usize;
        let big = k % 7 == 0;
        let mut r = rng.fork();
        run_history(rt, sink, &mut s, vec![], Some((&mut r, n, big)));
    }
    sink.add(s);
}
