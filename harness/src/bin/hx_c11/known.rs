//! Fixed histories (regressions that always run) and the inputs of C11's known-finding classes.
use crate::common::*;
use crate::e2e::{run_history, run_history_class, Step};
use arrow_array::{ArrayRef, DictionaryArray, Int32Array, Int64Array, RecordBatch, StringArray};
use arrow_array::types::Int32Type;
use std::sync::Arc;
use crate::gen::*;
use hxlib::util::{Args, Rng, Sink, Stream};
use lance_file::version::LanceFileVersion;

fn step(mode: u64, version: Option<LanceFileVersion>, max: u64, g: u64, bmode: u64, sizes: &[Option<usize>], kinds: &[Kind], start: i64, table_version: LanceFileVersion) -> Step {
    let mut rng = Rng::new(7);
    let d = Dist { mode: 0, nullp: 10, item_nulls: false, list_nulls: true, shared_dict: true, no_empty_str: is_legacy(table_version), max_str: 100 };
    let mut s = start;
    let items = sizes
        .iter()
        .map(|x| {
            x.map(|n| {
                let b = gen_batch(kinds, &mut rng, &d, s, n);
                s += n as i64;
                b
            })
        })
        .collect();
    Step { mode, version, max, g, bmode, items, schema: schema_of(kinds), kinds: kinds.to_vec(), via: 0, stable_row_ids: false, scan_batch_size: None }
}

pub fn run(_args: &Args, sink: &mut Sink, _rng: &mut Rng, rt: &tokio::runtime::Runtime) {
    let mut s = Stream::new("fixed", REQ, "chk_history", "list step_in", "list (outcome man_view)");
    s.shard = 8;
    use LanceFileVersion::*;
    let k1 = [Kind::I32, Kind::Utf8];
    let k2 = [Kind::F64];
    // create 25 rows in files of 10; append; overwrite as legacy with groups of 3; create again must fail
    run_history(
        rt,
        sink,
        &mut s,
        vec![
            step(0, None, 10, 1024, 0, &[Some(25)], &k1, 0, V2_0),
            step(1, None, 4, 1024, 0, &[Some(3), Some(3)], &k1, 25, V2_0),
            step(2, Some(Legacy), 4, 2, 0, &[Some(10)], &k2, 0, Legacy),
            step(0, None, 4, 3, 0, &[Some(1)], &k2, 0, Legacy),
            step(1, Some(V2_1), 4, 2, 1, &[Some(5), Some(0), Some(4)], &k2, 10, Legacy),
        ],
        None,
    );
    // empty creations, then append / overwrite
    for v in VERSIONS {
        run_history(
            rt,
            sink,
            &mut s,
            vec![
                step(0, Some(v), 5, 2, 0, &[], &k1, 0, v),
                step(1, None, 5, 2, 0, &[Some(0)], &k1, 0, v),
                step(1, None, 5, 2, 0, &[Some(7), Some(0), Some(6)], &k1, 0, v),
                step(1, None, 5, 2, 0, &[Some(2), None], &k1, 13, v),
                step(2, None, 3, 2, 0, &[Some(0)], &k1, 0, v),
                step(1, None, 3, 2, 0, &[Some(4)], &k1, 0, v),
            ],
            None,
        );
    }
    // append / overwrite on a path that does not exist behave as create
    run_history(rt, sink, &mut s, vec![step(1, Some(V2_2), 3, 1024, 0, &[Some(7)], &k2, 0, V2_2), step(2, None, 2, 1024, 0, &[Some(3)], &k2, 0, V2_2), step(1, None, 2, 1024, 0, &[Some(3)], &k2, 3, V2_2)], None);
    run_history(rt, sink, &mut s, vec![step(2, None, 3, 1024, 0, &[Some(7)], &k2, 0, V2_0), step(1, None, 1 << 20, 1024, 0, &[Some(3)], &k2, 7, V2_0)], None);
    sink.add(s);

    // ---- inputs of the finding classes listed for C11 in KNOWN_FINDINGS.txt (not sent to the model)
    // (3) overwrite of a 0.1 table with 2.1 / 2.2 list or struct columns is rejected
    for (v, k) in [(V2_1, Kind::ListI32), (V2_2, Kind::StructPQ), (V2_1, Kind::LargeListUtf8)] {
        run_history_class(
            rt,
            sink,
            None,
            vec![step(0, Some(Legacy), 10, 4, 0, &[Some(6)], &k2, 0, Legacy), step(2, Some(v), 10, 4, 0, &[Some(5)], &[k], 0, v)],
            None,
            Some("Known_C11_overwrite_legacy_with_v21_nested"),
        );
    }
    // (4) 0.1 keeps one dictionary per column and file: batches with different dictionaries
    {
        let kinds = [Kind::DictI32Utf8];
        let mk = |start: i64, vals: &[&str], keys: &[i32]| -> RecordBatch {
            let ids: ArrayRef = Arc::new(Int64Array::from((start..start + keys.len() as i64).collect::<Vec<_>>()));
            let dict = StringArray::from(vals.to_vec());
            let d: ArrayRef = Arc::new(DictionaryArray::<Int32Type>::try_new(Int32Array::from(keys.to_vec()), Arc::new(dict)).unwrap());
            RecordBatch::try_new(schema_of(&kinds), vec![ids, d]).unwrap()
        };
        let mut st = step(0, Some(Legacy), 100, 10, 0, &[], &kinds, 0, Legacy);
        st.items = vec![Some(mk(0, &["a", "b"], &[0, 1, 1])), Some(mk(3, &["c", "b", "a"], &[0, 1, 2]))];
        run_history_class(rt, sink, None, vec![st], None, Some("Known_C11_legacy_dictionary_per_batch"));
    }
    // (5) 0.1 conflates the empty string with NULL
    {
        let kinds = [Kind::Utf8];
        let ids: ArrayRef = Arc::new(Int64Array::from(vec![0i64, 1, 2, 3]));
        let sv: ArrayRef = Arc::new(StringArray::from(vec![Some(""), Some("a"), None, Some("")]));
        let b = RecordBatch::try_new(schema_of(&kinds), vec![ids, sv]).unwrap();
        let mut st = step(0, Some(Legacy), 100, 10, 0, &[], &kinds, 0, Legacy);
        st.items = vec![Some(b)];
        run_history_class(rt, sink, None, vec![st], None, Some("Known_C11_legacy_empty_string_reads_null"));
    }
}
