//! exploration only (not part of the check): read-back behaviour per (type, version)
use crate::gen::*;
use arrow_array::{RecordBatch, RecordBatchIterator};
use futures::TryStreamExt;
use hxlib::util::{Args, Rng};
use lance::dataset::{WriteMode, WriteParams};
use lance::Dataset;
use lance_file::version::LanceFileVersion;

pub const VERSIONS: [LanceFileVersion; 4] = [LanceFileVersion::Legacy, LanceFileVersion::V2_0, LanceFileVersion::V2_1, LanceFileVersion::V2_2];

pub fn run(args: &Args) -> i32 {
    let rt = tokio::runtime::Builder::new_multi_thread().worker_threads(4).enable_all().build().unwrap();
    let mut rng = Rng::new(args.seed);
    for k in ALL_KINDS {
        for v in VERSIONS {
            for (item_nulls, list_nulls) in [(false, true), (true, true), (true, false), (false, false)] {
                for mode in [0u64, 1, 3] {
                    let shared_dict = v == LanceFileVersion::Legacy || mode == 1 || args.rest.iter().any(|x| x == "shared");
                    let d = Dist { mode, nullp: 30, item_nulls, list_nulls, shared_dict, no_empty_str: v == LanceFileVersion::Legacy, max_str: if args.rest.iter().any(|x| x == "wide") { 300 } else { 200 } };
                    let kinds = [k];
                    let mut start = 0i64;
                    let batches: Vec<RecordBatch> = [9usize, 0, 14]
                        .iter()
                        .map(|n| {
                            let b = gen_batch(&kinds, &mut rng, &d, start, *n);
                            start += *n as i64;
                            b
                        })
                        .collect();
                    let schema = schema_of(&kinds);
                    let expected = arrow_select::concat::concat_batches(&schema, batches.iter()).unwrap();
                    let dir = tempfile::tempdir().unwrap();
                    let uri = dir.path().join("t.lance").to_str().unwrap().to_string();
                    let params = WriteParams { max_rows_per_file: 7, max_rows_per_group: 4, data_storage_version: Some(v), mode: WriteMode::Create, ..Default::default() };
                    let res = rt.block_on(async {
                        let h = tokio::spawn(async move {
                            let reader = RecordBatchIterator::new(batches.into_iter().map(Ok), schema.clone());
                            let ds = Dataset::write(reader, &uri, Some(params)).await.map_err(|e| format!("WRITE-ERR {}", e.to_string().chars().take(200).collect::<String>()))?;
                            let mut sc = ds.scan();
                            sc.scan_in_order(true);
                            let got: Vec<RecordBatch> = sc.try_into_stream().await.map_err(|e| format!("PLAN-ERR {e}"))?.try_collect().await.map_err(|e| format!("SCAN-ERR {}", e.to_string().chars().take(200).collect::<String>()))?;
                            let gs = got.first().map(|b| b.schema()).unwrap_or(schema.clone());
                            let got = arrow_select::concat::concat_batches(&gs, got.iter()).unwrap();
                            let frags: Vec<usize> = ds.fragments().iter().map(|f| f.physical_rows.unwrap_or(0)).collect();
                            Ok::<_, String>((got, frags))
                        });
                        match h.await {
                            Ok(r) => r,
                            Err(e) => Err(format!("PANIC {}", if e.is_panic() { let p = e.into_panic(); p.downcast_ref::<String>().cloned().or(p.downcast_ref::<&str>().map(|s| s.to_string())).unwrap_or_default() } else { "cancel".into() }.chars().take(200).collect::<String>())),
                        }
                    });
                    let tag = format!("{:?} {} item_nulls={} list_nulls={} mode={}", k, v, item_nulls, list_nulls, mode);
                    match res {
                        Ok((got, frags)) => match diff_batches(&[expected.clone()], &expected.schema(), &got, v) {
                            None => println!("ok    {tag} frags={frags:?}"),
                            Some(dmsg) => println!("DIFF  {tag}: {dmsg}"),
                        },
                        Err(e) => println!("FAIL  {tag}: {e}"),
                    }
                }
            }
        }
    }
    0
}

/// which column kinds can overwrite a legacy table with a 2.x storage version?
pub fn run_overwrite(_args: &Args) -> i32 {
    let rt = tokio::runtime::Builder::new_multi_thread().worker_threads(4).enable_all().build().unwrap();
    let mut rng = Rng::new(3);
    for from in [LanceFileVersion::Legacy, LanceFileVersion::V2_0] {
        for v in VERSIONS {
            let mut bad = vec![];
            for k in ALL_KINDS {
                let d = Dist { mode: 0, nullp: 0, item_nulls: false, list_nulls: false, shared_dict: true, no_empty_str: true, max_str: 50 };
                let dir = tempfile::tempdir().unwrap();
                let uri = dir.path().join("t.lance").to_str().unwrap().to_string();
                let k0 = [Kind::I32];
                let b0 = gen_batch(&k0, &mut rng, &d, 0, 5);
                let kinds = [k];
                let b1 = gen_batch(&kinds, &mut rng, &d, 0, 5);
                let r: Result<(), String> = rt.block_on(async {
                    let p0 = WriteParams { data_storage_version: Some(from), ..Default::default() };
                    Dataset::write(RecordBatchIterator::new(vec![Ok(b0)], schema_of(&k0)), &uri, Some(p0)).await.map_err(|e| format!("create: {e}"))?;
                    let p1 = WriteParams { data_storage_version: Some(v), mode: WriteMode::Overwrite, ..Default::default() };
                    Dataset::write(RecordBatchIterator::new(vec![Ok(b1)], schema_of(&kinds)), &uri, Some(p1)).await.map_err(|e| e.to_string().chars().take(90).collect::<String>())?;
                    Ok(())
                });
                if let Err(e) = r {
                    bad.push(format!("{:?}: {}", k, e));
                }
            }
            println!("{} -> {}: {} kinds rejected: {:?}", from, v, bad.len(), bad);
        }
    }
    0
}

pub fn run_legacy(_args: &Args) -> i32 {
    use arrow_array::{Array, ArrayRef, Int64Array, StringArray};
    use std::sync::Arc;
    let rt = tokio::runtime::Builder::new_multi_thread().worker_threads(2).enable_all().build().unwrap();
    for vals in [vec![Some(""), Some("a"), None, Some("")], vec![Some(""), Some("a"), Some("b"), Some("")]] {
        let kinds = [Kind::Utf8];
        let ids: ArrayRef = Arc::new(Int64Array::from((0..vals.len() as i64).collect::<Vec<_>>()));
        let sv: ArrayRef = Arc::new(StringArray::from(vals.clone()));
        let b = RecordBatch::try_new(schema_of(&kinds), vec![ids, sv]).unwrap();
        let dir = tempfile::tempdir().unwrap();
        let uri = dir.path().join("t.lance").to_str().unwrap().to_string();
        let got = rt.block_on(async {
            let p0 = WriteParams { data_storage_version: Some(LanceFileVersion::Legacy), ..Default::default() };
            let ds = Dataset::write(RecordBatchIterator::new(vec![Ok(b)], schema_of(&kinds)), &uri, Some(p0)).await.unwrap();
            let got: Vec<RecordBatch> = ds.scan().try_into_stream().await.unwrap().try_collect().await.unwrap();
            got
        });
        let a = got[0].column(1).as_any().downcast_ref::<StringArray>().unwrap();
        println!("wrote {:?} read {:?}", vals, (0..a.len()).map(|i| if a.is_null(i) { None } else { Some(a.value(i).to_string()) }).collect::<Vec<_>>());
    }
    0
}
