//! exploration only (not part of the check): read-back behaviour per (type, version)
use crate::gen::*;
use arrow_array::{RecordBatch, RecordBatchIterator};
use futures::TryStreamExt;
use hxlib::util::{Args, Rng};
use lance::dataset::{WriteMode, WriteParams};
use lance::Dataset;
use lance_file::version::LanceFileVersion;

pub const VERSIONS: [LanceFileVersion; 4] = [LanceFileVersion::Legacy, LanceFileVersion::V2_0, LanceFileVersion::V2_1, LanceFileVersion::V2_2];

pub fn run(args: &Args) -> i32 {
    let rt = tokio::runtime::Builder::new_multi_thread().worker_threads(4).enable_all().build().unwrap();
    let mut rng = Rng::new(args.seed);
    for k in ALL_KINDS {
        for v in VERSIONS {
            for item_nulls in [false, true] {
                for mode in [0u64, 1] {
                    let d = Dist { mode, nullp: 30, item_nulls };
                    let kinds = [k];
                    let mut start = 0i64;
                    let batches: Vec<RecordBatch> = [9usize, 0, 14]
                        .iter()
                        .map(|n| {
                            let b = gen_batch(&kinds, &mut rng, &d, start, *n);
                            start += *n as i64;
                            b
                        })
                        .collect();
                    let schema = schema_of(&kinds);
                    let expected = arrow_select::concat::concat_batches(&schema, batches.iter()).unwrap();
                    let dir = tempfile::tempdir().unwrap();
                    let uri = dir.path().join("t.lance").to_str().unwrap().to_string();
                    let params = WriteParams { max_rows_per_file: 7, max_rows_per_group: 4, data_storage_version: Some(v), mode: WriteMode::Create, ..Default::default() };
                    let res = rt.block_on(async {
                        let h = tokio::spawn(async move {
                            let reader = RecordBatchIterator::new(batches.into_iter().map(Ok), schema.clone());
                            let ds = Dataset::write(reader, &uri, Some(params)).await.map_err(|e| format!("WRITE-ERR {}", e.to_string().chars().take(200).collect::<String>()))?;
                            let mut sc = ds.scan();
                            sc.scan_in_order(true);
                            let got: Vec<RecordBatch> = sc.try_into_stream().await.map_err(|e| format!("PLAN-ERR {e}"))?.try_collect().await.map_err(|e| format!("SCAN-ERR {}", e.to_string().chars().take(200).collect::<String>()))?;
                            let gs = got.first().map(|b| b.schema()).unwrap_or(schema.clone());
                            let got = arrow_select::concat::concat_batches(&gs, got.iter()).unwrap();
                            let frags: Vec<usize> = ds.fragments().iter().map(|f| f.physical_rows.unwrap_or(0)).collect();
                            Ok::<_, String>((got, frags))
                        });
                        match h.await {
                            Ok(r) => r,
                            Err(e) => Err(format!("PANIC {}", if e.is_panic() { let p = e.into_panic(); p.downcast_ref::<String>().cloned().or(p.downcast_ref::<&str>().map(|s| s.to_string())).unwrap_or_default() } else { "cancel".into() }.chars().take(200).collect::<String>())),
                        }
                    });
                    let tag = format!("{:?} {} item_nulls={} mode={}", k, v, item_nulls, mode);
                    match res {
                        Ok((got, frags)) => match diff_batches(&expected, &got, v) {
                            None => println!("ok    {tag} frags={frags:?}"),
                            Some(dmsg) => println!("DIFF  {tag}: {dmsg}"),
                        },
                        Err(e) => println!("FAIL  {tag}: {e}"),
                    }
                }
            }
        }
    }
    0
}
