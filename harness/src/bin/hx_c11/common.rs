//! Shared helpers of the C11 harness.
use arrow_array::{RecordBatch, RecordBatchIterator, RecordBatchReader};
use arrow_schema::{ArrowError, SchemaRef};
use hxlib::util::coq;
use lance_file::version::LanceFileVersion;
use std::future::Future;

pub const REQ: &str = "Common.Base Io.Model_Chunker Table.Model_Write";
pub const VERSIONS: [LanceFileVersion; 4] = [LanceFileVersion::Legacy, LanceFileVersion::V2_0, LanceFileVersion::V2_1, LanceFileVersion::V2_2];

pub fn runtime() -> tokio::runtime::Runtime {
    tokio::runtime::Builder::new_multi_thread().worker_threads(4).enable_all().build().unwrap()
}

/// Result of an implementation call: Ok | Err(false, msg) returned error | Err(true, msg) panic
pub type Guarded<T> = Result<T, (bool, String)>;

/// Run a fallible async operation on its own task so that a panic is observed, not propagated.
pub async fn guarded<T: Send + 'static>(fut: impl Future<Output = lance::Result<T>> + Send + 'static) -> Guarded<T> {
    match tokio::spawn(fut).await {
        Ok(Ok(v)) => Ok(v),
        Ok(Err(e)) => Err((false, e.to_string().chars().take(300).collect())),
        Err(e) => {
            let is_panic = e.is_panic();
            let msg = if is_panic {
                let p = e.into_panic();
                if let Some(s) = p.downcast_ref::<String>() {
                    s.clone()
                } else if let Some(s) = p.downcast_ref::<&str>() {
                    s.to_string()
                } else {
                    "panic".into()
                }
            } else {
                "cancelled".into()
            };
            Err((is_panic, msg.chars().take(300).collect()))
        }
    }
}

/// silence the default panic hook while `f` runs (panics inside spawned tasks print otherwise)
pub fn quiet_panics() {
    std::panic::set_hook(Box::new(|_| {}));
}

/// an input reader: Some(batch) | None = the reader yields an error at this position
pub fn reader_of(items: &[Option<RecordBatch>], schema: SchemaRef) -> Box<dyn RecordBatchReader + Send> {
    let v: Vec<Result<RecordBatch, ArrowError>> = items
        .iter()
        .map(|i| match i {
            Some(b) => Ok(b.clone()),
            None => Err(ArrowError::ComputeError("injected reader failure".into())),
        })
        .collect();
    Box::new(RecordBatchIterator::new(v, schema))
}

pub fn sizes_of(items: &[Option<RecordBatch>]) -> Vec<Option<u64>> {
    items.iter().map(|i| i.as_ref().map(|b| b.num_rows() as u64)).collect()
}

pub fn coq_sizes(sizes: &[Option<u64>]) -> String {
    coq::list(sizes.iter().map(|s| coq::opt(s.map(coq::n))))
}

pub fn coq_nn_list(v: &[(u64, u64)]) -> String {
    coq::list(v.iter().map(|(a, b)| format!("({}, {})", a, b)))
}

/// (version, [(id, physical_rows)], stored max_fragment_id)
pub type ManView = (u64, Vec<(u64, u64)>, Option<u64>);

pub fn coq_man_view(m: &ManView) -> String {
    format!("({}, {}, {})", m.0, coq_nn_list(&m.1), coq::opt(m.2.map(coq::n)))
}

pub fn view_of_manifest(m: &lance_table::format::Manifest) -> ManView {
    (
        m.version,
        m.fragments.iter().map(|f| (f.id, f.physical_rows.map(|x| x as u64).unwrap_or(u64::MAX))).collect(),
        m.max_fragment_id.map(|x| x as u64),
    )
}

pub fn is_legacy(v: LanceFileVersion) -> bool {
    v == LanceFileVersion::Legacy
}

pub fn version_name(v: LanceFileVersion) -> &'static str {
    match v {
        LanceFileVersion::Legacy => "0.1",
        LanceFileVersion::V2_0 => "2.0",
        LanceFileVersion::V2_1 => "2.1",
        LanceFileVersion::V2_2 => "2.2",
        _ => "other",
    }
}
