//! Scratch probes of the real code (not part of the check): reproduce candidate finding classes by hand.
use arrow_array::{Int32Array, RecordBatch, RecordBatchIterator};
use arrow_schema::{DataType, Field, Schema};
use hxlib::util::Args;
use lance::dataset::{MergeInsertBuilder, WhenMatched, WhenNotMatched};
use lance::index::mem_wal::*;
use lance::index::DatasetIndexInternalExt;
use lance::Dataset;
use lance_index::mem_wal::MemWalId;
use lance_index::metrics::NoOpMetricsCollector;
use std::sync::Arc;

async fn dump(ds: &Dataset) -> String {
    let mut d = ds.clone();
    d.checkout_latest().await.unwrap();
    let rows = d.count_rows(None).await.unwrap();
    let nfrag = d.get_fragments().len();
    match d.open_mem_wal_index(&NoOpMetricsCollector).await {
        Ok(Some(ix)) => {
            let mut v: Vec<String> = vec![];
            for (region, gens) in ix.mem_wal_map.iter() {
                for (g, m) in gens.iter() {
                    v.push(format!("{region}/{g}:{:?}:{}:{:?}", m.state, m.owner_id, m.wal_entries().iter().collect::<Vec<_>>()));
                }
            }
            v.sort();
            format!("v{} rows={rows} frags={nfrag} [{}]", d.version().version, v.join(", "))
        }
        Ok(None) => format!("v{} rows={rows} frags={nfrag} <no index>", d.version().version),
        Err(e) => format!("ERR {e}"),
    }
}
fn short<T>(r: lance::Result<T>) -> String {
    match r {
        Ok(_) => "Ok".into(),
        Err(e) => format!("Err({})", e.to_string().chars().take(140).collect::<String>()),
    }
}
fn schema() -> Arc<Schema> {
    Arc::new(Schema::new(vec![Field::new("id", DataType::Int32, false)]))
}
fn batch(lo: i32, n: i32) -> RecordBatch {
    RecordBatch::try_new(schema(), vec![Arc::new(Int32Array::from((lo..lo + n).collect::<Vec<_>>()))]).unwrap()
}
async fn fresh(dir: &std::path::Path) -> Dataset {
    Dataset::write(RecordBatchIterator::new(vec![Ok(batch(0, 3))], schema()), dir.to_str().unwrap(), None).await.unwrap()
}
async fn merge_insert(ds: &Dataset, region: &str, g: u64, owner: &str, lo: i32) -> lance::Result<()> {
    let mut b = MergeInsertBuilder::try_new(Arc::new(ds.clone()), vec!["id".to_string()])?;
    b.when_matched(WhenMatched::UpdateAll).when_not_matched(WhenNotMatched::InsertAll);
    b.mark_mem_wal_as_merged(MemWalId::new(region, g), owner).await?;
    let job = b.try_build()?;
    let rdr = RecordBatchIterator::new(vec![Ok(batch(lo, 2))], schema());
    let (nd, stats) = job.execute_reader(Box::new(rdr) as Box<dyn arrow_array::RecordBatchReader + Send>).await?;
    let t = nd.read_transaction().await?.unwrap();
    println!("   merge_insert: attempts={} handle v{} txn.read_version={} new v{}", stats.num_attempts, ds.version().version, t.read_version, nd.version().version);
    Ok(())
}

pub fn run(_args: &Args) -> i32 {
    let rt = tokio::runtime::Builder::new_multi_thread().worker_threads(4).enable_all().build().unwrap();
    rt.block_on(async {
        // ---- P0: fragments after UpdateMemWalState
        let td = tempfile::tempdir().unwrap();
        let mut ds = fresh(td.path()).await;
        println!("P0 init {}", dump(&ds).await);
        println!("advance: {}", short(advance_mem_wal_generation(&mut ds, "R", "mt0", "wal0", None, "A").await));
        println!("P0 after advance {}", dump(&ds).await);

        // ---- K2: trim empties region; advance recreates gen 0
        println!("seal {}", short(mark_mem_wal_as_sealed(&mut ds, "R", 0, "A").await));
        println!("flush {}", short(mark_mem_wal_as_flushed(&mut ds, "R", 0, "A").await));
        println!("merged {}", short(mark_mem_wal_as_merged(&mut ds, "R", 0, "A").await));
        let mut stale_owner = ds.clone();
        println!("K2 before trim {}", dump(&ds).await);
        println!("trim {}", short(trim_mem_wal_index(&mut ds).await));
        println!("K2 after trim {}", dump(&ds).await);
        // K3: stale update_owner on trimmed generation
        println!("K3 stale update_owner R/0: {}", short(update_mem_wal_owner(&mut stale_owner, "R", 0, "B", None).await));
        println!("K3 after {}", dump(&ds).await);
        println!("trim again {}", short(trim_mem_wal_index(&mut ds).await));
        println!("advance None again: {}", short(advance_mem_wal_generation(&mut ds, "R", "mt0b", "wal0b", None, "C").await));
        println!("K2 after re-advance {}", dump(&ds).await);

        // ---- K1: hole
        let td = tempfile::tempdir().unwrap();
        let mut ds = fresh(td.path()).await;
        advance_mem_wal_generation(&mut ds, "R", "mt0", "wal0", None, "A").await.unwrap();
        advance_mem_wal_generation(&mut ds, "R", "mt1", "wal1", Some("A"), "A").await.unwrap();
        advance_mem_wal_generation(&mut ds, "R", "mt2", "wal2", Some("A"), "A").await.unwrap();
        mark_mem_wal_as_flushed(&mut ds, "R", 1, "A").await.unwrap();
        mark_mem_wal_as_merged(&mut ds, "R", 1, "A").await.unwrap();
        println!("K1 before trim {}", dump(&ds).await);
        println!("trim {}", short(trim_mem_wal_index(&mut ds).await));
        println!("K1 after trim {}", dump(&ds).await);

        // ---- K4: merge_insert marks R/0 merged; stale update_owner regresses to Flushed
        mark_mem_wal_as_flushed(&mut ds, "R", 0, "A").await.unwrap();
        println!("K4 start {}", dump(&ds).await);
        let mut stale = ds.clone();
        let stale2 = ds.clone();
        println!("merge_insert R/0: {}", short(merge_insert(&ds, "R", 0, "A", 100).await));
        println!("K4 after merge_insert {}", dump(&ds).await);
        println!("K4 stale update_owner R/0 -> B: {}", short(update_mem_wal_owner(&mut stale, "R", 0, "B", None).await));
        println!("K4 after {}", dump(&ds).await);
        let _ = stale2;
        // ---- K5: two merge_inserts with the same mem wal
        let td = tempfile::tempdir().unwrap();
        let mut ds = fresh(td.path()).await;
        advance_mem_wal_generation(&mut ds, "R", "mt0", "wal0", None, "A").await.unwrap();
        advance_mem_wal_generation(&mut ds, "R", "mt1", "wal1", Some("A"), "A").await.unwrap();
        mark_mem_wal_as_flushed(&mut ds, "R", 0, "A").await.unwrap();
        let stale2 = ds.clone();
        println!("K5 start {}", dump(&ds).await);
        println!("K5 merge_insert R/0: {}", short(merge_insert(&ds, "R", 0, "A", 100).await));
        println!("K5 after 1 {}", dump(&ds).await);
        println!("K5 stale merge_insert R/0: {}", short(merge_insert(&stale2, "R", 0, "A", 200).await));
        println!("K5 after 2 {}", dump(&ds).await);
        // ---- P1: merge_insert from a stale handle
        let td = tempfile::tempdir().unwrap();
        let mut ds = fresh(td.path()).await;
        advance_mem_wal_generation(&mut ds, "R", "mt0", "wal0", None, "A").await.unwrap();
        advance_mem_wal_generation(&mut ds, "R", "mt1", "wal1", Some("A"), "A").await.unwrap();
        mark_mem_wal_as_flushed(&mut ds, "R", 0, "A").await.unwrap();
        let stale = ds.clone();
        advance_mem_wal_generation(&mut ds, "R", "mt2", "wal2", Some("A"), "A").await.unwrap();
        println!("P1 stale merge_insert: {}", short(merge_insert(&stale, "R", 0, "A", 300).await));
        // ---- K2 sequential: region emptied by trim, generation 0 recreated
        let td = tempfile::tempdir().unwrap();
        let mut ds = fresh(td.path()).await;
        advance_mem_wal_generation(&mut ds, "R", "mt0", "wal0", None, "A").await.unwrap();
        mark_mem_wal_as_sealed(&mut ds, "R", 0, "A").await.unwrap();
        mark_mem_wal_as_flushed(&mut ds, "R", 0, "A").await.unwrap();
        mark_mem_wal_as_merged(&mut ds, "R", 0, "A").await.unwrap();
        let mut stale_adv = ds.clone();
        println!("K2 before trim {}", dump(&ds).await);
        println!("trim {}", short(trim_mem_wal_index(&mut ds).await));
        println!("K2 after trim {}", dump(&ds).await);
        println!("advance None: {}", short(advance_mem_wal_generation(&mut ds, "R", "mt0b", "wal0b", None, "C").await));
        println!("K2 after re-advance {}", dump(&ds).await);
        println!("stale advance (read before trim, latest R/0 Merged): {}", short(advance_mem_wal_generation(&mut stale_adv, "R", "mt1", "wal1", Some("A"), "D").await));
        println!("K2 after stale advance {}", dump(&ds).await);
    });
    0
}
