//! Shared types for C39: token <-> string mapping, wire printing of MemWALs / transactions / ops,
//! conversion from the real lance types.
use hxlib::util::coq;
use lance::dataset::transaction::{Operation, Transaction};
use lance_index::mem_wal::{MemWal, MemWalId, MemWalIndexDetails, State, MEM_WAL_INDEX_NAME};
use lance_table::format::{pb, IndexMetadata};
use serde_json::{json, Value};
use std::sync::Arc;

pub const REQ: &str = "Common.Base Table.Model_MemWal";
pub const MW_TY: &str = "mw_wire";
pub const TXN_TY: &str = "txn_wire";

/// A MemWAL as the model sees it (strings replaced by their numeric tokens).
#[derive(Clone, Debug, PartialEq, Eq, PartialOrd, Ord, Hash)]
pub struct W {
    pub region: u64,
    pub gen: u64,
    pub mt: u64,
    pub wal: u64,
    pub entries: Vec<u64>,
    pub state: u64,
    pub owner: u64,
    pub luv: u64,
}
impl W {
    pub fn id(&self) -> (u64, u64) {
        (self.region, self.gen)
    }
    pub fn coq(&self) -> String {
        format!(
            "(W {} {} {} {} {} {} {} {})",
            self.region,
            self.gen,
            self.mt,
            self.wal,
            coq::nlist(self.entries.iter()),
            self.state,
            self.owner,
            self.luv
        )
    }
    pub fn json(&self) -> Value {
        json!(format!(
            "R{}/{}:{}:own{}:mt{}:wal{}:{:?}:luv{}",
            self.region,
            self.gen,
            ["Open", "Sealed", "Flushed", "Merged"][self.state as usize],
            self.owner,
            self.mt,
            self.wal,
            self.entries,
            self.luv
        ))
    }
}
pub fn wl_coq(l: &[W]) -> String {
    coq::list(l.iter().map(|w| w.coq()))
}
pub fn wl_json(l: &[W]) -> Value {
    Value::Array(l.iter().map(|w| w.json()).collect())
}

pub fn region_s(t: u64) -> String {
    format!("R{t}")
}
pub fn mt_s(t: u64) -> String {
    format!("mt{t}")
}
pub fn wal_s(t: u64) -> String {
    format!("wal{t}")
}
pub fn owner_s(t: u64) -> String {
    format!("own{t}")
}
fn tok(s: &str, prefix: &str) -> u64 {
    s.strip_prefix(prefix).and_then(|x| x.parse().ok()).unwrap_or(u64::MAX)
}
pub fn state_n(s: &State) -> u64 {
    match s {
        State::Open => 0,
        State::Sealed => 1,
        State::Flushed => 2,
        State::Merged => 3,
    }
}
pub fn n_state(n: u64) -> State {
    match n {
        0 => State::Open,
        1 => State::Sealed,
        2 => State::Flushed,
        _ => State::Merged,
    }
}
pub fn from_real(m: &MemWal) -> W {
    W {
        region: tok(&m.id.region, "R"),
        gen: m.id.generation,
        mt: tok(&m.mem_table_location, "mt"),
        wal: tok(&m.wal_location, "wal"),
        entries: m.wal_entries().iter().collect(),
        state: state_n(&m.state),
        owner: tok(&m.owner_id, "own"),
        luv: m.last_updated_dataset_version,
    }
}
pub fn to_real(w: &W) -> MemWal {
    use lance_table::rowids::segment::U64Segment;
    use prost::Message;
    let mut m = MemWal::new_empty(MemWalId::new(&region_s(w.region), w.gen), &mt_s(w.mt), &wal_s(w.wal), &owner_s(w.owner));
    let mut seg = U64Segment::Range(0..0);
    for e in &w.entries {
        seg = seg.with_new_high(*e).unwrap();
    }
    m.wal_entries = pb::U64Segment::from(seg).encode_to_vec();
    m.state = n_state(w.state);
    m.last_updated_dataset_version = w.luv;
    m
}

/// The model's view of a transaction.
#[derive(Clone, Debug, PartialEq)]
pub enum T {
    Upd { added: Vec<W>, updated: Vec<W>, removed: Vec<W> },
    Update(Option<W>),
    Other(u64),
}
impl T {
    pub fn coq(&self) -> String {
        match self {
            T::Upd { added, updated, removed } => format!("(TX 0 {} {} {})", wl_coq(added), wl_coq(updated), wl_coq(removed)),
            T::Update(m) => format!("(TX 1 {} [] [])", wl_coq(&m.iter().cloned().collect::<Vec<_>>())),
            T::Other(k) => format!("(TX {} [] [] [])", k + 2),
        }
    }
    pub fn json(&self) -> Value {
        match self {
            T::Upd { added, updated, removed } => json!({"UpdateMemWalState": {"added": wl_json(added), "updated": wl_json(updated), "removed": wl_json(removed)}}),
            T::Update(m) => json!({"Update": {"mem_wal_to_merge": m.as_ref().map(|w| w.json())}}),
            T::Other(k) => json!({"Other": OTHER_NAMES[*k as usize]}),
        }
    }
    /// ids the transaction adds or rewrites
    pub fn touch(&self) -> Vec<(u64, u64)> {
        match self {
            T::Upd { added, updated, .. } => added.iter().chain(updated.iter()).map(|w| w.id()).collect(),
            T::Update(Some(m)) => vec![m.id()],
            _ => vec![],
        }
    }
    pub fn is_trim_shaped(&self) -> bool {
        matches!(self, T::Upd { added, updated, .. } if added.is_empty() && updated.is_empty())
    }
}
pub const OTHER_NAMES: [&str; 13] = [
    "Append", "Delete", "Overwrite", "CreateIndex", "Rewrite", "Merge", "Restore", "ReserveFragments", "Project", "UpdateConfig",
    "DataReplacement", "Clone", "UpdateBases",
];

pub fn txn_from_real(t: &Transaction) -> T {
    match &t.operation {
        Operation::UpdateMemWalState { added, updated, removed } => {
            let mut r: Vec<W> = removed.iter().map(from_real).collect();
            r.sort();
            T::Upd { added: added.iter().map(from_real).collect(), updated: updated.iter().map(from_real).collect(), removed: r }
        }
        Operation::Update { mem_wal_to_merge, .. } => T::Update(mem_wal_to_merge.as_ref().map(from_real)),
        Operation::Append { .. } => T::Other(0),
        Operation::Delete { .. } => T::Other(1),
        Operation::Overwrite { .. } => T::Other(2),
        Operation::CreateIndex { .. } => T::Other(3),
        Operation::Rewrite { .. } => T::Other(4),
        Operation::Merge { .. } => T::Other(5),
        Operation::Restore { .. } => T::Other(6),
        Operation::ReserveFragments { .. } => T::Other(7),
        Operation::Project { .. } => T::Other(8),
        Operation::UpdateConfig { .. } => T::Other(9),
        Operation::DataReplacement { .. } => T::Other(10),
        Operation::Clone { .. } => T::Other(11),
        Operation::UpdateBases { .. } => T::Other(12),
    }
}

/// Real operation for a model transaction (Update/Other with empty fragment lists).
pub fn op_to_real(t: &T, schema: &lance_core::datatypes::Schema) -> Operation {
    match t {
        T::Upd { added, updated, removed } => Operation::UpdateMemWalState {
            added: added.iter().map(to_real).collect(),
            updated: updated.iter().map(to_real).collect(),
            removed: removed.iter().map(to_real).collect(),
        },
        T::Update(m) => Operation::Update {
            removed_fragment_ids: vec![],
            updated_fragments: vec![],
            new_fragments: vec![],
            fields_modified: vec![],
            mem_wal_to_merge: m.as_ref().map(to_real),
            fields_for_preserving_frag_bitmap: vec![],
            update_mode: None,
        },
        T::Other(k) => match k {
            0 => Operation::Append { fragments: vec![] },
            1 => Operation::Delete { updated_fragments: vec![], deleted_fragment_ids: vec![], predicate: "true".into() },
            2 => Operation::Overwrite { fragments: vec![], schema: schema.clone(), config_upsert_values: None, initial_bases: None },
            3 => Operation::CreateIndex { new_indices: vec![], removed_indices: vec![] },
            4 => Operation::Rewrite { groups: vec![], rewritten_indices: vec![], frag_reuse_index: None },
            5 => Operation::Merge { fragments: vec![], schema: schema.clone() },
            6 => Operation::Restore { version: 1 },
            7 => Operation::ReserveFragments { num_fragments: 1 },
            8 => Operation::Project { schema: schema.clone() },
            9 => Operation::UpdateConfig { config_updates: None, table_metadata_updates: None, schema_metadata_updates: None, field_metadata_updates: Default::default() },
            10 => Operation::DataReplacement { replacements: vec![] },
            11 => Operation::Clone { is_shallow: true, ref_name: None, ref_version: 1, ref_path: "x".into(), branch_name: None },
            _ => Operation::UpdateBases { new_bases: vec![] },
        },
    }
}

/// MemWAL details of an indices list, in list order; None when there is no MemWAL index.
pub fn details_of(indices: &[IndexMetadata]) -> Option<Vec<W>> {
    let idx = indices.iter().find(|i| i.name == MEM_WAL_INDEX_NAME)?;
    let any = idx.index_details.as_ref()?;
    let msg: pb::MemWalIndexDetails = any.to_msg().ok()?;
    let d = MemWalIndexDetails::try_from(msg).ok()?;
    Some(d.mem_wal_list.iter().map(from_real).collect())
}

/// An index metadata entry carrying MemWAL details (what new_mem_wal_index_meta builds).
pub fn mem_wal_index_meta(l: &[W], dataset_version: u64) -> IndexMetadata {
    let details = MemWalIndexDetails { mem_wal_list: l.iter().map(to_real).collect() };
    IndexMetadata {
        uuid: uuid::Uuid::new_v4(),
        name: MEM_WAL_INDEX_NAME.to_string(),
        fields: vec![],
        dataset_version,
        fragment_bitmap: None,
        index_details: Some(Arc::new(prost_types::Any::from_msg(&pb::MemWalIndexDetails::from(&details)).unwrap())),
        index_version: 0,
        created_at: None,
        base_id: None,
    }
}

/// Operations of the public API.
#[derive(Clone, Debug, PartialEq)]
pub enum Op {
    Advance { region: u64, mt: u64, wal: u64, expected: Option<u64>, owner: u64 },
    Append { region: u64, gen: u64, entry: u64, expected: u64 },
    Seal { region: u64, gen: u64, expected: u64 },
    Flush { region: u64, gen: u64, expected: u64 },
    Merged { region: u64, gen: u64, expected: u64 },
    Owner { region: u64, gen: u64, owner: u64, mt: Option<u64> },
    Trim { minv: u64 },
    MergeInsert { region: u64, gen: u64, expected: u64 },
}
fn opt_tok(o: &Option<u64>) -> u64 {
    match o {
        Some(k) => k + 1,
        None => 0,
    }
}
impl Op {
    pub fn coq(&self) -> String {
        let (k, a): (u64, Vec<u64>) = match self {
            Op::Advance { region, mt, wal, expected, owner } => (0, vec![*region, *mt, *wal, opt_tok(expected), *owner]),
            Op::Append { region, gen, entry, expected } => (1, vec![*region, *gen, *entry, *expected]),
            Op::Seal { region, gen, expected } => (2, vec![*region, *gen, *expected]),
            Op::Flush { region, gen, expected } => (3, vec![*region, *gen, *expected]),
            Op::Merged { region, gen, expected } => (4, vec![*region, *gen, *expected]),
            Op::Owner { region, gen, owner, mt } => (5, vec![*region, *gen, *owner, opt_tok(mt)]),
            Op::Trim { minv } => (6, vec![*minv]),
            Op::MergeInsert { region, gen, expected } => (7, vec![*region, *gen, *expected]),
        };
        format!("({}, {})", k, coq::nlist(a.iter()))
    }
    pub fn kind(&self) -> &'static str {
        match self {
            Op::Advance { .. } => "advance",
            Op::Append { .. } => "append",
            Op::Seal { .. } => "seal",
            Op::Flush { .. } => "flush",
            Op::Merged { .. } => "merged",
            Op::Owner { .. } => "owner",
            Op::Trim { .. } => "trim",
            Op::MergeInsert { .. } => "merge_insert",
        }
    }
}
