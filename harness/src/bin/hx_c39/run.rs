//! The C39 run: scripted regression histories, random 2-3 writer histories on 1-2 regions, (thorough) every
//! interleaving of bounded writer scripts, plus the two unit arms.
use crate::common::*;
use crate::e2e::{run_history, Event};
use crate::unit;
use hxlib::util::{Args, Rng, Sink, Stream};
use Event::{Do, Refresh};

const MAXV: u64 = u64::MAX;

fn adv(region: u64, tok: u64, expected: Option<u64>, owner: u64) -> Op {
    Op::Advance { region, mt: tok, wal: tok, expected, owner }
}
fn app(region: u64, gen: u64, entry: u64, expected: u64) -> Op {
    Op::Append { region, gen, entry, expected }
}
fn seal(region: u64, gen: u64, expected: u64) -> Op {
    Op::Seal { region, gen, expected }
}
fn flush(region: u64, gen: u64, expected: u64) -> Op {
    Op::Flush { region, gen, expected }
}
fn merged(region: u64, gen: u64, expected: u64) -> Op {
    Op::Merged { region, gen, expected }
}
fn own(region: u64, gen: u64, owner: u64) -> Op {
    Op::Owner { region, gen, owner, mt: None }
}
fn trim() -> Op {
    Op::Trim { minv: MAXV }
}
fn mi(region: u64, gen: u64, expected: u64) -> Op {
    Op::MergeInsert { region, gen, expected }
}

/// fixed regression histories (run first in every tier): the design-phase probe, the upstream concurrency
/// tests, and one reproduction per known-finding class
fn scripts() -> Vec<(&'static str, usize, u64, bool, Vec<Event>)> {
    vec![
        (
            "probe-exp22",
            2,
            2,
            false,
            vec![
                Do(0, adv(0, 1, None, 1)),
                Refresh(1),
                Do(0, app(0, 0, 1, 1)),
                Do(1, seal(0, 0, 1)),
                Refresh(0),
                Refresh(1),
                Do(0, own(0, 0, 2)),
                Do(1, app(0, 0, 2, 1)),
                Refresh(0),
                Refresh(1),
                Do(0, adv(0, 2, Some(2), 2)),
                Do(1, adv(0, 3, Some(2), 3)),
                Refresh(0),
                Refresh(1),
                Do(0, adv(1, 4, None, 1)),
                Do(1, flush(0, 0, 2)),
                Refresh(0),
                Do(0, merged(0, 0, 2)),
                Refresh(1),
                Do(0, trim()),
                Do(1, merged(0, 0, 2)),
                Do(1, app(0, 1, 9, 2)),
            ],
        ),
        (
            "upstream-concurrent-replay",
            3,
            1,
            false,
            vec![
                Do(0, adv(0, 1, None, 1)),
                Do(0, app(0, 0, 123, 1)),
                Do(0, app(0, 0, 456, 1)),
                Refresh(1),
                Refresh(2),
                Do(0, Op::Owner { region: 0, gen: 0, owner: 2, mt: Some(7) }),
                Do(1, app(0, 0, 789, 1)),
                Do(1, seal(0, 0, 1)),
                Do(2, flush(0, 0, 1)),
                Do(2, adv(0, 2, Some(1), 3)),
                Do(0, adv(0, 2, Some(2), 3)),
                Do(0, seal(0, 1, 3)),
                Do(0, flush(0, 1, 3)),
                Refresh(1),
                Do(0, Op::Owner { region: 0, gen: 1, owner: 2, mt: Some(8) }),
                Do(1, mi(0, 1, 3)),
            ],
        ),
        (
            "upstream-advance-and-merge-insert",
            2,
            1,
            false,
            vec![
                Do(0, adv(0, 1, None, 1)),
                Do(0, app(0, 0, 123, 1)),
                Do(0, seal(0, 0, 1)),
                Do(0, flush(0, 0, 1)),
                Do(0, adv(0, 2, Some(1), 2)),
                Do(0, app(0, 1, 789, 2)),
                Refresh(1),
                Do(0, adv(0, 3, Some(2), 3)),
                Do(1, mi(0, 0, 1)),
                Refresh(0),
                Do(0, app(0, 2, 5, 3)),
                Do(1, flush(0, 1, 2)),
            ],
        ),
        (
            "with-user-index-trim-waits",
            2,
            1,
            true,
            vec![
                Do(0, adv(0, 1, None, 1)),
                Do(0, adv(0, 2, Some(1), 1)),
                Do(0, flush(0, 0, 1)),
                Do(0, merged(0, 0, 1)),
                Refresh(1),
                Do(1, trim()),
                Do(0, app(0, 1, 4, 1)),
            ],
        ),
        (
            // observation (not a theorem clause): advance from a non-open latest generation does not conflict
            // with a concurrent owner change of that generation; its expected-owner pre-check is stale at commit
            "advance-over-owner-change-of-sealed-latest",
            2,
            1,
            false,
            vec![Do(0, adv(0, 1, None, 1)), Do(0, seal(0, 0, 1)), Refresh(1), Do(0, own(0, 0, 2)), Do(1, adv(0, 2, Some(1), 1))],
        ),
        (
            "K1-trim-hole",
            1,
            1,
            false,
            vec![
                Do(0, adv(0, 1, None, 1)),
                Do(0, adv(0, 2, Some(1), 1)),
                Do(0, adv(0, 3, Some(1), 1)),
                Do(0, flush(0, 1, 1)),
                Do(0, merged(0, 1, 1)),
                Do(0, trim()),
            ],
        ),
        (
            "K2-trim-latest",
            2,
            1,
            false,
            vec![
                Do(0, adv(0, 1, None, 1)),
                Do(0, seal(0, 0, 1)),
                Do(0, flush(0, 0, 1)),
                Do(0, merged(0, 0, 1)),
                Refresh(1),
                Do(0, trim()),
                Do(0, adv(0, 2, None, 3)),
                Do(1, adv(0, 3, Some(1), 2)),
            ],
        ),
        (
            "K3-update-over-trim",
            2,
            1,
            false,
            vec![
                Do(0, adv(0, 1, None, 1)),
                Do(0, adv(0, 2, Some(1), 1)),
                Do(0, flush(0, 0, 1)),
                Do(0, merged(0, 0, 1)),
                Refresh(1),
                Do(0, trim()),
                Do(1, own(0, 0, 2)),
            ],
        ),
        (
            "K4-update-over-merge-insert",
            2,
            1,
            false,
            vec![
                Do(0, adv(0, 1, None, 1)),
                Do(0, adv(0, 2, Some(1), 1)),
                Do(0, flush(0, 0, 1)),
                Refresh(1),
                Do(0, mi(0, 0, 1)),
                Do(1, own(0, 0, 2)),
            ],
        ),
        (
            "K5-double-merge-insert",
            2,
            1,
            false,
            vec![
                Do(0, adv(0, 1, None, 1)),
                Do(0, adv(0, 2, Some(1), 1)),
                Do(0, flush(0, 0, 1)),
                Refresh(1),
                Do(0, mi(0, 0, 1)),
                Do(1, mi(0, 0, 1)),
            ],
        ),
    ]
}

/// every interleaving of the writers' event lists (each op = Refresh then Do)
fn interleavings(scripts: &[Vec<Op>]) -> Vec<Vec<Event>> {
    let lists: Vec<Vec<Event>> = scripts
        .iter()
        .enumerate()
        .map(|(w, ops)| ops.iter().flat_map(|o| vec![Refresh(w), Do(w, o.clone())]).collect())
        .collect();
    let mut out = vec![];
    fn rec(lists: &[Vec<Event>], pos: &mut Vec<usize>, cur: &mut Vec<Event>, out: &mut Vec<Vec<Event>>) {
        if (0..lists.len()).all(|i| pos[i] == lists[i].len()) {
            out.push(cur.clone());
            return;
        }
        for i in 0..lists.len() {
            if pos[i] < lists[i].len() {
                cur.push(lists[i][pos[i]].clone());
                pos[i] += 1;
                rec(lists, pos, cur, out);
                pos[i] -= 1;
                cur.pop();
            }
        }
    }
    rec(&lists, &mut vec![0; lists.len()], &mut vec![], &mut out);
    out
}

struct Family {
    name: &'static str,
    regions: u64,
    setup: Vec<Op>,
    writers: Vec<Vec<Op>>,
}

fn families() -> Vec<Family> {
    vec![
        Family { name: "F1-append-seal|owner-advance", regions: 1, setup: vec![adv(0, 1, None, 1)], writers: vec![vec![app(0, 0, 1, 1), seal(0, 0, 1)], vec![own(0, 0, 2), adv(0, 2, Some(2), 2)]] },
        Family {
            name: "F2-mergeinsert-trim|owner-merged",
            regions: 1,
            setup: vec![adv(0, 1, None, 1), adv(0, 2, Some(1), 1), flush(0, 0, 1)],
            writers: vec![vec![mi(0, 0, 1), trim()], vec![own(0, 0, 2), merged(0, 0, 2)]],
        },
        Family { name: "F3-advance-append|seal|advance", regions: 1, setup: vec![adv(0, 1, None, 1)], writers: vec![vec![adv(0, 2, Some(1), 1), app(0, 1, 3, 1)], vec![seal(0, 0, 1)], vec![adv(0, 3, Some(1), 2)]] },
        Family {
            name: "F4-two-regions",
            regions: 2,
            setup: vec![adv(0, 1, None, 1), adv(1, 2, None, 2)],
            writers: vec![vec![seal(0, 0, 1), flush(0, 0, 1)], vec![app(1, 0, 1, 2), adv(1, 3, Some(2), 2)]],
        },
        Family {
            name: "F5-merged-trim|advance|mergeinsert",
            regions: 1,
            setup: vec![adv(0, 1, None, 1), adv(0, 2, Some(1), 1), flush(0, 0, 1)],
            writers: vec![vec![merged(0, 0, 1), trim()], vec![adv(0, 3, Some(1), 1)], vec![mi(0, 0, 1)]],
        },
        Family { name: "F6-create-race", regions: 2, setup: vec![], writers: vec![vec![adv(0, 1, None, 1), app(0, 0, 1, 1)], vec![adv(0, 2, None, 2), adv(1, 3, None, 2)]] },
        Family {
            name: "F7-trim-prefix|advance-owner",
            regions: 1,
            setup: vec![adv(0, 1, None, 1), adv(0, 2, Some(1), 1), adv(0, 3, Some(1), 1), flush(0, 0, 1), merged(0, 0, 1)],
            writers: vec![vec![trim(), flush(0, 1, 1)], vec![adv(0, 4, Some(1), 2), own(0, 1, 2)]],
        },
        Family {
            name: "F8-flush-merged|owner|seal-next",
            regions: 1,
            setup: vec![adv(0, 1, None, 1), adv(0, 2, Some(1), 1)],
            writers: vec![vec![flush(0, 0, 1), merged(0, 0, 1)], vec![own(0, 0, 2)], vec![seal(0, 1, 1)]],
        },
    ]
}

pub fn run(args: &Args) -> i32 {
    let mut sink = Sink::new("C39", &args.out);
    let mut rng = Rng::new(args.seed);
    let rt = tokio::runtime::Builder::new_multi_thread().worker_threads(4).enable_all().build().unwrap();
    rt.block_on(async {
        // ---------------- unit arms
        let td = tempfile::tempdir().unwrap();
        let ds = {
            use arrow_array::{Int32Array, RecordBatch, RecordBatchIterator};
            use arrow_schema::{DataType, Field, Schema};
            let schema = std::sync::Arc::new(Schema::new(vec![Field::new("id", DataType::Int32, false)]));
            let b = RecordBatch::try_new(schema.clone(), vec![std::sync::Arc::new(Int32Array::from(vec![1, 2, 3]))]).unwrap();
            lance::Dataset::write(RecordBatchIterator::new(vec![Ok(b)], schema), td.path().to_str().unwrap(), None).await.unwrap()
        };
        unit::verdicts(&ds, &mut sink).await;
        unit::applies(&ds, args, &mut rng, &mut sink);

        // ---------------- e2e
        let mut hist = Stream::new("history", REQ, "chk_history", "list N * list step_wire", "list obs_wire");
        hist.shard = 80;
        let mut classes = Stream::new("classes", REQ, "chk_classes", "list N * list step_wire", "list bool");
        classes.shard = 400;
        for (name, nw, nr, ui, evs) in scripts() {
            run_history(name, nw, nr, ui, &evs, &mut rng, &mut sink, &mut hist, &mut classes).await;
            sink.count("hist:scripted");
        }
        // random histories: 2-3 writers, 1-2 regions, stale handles half of the time
        let nrand = args.vol(300, 1500);
        for k in 0..nrand {
            let nw = 2 + rng.below(2) as usize;
            let nr = 1 + rng.below(2);
            let ui = rng.chance(1, 8);
            let len = 6 + rng.below(11);
            let mut evs = vec![];
            for _ in 0..len {
                let w = rng.below(nw as u64) as usize;
                if rng.chance(30, 100) {
                    evs.push(Refresh(w));
                }
                evs.push(Event::DoGen(w));
            }
            run_history(&format!("random-{k}"), nw, nr, ui, &evs, &mut rng, &mut sink, &mut hist, &mut classes).await;
            sink.count("hist:random");
        }
        // thorough: all interleavings of bounded scripts
        if args.thorough() {
            for f in families() {
                let ils = interleavings(&f.writers);
                for (k, il) in ils.iter().enumerate() {
                    let mut evs: Vec<Event> = f.setup.iter().map(|o| Do(0, o.clone())).collect();
                    evs.extend(il.iter().cloned());
                    run_history(&format!("{}#{}", f.name, k), f.writers.len(), f.regions, false, &evs, &mut rng, &mut sink, &mut hist, &mut classes).await;
                }
                sink.count_n("hist:interleavings", ils.len() as u64);
                sink.notes.push(format!("family {}: all {} interleavings of {:?} ops per writer", f.name, ils.len(), f.writers.iter().map(|w| w.len()).collect::<Vec<_>>()));
            }
        }
        sink.notes.push(format!("{} random 2-3 writer histories on 1-2 regions, {} scripted", nrand, scripts().len()));
        sink.add(hist);
        sink.add(classes);
    });
    sink.finish();
    0
}
