//! hx_c39: MemWAL index state machine under concurrency (C39).
mod probe;

fn main() {
    let (sub, args) = hxlib::util::Args::parse();
    let code = match sub.as_str() {
        "probe" => probe::run(&args),
        _ => {
            eprintln!("unknown subcommand {sub}");
            2
        }
    };
    std::process::exit(code);
}
