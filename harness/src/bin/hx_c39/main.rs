//! hx_c39: MemWAL index state machine under concurrency (C39).
mod common;
mod e2e;
mod probe;
mod run;
mod unit;

fn main() {
    let (sub, args) = hxlib::util::Args::parse();
    let code = match sub.as_str() {
        "c39" => run::run(&args),
        "probe" => probe::run(&args),
        _ => {
            eprintln!("unknown subcommand {sub}");
            2
        }
    };
    std::process::exit(code);
}
