//! Unit arms: (1) the verdict of TransactionRebase::check_txn, exhaustively over pairs of MemWAL transaction
//! shapes (hook lance::io::commit::verif_hooks::TransactionRebase); (2) the apply step
//! update_mem_wal_index_in_indices_list through Transaction::build_manifest (hook
//! lance::dataset::verif_hooks::build_manifest) on arbitrary details lists, without I/O.
use crate::common::*;
use hxlib::util::{coq, Args, Rng, Sink, Stream};
use lance::dataset::transaction::Transaction;
use lance::dataset::verif_hooks::build_manifest;
use lance::io::commit::verif_hooks::TransactionRebase;
use lance::Dataset;
use lance_table::format::IndexMetadata;
use serde_json::json;

fn w(region: u64, gen: u64, state: u64, owner: u64) -> W {
    W { region, gen, mt: 10 + gen, wal: 20 + gen, entries: vec![], state, owner, luv: 0 }
}

fn err_code(e: &lance::Error) -> u64 {
    match e {
        lance::Error::CommitConflict { .. } => 1,
        lance::Error::RetryableCommitConflict { .. } => 2,
        lance::Error::Internal { .. } => 3,
        lance::Error::NotSupported { .. } => 4,
        _ => 9,
    }
}

/// the lists a field of UpdateMemWalState ranges over
fn list_choices() -> Vec<Vec<W>> {
    let pool = [w(0, 0, 0, 1), w(0, 1, 1, 1), w(1, 0, 2, 2), w(0, 0, 3, 2)];
    let mut v: Vec<Vec<W>> = vec![vec![]];
    for p in &pool {
        v.push(vec![p.clone()]);
    }
    v.push(vec![pool[0].clone(), pool[1].clone()]);
    v.push(vec![pool[1].clone(), pool[0].clone()]);
    v.push(vec![pool[2].clone(), pool[3].clone()]);
    v
}

pub async fn verdicts(ds: &Dataset, sink: &mut Sink) {
    let schema = ds.schema().clone();
    let lists = list_choices();
    let mut upd_shapes: Vec<T> = vec![];
    for (i, a) in lists.iter().enumerate() {
        for (j, u) in lists.iter().enumerate() {
            // `removed` is ignored by the check: vary it to show that
            let removed = match (i + j) % 3 {
                0 => vec![],
                1 => vec![w(0, 0, 0, 1)],
                _ => vec![w(0, 1, 3, 1), w(1, 0, 3, 1)],
            };
            upd_shapes.push(T::Upd { added: a.clone(), updated: u.clone(), removed });
        }
    }
    // trim-shaped transactions that remove something
    upd_shapes.push(T::Upd { added: vec![], updated: vec![], removed: vec![w(0, 0, 3, 1)] });
    upd_shapes.push(T::Upd { added: vec![], updated: vec![], removed: vec![w(0, 1, 3, 1), w(1, 0, 3, 2)] });
    let mut selfs = upd_shapes.clone();
    let mut others = upd_shapes.clone();
    for m in [None, Some(w(0, 0, 2, 1)), Some(w(0, 1, 2, 1)), Some(w(1, 0, 2, 2)), Some(w(0, 0, 3, 2))] {
        selfs.push(T::Update(m.clone()));
        others.push(T::Update(m));
    }
    for k in 0..13 {
        others.push(T::Other(k));
    }
    let mut s = Stream::new("verdict", REQ, "chk_check_txn", &format!("{TXN_TY} * {TXN_TY}"), "N");
    s.shard = 1500;
    for a in &selfs {
        for b in &others {
            let txn = Transaction::new(1, op_to_real(a, &schema), None);
            let mut rb = TransactionRebase::try_new(ds, txn, None).await.unwrap();
            let other = Transaction::new(1, op_to_real(b, &schema), None);
            let mut code = match rb.check_txn(&other, 2) {
                Ok(()) => 0,
                Err(e) => err_code(&e),
            };
            // self-test switch (see CONTRIB "sanity test"): record a wrong implementation output for one case
            if std::env::var("C39_PLANT").as_deref() == Ok("verdict") && s.len() == 100 {
                code = (code + 1) % 5;
            }
            // direct oracle: two transactions that write the same MemWAL id must not be declared compatible
            let ta = a.touch();
            let overlap = b.touch().iter().any(|x| ta.contains(x));
            let removed_overlap = match b {
                T::Upd { removed, .. } if b.is_trim_shaped() => removed.iter().any(|x| ta.contains(&x.id())),
                _ => false,
            };
            let case = json!({"self": a.json(), "other": b.json(), "verdict": code});
            if code == 0 && overlap {
                let class = match (a, b) {
                    (T::Upd { .. }, T::Update(Some(_))) => Some("Known_C39_update_over_merge_insert"),
                    (T::Update(Some(_)), T::Update(Some(_))) => Some("Known_C39_double_merge_insert"),
                    _ => None,
                };
                sink.oracle_fail(class, "check_txn accepts a transaction that writes a MemWAL written by a transaction committed since its read version", case.clone());
            } else if code == 0 && removed_overlap {
                sink.oracle_fail(Some("Known_C39_update_over_trim"), "check_txn accepts a transaction that rewrites a MemWAL removed by a trim committed since its read version", case.clone());
            } else {
                sink.oracle_ok();
            }
            sink.count(&format!("verdict:{}", code));
            sink.nontrivial(&format!("v{}|{}", a.coq(), b.coq()));
            s.push(coq::pair(&a.coq(), &b.coq()), coq::n(code), case);
        }
    }
    sink.notes.push(format!("verdict matrix exhaustive over {} self shapes x {} other shapes", selfs.len(), others.len()));
    sink.add(s);
}

fn rand_w(rng: &mut Rng) -> W {
    W {
        region: rng.below(2),
        gen: rng.below(3),
        mt: 10 + rng.below(3),
        wal: 20 + rng.below(3),
        entries: match rng.below(3) {
            0 => vec![],
            1 => vec![rng.below(3)],
            _ => vec![1, 2 + rng.below(2), 5],
        },
        state: rng.below(4),
        owner: 1 + rng.below(2),
        luv: rng.below(9),
    }
}
fn rand_wl(rng: &mut Rng, max: u64) -> Vec<W> {
    (0..rng.below(max + 1)).map(|_| rand_w(rng)).collect()
}

fn other_index(name: &str) -> IndexMetadata {
    IndexMetadata {
        uuid: uuid::Uuid::new_v4(),
        name: name.to_string(),
        fields: vec![0],
        dataset_version: 1,
        fragment_bitmap: Some([0u32].into_iter().collect()),
        index_details: None,
        index_version: 0,
        created_at: None,
        base_id: None,
    }
}

pub fn applies(ds: &Dataset, args: &Args, rng: &mut Rng, sink: &mut Sink) {
    let schema = ds.schema().clone();
    let mut s = Stream::new("apply", REQ, "chk_apply", &format!("option (list {MW_TY}) * N * {TXN_TY}"), &format!("outcome (option (list {MW_TY}))"));
    s.shard = 1200;
    let mut cases: Vec<(Option<Vec<W>>, u64, T)> = vec![];
    // structured: every combination of (no index | empty | small lists) x (added / updated / removed emptiness)
    let a0 = w(0, 0, 0, 1);
    let a1 = w(0, 1, 0, 1);
    let b0 = w(1, 0, 2, 2);
    let idxs: Vec<Option<Vec<W>>> = vec![
        None,
        Some(vec![]),
        Some(vec![a0.clone()]),
        Some(vec![a0.clone(), a1.clone(), b0.clone()]),
        Some(vec![a0.clone(), b0.clone(), W { state: 3, ..a0.clone() }]),
    ];
    let ls: Vec<Vec<W>> = vec![vec![], vec![a0.clone()], vec![a1.clone(), b0.clone()], vec![W { state: 1, owner: 2, ..a0.clone() }]];
    for idx in &idxs {
        for a in &ls {
            for u in &ls {
                for r in &ls {
                    cases.push((idx.clone(), 2, T::Upd { added: a.clone(), updated: u.clone(), removed: r.clone() }));
                }
            }
        }
        cases.push((idx.clone(), 2, T::Update(None)));
        cases.push((idx.clone(), 2, T::Update(Some(W { state: 2, ..a0.clone() }))));
        cases.push((idx.clone(), 2, T::Update(Some(W { state: 2, ..b0.clone() }))));
    }
    for _ in 0..args.vol(300, 4000) {
        let idx = if rng.chance(1, 8) { None } else { Some(rand_wl(rng, 5)) };
        let nv = 1 + rng.below(40);
        let t = match rng.below(6) {
            0 => T::Update(Some(rand_w(rng))),
            1 => T::Update(None),
            _ => T::Upd { added: rand_wl(rng, 2), updated: rand_wl(rng, 2), removed: rand_wl(rng, 3) },
        };
        cases.push((idx, nv, t));
    }
    for (idx, nv, t) in cases {
        let mut m = ds.manifest().clone();
        m.version = nv - 1;
        let before = rng.below(3);
        let mut indices: Vec<IndexMetadata> = vec![];
        let with_other = !matches!(t, T::Update(_));
        if with_other && before >= 1 {
            indices.push(other_index("other_a"));
        }
        if let Some(l) = &idx {
            indices.push(mem_wal_index_meta(l, 1));
        }
        if with_other && before == 2 {
            indices.push(other_index("other_b"));
        }
        let n_other = indices.iter().filter(|i| i.name.starts_with("other_")).count();
        let txn = Transaction::new(m.version, op_to_real(&t, &schema), None);
        let res = hxlib::util::catch(|| build_manifest(&txn, Some(&m), indices.clone(), "txn", false, None));
        let case = json!({"index": idx.as_ref().map(|l| wl_json(l)), "new_version": nv, "txn": t.json()});
        let out: Result<String, bool> = match &res {
            Ok(Ok((nm, ni))) => {
                let d = details_of(ni);
                // direct oracle (model-free): other indices are kept in order, at most one MemWAL index remains,
                // the manifest version is untouched by build_manifest, and fragments are not the MemWAL arm's business
                let others: Vec<&str> = ni.iter().filter(|i| i.name.starts_with("other_")).map(|i| i.name.as_str()).collect();
                let n_mw = ni.iter().filter(|i| i.name == lance_index::mem_wal::MEM_WAL_INDEX_NAME).count();
                let _ = nm;
                if others.len() != n_other || n_mw > 1 {
                    sink.oracle_fail(None, "build_manifest lost another index or left several MemWAL indices", case.clone());
                } else {
                    sink.oracle_ok();
                }
                Ok(coq::opt(d.map(|l| wl_coq(&l))))
            }
            Ok(Err(_)) => Err(false),
            Err(_) => Err(true),
        };
        sink.count(match &out {
            Ok(_) => "apply:ok",
            Err(false) => "apply:err",
            Err(true) => "apply:panic",
        });
        sink.nontrivial(&format!("a{}", case));
        s.push(
            format!("({}, {}, {})", coq::opt(idx.as_ref().map(|l| wl_coq(l))), nv, t.coq()),
            coq::outcome(&out),
            json!({"in": case, "out": format!("{:?}", out)}),
        );
    }
    sink.add(s);
}
