//! End-to-end arm: the public functions of lance::index::mem_wal (+ merge_insert with
//! mark_mem_wal_as_merged) on a tempdir dataset, with several dataset handles as concurrent writers. A writer
//! whose handle is older than the latest version commits through the conflict check against everything
//! committed since (the rebase path of commit_transaction).
//! After every step the harness records the result code, the MemWAL details of the latest version and (for a
//! commit) the transaction read back from the transaction file; the whole history is one correspondence case
//! (chk_history), the harness's own classification of the history is a second one (chk_classes), and the direct
//! oracle checks the C39 invariants on the real details alone.
use crate::common::*;
use arrow_array::{Int32Array, RecordBatch, RecordBatchIterator};
use arrow_schema::{DataType, Field, Schema};
use hxlib::util::{coq, Rng, Sink, Stream};
use lance::dataset::{MergeInsertBuilder, WhenMatched, WhenNotMatched};
use lance::index::mem_wal::*;
use lance::Dataset;
use lance_index::mem_wal::MemWalId;
use lance_index::{is_system_index, DatasetIndexExt};
use serde_json::{json, Value};
use std::sync::Arc;

pub const CLASS_NAMES: [&str; 5] = [
    "Known_C39_trim_hole",
    "Known_C39_trim_latest",
    "Known_C39_update_over_trim",
    "Known_C39_update_over_merge_insert",
    "Known_C39_double_merge_insert",
];

fn schema() -> Arc<Schema> {
    Arc::new(Schema::new(vec![Field::new("id", DataType::Int32, false)]))
}
fn batch(lo: i32, n: i32) -> RecordBatch {
    RecordBatch::try_new(schema(), vec![Arc::new(Int32Array::from((lo..lo + n).collect::<Vec<_>>()))]).unwrap()
}

#[derive(Clone, Debug)]
pub struct VersionRec {
    pub details: Option<Vec<W>>,
    pub txn: T,
    pub rv: usize,
}

#[derive(Clone, Debug)]
pub enum Event {
    Refresh(usize),
    Do(usize, Op),
    /// choose the op when the event runs, from the writer's view of the index
    DoGen(usize),
}

pub struct World {
    pub _dir: tempfile::TempDir,
    pub uri: String,
    pub handles: Vec<Dataset>,
    pub init_kinds: Vec<u64>,
    pub versions: Vec<VersionRec>,
    pub steps: Vec<(usize, Op)>,
    pub obs: Vec<(u64, Option<Vec<W>>, Option<T>)>,
    pub flags: [bool; 5],
    pub next_key: i32,
    pub fresh_tok: u64,
    pub nregions: u64,
    pub log: Vec<String>,
}

async fn latest_details(uri: &str) -> (u64, Option<Vec<W>>, Dataset) {
    let ds = Dataset::open(uri).await.unwrap();
    let idx = ds.load_indices().await.unwrap();
    (ds.version().version, details_of(&idx), ds)
}

impl World {
    pub async fn new(nwriters: usize, nregions: u64, with_user_index: bool) -> World {
        let dir = tempfile::tempdir().unwrap();
        let uri = dir.path().to_str().unwrap().to_string();
        let mut ds = Dataset::write(RecordBatchIterator::new(vec![Ok(batch(0, 3))], schema()), &uri, None).await.unwrap();
        let mut init_kinds = vec![2u64];
        let mut versions = vec![VersionRec { details: None, txn: T::Other(2), rv: 0 }];
        if with_user_index {
            ds.create_index(&["id"], lance_index::IndexType::BTree, None, &lance_index::scalar::ScalarIndexParams::default(), false).await.unwrap();
            init_kinds.push(3);
            versions.push(VersionRec { details: None, txn: T::Other(3), rv: 0 });
            assert_eq!(ds.version().version, 2);
        }
        World {
            _dir: dir,
            uri,
            handles: (0..nwriters).map(|_| ds.clone()).collect(),
            init_kinds,
            versions,
            steps: vec![],
            obs: vec![],
            flags: [false; 5],
            next_key: 1000,
            fresh_tok: 10,
            nregions,
            log: vec![],
        }
    }

    pub fn view(&self, w: usize) -> Option<Vec<W>> {
        let rv = self.handles[w].version().version as usize - 1;
        self.versions[rv].details.clone()
    }

    /// what trim_mem_wal_index computes from the user indices of the handle's version
    async fn minv(&self, w: usize) -> u64 {
        let idx = self.handles[w].load_indices().await.unwrap();
        let mut by_name: std::collections::HashMap<String, u64> = Default::default();
        for i in idx.iter() {
            if !is_system_index(i) {
                let e = by_name.entry(i.name.clone()).or_insert(0);
                *e = (*e).max(i.dataset_version);
            }
        }
        by_name.values().min().copied().unwrap_or(u64::MAX)
    }

    pub async fn run_event(&mut self, ev: &Event, rng: &mut Rng) {
        match ev {
            Event::Refresh(w) => {
                self.handles[*w].checkout_latest().await.unwrap();
                self.log.push(format!("w{} refresh -> v{}", w, self.handles[*w].version().version));
            }
            Event::Do(w, op) => {
                let mut op = op.clone();
                if let Op::Trim { minv } = &mut op {
                    *minv = self.minv(*w).await;
                }
                self.do_op(*w, op).await;
            }
            Event::DoGen(w) => {
                let view = self.view(*w);
                let mut op = gen_op(&view, self.nregions, rng, &mut self.fresh_tok);
                if let Op::Trim { minv } = &mut op {
                    *minv = self.minv(*w).await;
                }
                self.do_op(*w, op).await;
            }
        }
    }

    async fn do_op(&mut self, w: usize, op: Op) {
        let rv = self.handles[w].version().version as usize - 1;
        let key = self.next_key;
        self.next_key += 10;
        let mut h = self.handles[w].clone();
        let op2 = op.clone();
        let res = tokio::spawn(async move {
            let r = exec_real(&mut h, &op2, key).await;
            (h, r)
        })
        .await;
        let code = match res {
            Ok((h, Ok(()))) => {
                self.handles[w] = h;
                0
            }
            Ok((_, Err(e))) => match e {
                lance::Error::CommitConflict { .. } => 2,
                lance::Error::RetryableCommitConflict { .. } => 3,
                _ => 1,
            },
            Err(_) => 4,
        };
        let (ver, details, ds) = latest_details(&self.uri).await;
        let mut committed: Option<T> = None;
        if code == 0 {
            assert_eq!(ver as usize, self.versions.len() + 1, "a commit adds exactly one version");
            let txn = ds.read_transaction().await.unwrap().expect("transaction file of the new version");
            let t = txn_from_real(&txn);
            // (the rebase of an Update rewrites the recorded read version to the version it was rebased onto)
            let want_rv = if matches!(t, T::Update(_)) { ver as usize - 1 } else { rv + 1 };
            assert_eq!(txn.read_version as usize, want_rv, "recorded transaction read version: {:?} log {:?}", op, self.log);
            self.classify(rv, &t);
            self.versions.push(VersionRec { details: details.clone(), txn: t.clone(), rv });
            committed = Some(t);
        } else {
            assert_eq!(ver as usize, self.versions.len(), "a failed operation adds no version");
        }
        self.log.push(format!("w{} @v{} {:?} -> code {}", w, rv + 1, op, code));
        self.steps.push((rv, op));
        self.obs.push((code, details, committed));
    }

    /// the harness's own (model-independent) detection of the known-finding events at a commit
    fn classify(&mut self, rv: usize, t: &T) {
        let n = self.versions.len();
        let touch = t.touch();
        let cur: Vec<W> = self.versions[n - 1].details.clone().unwrap_or_default();
        if let T::Upd { removed, .. } = t {
            if t.is_trim_shaped() {
                let rm: Vec<(u64, u64)> = removed.iter().map(|x| x.id()).collect();
                for m in cur.iter().filter(|m| rm.contains(&m.id())) {
                    let maxg = cur.iter().filter(|x| x.region == m.region).map(|x| x.gen).max().unwrap();
                    if m.gen == maxg {
                        self.flags[1] = true;
                    }
                    if cur.iter().any(|x| x.region == m.region && x.gen < m.gen && !rm.contains(&x.id())) {
                        self.flags[0] = true;
                    }
                }
            }
        }
        for j in rv + 1..n {
            let o = &self.versions[j].txn;
            match o {
                T::Upd { removed, .. } if o.is_trim_shaped() => {
                    if removed.iter().any(|x| touch.contains(&x.id())) {
                        self.flags[2] = true;
                    }
                }
                T::Update(Some(m)) => {
                    if touch.contains(&m.id()) {
                        match t {
                            T::Upd { .. } => self.flags[3] = true,
                            T::Update(Some(_)) => self.flags[4] = true,
                            _ => {}
                        }
                    }
                }
                _ => {}
            }
        }
    }

    pub fn first_class(&self) -> Option<&'static str> {
        (0..5).find(|i| self.flags[*i]).map(|i| CLASS_NAMES[i])
    }

    pub fn case_json(&self) -> Value {
        json!({
            "init": self.init_kinds,
            "log": self.log,
            "final": self.versions.last().unwrap().details.as_ref().map(|l| wl_json(l)),
            "classes": (0..5).filter(|i| self.flags[*i]).map(|i| CLASS_NAMES[i]).collect::<Vec<_>>(),
        })
    }

    /// Direct oracle on the real details: every version satisfies the per-version invariants; along the history
    /// states only move forward, a removed generation never comes back, and two concurrent committed
    /// transactions never write the same MemWAL id. Returns the list of failures.
    pub fn oracle(&self) -> Vec<String> {
        let mut bad = vec![];
        for (i, v) in self.versions.iter().enumerate() {
            let l = match &v.details {
                Some(l) => l,
                None => continue,
            };
            let mut idsv: Vec<(u64, u64)> = l.iter().map(|m| m.id()).collect();
            idsv.sort();
            if idsv.windows(2).any(|p| p[0] == p[1]) {
                bad.push(format!("v{}: a (region, generation) appears twice", i + 1));
            }
            let mut regions: Vec<u64> = l.iter().map(|m| m.region).collect();
            regions.sort();
            regions.dedup();
            for r in regions {
                let mut gens: Vec<u64> = l.iter().filter(|m| m.region == r).map(|m| m.gen).collect();
                gens.sort();
                gens.dedup();
                if gens.windows(2).any(|p| p[1] != p[0] + 1) {
                    bad.push(format!("v{}: generations of region {} are not consecutive: {:?}", i + 1, r, gens));
                }
                let maxg = *gens.last().unwrap();
                if l.iter().any(|m| m.region == r && m.state == 0 && m.gen != maxg) {
                    bad.push(format!("v{}: region {} has an open generation that is not the latest", i + 1, r));
                }
            }
        }
        // history: monotone states and no reappearance
        let n = self.versions.len();
        let empty: Vec<W> = vec![];
        let det = |i: usize| self.versions[i].details.as_ref().unwrap_or(&empty);
        for i in 0..n {
            for m in det(i) {
                let mut gone = false;
                for j in i + 1..n {
                    let later: Vec<&W> = det(j).iter().filter(|x| x.id() == m.id()).collect();
                    if later.is_empty() {
                        gone = true;
                    } else {
                        if gone {
                            bad.push(format!("generation {:?} present at v{}, removed, and present again at v{}", m.id(), i + 1, j + 1));
                            break;
                        }
                        if later.iter().any(|x| x.state < m.state) {
                            bad.push(format!("generation {:?} moves backwards: state {} at v{}, state {} at v{}", m.id(), m.state, i + 1, later[0].state, j + 1));
                            break;
                        }
                    }
                }
            }
        }
        // a generation is born only as the successor of everything the region ever had
        for j in 1..n {
            for m in det(j) {
                if !det(j - 1).iter().any(|x| x.id() == m.id()) {
                    let ever: Option<u64> = (0..j).flat_map(|i| det(i).iter()).filter(|x| x.region == m.region).map(|x| x.gen).max();
                    let want = ever.map(|g| g + 1).unwrap_or(0);
                    if m.gen != want {
                        bad.push(format!("v{}: generation {:?} created although the next generation of the region is {}", j + 1, m.id(), want));
                    }
                }
            }
        }
        // same-MemWAL conflict: i committed after j's read version, both committed
        for j in 0..n {
            for i in self.versions[j].rv + 1..j {
                let ti = self.versions[i].txn.touch();
                let tj = self.versions[j].txn.touch();
                if ti.iter().any(|x| tj.contains(x)) {
                    bad.push(format!("v{} and v{} are concurrent (v{} was computed at v{}) and both write {:?}", i + 1, j + 1, j + 1, self.versions[j].rv + 1, ti.iter().find(|x| tj.contains(x)).unwrap()));
                }
            }
        }
        bad
    }

    pub fn coq_input(&self) -> String {
        format!(
            "({}, {})",
            coq::nlist(self.init_kinds.iter()),
            coq::list(self.steps.iter().map(|(rv, op)| format!("({}, {})", rv, op.coq())))
        )
    }
    pub fn coq_obs(&self) -> String {
        coq::list(self.obs.iter().map(|(c, d, t)| {
            format!("({}, {}, {})", c, coq::opt(d.as_ref().map(|l| wl_coq(l))), coq::opt(t.as_ref().map(|t| t.coq())))
        }))
    }
    pub fn coq_flags(&self) -> String {
        coq::list(self.flags.iter().map(|b| coq::b(*b)))
    }
}

async fn exec_real(h: &mut Dataset, op: &Op, key: i32) -> lance::Result<()> {
    match op {
        Op::Advance { region, mt, wal, expected, owner } => {
            let e = expected.map(owner_s);
            advance_mem_wal_generation(h, &region_s(*region), &mt_s(*mt), &wal_s(*wal), e.as_deref(), &owner_s(*owner)).await
        }
        Op::Append { region, gen, entry, expected } => append_mem_wal_entry(h, &region_s(*region), *gen, *entry, &owner_s(*expected)).await.map(|_| ()),
        Op::Seal { region, gen, expected } => mark_mem_wal_as_sealed(h, &region_s(*region), *gen, &owner_s(*expected)).await.map(|_| ()),
        Op::Flush { region, gen, expected } => mark_mem_wal_as_flushed(h, &region_s(*region), *gen, &owner_s(*expected)).await.map(|_| ()),
        Op::Merged { region, gen, expected } => mark_mem_wal_as_merged(h, &region_s(*region), *gen, &owner_s(*expected)).await.map(|_| ()),
        Op::Owner { region, gen, owner, mt } => {
            let m = mt.map(mt_s);
            update_mem_wal_owner(h, &region_s(*region), *gen, &owner_s(*owner), m.as_deref()).await.map(|_| ())
        }
        Op::Trim { .. } => trim_mem_wal_index(h).await,
        Op::MergeInsert { region, gen, expected } => {
            let mut b = MergeInsertBuilder::try_new(Arc::new(h.clone()), vec!["id".to_string()])?;
            b.when_matched(WhenMatched::UpdateAll).when_not_matched(WhenNotMatched::InsertAll);
            b.mark_mem_wal_as_merged(MemWalId::new(&region_s(*region), *gen), &owner_s(*expected)).await?;
            let job = b.try_build()?;
            // fresh keys: the Update only inserts, so the fragment/row level checks never fire
            let rdr = RecordBatchIterator::new(vec![Ok(batch(key, 2))], schema());
            let (nd, _) = job.execute_reader(Box::new(rdr) as Box<dyn arrow_array::RecordBatchReader + Send>).await?;
            *h = nd.as_ref().clone();
            Ok(())
        }
    }
}

/// Mostly valid operation for a writer that sees `view`.
pub fn gen_op(view: &Option<Vec<W>>, nregions: u64, rng: &mut Rng, fresh: &mut u64) -> Op {
    let region = rng.below(nregions);
    let mut tok = || {
        *fresh += 1;
        *fresh
    };
    let empty = vec![];
    let l = view.as_ref().unwrap_or(&empty);
    let mut here: Vec<&W> = l.iter().filter(|m| m.region == region).collect();
    here.sort_by_key(|m| m.gen);
    if rng.chance(10, 100) {
        // wild: any op on any small coordinates
        let gen = rng.below(4);
        let e = 1 + rng.below(3);
        return match rng.below(8) {
            0 => Op::Advance { region, mt: tok(), wal: tok(), expected: if rng.bool() { None } else { Some(e) }, owner: 1 + rng.below(3) },
            1 => Op::Append { region, gen, entry: rng.below(6), expected: e },
            2 => Op::Seal { region, gen, expected: e },
            3 => Op::Flush { region, gen, expected: e },
            4 => Op::Merged { region, gen, expected: e },
            5 => Op::Owner { region, gen, owner: 1 + rng.below(3), mt: if rng.bool() { None } else { Some(tok()) } },
            6 => Op::Trim { minv: 0 },
            _ => Op::MergeInsert { region, gen, expected: e },
        };
    }
    if here.is_empty() {
        return Op::Advance { region, mt: tok(), wal: tok(), expected: if rng.chance(9, 10) { None } else { Some(1) }, owner: 1 + rng.below(3) };
    }
    let latest = *here.last().unwrap();
    let m = if rng.bool() { latest } else { *rng.pick(&here) };
    let expected = if rng.chance(9, 10) { m.owner } else { 1 + (m.owner % 3) };
    let gen = m.gen;
    let advance = |rng: &mut Rng, fresh: &mut u64| {
        let same = rng.chance(1, 20);
        *fresh += 2;
        Op::Advance {
            region,
            mt: if same && rng.bool() { latest.mt } else { *fresh - 1 },
            wal: if same { latest.wal } else { *fresh },
            expected: if rng.chance(19, 20) { Some(if rng.chance(9, 10) { latest.owner } else { 1 + (latest.owner % 3) }) } else { None },
            owner: 1 + rng.below(3),
        }
    };
    let owner_op = |rng: &mut Rng, fresh: &mut u64| {
        *fresh += 1;
        Op::Owner {
            region,
            gen,
            owner: if rng.chance(9, 10) { 1 + (m.owner % 3) } else { m.owner },
            mt: match rng.below(10) {
                0 => Some(m.mt),
                1..=4 => Some(*fresh),
                _ => None,
            },
        }
    };
    let pick = rng.below(100);
    match m.state {
        0 => match pick {
            0..=34 => {
                let last = m.entries.last().copied();
                let entry = match (last, rng.below(10)) {
                    (None, _) => rng.below(3),
                    (Some(x), 0) => x.saturating_sub(rng.below(2)),
                    (Some(x), 1..=2) => x + 2 + rng.below(2),
                    (Some(x), _) => x + 1,
                };
                Op::Append { region, gen, entry, expected }
            }
            35..=49 => Op::Seal { region, gen, expected },
            50..=79 => advance(rng, fresh),
            80..=89 => owner_op(rng, fresh),
            90..=93 => Op::Trim { minv: 0 },
            94..=96 => Op::Flush { region, gen, expected },
            _ => Op::MergeInsert { region, gen, expected },
        },
        1 => match pick {
            0..=44 => Op::Flush { region, gen, expected },
            45..=69 => advance(rng, fresh),
            70..=84 => owner_op(rng, fresh),
            85..=89 => Op::Trim { minv: 0 },
            90..=94 => Op::Seal { region, gen, expected },
            _ => Op::Append { region, gen, entry: 9, expected },
        },
        2 => match pick {
            0..=29 => Op::Merged { region, gen, expected },
            30..=59 => Op::MergeInsert { region, gen, expected },
            60..=74 => owner_op(rng, fresh),
            75..=89 => advance(rng, fresh),
            90..=95 => Op::Trim { minv: 0 },
            _ => Op::Flush { region, gen, expected },
        },
        _ => match pick {
            0..=29 => Op::Trim { minv: 0 },
            30..=49 => owner_op(rng, fresh),
            50..=84 => advance(rng, fresh),
            85..=92 => Op::Merged { region, gen, expected },
            _ => Op::MergeInsert { region, gen, expected },
        },
    }
}

/// Run one history and record it in the sink (correspondence cases + oracle result).
pub async fn run_history(
    label: &str,
    nwriters: usize,
    nregions: u64,
    with_user_index: bool,
    events: &[Event],
    rng: &mut Rng,
    sink: &mut Sink,
    hist: &mut Stream,
    classes: &mut Stream,
) -> World {
    let mut w = World::new(nwriters, nregions, with_user_index).await;
    for ev in events {
        w.run_event(ev, rng).await;
    }
    // self-test switches (see CONTRIB "sanity test"): never active unless C39_PLANT is set
    match std::env::var("C39_PLANT").as_deref() {
        // a wrong recorded implementation output: the details after step 3 of one scripted history
        Ok("details") if label == "probe-exp22" => {
            if let Some(l) = w.obs[2].1.as_mut() {
                l[0].state = (l[0].state + 1) % 4;
            }
        }
        // what the oracle would see if the implementation let a generation move backwards: the last version of a
        // clean scripted history has its first MemWAL reopened (the recorded correspondence case is untouched)
        Ok("oracle") if label == "upstream-advance-and-merge-insert" => {
            if let Some(l) = w.versions.last_mut().unwrap().details.as_mut() {
                l[0].state = 0;
            }
        }
        _ => {}
    }
    let bad = w.oracle();
    let mut case = w.case_json();
    case["label"] = json!(label);
    if bad.is_empty() {
        sink.oracle_ok();
    } else {
        case["violations"] = json!(bad);
        sink.oracle_fail(w.first_class(), &format!("MemWAL index breaks its state machine: {}", bad[0]), case.clone());
    }
    for (i, name) in CLASS_NAMES.iter().enumerate() {
        if w.flags[i] {
            sink.count(&format!("hist:{name}"));
        }
    }
    sink.count(if w.first_class().is_none() { "hist:clean" } else { "hist:in-some-known-class" });
    if w.first_class().is_none() && w.versions.len() > w.init_kinds.len() + 2 {
        sink.nontrivial(&w.coq_input());
    }
    for (_, op) in &w.steps {
        sink.count(&format!("op:{}", op.kind()));
    }
    for (c, _, _) in &w.obs {
        sink.count(&format!("code:{c}"));
    }
    let stale = w.versions.iter().enumerate().filter(|(j, v)| *j >= w.init_kinds.len() && v.rv + 1 < *j).count();
    sink.count_n("commit:stale-handle(rebase path)", stale as u64);
    sink.count_n("commit:fresh-handle", (w.versions.len() - w.init_kinds.len() - stale) as u64);
    hist.push(w.coq_input(), w.coq_obs(), case.clone());
    classes.push(w.coq_input(), w.coq_flags(), case);
    w
}
