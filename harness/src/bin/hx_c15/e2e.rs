//! Table arm: real datasets on a local temp dir. For every table state the harness records the fragment
//! layout (id, physical rows, deletion vector) and the full ordered scan (with _rowid/_rowaddr), then
//! drives row_offsets_to_row_addresses (hook), Dataset::take, take_builder(..).execute (addresses or
//! stable row ids), take_scan — each compared (a) with the scan itself (direct oracle, model-free) and
//! (b) with Core/Model_Take.v evaluated inside coqc.
use arrow_array::{Array, Int32Array, Int64Array, RecordBatch, RecordBatchIterator, StringArray, UInt64Array};
use arrow_schema::{DataType, Field, Schema as ArrowSchema};
use futures::{StreamExt, TryStreamExt};
use hxlib::util::{coq, Args, Rng, Sink, Stream};
use lance::dataset::optimize::{compact_files, CompactionOptions};
use lance::dataset::{ProjectionRequest, UpdateBuilder, WriteMode, WriteParams};
use lance::Dataset;
use lance_file::version::LanceFileVersion;
use serde_json::{json, Value};
use std::collections::{BTreeSet, HashMap};
use std::future::Future;
use std::sync::Arc;

const REQ: &str = "Common.Base Core.Model_Deletion Core.Model_Take";
const TOMBSTONE: u64 = u64::MAX;

#[derive(Clone, Debug, PartialEq)]
pub struct Row {
    pub v: i64,
    pub g: Option<i32>,
    pub s: String,
    pub addr: u64,
    pub rowid: u64,
}

pub type FragInfo = (u64, u64, Option<Vec<u64>>);

pub struct Snap {
    pub frags: Vec<FragInfo>,
    pub rows: Vec<Row>,
}

/// The g column is a function of v (see mk_batch).
fn g_of(v: i64) -> Option<i32> {
    if v % 11 == 10 { None } else { Some((v % 7) as i32) }
}

/// Delete / update predicates the harness can also evaluate itself (ground truth of the table contents).
#[derive(Clone, Debug)]
pub enum Pred {
    Mod(i64, i64),
    Range(i64, i64),
    In(Vec<i64>),
    GEq(i32),
    Lt(i64),
}
impl Pred {
    pub fn sql(&self) -> String {
        match self {
            Pred::Mod(m, r) => format!("v % {m} = {r}"),
            Pred::Range(a, b) => format!("v >= {a} AND v < {b}"),
            Pred::In(vs) => format!("v IN ({})", vs.iter().map(|v| v.to_string()).collect::<Vec<_>>().join(", ")),
            Pred::GEq(k) => format!("g = {k}"),
            Pred::Lt(x) => format!("v < {x}"),
        }
    }
    pub fn holds(&self, v: i64) -> bool {
        match self {
            Pred::Mod(m, r) => v % m == *r,
            Pred::Range(a, b) => v >= *a && v < *b,
            Pred::In(vs) => vs.contains(&v),
            Pred::GEq(k) => g_of(v) == Some(*k), // NULL = k is not true
            Pred::Lt(x) => v < *x,
        }
    }
}

pub struct Tbl {
    pub _dir: tempfile::TempDir,
    pub uri: String,
    pub ds: Dataset,
    pub next_v: i64,
    pub stable: bool,
    pub ver: LanceFileVersion,
    pub max_rows_per_file: usize,
    pub hist: Vec<String>,
    /// every (rowid) ever seen live, to build "ids of deleted rows"
    pub seen_ids: BTreeSet<u64>,
    /// ground truth kept by the harness: live v -> s
    pub truth: std::collections::BTreeMap<i64, String>,
    /// no compaction / update so far: the scan must list the rows by ascending v
    pub order_preserved: bool,
}

fn arrow_schema() -> Arc<ArrowSchema> {
    Arc::new(ArrowSchema::new(vec![
        Field::new("v", DataType::Int64, false),
        Field::new("g", DataType::Int32, true),
        Field::new("s", DataType::Utf8, true),
    ]))
}

fn mk_batch(start_v: i64, n: usize) -> RecordBatch {
    let vs: Vec<i64> = (0..n as i64).map(|i| start_v + i).collect();
    RecordBatch::try_new(
        arrow_schema(),
        vec![
            Arc::new(Int64Array::from(vs.clone())),
            Arc::new(Int32Array::from(vs.iter().map(|v| if v % 11 == 10 { None } else { Some((v % 7) as i32) }).collect::<Vec<_>>())),
            Arc::new(StringArray::from(vs.iter().map(|v| format!("s-{v}")).collect::<Vec<_>>())),
        ],
    )
    .unwrap()
}

/// Location of the most recent panic on a worker thread (tasks are awaited one at a time).
pub static LAST_PANIC_LOC: std::sync::Mutex<String> = std::sync::Mutex::new(String::new());

/// Run a fallible async operation on its own task: Ok | Err((is_panic, message)).
pub async fn guarded<T: Send + 'static>(fut: impl Future<Output = lance::Result<T>> + Send + 'static) -> Result<T, (bool, String)> {
    match tokio::spawn(fut).await {
        Ok(Ok(v)) => Ok(v),
        Ok(Err(e)) => Err((false, e.to_string().chars().take(300).collect())),
        Err(e) => {
            let is_panic = e.is_panic();
            let msg = if is_panic {
                let p = e.into_panic();
                let m = if let Some(s) = p.downcast_ref::<String>() {
                    s.clone()
                } else if let Some(s) = p.downcast_ref::<&str>() {
                    s.to_string()
                } else {
                    "panic".into()
                };
                format!("{} @ {}", m, LAST_PANIC_LOC.lock().map(|g| g.clone()).unwrap_or_default())
            } else {
                "cancelled".into()
            };
            Err((is_panic, msg.chars().take(300).collect()))
        }
    }
}

impl Tbl {
    pub async fn create(rng: &mut Rng, stable: bool) -> Tbl {
        let dir = tempfile::tempdir().unwrap();
        let uri = dir.path().join("t.lance").to_str().unwrap().to_string();
        let ver = if stable {
            *rng.pick(&[LanceFileVersion::V2_0, LanceFileVersion::V2_1])
        } else {
            *rng.pick(&[LanceFileVersion::Legacy, LanceFileVersion::V2_0, LanceFileVersion::V2_1])
        };
        let max_rows_per_file = *rng.pick(&[3usize, 4, 5, 8, 10, 16, 1000]);
        let n = rng.range(1, 48) as usize;
        let params = WriteParams {
            max_rows_per_file,
            max_rows_per_group: *rng.pick(&[2usize, 4, 1024]),
            data_storage_version: Some(ver),
            enable_stable_row_ids: stable,
            ..Default::default()
        };
        let b = mk_batch(0, n);
        let ds = Dataset::write(RecordBatchIterator::new(vec![Ok(b)], arrow_schema()), &uri, Some(params)).await.unwrap();
        Tbl { _dir: dir, uri, ds, next_v: n as i64, stable, ver, max_rows_per_file, hist: vec![format!("create n={n} max_rows_per_file={max_rows_per_file} version={ver} stable_row_ids={stable}")], seen_ids: BTreeSet::new(), truth: (0..n as i64).map(|v| (v, format!("s-{v}"))).collect(), order_preserved: true }
    }

    /// fixed table: n rows v = 0..n, file format 2.0, no stable row ids
    pub async fn create_fixed(n: usize, max_rows_per_file: usize) -> Tbl {
        let dir = tempfile::tempdir().unwrap();
        let uri = dir.path().join("t.lance").to_str().unwrap().to_string();
        let ver = LanceFileVersion::V2_0;
        let params = WriteParams { max_rows_per_file, data_storage_version: Some(ver), ..Default::default() };
        let ds = Dataset::write(RecordBatchIterator::new(vec![Ok(mk_batch(0, n))], arrow_schema()), &uri, Some(params)).await.unwrap();
        Tbl { _dir: dir, uri, ds, next_v: n as i64, stable: false, ver, max_rows_per_file, hist: vec![format!("create n={n} max_rows_per_file={max_rows_per_file} version=2.0 stable_row_ids=false")], seen_ids: BTreeSet::new(), truth: (0..n as i64).map(|v| (v, format!("s-{v}"))).collect(), order_preserved: true }
    }

    pub async fn append(&mut self, rng: &mut Rng) {
        let n = rng.range(1, 20) as usize;
        let params = WriteParams {
            max_rows_per_file: self.max_rows_per_file,
            mode: WriteMode::Append,
            data_storage_version: Some(self.ver),
            enable_stable_row_ids: self.stable,
            ..Default::default()
        };
        let b = mk_batch(self.next_v, n);
        for v in self.next_v..self.next_v + n as i64 {
            self.truth.insert(v, format!("s-{v}"));
        }
        self.next_v += n as i64;
        self.ds = Dataset::write(RecordBatchIterator::new(vec![Ok(b)], arrow_schema()), &self.uri, Some(params)).await.unwrap();
        self.hist.push(format!("append n={n}"));
    }

    fn gen_pred(&self, rng: &mut Rng, rows: &[Row]) -> Pred {
        let n = self.next_v.max(1);
        match rng.below(6) {
            0 => {
                let m = rng.range(2, 5) as i64;
                Pred::Mod(m, rng.below(m as u64) as i64)
            }
            1 => {
                let a = rng.below(n as u64) as i64;
                Pred::Range(a, a + rng.range(1, 12) as i64)
            }
            2 => {
                // a whole fragment's worth (or the head / tail of one)
                if rows.is_empty() {
                    Pred::Lt(0)
                } else {
                    let r = rng.pick(rows);
                    let fid = r.addr >> 32;
                    let vs: Vec<i64> = rows.iter().filter(|x| x.addr >> 32 == fid).map(|x| x.v).collect();
                    let take = match rng.below(3) {
                        0 => vs.len(),
                        1 => (vs.len() / 2).max(1),
                        _ => 1,
                    };
                    Pred::In(if rng.bool() { vs.iter().take(take).copied().collect() } else { vs.iter().rev().take(take).copied().collect() })
                }
            }
            3 => {
                let k = rng.range(1, 6);
                Pred::In((0..k).map(|_| rng.below(n as u64) as i64).collect())
            }
            // (not on legacy files: a NULL g reads back as 0 there, see the normalisation in check_state)
            4 if self.ver != LanceFileVersion::Legacy => Pred::GEq(rng.below(7) as i32),
            _ => Pred::Lt(rng.below(n as u64 / 2 + 1) as i64),
        }
    }

    pub async fn delete(&mut self, rng: &mut Rng, rows: &[Row]) {
        let pred = self.gen_pred(rng, rows);
        let p = pred.sql();
        self.ds.delete(&p).await.unwrap();
        self.truth.retain(|v, _| !pred.holds(*v));
        self.hist.push(format!("delete {p}"));
    }

    pub async fn update(&mut self, rng: &mut Rng, rows: &[Row]) {
        let pred = self.gen_pred(rng, rows);
        let p = pred.sql();
        let res = UpdateBuilder::new(Arc::new(self.ds.clone())).update_where(&p).unwrap().set("s", "'u' || s").unwrap().build().unwrap().execute().await.unwrap();
        self.ds = (*res.new_dataset).clone();
        for (v, s) in self.truth.iter_mut() {
            if pred.holds(*v) {
                *s = format!("u{s}");
            }
        }
        self.order_preserved = false;
        self.hist.push(format!("update s='u'||s where {p}"));
    }

    pub async fn compact(&mut self, rng: &mut Rng) {
        let opts = CompactionOptions {
            target_rows_per_fragment: *rng.pick(&[4usize, 8, 20, 64, 1024]),
            materialize_deletions: true,
            materialize_deletions_threshold: *rng.pick(&[0.0f32, 0.1, 0.5]),
            ..Default::default()
        };
        let t = opts.target_rows_per_fragment;
        let th = opts.materialize_deletions_threshold;
        compact_files(&mut self.ds, opts, None).await.unwrap();
        self.order_preserved = false;
        self.hist.push(format!("compact target_rows_per_fragment={t} materialize_deletions_threshold={th}"));
    }

    pub async fn snap(&mut self) -> Snap {
        let mut frags = vec![];
        for f in self.ds.get_fragments() {
            let phys = f.physical_rows().await.unwrap() as u64;
            let dv = f.get_deletion_vector().await.unwrap();
            let del = dv.map(|d| {
                let mut v: Vec<u64> = d.iter().map(|x| x as u64).collect();
                v.sort();
                v
            });
            frags.push((f.id() as u64, phys, del));
        }
        let mut sc = self.ds.scan();
        sc.with_row_id().with_row_address().scan_in_order(true);
        let bs: Vec<RecordBatch> = sc.try_into_stream().await.unwrap().try_collect().await.unwrap();
        let mut rows = vec![];
        for b in bs {
            let v = col_i64(&b, "v");
            let g = b.column_by_name("g").unwrap().as_any().downcast_ref::<Int32Array>().unwrap().clone();
            let s = b.column_by_name("s").unwrap().as_any().downcast_ref::<StringArray>().unwrap().clone();
            let a = col_u64(&b, "_rowaddr");
            let r = col_u64(&b, "_rowid");
            for i in 0..b.num_rows() {
                rows.push(Row { v: v[i], g: if g.is_null(i) { None } else { Some(g.value(i)) }, s: s.value(i).to_string(), addr: a[i], rowid: r[i] });
            }
        }
        for r in &rows {
            self.seen_ids.insert(r.rowid);
        }
        Snap { frags, rows }
    }
}

fn col_i64(b: &RecordBatch, name: &str) -> Vec<i64> {
    b.column_by_name(name).unwrap().as_any().downcast_ref::<Int64Array>().unwrap().values().to_vec()
}
fn col_u64(b: &RecordBatch, name: &str) -> Vec<u64> {
    b.column_by_name(name).unwrap().as_any().downcast_ref::<UInt64Array>().unwrap().values().to_vec()
}

// ---- projections ----
#[derive(Clone, Copy, Debug, PartialEq)]
pub enum Proj {
    Full,
    V,
    SV,
    SOnly,
    Sql,
    VAddr,
    IdV,
}
pub const PROJS: [Proj; 7] = [Proj::Full, Proj::V, Proj::SV, Proj::SOnly, Proj::Sql, Proj::VAddr, Proj::IdV];
pub const PROJS_NO_ADDR: [Proj; 6] = [Proj::Full, Proj::V, Proj::SV, Proj::SOnly, Proj::Sql, Proj::IdV];

pub fn proj_request(ds: &Dataset, p: Proj) -> ProjectionRequest {
    match p {
        Proj::Full => ProjectionRequest::from_schema(ds.schema().clone()),
        Proj::V => ProjectionRequest::from_columns(["v"], ds.schema()),
        Proj::SV => ProjectionRequest::from_columns(["s", "v"], ds.schema()),
        Proj::SOnly => ProjectionRequest::from_columns(["s"], ds.schema()),
        Proj::Sql => ProjectionRequest::from_sql([("vv", "v * 2"), ("g", "g"), ("s", "s")]),
        Proj::VAddr => ProjectionRequest::from_columns(["v", "_rowaddr"], ds.schema()),
        Proj::IdV => ProjectionRequest::from_columns(["_rowid", "v"], ds.schema()),
    }
}

/// Canonical rendering of the rows of a result batch (every column, by name).
fn render(b: &RecordBatch) -> Vec<String> {
    let mut out = vec![String::new(); b.num_rows()];
    let schema = b.schema();
    let mut names: Vec<(usize, String)> = schema.fields().iter().enumerate().map(|(i, f)| (i, f.name().clone())).collect();
    names.sort_by(|a, b| a.1.cmp(&b.1));
    for (ci, name) in names {
        let c = b.column(ci);
        for i in 0..b.num_rows() {
            let cell = if c.is_null(i) {
                "NULL".to_string()
            } else if let Some(a) = c.as_any().downcast_ref::<Int64Array>() {
                a.value(i).to_string()
            } else if let Some(a) = c.as_any().downcast_ref::<Int32Array>() {
                a.value(i).to_string()
            } else if let Some(a) = c.as_any().downcast_ref::<UInt64Array>() {
                a.value(i).to_string()
            } else if let Some(a) = c.as_any().downcast_ref::<StringArray>() {
                a.value(i).to_string()
            } else {
                format!("?{:?}", c.data_type())
            };
            out[i].push_str(&format!("{name}={cell};"));
        }
    }
    out
}

/// What `render` must give for scan row `r` under projection `p` (+ `_rowaddr` when the builder adds it).
fn expect_render(r: &Row, p: Proj, extra_addr: bool) -> String {
    let mut cols: Vec<(String, String)> = vec![];
    let g = r.g.map(|x| x.to_string()).unwrap_or("NULL".into());
    match p {
        Proj::Full => {
            cols.push(("v".into(), r.v.to_string()));
            cols.push(("g".into(), g));
            cols.push(("s".into(), r.s.clone()));
        }
        Proj::V => cols.push(("v".into(), r.v.to_string())),
        Proj::SV => {
            cols.push(("s".into(), r.s.clone()));
            cols.push(("v".into(), r.v.to_string()));
        }
        Proj::SOnly => cols.push(("s".into(), r.s.clone())),
        Proj::Sql => {
            cols.push(("vv".into(), (r.v * 2).to_string()));
            cols.push(("g".into(), g));
            cols.push(("s".into(), r.s.clone()));
        }
        Proj::VAddr => {
            cols.push(("v".into(), r.v.to_string()));
            cols.push(("_rowaddr".into(), r.addr.to_string()));
        }
        Proj::IdV => {
            cols.push(("_rowid".into(), r.rowid.to_string()));
            cols.push(("v".into(), r.v.to_string()));
        }
    }
    if extra_addr && p != Proj::VAddr {
        cols.push(("_rowaddr".into(), r.addr.to_string()));
    }
    cols.sort_by(|a, b| a.0.cmp(&b.0));
    cols.iter().map(|(n, c)| format!("{n}={c};")).collect()
}

/// Reorder the rows of a result by ascending v and drop repeated rows (sanity mutant, see check_state).
fn sort_batch_by_v(b: RecordBatch, p: Proj) -> RecordBatch {
    let vs = vs_of(&b, p);
    let mut idx: Vec<u64> = (0..vs.len() as u64).collect();
    idx.sort_by_key(|i| vs[*i as usize]);
    idx.dedup_by_key(|i| vs[*i as usize]);
    let indices = UInt64Array::from(idx);
    let cols: Vec<Arc<dyn Array>> = b.columns().iter().map(|c| arrow_select::take::take(c.as_ref(), &indices, None).unwrap()).collect();
    RecordBatch::try_new(b.schema(), cols).unwrap()
}

/// The `v` of every returned row (rows are identified by their unique v).
fn vs_of(b: &RecordBatch, p: Proj) -> Vec<i64> {
    match p {
        Proj::Sql => col_i64(b, "vv").iter().map(|x| x / 2).collect(),
        Proj::SOnly => {
            let s = b.column_by_name("s").unwrap().as_any().downcast_ref::<StringArray>().unwrap();
            (0..s.len()).map(|i| s.value(i).rsplit('-').next().unwrap().parse::<i64>().unwrap()).collect()
        }
        _ => col_i64(b, "v"),
    }
}

pub fn frags_coq(frags: &[FragInfo]) -> String {
    coq::list(frags.iter().map(|(id, phys, del)| format!("({}, {}, {})", id, phys, coq::opt(del.as_ref().map(|d| coq::nlist(d.iter()))))))
}
fn frags_json(frags: &[FragInfo]) -> Value {
    json!(frags.iter().map(|(id, phys, del)| json!({"id": id, "physical_rows": phys, "deleted": del})).collect::<Vec<_>>())
}

pub struct Streams {
    pub scan: Stream,
    pub offs2addr: Stream,
    pub take_off: Stream,
    pub take_addr: Stream,
    pub take_id: Stream,
    pub take_scan: Stream,
}

fn gen_offsets(rng: &mut Rng, snap: &Snap) -> (Vec<u64>, &'static str) {
    let n = snap.rows.len() as u64;
    // cumulative live counts = logical fragment boundaries
    let mut bounds = vec![];
    let mut acc = 0u64;
    for (_, phys, del) in &snap.frags {
        acc += phys - del.as_ref().map(|d| d.len() as u64).unwrap_or(0);
        bounds.push(acc);
    }
    let pick_in = |rng: &mut Rng| if n == 0 { 0 } else { rng.below(n) };
    if bounds.is_empty() {
        // a table without fragments: every offset is out of range
        return ((0..rng.below(3)).collect(), "no-fragments");
    }
    match rng.below(12) {
        0 => {
            let start = pick_in(rng);
            let len = rng.range(1, 12).min(n.saturating_sub(start).max(1));
            ((start..start + len).filter(|x| *x < n.max(1)).collect(), "contiguous")
        }
        1 => {
            let k = rng.range(1, 10);
            let s: BTreeSet<u64> = (0..k).map(|_| pick_in(rng)).collect();
            (s.into_iter().filter(|x| *x < n.max(1)).collect(), "sorted")
        }
        2 | 3 => {
            let k = rng.range(2, 14);
            let mut v: Vec<u64> = (0..k).map(|_| pick_in(rng)).collect();
            if rng.bool() && v.len() > 2 {
                v[1] = v[0];
            }
            (v.into_iter().filter(|x| *x < n.max(1)).collect(), "unsorted-dups")
        }
        4 | 5 => {
            let mut v = vec![];
            for _ in 0..rng.range(1, 4) {
                let b = *rng.pick(&bounds);
                for d in [-1i64, 0, 1] {
                    let x = b as i64 + d;
                    if x >= 0 && (x as u64) < n && rng.chance(3, 4) {
                        v.push(x as u64);
                    }
                }
            }
            if rng.bool() {
                v.sort();
                v.dedup();
            }
            if v.is_empty() && n > 0 {
                v.push(n - 1);
            }
            (v, "fragment-boundary")
        }
        6 => (vec![pick_in(rng)].into_iter().filter(|x| *x < n.max(1)).collect(), "single"),
        7 => {
            let k = rng.range(1, 6);
            let s: BTreeSet<u64> = (0..k).map(|_| pick_in(rng)).collect();
            let mut v: Vec<u64> = s.into_iter().filter(|x| *x < n).collect();
            v.push(n + rng.below(3));
            (v, "oob-last")
        }
        8 => {
            let k = rng.range(2, 8);
            let mut v: Vec<u64> = (0..k).map(|_| pick_in(rng)).filter(|x| *x < n).collect();
            let pos = rng.below(v.len() as u64 + 1) as usize;
            v.insert(pos.min(v.len()), n + rng.below(50));
            if rng.bool() {
                v.insert(0, n + 1);
            }
            (v, "oob-mixed")
        }
        9 => ((0..rng.range(1, 3)).map(|i| n + i * rng.range(1, 3)).collect(), "all-oob"),
        10 => {
            let k = rng.range(2, 10);
            let s: BTreeSet<u64> = (0..k).map(|_| pick_in(rng)).collect();
            (s.into_iter().rev().filter(|x| *x < n.max(1)).collect(), "descending")
        }
        _ => ((0..n).collect(), "all-rows"),
    }
}

fn gen_addrs(rng: &mut Rng, snap: &Snap) -> (Vec<u64>, &'static str) {
    let live: Vec<u64> = snap.rows.iter().map(|r| r.addr).collect();
    if snap.frags.is_empty() {
        return ((0..rng.below(3)).map(|i| (i << 32) + 1).collect(), "no-fragments");
    }
    let frag = |rng: &mut Rng| rng.pick(&snap.frags).clone();
    match rng.below(10) {
        0 | 1 => {
            let k = rng.range(1, 12);
            let mut v: Vec<u64> = if live.is_empty() { vec![] } else { (0..k).map(|_| *rng.pick(&live)).collect() };
            if rng.bool() && v.len() > 2 {
                v[2] = v[0];
            }
            (v, "live-unsorted-dups")
        }
        2 => {
            let k = rng.range(1, 10);
            let s: BTreeSet<u64> = if live.is_empty() { BTreeSet::new() } else { (0..k).map(|_| *rng.pick(&live)).collect() };
            (s.into_iter().collect(), "live-sorted")
        }
        3 | 4 => {
            // a run of consecutive physical slots of one fragment (deleted slots included)
            let (id, phys, _) = frag(rng);
            if phys == 0 {
                return (vec![], "empty");
            }
            let start = rng.below(phys);
            let len = rng.range(1, 8).min(phys - start);
            (((id << 32) + start..(id << 32) + start + len).collect(), "slot-run")
        }
        5 => {
            // arbitrary physical slots of several fragments, unsorted, deleted ones included
            let k = rng.range(2, 10);
            let v: Vec<u64> = (0..k)
                .filter_map(|_| {
                    let (id, phys, _) = frag(rng);
                    if phys == 0 { None } else { Some((id << 32) + rng.below(phys)) }
                })
                .collect();
            (v, "slots-unsorted")
        }
        6 => {
            let k = rng.range(2, 10);
            let s: BTreeSet<u64> = (0..k)
                .filter_map(|_| {
                    let (id, phys, _) = frag(rng);
                    if phys == 0 { None } else { Some((id << 32) + rng.below(phys)) }
                })
                .collect();
            (s.into_iter().collect(), "slots-sorted")
        }
        7 => {
            // one slot past the physical end of a fragment, alone / sorted / unsorted
            let (id, phys, _) = frag(rng);
            let bad = (id << 32) + phys + rng.below(2);
            let mut v: Vec<u64> = if live.is_empty() { vec![] } else { (0..rng.below(4)).map(|_| *rng.pick(&live)).collect() };
            v.push(bad);
            if rng.bool() {
                v.sort();
                v.dedup();
            }
            (v, "slot-out-of-bounds")
        }
        8 => {
            // a fragment id that does not exist
            let max_id = snap.frags.iter().map(|f| f.0).max().unwrap_or(0);
            let bad = ((max_id + 1 + rng.below(3)) << 32) + rng.below(4);
            let mut v: Vec<u64> = if live.is_empty() { vec![] } else { (0..rng.below(4)).map(|_| *rng.pick(&live)).collect() };
            let pos = rng.below(v.len() as u64 + 1) as usize;
            v.insert(pos, bad);
            if rng.chance(1, 3) {
                v.sort();
                v.dedup();
            }
            (v, "missing-fragment")
        }
        _ => {
            // last slots of one fragment followed by the first of the next (numerically not contiguous)
            let i = rng.below(snap.frags.len() as u64) as usize;
            let (id, phys, _) = snap.frags[i].clone();
            let mut v = vec![];
            if phys >= 2 {
                v.push((id << 32) + phys - 2);
            }
            if phys >= 1 {
                v.push((id << 32) + phys - 1);
            }
            if let Some((id2, phys2, _)) = snap.frags.get(i + 1) {
                if *phys2 > 0 {
                    v.push(id2 << 32);
                }
            }
            (v, "across-fragments")
        }
    }
}

fn outcome_addrs(r: &Result<Vec<u64>, (bool, String)>) -> String {
    coq::outcome(&r.as_ref().map(|v| coq::nlist(v.iter())).map_err(|e| e.0))
}

/// Compare a take result with the rows a scan shows. `expected` = the scan rows the request denotes,
/// in request order. Returns None when fine.
fn compare_rows(b: &RecordBatch, p: Proj, extra_addr: bool, expected: &[&Row]) -> Option<String> {
    let got = render(b);
    let exp: Vec<String> = expected.iter().map(|r| expect_render(r, p, extra_addr)).collect();
    if got == exp {
        None
    } else {
        Some(format!("got {:?} expected {:?}", got.iter().take(12).collect::<Vec<_>>(), exp.iter().take(12).collect::<Vec<_>>()))
    }
}

pub async fn check_state(t: &mut Tbl, st: &mut Streams, sink: &mut Sink, rng: &mut Rng, reps: usize, fixed: &[Vec<u64>]) {
    let snap = t.snap().await;
    let n = snap.rows.len() as u64;
    let fr_coq = frags_coq(&snap.frags);
    let fr_json = frags_json(&snap.frags);
    let by_v: HashMap<i64, &Row> = snap.rows.iter().map(|r| (r.v, r)).collect();
    let by_addr: HashMap<u64, &Row> = snap.rows.iter().map(|r| (r.addr, r)).collect();
    let by_id: HashMap<u64, &Row> = snap.rows.iter().map(|r| (r.rowid, r)).collect();
    let hist = json!(t.hist);
    sink.count(&format!("tables:states:stable={}", t.stable));
    sink.count_n("tables:fragments", snap.frags.len() as u64);
    sink.count_n("tables:fragments-with-deletions", snap.frags.iter().filter(|f| f.2.is_some()).count() as u64);

    // ---- the scan itself vs the model's `scan` (ties the specification vocabulary to the code)
    st.scan.push(fr_coq.clone(), coq::nlist(snap.rows.iter().map(|r| &r.addr)), json!({"history": hist, "fragments": fr_json, "scan_addrs": snap.rows.iter().map(|r| r.addr).collect::<Vec<_>>()}));
    // direct oracle: scan addresses are distinct, live, and (without stable row ids) _rowid = _rowaddr
    {
        let distinct = by_addr.len() == snap.rows.len() && by_id.len() == snap.rows.len() && by_v.len() == snap.rows.len();
        // ground truth: the scan lists exactly the rows the history leaves (values included), in
        // insertion order as long as nothing was compacted or updated
        // (documented normalisation: the legacy 0.1 file format does not keep NULLs of primitive
        //  columns, so the nullable g column is left out of the ground-truth comparison there)
        let legacy = t.ver == LanceFileVersion::Legacy;
        let mut got: Vec<(i64, Option<i32>, String)> = snap.rows.iter().map(|r| (r.v, if legacy { None } else { r.g }, r.s.clone())).collect();
        let in_order = got.windows(2).all(|w| w[0].0 < w[1].0);
        got.sort();
        let want: Vec<(i64, Option<i32>, String)> = t.truth.iter().map(|(v, s)| (*v, if legacy { None } else { g_of(*v) }, s.clone())).collect();
        if got == want && (in_order || !t.order_preserved) {
            sink.oracle_ok();
        } else {
            sink.oracle_fail(None, "the ordered scan does not list exactly the rows the history leaves (or not in insertion order)", json!({"history": hist, "fragments": fr_json, "scan_v": snap.rows.iter().map(|r| r.v).collect::<Vec<_>>(), "expected_v": t.truth.keys().collect::<Vec<_>>()}));
        }
        let ids_ok = t.stable || snap.rows.iter().all(|r| r.rowid == r.addr);
        let cnt = t.ds.count_rows(None).await.unwrap() as u64;
        if distinct && ids_ok && cnt == n {
            sink.oracle_ok();
        } else {
            sink.oracle_fail(None, "scan reports duplicate row ids/addresses, _rowid != _rowaddr without stable row ids, or count_rows != scan length", json!({"history": hist, "fragments": fr_json, "count_rows": cnt, "scan_len": n}));
        }
    }

    let mut requests: Vec<(Vec<u64>, &'static str)> = fixed.iter().map(|o| (o.clone(), "fixed")).collect();
    for _ in 0..reps {
        requests.push(gen_offsets(rng, &snap));
    }
    for (offs, kind) in requests {
        // ================= by offset =================
        let all_in = offs.iter().all(|o| *o < n);
        sink.count(&format!("offsets:{kind}"));
        let inp = format!("({}, {})", fr_coq, coq::nlist(offs.iter()));
        sink.nontrivial(&format!("off{inp}"));
        // (a) the hook
        {
            let ds = t.ds.clone();
            let o2 = offs.clone();
            let r = guarded(async move { lance::dataset::verif_hooks::row_offsets_to_row_addresses(&ds, &o2).await }).await;
            let expect: Vec<u64> = offs.iter().map(|o| if *o < n { snap.rows[*o as usize].addr } else { TOMBSTONE }).collect();
            let case = json!({"history": hist, "fragments": fr_json, "offsets": offs, "kind": kind, "impl": format!("{:?}", r), "expected_from_scan": expect});
            match &r {
                Ok(v) if *v == expect => sink.oracle_ok(),
                _ => sink.oracle_fail(None, "row_offsets_to_row_addresses disagrees with the _rowaddr column of a scan at those positions", case.clone()),
            }
            st.offs2addr.push(inp.clone(), outcome_addrs(&r), case);
        }
        // (b) Dataset::take with a random projection
        if !offs.is_empty() || rng.chance(1, 4) {
            let p = *rng.pick(&PROJS);
            let ds = t.ds.clone();
            let o2 = offs.clone();
            let r = guarded(async move {
                let pr = proj_request(&ds, p);
                ds.take(&o2, pr).await
            })
            .await;
            // sanity mutant (only with `--sanity take-no-remap`): behave as if the re-mapping path of
            // do_take_rows returned the concatenated per-fragment batches without restoring request order
            let r = if crate::sanity() == "take-no-remap" { r.map(|b| sort_batch_by_v(b, p)) } else { r };
            let expected: Vec<&Row> = offs.iter().filter(|o| **o < n).map(|o| &snap.rows[*o as usize]).collect();
            let out = r.as_ref().map(|b| vs_of(b, p).iter().map(|v| by_v.get(v).map(|r| r.addr).unwrap_or(0)).collect::<Vec<u64>>()).map_err(|e| e.clone());
            let case = json!({"history": hist, "fragments": fr_json, "offsets": offs, "kind": kind, "projection": format!("{:?}", p), "impl": format!("{:?}", out), "expected_v": expected.iter().map(|r| r.v).collect::<Vec<_>>()});
            sink.count(&format!("take:{}", match &r { Ok(_) => "ok", Err((true, _)) => "panic", Err((false, _)) => "err" }));
            match &r {
                Ok(b) => match compare_rows(b, p, false, &expected) {
                    None => sink.oracle_ok(),
                    Some(d) => sink.oracle_fail(None, &format!("Dataset::take returned rows other than the scan rows at the requested positions ({d})"), case.clone()),
                },
                Err((false, _)) if !all_in => sink.oracle_ok(), // an error for an out-of-range offset is acceptable
                Err((false, m)) => sink.oracle_fail(None, &format!("Dataset::take failed on in-range offsets: {m}"), case.clone()),
                Err((true, m)) => sink.oracle_fail(take_panic_class(&offs, n), &format!("Dataset::take panicked: {m}"), case.clone()),
            }
            st.take_off.push(inp.clone(), outcome_addrs(&out), case);
        }

        // ================= by address / row id =================
        if !t.stable {
            let (addrs, kind) = gen_addrs(rng, &snap);
            let wra = rng.chance(1, 4);
            // with_row_address(true) on a projection that already has _rowaddr is a usage error
            // ("Can not append column _rowaddr"): not generated.
            let p = if wra { *rng.pick(&PROJS_NO_ADDR) } else { *rng.pick(&PROJS) };
            sink.count(&format!("addrs:{kind}"));
            let in_bounds = |a: &u64| snap.frags.iter().any(|(id, phys, _)| *id == a >> 32 && (a & 0xffff_ffff) < *phys);
            let all_in_bounds = addrs.iter().all(in_bounds);
            let expected: Vec<&Row> = addrs.iter().filter_map(|a| by_addr.get(a).copied()).collect();
            let all_live = expected.len() == addrs.len();
            let ds = Arc::new(t.ds.clone());
            let a2 = addrs.clone();
            let r = guarded(async move {
                let pr = proj_request(&ds, p);
                ds.take_builder(&a2, pr)?.with_row_address(wra).execute().await
            })
            .await;
            let out = r.as_ref().map(|b| vs_of(b, p).iter().map(|v| by_v.get(v).map(|r| r.addr).unwrap_or(0)).collect::<Vec<u64>>()).map_err(|e| e.clone());
            let case = json!({"history": hist, "fragments": fr_json, "addresses": addrs, "kind": kind, "with_row_address": wra, "projection": format!("{:?}", p), "impl": format!("{:?}", out), "expected_v": expected.iter().map(|r| r.v).collect::<Vec<_>>()});
            match &r {
                Ok(b) => {
                    // with_row_address only adds the column when there is at least one address
                    match compare_rows(b, p, wra && !addrs.is_empty(), &expected) {
                        None if !(wra && !all_live) => sink.oracle_ok(),
                        None => sink.oracle_fail(None, "take with row addresses targeting deleted rows did not fail", case.clone()),
                        Some(d) => sink.oracle_fail(None, &format!("take_rows by address returned rows other than the live rows at those addresses, in request order ({d})"), case.clone()),
                    }
                }
                Err((false, _)) if !all_in_bounds || (wra && !all_live) => sink.oracle_ok(),
                Err((false, m)) => sink.oracle_fail(None, &format!("take_rows by address failed on in-bounds addresses: {m}"), case.clone()),
                Err((true, m)) => sink.oracle_fail(None, &format!("take_rows by address panicked: {m}"), case.clone()),
            }
            let inp = format!("({}, ({}, {}))", fr_coq, coq::nlist(addrs.iter()), coq::b(wra));
            sink.nontrivial(&format!("addr{inp}"));
            st.take_addr.push(inp, outcome_addrs(&out), case);
        } else {
            // stable row ids: ids of live rows (dups, any order), ids of rows deleted earlier, never-used ids
            let live_ids: Vec<u64> = snap.rows.iter().map(|r| r.rowid).collect();
            let dead_ids: Vec<u64> = t.seen_ids.iter().filter(|i| !by_id.contains_key(i)).copied().collect();
            let k = rng.range(1, 12);
            let kind = *rng.pick(&["live", "live", "live-sorted", "with-deleted", "with-unknown"]);
            let mut ids: Vec<u64> = if live_ids.is_empty() { vec![] } else { (0..k).map(|_| *rng.pick(&live_ids)).collect() };
            match kind {
                "live-sorted" => {
                    ids.sort();
                    ids.dedup();
                }
                "with-deleted" if !dead_ids.is_empty() => {
                    let pos = rng.below(ids.len() as u64 + 1) as usize;
                    ids.insert(pos, *rng.pick(&dead_ids));
                }
                "with-unknown" => {
                    let pos = rng.below(ids.len() as u64 + 1) as usize;
                    ids.insert(pos, t.next_v as u64 + 1000 + rng.below(5));
                }
                _ => {}
            }
            sink.count(&format!("ids:{kind}"));
            let wra = rng.chance(1, 5);
            let p = if wra { *rng.pick(&PROJS_NO_ADDR) } else { *rng.pick(&PROJS) };
            let expected: Vec<&Row> = ids.iter().filter_map(|a| by_id.get(a).copied()).collect();
            let ds = Arc::new(t.ds.clone());
            let i2 = ids.clone();
            let r = guarded(async move {
                let pr = proj_request(&ds, p);
                ds.take_builder(&i2, pr)?.with_row_address(wra).execute().await
            })
            .await;
            let out = r.as_ref().map(|b| vs_of(b, p).iter().map(|v| by_v.get(v).map(|r| r.addr).unwrap_or(0)).collect::<Vec<u64>>()).map_err(|e| e.clone());
            let case = json!({"history": hist, "fragments": fr_json, "row_ids": ids, "kind": kind, "with_row_address": wra, "projection": format!("{:?}", p), "impl": format!("{:?}", out), "expected_v": expected.iter().map(|r| r.v).collect::<Vec<_>>()});
            match &r {
                Ok(b) => match compare_rows(b, p, wra && !expected.is_empty(), &expected) {
                    None => sink.oracle_ok(),
                    Some(d) => sink.oracle_fail(None, &format!("take_rows by stable row id returned rows other than the scan rows with those ids, in request order ({d})"), case.clone()),
                },
                Err((pn, m)) => sink.oracle_fail(None, &format!("take_rows by stable row id {}: {m}", if *pn { "panicked" } else { "failed" }), case.clone()),
            }
            // model: the index is the scan's (_rowid -> _rowaddr) association
            let pairs = coq::list(snap.rows.iter().map(|r| format!("({}, {})", r.rowid, r.addr)));
            let inp = format!("({}, {}, ({}, {}))", fr_coq, pairs, coq::nlist(ids.iter()), coq::b(wra));
            sink.nontrivial(&format!("id{inp}"));
            st.take_id.push(inp, outcome_addrs(&out), case);
        }
    }

    // ================= take_scan =================
    if n > 0 {
        let k = rng.range(1, 4);
        let mut ranges: Vec<(u64, u64)> = (0..k)
            .map(|_| {
                let a = rng.below(n);
                (a, (a + rng.range(1, 9)).min(n))
            })
            .collect();
        // at most one range reaching past the end, and only as the last one (the order in which
        // `buffered` surfaces an error and a panic of two different ranges is not deterministic)
        let oob = rng.chance(1, 5);
        if oob {
            ranges.push(*rng.pick(&[(n - 1, n + 1), (n - 1, n + 1), (n, n + 1), (n, n + 2), (n - 1, n + 2)]));
        }
        // the offsets a..b are two or more and all out of range  <=>  a >= n and b >= a + 2
        let scan_class = if ranges.iter().any(|(a, b)| *a >= n && *b >= *a + 2) { Some("all_offsets_oob") } else { None };
        let ds = t.ds.clone();
        let r2 = ranges.clone();
        let readahead = rng.range(1, 4) as usize;
        let r = guarded(async move {
            let projection = Arc::new(ds.schema().project(&["v", "s"]).unwrap());
            let stream = futures::stream::iter(r2.into_iter().map(|(a, b)| Ok(a..b))).boxed();
            let bs: Vec<RecordBatch> = ds.take_scan(stream, projection, readahead).try_collect().await?;
            Ok(bs)
        })
        .await;
        let out = r.as_ref().map(|bs| bs.iter().map(|b| col_i64(b, "v").iter().map(|v| by_v.get(v).map(|r| r.addr).unwrap_or(0)).collect::<Vec<u64>>()).collect::<Vec<_>>()).map_err(|e| e.clone());
        let case = json!({"history": hist, "fragments": fr_json, "ranges": ranges, "readahead": readahead, "impl": format!("{:?}", out)});
        sink.count(if oob { "take_scan:with-oob-range" } else { "take_scan:in-range" });
        match &r {
            Ok(bs) => {
                let good = bs.len() == ranges.len()
                    && bs.iter().zip(ranges.iter()).all(|(b, (a, e))| {
                        let exp: Vec<(i64, String)> = snap.rows[*a as usize..(*e).min(n) as usize].iter().map(|r| (r.v, r.s.clone())).collect();
                        let s = b.column_by_name("s").unwrap().as_any().downcast_ref::<StringArray>().unwrap();
                        let got: Vec<(i64, String)> = col_i64(b, "v").into_iter().enumerate().map(|(i, v)| (v, s.value(i).to_string())).collect();
                        got == exp && b.num_columns() == 2
                    });
                if good {
                    sink.oracle_ok();
                } else {
                    sink.oracle_fail(None, "take_scan batches differ from the corresponding slices of the scan", case.clone());
                }
            }
            Err((false, _)) if oob => sink.oracle_ok(),
            Err((true, m)) => sink.oracle_fail(scan_class, &format!("take_scan panicked: {m}"), case.clone()),
            Err((false, m)) => sink.oracle_fail(None, &format!("take_scan failed on in-range ranges: {m}"), case.clone()),
        }
        let o = match &out {
            Ok(bs) => format!("(Ok {})", coq::list(bs.iter().map(|b| coq::nlist(b.iter())))),
            Err((false, _)) => "Err".to_string(),
            Err((true, _)) => "Panic".to_string(),
        };
        st.take_scan.push(format!("({}, {})", fr_coq, coq::list(ranges.iter().map(|(a, b)| format!("({}, {})", a, b)))), o, case);
    }
}

/// Known-finding class of a panicking `take(offsets)`, decided from the INPUT only.
/// Class `all_offsets_oob` (Known_C15_all_offsets_oob in Core/Model_Take.v): two or more offsets, all of
/// them >= the number of rows. Every address is the tombstone; the re-mapping path of do_take_rows finds no
/// fragment and `batches.pop().unwrap()` panics (take.rs). (The former class oob_offset_not_last — the
/// `last_offset + 1` overflow — was repaired by repo commit 33efb4f.)
fn take_panic_class(offs: &[u64], n: u64) -> Option<&'static str> {
    if offs.len() >= 2 && offs.iter().all(|o| *o >= n) {
        Some("all_offsets_oob")
    } else {
        None
    }
}

pub fn run(args: &Args, sink: &mut Sink, rng: &mut Rng) {
    let rt = tokio::runtime::Builder::new_multi_thread().worker_threads(4).enable_all().build().unwrap();
    let prev = std::panic::take_hook();
    // implementation panics happen on worker tasks (see `guarded`) and are recorded as outcomes;
    // a panic on the main thread is a harness bug and must be visible.
    std::panic::set_hook(Box::new(|info| {
        if std::thread::current().name() == Some("main") {
            eprintln!("hx_c15 harness panic: {info}");
        } else if let (Some(l), Ok(mut g)) = (info.location(), LAST_PANIC_LOC.lock()) {
            *g = format!("{}:{}", l.file().rsplit("/rust/").next().unwrap_or(l.file()), l.line());
        }
    }));
    let mut st = Streams {
        scan: Stream::new("scan", REQ, "chk_scan", "frags_in", "list N"),
        offs2addr: Stream::new("offs2addr", REQ, "chk_offs2addr", "frags_in * list N", "outcome (list N)"),
        take_off: Stream::new("take_off", REQ, "chk_take_off", "frags_in * list N", "outcome (list N)"),
        take_addr: Stream::new("take_addr", REQ, "chk_take_addr", "frags_in * (list N * bool)", "outcome (list N)"),
        take_id: Stream::new("take_id", REQ, "chk_take_id", "frags_in * list (N * N) * (list N * bool)", "outcome (list N)"),
        take_scan: Stream::new("take_scan", REQ, "chk_take_scan", "frags_in * list (N * N)", "outcome (list (list N))"),
    };
    for s in [&mut st.scan, &mut st.offs2addr, &mut st.take_off, &mut st.take_addr, &mut st.take_id, &mut st.take_scan] {
        s.shard = 400;
    }
    let n_tables = args.vol(40, 400);
    let reps = args.vol(6, 10);
    rt.block_on(async {
        // fixed regression inputs first: 3-row single-fragment table and a 2-fragment table with deletions
        {
            let mut frng = Rng::new(7);
            let mut t = Tbl::create_fixed(3, 1000).await;
            check_state(&mut t, &mut st, sink, &mut frng, 2, &[vec![3, 0], vec![0, 3], vec![3], vec![3, 3], vec![2, 1, 1, 0], vec![0, 1, 2]]).await;
            let mut t = Tbl::create_fixed(12, 6).await;
            t.ds.delete("v IN (0, 1, 2, 7, 11)").await.unwrap();
            t.truth.retain(|v, _| ![0i64, 1, 2, 7, 11].contains(v));
            t.hist.push("delete v IN (0, 1, 2, 7, 11)".into());
            check_state(&mut t, &mut st, sink, &mut frng, 2, &[vec![6, 0, 3, 3, 2], vec![2, 3], vec![7, 0], vec![0, 7], vec![9, 1]]).await;
        }
        for ti in 0..n_tables {
            let stable = ti % 3 == 2;
            let mut t = Tbl::create(rng, stable).await;
            check_state(&mut t, &mut st, sink, rng, reps, &[]).await;
            let steps = rng.range(1, 6);
            for _ in 0..steps {
                let snap_rows = t.snap().await.rows;
                match rng.below(10) {
                    0..=3 => t.delete(rng, &snap_rows).await,
                    4 | 5 => t.append(rng).await,
                    6 | 7 => t.compact(rng).await,
                    _ => {
                        // updates move rows to a new fragment. With stable row ids this is defect F18's
                        // trigger (RowIdIndex::new assertion; finding of C18/C34): kept out of this generator.
                        if t.stable {
                            t.delete(rng, &snap_rows).await
                        } else {
                            t.update(rng, &snap_rows).await
                        }
                    }
                }
                check_state(&mut t, &mut st, sink, rng, reps, &[]).await;
            }
            sink.count(if stable { "tables:stable-row-ids" } else { "tables:address-row-ids" });
        }
    });
    std::panic::set_hook(prev);
    sink.notes.push("tables: random histories (create/append/delete/update/compact; file versions legacy, 2.0, 2.1; stable row ids on a third of the tables, without updates there — F18 belongs to C18/C34); per state: scan, offsets->addresses hook, take(offsets) x 7 projections, take by address (live/deleted/out-of-bounds/missing fragment, with_row_address on/off), take by stable row id, take_scan".into());
    let Streams { scan, offs2addr, take_off, take_addr, take_id, take_scan } = st;
    for s in [scan, offs2addr, take_off, take_addr, take_id, take_scan] {
        sink.add(s);
    }
}
