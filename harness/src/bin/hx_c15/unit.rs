//! Unit arm: lance_core::utils::deletion::{DeletionVector, OffsetMapper} against Core/Model_Deletion.v.
use hxlib::util::{catch, coq, Args, Rng, Sink, Stream};
use lance_core::utils::deletion::{DeletionVector, OffsetMapper};
use roaring::RoaringBitmap;
use serde_json::json;
use std::collections::{BTreeSet, HashSet};
use std::sync::mpsc;
use std::sync::Arc;
use std::time::Duration;

const REQ: &str = "Common.Base Core.Model_Deletion";

#[derive(Clone, Copy, Debug, PartialEq)]
pub enum Variant {
    Set,
    Bitmap,
    FromIter,
}

pub fn make_dv(d: &BTreeSet<u32>, v: Variant) -> DeletionVector {
    match v {
        Variant::Set => DeletionVector::Set(d.iter().copied().collect::<HashSet<u32>>()),
        Variant::Bitmap => DeletionVector::Bitmap(d.iter().copied().collect::<RoaringBitmap>()),
        Variant::FromIter => DeletionVector::from_iter(d.iter().copied()),
    }
}

/// Outcome of running a fresh mapper over `offs`: Ok(results) | Err(true)=panic | Err(false)=did not
/// terminate within 10 s (the model's out-of-fuel `Err`). Runs on its own thread so a spinning loop
/// cannot hang the harness.
pub fn run_mapper(dv: DeletionVector, offs: Vec<u32>) -> Result<Vec<u32>, bool> {
    let (tx, rx) = mpsc::channel();
    let mutant = crate::sanity() == "mapper-returns-deleted";
    std::thread::spawn(move || {
        let r = catch(|| {
            if mutant {
                let mut m = MutMapper { dv: dv.iter().collect(), left: 0, last_diff: 0 };
                offs.iter().map(|o| m.map_offset(*o)).collect::<Vec<u32>>()
            } else {
                let mut m = OffsetMapper::new(Arc::new(dv));
                offs.iter().map(|o| m.map_offset(*o)).collect::<Vec<u32>>()
            }
        });
        let _ = tx.send(r);
    });
    match rx.recv_timeout(Duration::from_secs(10)) {
        Ok(r) => r,
        Err(_) => Err(false),
    }
}

/// SANITY MUTANT (only with `--sanity mapper-returns-deleted`): a line-by-line copy of
/// OffsetMapper::map_offset with ONE planted change — the `if !self.dv.contains(mid)` guard of the
/// `Equal` arm is dropped, so a deleted position can be returned.
struct MutMapper {
    dv: BTreeSet<u32>,
    left: u32,
    last_diff: u32,
}
impl MutMapper {
    fn map_offset(&mut self, offset: u32) -> u32 {
        let mut mid = offset + self.last_diff;
        let mut right = offset + self.dv.len() as u32;
        loop {
            let end = mid + 1;
            let deleted_in_range = self.dv.range(..end).count() as u32;
            match mid.cmp(&(offset + deleted_in_range)) {
                std::cmp::Ordering::Equal => {
                    self.last_diff = mid - offset;
                    return mid;
                }
                std::cmp::Ordering::Less => {
                    assert_ne!(self.left, mid + 1);
                    self.left = mid + 1;
                    mid = self.left + (right - self.left) / 2;
                }
                std::cmp::Ordering::Greater => {
                    right = mid;
                    mid = self.left + (right - self.left) / 2;
                }
            }
        }
    }
}

/// brute force: position of the o-th non-deleted row (u64 arithmetic, no bound)
fn nth_live(d: &BTreeSet<u32>, o: u64) -> u64 {
    // ans = o + #{deleted <= ans}: walk the sorted deletions
    let mut acc = o;
    for x in d.iter() {
        if (*x as u64) <= acc {
            acc += 1;
        } else {
            break;
        }
    }
    acc
}

fn gen_dv(rng: &mut Rng, size_class: u64) -> BTreeSet<u32> {
    let mut d = BTreeSet::new();
    let (n, universe): (u64, u64) = match size_class {
        0 => (0, 1),
        1 => (rng.range(1, 6), rng.range(6, 24)),
        2 => (rng.range(5, 60), rng.range(60, 200)),
        3 => (rng.range(100, 400), rng.range(400, 3000)),
        _ => (rng.range(5001, 5400), rng.range(5500, 12000)),
    };
    match rng.below(5) {
        0 => {
            // prefix run [0, n)
            for i in 0..n {
                d.insert(i as u32);
            }
        }
        1 => {
            // a few dense runs
            let runs = rng.range(1, 4);
            for _ in 0..runs {
                let start = rng.below(universe);
                let len = (n / runs).max(1);
                for i in 0..len {
                    if start + i < universe {
                        d.insert((start + i) as u32);
                    }
                }
            }
        }
        2 => {
            // everything except a few survivors
            let keep: BTreeSet<u64> = (0..rng.range(1, 4)).map(|_| rng.below(universe)).collect();
            for i in 0..universe.min(n * 2 + 8) {
                if !keep.contains(&i) {
                    d.insert(i as u32);
                }
            }
        }
        _ => {
            while (d.len() as u64) < n.min(universe) {
                d.insert(rng.below(universe) as u32);
            }
        }
    }
    d
}

pub fn run(args: &Args, sink: &mut Sink, rng: &mut Rng) {
    let mut s = Stream::new("map_offsets", REQ, "chk_map_offsets", "list N * list N", "outcome (list N)");
    s.shard = 400;
    let mut sbig = Stream::new("map_offsets_big", REQ, "chk_map_offsets", "list N * list N", "outcome (list N)");
    sbig.shard = 8;
    let mut q = Stream::new("dv_queries", REQ, "chk_dv_queries", "list N * list N", "N * list bool");
    q.shard = 200;

    let mut cases: Vec<(BTreeSet<u32>, Vec<u32>, &'static str)> = vec![];
    // the Rust unit test inputs
    cases.push(([3u32, 5].into_iter().collect(), vec![0, 1, 2, 3, 4, 5, 6], "rust-test"));
    cases.push(([0u32, 1, 2].into_iter().collect(), vec![0, 1, 2, 3, 4, 5, 6], "rust-test"));
    // exhaustive: every deletion set over [0,6) x every non-decreasing offset triple over [0,7)
    for mask in 0u32..64 {
        let d: BTreeSet<u32> = (0..6).filter(|b| mask & (1 << b) != 0).collect();
        let mut offs_all = vec![];
        for a in 0..7u32 {
            for b in a..7 {
                for c in b..7 {
                    offs_all.push(vec![a, b, c]);
                }
            }
        }
        // one long case per set (all offsets in order) + a sample of the triples
        cases.push((d.clone(), (0..8).collect(), "exh-small-all"));
        for t in offs_all.iter().step_by(if args.thorough() { 1 } else { 9 }) {
            cases.push((d.clone(), t.clone(), "exh-small-triple"));
        }
    }
    // u32 boundary: results / intermediate values at 2^32
    let top = u32::MAX;
    for (d, offs) in [
        (vec![0u32, 1, 2], vec![top - 10, top - 4]),
        (vec![0u32, 1, 2], vec![top - 3]),
        (vec![0u32, 1, 2], vec![top - 2]),
        (vec![top - 1, top], vec![top - 5, top - 3]),
        (vec![top - 1, top], vec![top - 2]),
        (vec![top - 3, top - 2], vec![top - 6, top - 5, top - 4]),
        (vec![], vec![0, top - 1, top]),
        (vec![5u32], vec![top - 1]),
        (vec![5u32], vec![top]),
        (vec![top], vec![top - 1]),
        (vec![top], vec![3, top]),
    ] {
        cases.push((d.into_iter().collect(), offs, "u32-boundary"));
    }
    // random
    let n_rand = args.vol(900, 12000);
    for _ in 0..n_rand {
        let cls = match rng.below(20) {
            0 => 0,
            1..=7 => 1,
            8..=15 => 2,
            _ => 3,
        };
        let d = gen_dv(rng, cls);
        let maxd = d.iter().next_back().map(|x| *x as u64 + 1).unwrap_or(0);
        let live_in = maxd - d.len() as u64;
        let k = rng.range(1, 12);
        let mut offs = vec![];
        // start somewhere, mostly inside the live count of [0, maxd), sometimes beyond
        let mut cur = if rng.chance(1, 4) { 0 } else { rng.below(live_in + 3) };
        for _ in 0..k {
            offs.push(cur as u32);
            cur += match rng.below(6) {
                0 => 0,
                1 | 2 => 1,
                3 => rng.below(4),
                _ => rng.below((live_in / 3).max(2)),
            };
        }
        cases.push((d, offs, "random"));
    }
    // large (> BITMAP_THRESHOLD = 5000 entries)
    let mut big_cases = vec![];
    for _ in 0..args.vol(6, 40) {
        let d = gen_dv(rng, 4);
        let maxd = d.iter().next_back().map(|x| *x as u64 + 1).unwrap_or(0);
        let live_in = maxd - d.len() as u64;
        let mut offs = vec![];
        let mut cur = rng.below(live_in / 2 + 1);
        for _ in 0..rng.range(3, 10) {
            offs.push(cur as u32);
            cur += rng.below(live_in / 4 + 2);
        }
        big_cases.push((d, offs, "big"));
    }

    let emit = |stream: &mut Stream, sink: &mut Sink, d: &BTreeSet<u32>, offs: &Vec<u32>, kind: &str, variant: Variant| {
        let dv = make_dv(d, variant);
        let vname = match &dv {
            DeletionVector::NoDeletions => "NoDeletions",
            DeletionVector::Set(_) => "Set",
            DeletionVector::Bitmap(_) => "Bitmap",
        };
        let out = run_mapper(dv, offs.clone());
        // direct oracle: brute force o-th live position; u32 overflow is the only admissible panic
        let expect: Vec<u64> = offs.iter().map(|o| nth_live(d, *o as u64)).collect();
        let fits = offs.iter().all(|o| (*o as u64) + (d.len() as u64) + 1 < (1u64 << 32));
        let case = json!({"kind": kind, "variant": vname, "deleted": if d.len() <= 64 { json!(d) } else { json!(format!("{} entries, max {:?}", d.len(), d.iter().next_back())) }, "offsets": offs, "impl": format!("{:?}", out), "expected": expect});
        match &out {
            Ok(v) => {
                if v.iter().map(|x| *x as u64).collect::<Vec<_>>() == expect {
                    sink.oracle_ok();
                } else {
                    sink.oracle_fail(None, "OffsetMapper::map_offset is not the o-th non-deleted position", case.clone());
                }
            }
            Err(is_panic) => {
                if fits {
                    sink.oracle_fail(None, if *is_panic { "OffsetMapper::map_offset panicked on a monotone in-range sequence" } else { "OffsetMapper::map_offset did not terminate" }, case.clone());
                } else {
                    sink.oracle_ok();
                }
            }
        }
        sink.count(&format!("map_offsets:{kind}:{vname}"));
        sink.count(match &out {
            Ok(_) => "map_offsets:ok",
            Err(true) => "map_offsets:panic",
            Err(false) => "map_offsets:nonterm",
        });
        let inp = format!("({}, {})", coq::list(d.iter().map(|x| coq::n(*x as u64))), coq::list(offs.iter().map(|x| coq::n(*x as u64))));
        sink.nontrivial(&inp);
        let o = out.map(|v| coq::list(v.iter().map(|x| coq::n(*x as u64))));
        stream.push(inp, coq::outcome(&o), case);
    };

    for (i, (d, offs, kind)) in cases.iter().enumerate() {
        // DeletionVector::Set::range_cardinality(0..mid+1) folds over the whole range (O(mid)), so the
        // u32-boundary cases (mid ~ 4e9) are only feasible with the Bitmap representation.
        let variant = match i % 3 {
            _ if *kind == "u32-boundary" => Variant::Bitmap,
            0 => Variant::Set,
            1 => Variant::Bitmap,
            _ => Variant::FromIter,
        };
        emit(&mut s, sink, d, offs, kind, variant);
    }
    for (i, (d, offs, kind)) in big_cases.iter().enumerate() {
        let variant = if i % 2 == 0 { Variant::FromIter } else { Variant::Set };
        emit(&mut sbig, sink, d, offs, kind, variant);
    }

    // DeletionVector::len / contains for the three representations
    for _ in 0..args.vol(150, 1500) {
        let cls = rng.below(4);
        let d = gen_dv(rng, cls);
        let universe = d.iter().next_back().map(|x| *x as u64 + 3).unwrap_or(3);
        let qs: Vec<u32> = (0..rng.range(1, 10)).map(|_| if rng.chance(1, 2) { *rng.pick(&d.iter().copied().chain([0]).collect::<Vec<_>>()) } else { rng.below(universe) as u32 }).collect();
        let variant = *rng.pick(&[Variant::Set, Variant::Bitmap, Variant::FromIter]);
        let dv = make_dv(&d, variant);
        let len = dv.len() as u64;
        let cont: Vec<bool> = qs.iter().map(|x| dv.contains(*x)).collect();
        let ok = len == d.len() as u64 && qs.iter().zip(cont.iter()).all(|(x, c)| d.contains(x) == *c) && dv.is_empty() == d.is_empty();
        let case = json!({"deleted": d, "queries": qs, "len": len, "contains": cont});
        if ok {
            sink.oracle_ok();
        } else {
            sink.oracle_fail(None, "DeletionVector len/contains disagree with the set it was built from", case.clone());
        }
        sink.count("dv_queries");
        q.push(
            format!("({}, {})", coq::list(d.iter().map(|x| coq::n(*x as u64))), coq::list(qs.iter().map(|x| coq::n(*x as u64)))),
            format!("({}, {})", len, coq::list(cont.iter().map(|c| coq::b(*c)))),
            case,
        );
    }
    sink.notes.push("map_offsets: every deletion set over [0,6) with all offsets 0..7 in order (exhaustive over sets), sampled non-decreasing triples, u32-boundary cases, random Set/Bitmap/from_iter vectors incl. >5000 entries; monotone sequences only (declared domain of OffsetMapper)".into());
    sink.add(s);
    sink.add(sbig);
    sink.add(q);
}
