//! Blob arm (direct oracle only, no model stream): Dataset::take_blobs (by row address) and
//! Dataset::take_blobs_by_indices (by offset) must hand back, for every requested live row and in
//! request order (duplicates kept; a NULL blob reads as zero bytes), a BlobFile whose bytes are the blob
//! of the row a scan shows at that address / position.
use crate::e2e::guarded;
use arrow_array::{Int64Array, LargeBinaryArray, RecordBatch, RecordBatchIterator, UInt64Array};
use arrow_schema::{DataType, Field, Schema as ArrowSchema};
use futures::TryStreamExt;
use hxlib::util::{Args, Rng, Sink};
use lance::dataset::{WriteMode, WriteParams};
use lance::Dataset;
use serde_json::json;
use std::collections::HashMap;
use std::sync::Arc;

fn blob_bytes(v: i64) -> Option<Vec<u8>> {
    if v % 9 == 8 {
        None
    } else {
        Some(format!("blob-{v}-").repeat(((v % 5) + 1) as usize * 7).into_bytes())
    }
}

fn schema() -> Arc<ArrowSchema> {
    let mut md = HashMap::new();
    md.insert("lance-encoding:blob".to_string(), "true".to_string());
    Arc::new(ArrowSchema::new(vec![Field::new("v", DataType::Int64, false), Field::new("b", DataType::LargeBinary, true).with_metadata(md)]))
}

fn mk_batch(start: i64, n: usize) -> RecordBatch {
    let vs: Vec<i64> = (0..n as i64).map(|i| start + i).collect();
    let blobs: Vec<Option<Vec<u8>>> = vs.iter().map(|v| blob_bytes(*v)).collect();
    RecordBatch::try_new(schema(), vec![Arc::new(Int64Array::from(vs)), Arc::new(LargeBinaryArray::from_iter(blobs.iter().map(|b| b.as_deref())))]).unwrap()
}

/// ordered scan with the blob column materialised (BlobHandling::AllBinary): (v, address, blob bytes; NULL = empty)
async fn scan_rows(ds: &Dataset) -> Vec<(i64, u64, Vec<u8>)> {
    let mut sc = ds.scan();
    sc.blob_handling(lance_core::datatypes::BlobHandling::AllBinary);
    sc.project(&["v", "b"]).unwrap();
    sc.with_row_address().scan_in_order(true);
    let bs: Vec<RecordBatch> = sc.try_into_stream().await.unwrap().try_collect().await.unwrap();
    let mut out = vec![];
    for b in bs {
        let v = b.column_by_name("v").unwrap().as_any().downcast_ref::<Int64Array>().unwrap().clone();
        let a = b.column_by_name("_rowaddr").unwrap().as_any().downcast_ref::<UInt64Array>().unwrap().clone();
        let bl = b.column_by_name("b").unwrap().as_any().downcast_ref::<LargeBinaryArray>().expect("blob column as large_binary").clone();
        for i in 0..b.num_rows() {
            use arrow_array::Array;
            out.push((v.value(i), a.value(i), if bl.is_null(i) { vec![] } else { bl.value(i).to_vec() }));
        }
    }
    out
}

async fn read_all(ds: Arc<Dataset>, keys: Vec<u64>, by_index: bool) -> lance::Result<Vec<Vec<u8>>> {
    let files = if by_index { ds.take_blobs_by_indices(&keys, "b").await? } else { ds.take_blobs(&keys, "b").await? };
    let mut out = vec![];
    for f in files {
        out.push(f.read().await?.to_vec());
    }
    Ok(out)
}

pub fn run(args: &Args, sink: &mut Sink, rng: &mut Rng) {
    let rt = tokio::runtime::Builder::new_multi_thread().worker_threads(2).enable_all().build().unwrap();
    let prev = std::panic::take_hook();
    std::panic::set_hook(Box::new(|info| {
        if std::thread::current().name() == Some("main") {
            eprintln!("hx_c15 harness panic (blob arm): {info}");
        }
    }));
    let n_tables = args.vol(10, 60);
    rt.block_on(async {
        for _ in 0..n_tables {
            let dir = tempfile::tempdir().unwrap();
            let uri = dir.path().join("b.lance").to_str().unwrap().to_string();
            let max_rows_per_file = *rng.pick(&[4usize, 7, 1000]);
            let n = rng.range(5, 40) as usize;
            let params = WriteParams { max_rows_per_file, ..Default::default() };
            let mut ds = Dataset::write(RecordBatchIterator::new(vec![Ok(mk_batch(0, n))], schema()), &uri, Some(params)).await.unwrap();
            let mut hist = vec![format!("create n={n} max_rows_per_file={max_rows_per_file} (v:int64, b:large_binary blob)")];
            let mut next = n as i64;
            // Compaction is NOT part of these histories: compact_files reads blobs through the AllBinary scan,
            // which on the unchanged tree returns empty bytes for a file whose first blob is NULL (reported to
            // the coordinator; outside C15's anchors) — after it the stored bytes no longer are the written ones.
            for _ in 0..rng.range(0, 3) {
                match rng.below(3) {
                    0 | 1 => {
                        let m = rng.range(2, 4);
                        let p = format!("v % {} = {}", m, rng.below(m));
                        ds.delete(&p).await.unwrap();
                        hist.push(format!("delete {p}"));
                    }
                    _ => {
                        let k = rng.range(1, 9) as usize;
                        let params = WriteParams { max_rows_per_file, mode: WriteMode::Append, ..Default::default() };
                        ds = Dataset::write(RecordBatchIterator::new(vec![Ok(mk_batch(next, k))], schema()), &uri, Some(params)).await.unwrap();
                        next += k as i64;
                        hist.push(format!("append n={k}"));
                    }
                }
            }
            let rows = scan_rows(&ds).await;
            sink.count("blob:tables");
            // not C15's claim, only recorded: does the scan still show the bytes that were written?
            let lost: Vec<i64> = rows.iter().filter(|r| r.2 != blob_bytes(r.0).unwrap_or_default()).map(|r| r.0).collect();
            if !lost.is_empty() {
                sink.count("blob:tables-whose-scan-differs-from-written-bytes");
                if sink.notes.iter().filter(|n| n.starts_with("OBSERVATION")).count() < 2 {
                    sink.notes.push(format!("OBSERVATION (outside C15, reported): scan(BlobHandling::AllBinary) shows other bytes than written for v={:?} after history {:?}; take_blobs is compared with the written bytes", lost, hist));
                }
            }
            if rows.is_empty() {
                continue;
            }
            for _ in 0..args.vol(5, 8) {
                let by_index = rng.bool();
                let k = rng.range(1, 8);
                let picks: Vec<usize> = (0..k).map(|_| rng.below(rows.len() as u64) as usize).collect();
                let keys: Vec<u64> = picks.iter().map(|i| if by_index { *i as u64 } else { rows[*i].1 }).collect();
                // normalisation (documented, not a C15 matter): a NULL blob comes back as a zero-length
                // BlobFile — the 2.x blob description (position, size) carries no validity.
                // Expected = the bytes written for the row the (position/address of the) scan shows.
                let expected: Vec<Vec<u8>> = picks.iter().map(|i| blob_bytes(rows[*i].0).unwrap_or_default()).collect();
                let r = guarded(read_all(Arc::new(ds.clone()), keys.clone(), by_index)).await;
                let case = json!({"history": hist, "api": if by_index { "take_blobs_by_indices" } else { "take_blobs" }, "keys": keys, "expected_v": picks.iter().map(|i| rows[*i].0).collect::<Vec<_>>(),
                    "impl": match &r { Ok(v) => json!(v.iter().map(|b| String::from_utf8_lossy(&b[..b.len().min(12)]).to_string()).collect::<Vec<_>>()), Err(e) => json!(format!("{:?}", e)) }});
                sink.count(if by_index { "blob:by-index" } else { "blob:by-address" });
                match &r {
                    Ok(v) if *v == expected => sink.oracle_ok(),
                    Ok(_) => sink.oracle_fail(None, "take_blobs returned blobs other than those of the scan rows at the requested keys, in request order", case),
                    Err((pn, m)) => sink.oracle_fail(None, &format!("take_blobs {} on live rows: {m}", if *pn { "panicked" } else { "failed" }), case),
                }
            }
        }
    });
    std::panic::set_hook(prev);
    sink.notes.push("blobs: tables with a large_binary blob column (NULLs included), delete/append (no compaction, see blob.rs); take_blobs by address and take_blobs_by_indices on live rows with duplicates, bytes compared (oracle only)".into());
}

/// `hx_c15 probe-blob`: reproduction of the AllBinary-scan observation, printed to stdout (not part of the check).
pub fn probe() {
    let rt = tokio::runtime::Builder::new_multi_thread().worker_threads(2).enable_all().build().unwrap();
    rt.block_on(async {
        for (n, mrpf, del) in [(13usize, 4usize, None), (13, 4, Some("v % 3 = 1")), (13, 1000, None), (13, 1000, Some("v % 3 = 1")), (12, 4, Some("v = 10"))] {
            let dir = tempfile::tempdir().unwrap();
            let uri = dir.path().join("p.lance").to_str().unwrap().to_string();
            let params = WriteParams { max_rows_per_file: mrpf, ..Default::default() };
            let mut ds = Dataset::write(RecordBatchIterator::new(vec![Ok(mk_batch(0, n))], schema()), &uri, Some(params)).await.unwrap();
            if let Some(p) = del {
                ds.delete(p).await.unwrap();
            }
            let rows = scan_rows(&ds).await;
            let show = |b: &Vec<u8>| format!("{}({})", String::from_utf8_lossy(&b[..b.len().min(8)]), b.len());
            let bad: Vec<String> = rows.iter().filter(|r| r.2 != blob_bytes(r.0).unwrap_or_default()).map(|r| format!("v={} addr=({},{}) scan={} written={}", r.0, r.1 >> 32, r.1 & 0xffffffff, show(&r.2), show(&blob_bytes(r.0).unwrap_or_default()))).collect();
            let keys: Vec<u64> = rows.iter().map(|r| r.1).collect();
            let taken = read_all(Arc::new(ds.clone()), keys, false).await.unwrap();
            let bad_take = rows.iter().zip(taken.iter()).filter(|(r, t)| **t != blob_bytes(r.0).unwrap_or_default()).count();
            println!("n={n} max_rows_per_file={mrpf} delete={:?}: scan(AllBinary) wrong rows: {:?}; take_blobs wrong rows: {}", del, bad, bad_take);
        }
    });
}
