//! hx_c15: C15 "random access agrees with scanning".
//! unit arm: OffsetMapper / DeletionVector against Core/Model_Deletion.v;
//! table arm: real datasets (deletions, appends, compaction, updates; stable row ids on/off) —
//! row_offsets_to_row_addresses (hook), Dataset::take / take_rows / take_builder / take_scan
//! against Core/Model_Take.v and against the dataset's own scan (direct oracle);
//! blob arm: take_blobs / take_blobs_by_indices against the blob column of a scan (direct oracle).
//!
//! `--sanity <mutant>` (never set by checks.d) plants a breakage so that the check's ability to
//! detect it can be demonstrated: `mapper-returns-deleted`, `take-no-remap`.
mod blob;
mod e2e;
mod unit;

static SANITY: std::sync::OnceLock<String> = std::sync::OnceLock::new();
pub fn sanity() -> &'static str {
    SANITY.get().map(|s| s.as_str()).unwrap_or("")
}

fn main() {
    let (sub, args) = hxlib::util::Args::parse();
    let mut it = args.rest.iter();
    while let Some(a) = it.next() {
        if a == "--sanity" {
            let _ = SANITY.set(it.next().cloned().unwrap_or_default());
        }
    }
    let code = match sub.as_str() {
        "c15" => run(&args),
        "probe-blob" => {
            blob::probe();
            0
        }
        _ => {
            eprintln!("unknown subcommand {sub}");
            2
        }
    };
    std::process::exit(code);
}

fn run(args: &hxlib::util::Args) -> i32 {
    let mut sink = hxlib::util::Sink::new("C15", &args.out);
    let mut rng = hxlib::util::Rng::new(args.seed);
    if !sanity().is_empty() {
        sink.notes.push(format!("SANITY MUTANT ACTIVE: {}", sanity()));
    }
    unit::run(args, &mut sink, &mut rng.fork());
    e2e::run(args, &mut sink, &mut rng.fork());
    blob::run(args, &mut sink, &mut rng.fork());
    sink.finish();
    0
}
