//! hx_c15: C15 "random access agrees with scanning".
//! unit arm: OffsetMapper / DeletionVector against Core/Model_Deletion.v;
//! table arm: real datasets (deletions, appends, compaction, updates; stable row ids on/off) —
//! row_offsets_to_row_addresses (hook), Dataset::take / take_rows / take_builder / take_scan /
//! take_blobs against Core/Model_Take.v and against the dataset's own scan (direct oracle).
mod e2e;
mod unit;

fn main() {
    let (sub, args) = hxlib::util::Args::parse();
    let code = match sub.as_str() {
        "c15" => run(&args),
        _ => {
            eprintln!("unknown subcommand {sub}");
            2
        }
    };
    std::process::exit(code);
}

fn run(args: &hxlib::util::Args) -> i32 {
    let mut sink = hxlib::util::Sink::new("C15", &args.out);
    let mut rng = hxlib::util::Rng::new(args.seed);
    unit::run(args, &mut sink, &mut rng.fork());
    e2e::run(args, &mut sink, &mut rng.fork());
    sink.finish();
    0
}
