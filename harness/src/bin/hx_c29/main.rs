//! hx_c29: C29 — statistics-based pruning is conservative.
//! Arms: `zone` (the real ZoneMap index: `search` on random columns vs the model's zone_search and vs brute
//! force), `zm_e2e` (scans with the zone map on/off, deletions before/after index creation), `legacy`
//! (0.1-format tables scanned with use_stats true/false; F23 reproduction; truncated string bounds).
use arrow_array::*;
use arrow_schema::{DataType, Field, Schema};
use futures::TryStreamExt;
use hxlib::util::{coq, Args, Rng, Sink, Stream};
use lance::dataset::{WriteMode, WriteParams};
use lance::deps::datafusion::scalar::ScalarValue;
use lance::index::DatasetIndexInternalExt;
use lance::Dataset;
use lance_file::version::LanceFileVersion;
use lance_index::metrics::NoOpMetricsCollector;
use lance_index::scalar::{BuiltinIndexType, SargableQuery, ScalarIndexParams, SearchResult};
use lance_index::{DatasetIndexExt, IndexType};
use serde_json::json;
use std::ops::Bound;
use std::sync::Arc;

const REQ: &str = "Common.Base Index.Model_Prune";
const CLASS_F23: &str = "legacy_pushdown_float_nan_null";
const CLASS_ZM_DEL: &str = "zonemap_built_over_deletions";
const CLASS_ZM_FRAG: &str = "zonemap_fragment_boundary";
const NAN_KEY: i64 = 0x7fc0_0000;

/// key of an f32 under total_cmp (monotone): what ScalarValue::partial_cmp and arrow min/max order by
fn key_f32(f: f32) -> i64 {
    let b = f.to_bits();
    if b >> 31 == 1 { -((b & 0x7fff_ffff) as i64) - 1 } else { b as i64 }
}
#[derive(Clone, Debug)]
enum Q {
    IsNull,
    Equals(Option<f32>),
    Range(Bound<f32>, Bound<f32>),
    IsIn(Vec<Option<f32>>),
}
fn coq_cell(is_float: bool, v: Option<f32>) -> String {
    coq::opt(v.map(|x| coq::z(if is_float { key_f32(x) as i128 } else { x as i128 })))
}
fn coq_q(is_float: bool, q: &Q) -> String {
    let k = |x: f32| coq::z(if is_float { key_f32(x) as i128 } else { x as i128 });
    let b = |b: &Bound<f32>| match b {
        Bound::Unbounded => "Unbounded".to_string(),
        Bound::Included(x) => format!("(Included {})", k(*x)),
        Bound::Excluded(x) => format!("(Excluded {})", k(*x)),
    };
    match q {
        Q::IsNull => "QIsNull".into(),
        Q::Equals(t) => format!("(QEquals {})", coq_cell(is_float, *t)),
        Q::Range(s, e) => format!("(QRange {} {})", b(s), b(e)),
        Q::IsIn(vs) => format!("(QIsIn {})", coq::list(vs.iter().map(|v| coq_cell(is_float, *v)))),
    }
}
fn sv(is_float: bool, v: Option<f32>) -> ScalarValue {
    if is_float { ScalarValue::Float32(v) } else { ScalarValue::Int32(v.map(|x| x as i32)) }
}
fn to_sargable(is_float: bool, q: &Q) -> SargableQuery {
    let b = |b: &Bound<f32>| match b {
        Bound::Unbounded => Bound::Unbounded,
        Bound::Included(x) => Bound::Included(sv(is_float, Some(*x))),
        Bound::Excluded(x) => Bound::Excluded(sv(is_float, Some(*x))),
    };
    match q {
        Q::IsNull => SargableQuery::IsNull(),
        Q::Equals(t) => SargableQuery::Equals(sv(is_float, *t)),
        Q::Range(s, e) => SargableQuery::Range(b(s), b(e)),
        Q::IsIn(vs) => SargableQuery::IsIn(vs.iter().map(|v| sv(is_float, *v)).collect()),
    }
}
/// brute force: does the cell satisfy the query (total order on keys, SQL NULLs)
fn matches(is_float: bool, q: &Q, c: Option<f32>) -> bool {
    let k = |x: f32| if is_float { key_f32(x) } else { x as i64 };
    match (q, c) {
        (Q::IsNull, None) => true,
        (Q::IsNull, Some(_)) => false,
        (_, None) => false,
        (Q::Equals(None), _) => false,
        (Q::Equals(Some(t)), Some(v)) => k(v) == k(*t),
        (Q::Range(s, e), Some(v)) => {
            (match s { Bound::Unbounded => true, Bound::Included(a) => k(*a) <= k(v), Bound::Excluded(a) => k(*a) < k(v) })
                && (match e { Bound::Unbounded => true, Bound::Included(b) => k(v) <= k(*b), Bound::Excluded(b) => k(v) < k(*b) })
        }
        (Q::IsIn(ts), Some(v)) => ts.iter().any(|t| t.map(|t| k(t) == k(v)).unwrap_or(false)),
    }
}
fn gen_val(rng: &mut Rng, is_float: bool) -> f32 {
    if is_float {
        *rng.pick(&[f32::NAN, 0.0, -0.0, 1.5, -1.5, 2.0, f32::INFINITY, f32::NEG_INFINITY, 1e30, -1e30, 7.0, 3.0])
    } else {
        rng.below(12) as f32 - 4.0
    }
}
fn gen_q(rng: &mut Rng, is_float: bool) -> Q {
    let mut b = |rng: &mut Rng| match rng.below(3) {
        0 => Bound::Unbounded,
        1 => Bound::Included(gen_val(rng, is_float)),
        _ => Bound::Excluded(gen_val(rng, is_float)),
    };
    match rng.below(7) {
        0 => Q::IsNull,
        1 | 2 => Q::Equals(if rng.chance(1, 8) { None } else { Some(gen_val(rng, is_float)) }),
        3 => Q::IsIn((0..rng.below(4)).map(|_| if rng.chance(1, 6) { None } else { Some(gen_val(rng, is_float)) }).collect()),
        _ => Q::Range(b(rng), b(rng)),
    }
}

async fn write_ds(dir: &tempfile::TempDir, name: &str, schema: Arc<Schema>, cols: Vec<ArrayRef>, params: WriteParams) -> Dataset {
    let uri = dir.path().join(name).to_string_lossy().to_string();
    let b = RecordBatch::try_new(schema.clone(), cols).unwrap();
    Dataset::write(RecordBatchIterator::new(vec![Ok(b)], schema), &uri, Some(params)).await.unwrap()
}
fn zm_params(rpz: u64) -> ScalarIndexParams {
    ScalarIndexParams::for_builtin(BuiltinIndexType::ZoneMap).with_params(&json!({"rows_per_zone": rpz}))
}
async fn ids(ds: &Dataset, filter: &str, use_index: bool, use_stats: bool) -> Result<Vec<i32>, String> {
    let (ds, filter) = (ds.clone(), filter.to_string());
    let prev = std::panic::take_hook();
    std::panic::set_hook(Box::new(|_| {}));
    let r = tokio::spawn(async move {
        let mut sc = ds.scan();
        sc.filter(&filter).map_err(|e| e.to_string())?;
        sc.project(&["id"]).map_err(|e| e.to_string())?;
        sc.use_scalar_index(use_index);
        sc.use_stats(use_stats);
        let bs: Vec<RecordBatch> = sc.try_into_stream().await.map_err(|e| e.to_string())?.try_collect().await.map_err(|e| e.to_string())?;
        let mut v: Vec<i32> = bs.iter().flat_map(|b| b.column_by_name("id").unwrap().as_any().downcast_ref::<Int32Array>().unwrap().values().to_vec()).collect();
        v.sort();
        Ok::<_, String>(v)
    })
    .await;
    std::panic::set_hook(prev);
    match r { Ok(x) => x, Err(e) => Err(format!("panic/join: {e}")) }
}

async fn zone_arm(args: &Args, sink: &mut Sink) {
    let mut rng = Rng::new(args.seed ^ 0x29);
    let mut s = Stream::new("zone_search", REQ, "chk_zone_search", "option Z * N * list (N * cellv) * query", "list (N * N)");
    s.shard = 400;
    let dir = tempfile::tempdir().unwrap();
    for t in 0..args.vol(10, 60) {
        let is_float = t % 2 == 0;
        let n = rng.range(3, 30) as usize;
        let rpz = rng.range(1, 7);
        let vals: Vec<Option<f32>> = (0..n).map(|_| if rng.chance(1, 5) { None } else { Some(gen_val(&mut rng, is_float)) }).collect();
        let schema = Arc::new(Schema::new(vec![Field::new("id", DataType::Int32, false), Field::new("x", if is_float { DataType::Float32 } else { DataType::Int32 }, true)]));
        let xcol: ArrayRef = if is_float { Arc::new(Float32Array::from(vals.clone())) } else { Arc::new(Int32Array::from(vals.iter().map(|v| v.map(|x| x as i32)).collect::<Vec<_>>())) };
        let mut ds = write_ds(&dir, &format!("z{t}"), schema, vec![Arc::new(Int32Array::from((0..n as i32).collect::<Vec<_>>())), xcol], WriteParams::default()).await;
        ds.create_index(&["x"], IndexType::ZoneMap, None, &zm_params(rpz), true).await.unwrap();
        let metas = ds.load_indices_by_name("x_idx").await.unwrap();
        let idx = ds.open_scalar_index("x", &metas[0].uuid.to_string(), &NoOpMetricsCollector).await.unwrap();
        sink.count(if is_float { "zone/table/float" } else { "zone/table/int" });
        for _ in 0..args.vol(25, 60) {
            let q = gen_q(&mut rng, is_float);
            let res = idx.search(&to_sargable(is_float, &q), &NoOpMetricsCollector).await;
            let case = json!({"values": format!("{vals:?}"), "rows_per_zone": rpz, "query": format!("{q:?}")});
            let offs: Vec<u64> = match res {
                Ok(SearchResult::AtMost(tm)) => {
                    let mut v: Vec<u64> = tm.row_ids().map(|it| it.map(u64::from).collect()).unwrap_or_default();
                    v.sort();
                    v
                }
                other => {
                    sink.oracle_fail(None, "ZoneMap search did not return AtMost", json!({"case": case, "got": format!("{other:?}").chars().take(200).collect::<String>()}));
                    continue;
                }
            };
            // oracle: no matching row outside the returned zones
            let missed: Vec<usize> = (0..n).filter(|i| matches(is_float, &q, vals[*i]) && !offs.contains(&(*i as u64))).collect();
            if missed.is_empty() { sink.oracle_ok() } else { sink.oracle_fail(None, "a zone holding a matching row was pruned", json!({"case": case, "missed_rows": missed})) }
            let mut ranges: Vec<(u64, u64)> = vec![];
            for o in &offs {
                match ranges.last_mut() {
                    Some(r) if r.1 == *o => r.1 = o + 1,
                    _ => ranges.push((*o, o + 1)),
                }
            }
            sink.count("zone/query");
            let inp = coq::tuple(&[
                if is_float { format!("(Some {})", coq::z(NAN_KEY as i128)) } else { "None".to_string() },
                coq::n(rpz),
                coq::list(vals.iter().enumerate().map(|(i, v)| coq::pair(&coq::n(i as u64), &coq_cell(is_float, *v)))),
                coq_q(is_float, &q),
            ]);
            sink.nontrivial(&inp);
            s.push(inp, coq::list(ranges.iter().map(|r| coq::pair(&coq::n(r.0), &coq::n(r.1)))), case);
        }
    }
    sink.add(s);
}

async fn zm_e2e(args: &Args, sink: &mut Sink) {
    let mut rng = Rng::new(args.seed ^ 0x2929);
    let dir = tempfile::tempdir().unwrap();
    let strs = ["", "apple", "apple pie", "applesauce and more", "banana", "b", "Ünïcode", "zz"];
    for t in 0..args.vol(8, 40) {
        let n = rng.range(10, 60) as usize;
        let rpz = rng.range(1, 9);
        let xs: Vec<Option<i32>> = (0..n).map(|i| if rng.chance(1, 6) { None } else { Some(if rng.bool() { (i / 4) as i32 } else { rng.below(15) as i32 - 5 }) }).collect();
        let fs: Vec<Option<f32>> = (0..n).map(|_| if rng.chance(1, 6) { None } else { Some(gen_val(&mut rng, true)) }).collect();
        let ss: Vec<Option<String>> = (0..n).map(|_| if rng.chance(1, 6) { None } else { Some(rng.pick(&strs).to_string()) }).collect();
        let schema = Arc::new(Schema::new(vec![
            Field::new("id", DataType::Int32, false), Field::new("x", DataType::Int32, true), Field::new("f", DataType::Float32, true), Field::new("s", DataType::Utf8, true),
        ]));
        let per_file = *rng.pick(&[7usize, 16, 100]);
        let params = WriteParams { max_rows_per_file: per_file, max_rows_per_group: 4, ..Default::default() };
        // several fragments whose size is not a multiple of rows_per_zone (finding zonemap_fragment_boundary)
        let ragged = n > per_file && (per_file as u64) % rpz != 0;
        let mut ds = write_ds(&dir, &format!("e{t}"), schema, vec![Arc::new(Int32Array::from((0..n as i32).collect::<Vec<_>>())), Arc::new(Int32Array::from(xs.clone())), Arc::new(Float32Array::from(fs.clone())), Arc::new(StringArray::from(ss.clone()))], params).await;
        let del_before = rng.chance(1, 2);
        let dels: Vec<usize> = (0..n).filter(|_| rng.chance(1, 5)).collect();
        let del_sql = format!("id IN ({})", dels.iter().map(|d| d.to_string()).collect::<Vec<_>>().join(","));
        if del_before && !dels.is_empty() {
            ds.delete(&del_sql).await.unwrap();
        }
        for c in ["x", "f", "s"] {
            ds.create_index(&[c], IndexType::ZoneMap, None, &zm_params(rpz), true).await.unwrap();
        }
        if !del_before && !dels.is_empty() {
            ds.delete(&del_sql).await.unwrap();
        }
        sink.count(if del_before { "zm_e2e/table/deleted_before_index" } else { "zm_e2e/table/deleted_after_index" });
        for _ in 0..args.vol(16, 40) {
            let f = match rng.below(9) {
                0 => format!("x = {}", rng.below(15) as i32 - 5),
                1 => format!("x < {}", rng.below(15) as i32 - 5),
                2 => { let a = rng.below(15) as i32 - 5; format!("x >= {} AND x < {}", a, a + rng.below(6) as i32) }
                3 => format!("x IN ({}, {})", rng.below(15) as i32 - 5, rng.below(15) as i32 - 5),
                4 => "x IS NULL".to_string(),
                5 => format!("f <= {:?}", rng.pick(&[1.5f32, -1.5, 2.0, 7.0, 3.0])),
                6 => format!("f = {:?}", rng.pick(&[1.5f32, -1.5, 2.0, 7.0, 3.0])),
                7 => format!("s = '{}'", rng.pick(&strs)),
                _ => format!("s >= '{}' AND s < '{}'", rng.pick(&["a", "apple", "b"]), rng.pick(&["b", "c", "zzz"])),
            };
            let with = ids(&ds, &f, true, true).await;
            let without = ids(&ds, &f, false, true).await;
            sink.count("zm_e2e/query");
            sink.nontrivial(&format!("{t}{f}"));
            if with.is_ok() && with == without {
                sink.oracle_ok();
            } else if del_before && !dels.is_empty() && with.is_ok() && without.is_ok() {
                sink.count("zm_e2e/known/built_over_deletions");
                sink.oracle_fail(Some(CLASS_ZM_DEL), "zone map built after deletions: the indexed scan loses rows", json!({"filter": f, "rows_per_zone": rpz, "deleted": dels, "with_index": format!("{with:?}"), "without": format!("{without:?}")}));
            } else if ragged && with.is_ok() && without.is_ok() {
                sink.count("zm_e2e/known/fragment_boundary");
                sink.oracle_fail(Some(CLASS_ZM_FRAG), "zone map over several fragments whose size is not a multiple of rows_per_zone: the indexed scan loses rows", json!({"filter": f, "rows": n, "max_rows_per_file": per_file, "rows_per_zone": rpz, "deleted_after_index": dels, "with_index": format!("{with:?}"), "without": format!("{without:?}")}));
            } else {
                sink.oracle_fail(None, "scan with the zone map index differs from the scan without it", json!({"rows": n, "max_rows_per_file": per_file, "filter": f, "rows_per_zone": rpz, "deleted_before_index_creation": del_before, "deleted": dels, "x": format!("{xs:?}"), "with_index": format!("{with:?}"), "without": format!("{without:?}")}));
            }
        }
    }
}

async fn legacy_arm(args: &Args, sink: &mut Sink) {
    let mut rng = Rng::new(args.seed ^ 0x292929);
    let dir = tempfile::tempdir().unwrap();
    let long = |tail: &str| format!("{}{}", "p".repeat(63), tail);
    let pool: Vec<String> = vec!["".into(), "apple".into(), "banana".into(), long("a-and-some-more"), long("é-and-some-more"), long("b"), "q".repeat(70), format!("{}{}", "q".repeat(64), "z"), "zz".into()];
    for t in 0..args.vol(6, 30) {
        let n = rng.range(30, 120) as usize;
        let clustered = rng.bool();
        // legacy 0.1 cannot store NULLs of primitive columns (documented normalisation): the int column has none
        let xs: Vec<Option<i32>> = (0..n).map(|i| Some(if clustered { (i / 10) as i32 } else { rng.below(20) as i32 - 5 })).collect();
        let float_special = t % 2 == 0; // F23: NaN / NULL in the float column
        let fvals: Vec<f32> = if float_special { vec![f32::NAN, 0.0, -0.0, 1.5, -1.5, f32::INFINITY, f32::NEG_INFINITY, 2.0, 1e30, -1e30] } else { vec![0.5, 1.5, -1.5, 2.0, 7.0, -3.0, 100.0] };
        let fs: Vec<Option<f32>> = (0..n).map(|i| if float_special && rng.chance(1, 8) { None } else { Some(if clustered { fvals[(i / 10) % fvals.len()] } else { *rng.pick(&fvals) }) }).collect();
        let ss: Vec<String> = (0..n).map(|i| if clustered { pool[(i / 10) % pool.len()].clone() } else { rng.pick(&pool).clone() }).collect();
        let schema = Arc::new(Schema::new(vec![
            Field::new("id", DataType::Int32, false), Field::new("x", DataType::Int32, true), Field::new("f", DataType::Float32, true), Field::new("s", DataType::Utf8, false),
        ]));
        let params = WriteParams { max_rows_per_file: 1000, max_rows_per_group: 10, data_storage_version: Some(LanceFileVersion::Legacy), mode: WriteMode::Create, ..Default::default() };
        let ds = write_ds(&dir, &format!("l{t}"), schema, vec![Arc::new(Int32Array::from((0..n as i32).collect::<Vec<_>>())), Arc::new(Int32Array::from(xs.clone())), Arc::new(Float32Array::from(fs.clone())), Arc::new(StringArray::from(ss.clone()))], params).await;
        sink.count(if float_special { "legacy/table/float_nan_null" } else { "legacy/table/plain_floats" });
        let mut filters: Vec<(String, bool)> = vec![];
        for _ in 0..args.vol(14, 40) {
            filters.push(match rng.below(8) {
                0 => (format!("x = {}", rng.below(20) as i32 - 5), false),
                1 => (format!("x < {}", rng.below(20) as i32 - 5), false),
                2 => (format!("x >= {}", rng.below(20) as i32 - 5), false),
                3 => (format!("s = '{}'", rng.pick(&pool)), false),
                4 => (format!("s >= '{}'", rng.pick(&pool)), false),
                5 => (format!("s < '{}'", rng.pick(&pool)), false),
                6 => (format!("f {} {:?}", rng.pick(&["<", "<=", ">", ">=", "="]), rng.pick(&[1.5f32, -1.5, 2.0, 0.5, 7.0])), true),
                _ => (format!("f {} 0", rng.pick(&["<", "<=", ">", ">=", "="])), true),
            });
        }
        if float_special && t == 0 {
            for f in ["f < 0", "f <= 0", "f > 0", "f >= 1e30", "f < -1e29", "f = 0"] {
                filters.insert(0, (f.to_string(), true)); // DESIGN section 6, F23
            }
        }
        for (f, on_float) in filters {
            let with = ids(&ds, &f, true, true).await;
            let without = ids(&ds, &f, true, false).await;
            sink.count("legacy/query");
            sink.nontrivial(&format!("{t}{f}"));
            if with.is_ok() && with == without {
                sink.oracle_ok();
            } else {
                let case = json!({"filter": f, "clustered": clustered, "float_column_has_nan_or_null": float_special, "use_stats_true": format!("{:?}", with.as_ref().map(|v| v.len())), "use_stats_false": format!("{:?}", without.as_ref().map(|v| v.len())),
                    "only_with_stats": with.as_ref().ok().zip(without.as_ref().ok()).map(|(a, b)| a.iter().filter(|x| !b.contains(x)).take(8).cloned().collect::<Vec<_>>()),
                    "only_without_stats": with.as_ref().ok().zip(without.as_ref().ok()).map(|(a, b)| b.iter().filter(|x| !a.contains(x)).take(8).cloned().collect::<Vec<_>>())});
                if on_float && float_special && with.is_ok() && without.is_ok() {
                    sink.count("legacy/known/F23");
                    sink.oracle_fail(Some(CLASS_F23), "legacy use_stats(true) and use_stats(false) return different rows for a float comparison over NaN/NULL", case);
                } else {
                    sink.oracle_fail(None, "legacy scan with statistics differs from the scan without them", case);
                }
            }
        }
    }
}

fn run(args: &Args) -> i32 {
    let mut sink = Sink::new("C29", &args.out);
    let rt = tokio::runtime::Builder::new_multi_thread().worker_threads(4).enable_all().build().unwrap();
    let only: Option<String> = args.rest.iter().position(|a| a == "--only").and_then(|i| args.rest.get(i + 1).cloned());
    let want = |n: &str| only.as_deref().map(|o| o == n).unwrap_or(true);
    if want("zone") { rt.block_on(zone_arm(args, &mut sink)); }
    if want("zm_e2e") { rt.block_on(zm_e2e(args, &mut sink)); }
    if want("legacy") { rt.block_on(legacy_arm(args, &mut sink)); }
    if std::env::var("HX_C29_PLANT").is_ok() {
        // sanity test of the check: a zone reported although the model prunes it
        let mut s = Stream::new("planted", REQ, "chk_zone_search", "option Z * N * list (N * cellv) * query", "list (N * N)");
        s.push("(None, 2, [(0, Some 1%Z); (1, Some 2%Z); (2, Some 9%Z)], (QEquals (Some 9%Z)))".into(), "[(0, 3)]".into(), json!({"planted": "search returned a zone whose statistics exclude the value"}));
        sink.add(s);
    }
    sink.notes.push("float keys = total_cmp keys of the f32 bits (NaN = f32::NAN only); legacy arm: batch_size unset so that use_stats(true) takes the LancePushdownScanExec path".into());
    sink.finish();
    0
}

fn main() {
    let (sub, args) = Args::parse();
    let code = match sub.as_str() {
        "c29" => run(&args),
        _ => { eprintln!("unknown subcommand {sub}"); 2 }
    };
    std::process::exit(code);
}
