//! Reproductions of the known findings on the real code (public lance-table API only). `hx_c34 probe`.
use hxlib::util::{catch, Args};
use lance_core::utils::deletion::DeletionVector;
use lance_table::rowids::{segment::U64Segment, FragmentRowIdIndex, RowIdIndex, RowIdSequence};
use std::sync::Arc;

fn show<T: std::fmt::Debug>(name: &str, f: impl FnOnce() -> T) {
    match catch(f) {
        Ok(v) => println!("  {name}: {:?}", v),
        Err(_) => println!("  {name}: PANIC"),
    }
}

pub fn run(_args: &Args) -> i32 {
    println!("F9b (u64::MAX):");
    show("from_slice [MAX]", || U64Segment::from_slice(&[u64::MAX]));
    show("from_slice [MAX-1,MAX]", || U64Segment::from_slice(&[u64::MAX - 1, u64::MAX]));
    show("from_slice [0,MAX]", || U64Segment::from_slice(&[0, u64::MAX]));
    show("from_slice [5,MAX]", || U64Segment::from_slice(&[5, u64::MAX]));
    show("from_slice [MAX,5]", || U64Segment::from_slice(&[u64::MAX, 5]));
    show("Range(0..3).with_new_high(MAX)", || U64Segment::Range(0..3).with_new_high(u64::MAX).map_err(|e| e.to_string()));
    println!("span overflow:");
    show("from_slice [0, 2^63]", || U64Segment::from_slice(&[0, 1u64 << 63]));
    show("from_slice [0, 2^62+25]", || U64Segment::from_slice(&[0, (1u64 << 62) + 25]));
    show("from_slice [0, 2^62-10]", || U64Segment::from_slice(&[0, (1u64 << 62) - 10]));
    show("from_slice [7, 2^62]", || U64Segment::from_slice(&[7, 1u64 << 62]));
    println!("duplicates:");
    show("from_slice [5,5]", || U64Segment::from_slice(&[5, 5]));
    show("from_slice [5,5,7]", || {
        let s = U64Segment::from_slice(&[5, 5, 7]);
        (s.iter().collect::<Vec<_>>(), s)
    });
    show("delete [3,3,5] from 0..10", || {
        let mut s = RowIdSequence::from(0u64..10);
        s.delete([3u64, 3, 5]);
        s.iter().collect::<Vec<_>>()
    });
    println!("F18 (index over interleaved ranges):");
    let frag = |id: u32, ids: &[u64]| FragmentRowIdIndex {
        fragment_id: id,
        row_id_sequence: Arc::new(RowIdSequence::from(ids)),
        deletion_vector: Arc::new(DeletionVector::default()),
    };
    show("frags {1,2,4,5,8} + {7}", || {
        let idx = RowIdIndex::new(&[frag(0, &[1, 2, 4, 5, 8]), frag(1, &[7])]).map_err(|e| e.to_string())?;
        Ok::<_, String>((1..=8u64).map(|i| idx.get(i).map(u64::from)).collect::<Vec<_>>())
    });
    show("frags {1,3,5} + {2,4} (exact tiling)", || {
        let idx = RowIdIndex::new(&[frag(0, &[1, 3, 5]), frag(1, &[2, 4])]).map_err(|e| e.to_string())?;
        Ok::<_, String>((0..=6u64).map(|i| idx.get(i).map(u64::from)).collect::<Vec<_>>())
    });
    show("frags {1,5} + {3}", || {
        let idx = RowIdIndex::new(&[frag(0, &[1, 5]), frag(1, &[3])]).map_err(|e| e.to_string())?;
        Ok::<_, String>((0..=6u64).map(|i| idx.get(i).map(u64::from)).collect::<Vec<_>>())
    });
    0
}
