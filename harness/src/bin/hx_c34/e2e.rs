//! C34 end-to-end arm: real datasets with stable row ids on a temp dir. After every step of a small
//! history (append / delete / compact / update of the newest rows) the fragments' stored row id
//! sequences and deletion vectors are read back, turned into FragmentRowIdIndex values exactly as the
//! dataset does, and
//!   (a) pushed to the `index` correspondence stream (RowIdIndex::new/get on REAL layouts vs the model),
//!   (b) checked against the ordered scan: index.get(_rowid) == _rowaddr for every live row, ids unique,
//!       every key keeps the row id it was created with, Dataset::take_rows(ids) returns those keys.
//! One extra history updates a row in the middle of a fragment: the former F18 layout (repaired by ac0e2db), now under the strict oracle.
use crate::index::{case_index, Frag};
use crate::model::seq_of_real;
use arrow_array::{Int64Array, RecordBatch, RecordBatchIterator, UInt64Array};
use arrow_schema::{DataType, Field, Schema as ArrowSchema};
use futures::TryStreamExt;
use hxlib::util::{Args, Rng, Sink, Stream};
use lance::dataset::optimize::{compact_files, CompactionOptions};
use lance::dataset::{UpdateBuilder, WriteMode, WriteParams};
use lance::Dataset;
use lance_table::format::RowIdMeta;
use lance_table::rowids::read_row_ids;
use serde_json::json;
use std::collections::HashMap;
use std::sync::Arc;

fn schema() -> Arc<ArrowSchema> {
    Arc::new(ArrowSchema::new(vec![Field::new("k", DataType::Int64, false), Field::new("x", DataType::Int64, false)]))
}
fn batch(from: i64, n: usize) -> RecordBatch {
    let k: Vec<i64> = (from..from + n as i64).collect();
    let x: Vec<i64> = k.iter().map(|v| v * 10).collect();
    RecordBatch::try_new(schema(), vec![Arc::new(Int64Array::from(k)), Arc::new(Int64Array::from(x))]).unwrap()
}

struct Tbl {
    _dir: tempfile::TempDir,
    uri: String,
    ds: Dataset,
    next_k: i64,
    max_rows_per_file: usize,
    hist: Vec<String>,
    /// row id every key was first seen with
    born: HashMap<i64, u64>,
    max_id_seen: Option<u64>,
}

impl Tbl {
    async fn create(n: usize, max_rows_per_file: usize) -> Tbl {
        let dir = tempfile::tempdir().unwrap();
        let uri = dir.path().join("t.lance").to_str().unwrap().to_string();
        let params = WriteParams { max_rows_per_file, enable_stable_row_ids: true, ..Default::default() };
        let ds = Dataset::write(RecordBatchIterator::new(vec![Ok(batch(0, n))], schema()), &uri, Some(params)).await.unwrap();
        Tbl { _dir: dir, uri, ds, next_k: n as i64, max_rows_per_file, hist: vec![format!("create n={n} max_rows_per_file={max_rows_per_file} stable_row_ids")], born: HashMap::new(), max_id_seen: None }
    }
    async fn append(&mut self, n: usize) {
        let params = WriteParams { max_rows_per_file: self.max_rows_per_file, mode: WriteMode::Append, enable_stable_row_ids: true, ..Default::default() };
        self.ds = Dataset::write(RecordBatchIterator::new(vec![Ok(batch(self.next_k, n))], schema()), &self.uri, Some(params)).await.unwrap();
        self.next_k += n as i64;
        self.hist.push(format!("append n={n}"));
    }
    async fn delete(&mut self, pred: &str) {
        self.ds.delete(pred).await.unwrap();
        self.hist.push(format!("delete {pred}"));
    }
    async fn update(&mut self, pred: &str) {
        let res = UpdateBuilder::new(Arc::new(self.ds.clone())).update_where(pred).unwrap().set("x", "x + 1").unwrap().build().unwrap().execute().await.unwrap();
        self.ds = res.new_dataset.as_ref().clone();
        self.hist.push(format!("update x = x + 1 where {pred}"));
    }
    async fn compact(&mut self, target: usize) {
        let opts = CompactionOptions { target_rows_per_fragment: target, ..Default::default() };
        compact_files(&mut self.ds, opts, None).await.unwrap();
        self.hist.push(format!("compact target_rows_per_fragment={target}"));
    }
    /// ordered scan: (k, _rowid, _rowaddr)
    async fn scan(&self) -> Vec<(i64, u64, u64)> {
        let mut sc = self.ds.scan();
        sc.with_row_id().with_row_address().scan_in_order(true);
        let batches: Vec<RecordBatch> = sc.try_into_stream().await.unwrap().try_collect().await.unwrap();
        let mut out = vec![];
        for b in batches {
            let k = b.column_by_name("k").unwrap().as_any().downcast_ref::<Int64Array>().unwrap();
            let id = b.column_by_name("_rowid").unwrap().as_any().downcast_ref::<UInt64Array>().unwrap();
            let ad = b.column_by_name("_rowaddr").unwrap().as_any().downcast_ref::<UInt64Array>().unwrap();
            for i in 0..b.num_rows() {
                out.push((k.value(i), id.value(i), ad.value(i)));
            }
        }
        out
    }
    /// the fragments' stored row id sequences and deletion vectors, as the dataset's own index builder sees them
    async fn frags(&self) -> Result<Vec<Frag>, String> {
        let mut out = vec![];
        for f in self.ds.manifest().fragments.iter() {
            let bytes = match &f.row_id_meta {
                Some(RowIdMeta::Inline(b)) => b.clone(),
                Some(RowIdMeta::External(_)) => return Err("external row id file".into()),
                None => return Err(format!("fragment {} has no row id sequence", f.id)),
            };
            let seq = read_row_ids(&bytes).map_err(|e| e.to_string())?;
            let segs = seq_of_real(&seq)?;
            let ff = self.ds.get_fragment(f.id as usize).ok_or("fragment not found")?;
            let dv = ff.get_deletion_vector().await.map_err(|e| e.to_string())?;
            let mut deleted: Vec<u32> = dv.map(|d| d.iter().collect()).unwrap_or_default();
            deleted.sort_unstable();
            out.push(Frag { id: f.id as u32, segs, deleted });
        }
        Ok(out)
    }
}

/// all checks after one step; `f18` = this history is expected to be in the overlapping-ranges class
async fn observe(sink: &mut Sink, st: &mut Stream, t: &mut Tbl, rng: &mut Rng, f18: bool) {
    let case = json!({"history": t.hist});
    let rows = t.scan().await;
    // ---- stability / uniqueness of the row ids (independent of the index)
    let mut ok = true;
    let mut seen: HashMap<u64, i64> = HashMap::new();
    for (k, id, _) in &rows {
        ok &= seen.insert(*id, *k).is_none();
        match t.born.get(k) {
            Some(b) => ok &= b == id,
            None => {
                // a new key must get a fresh id
                ok &= t.max_id_seen.map_or(true, |m| *id > m) || t.born.is_empty();
            }
        }
    }
    for (k, id, _) in &rows {
        t.born.entry(*k).or_insert(*id);
    }
    if let Some(m) = rows.iter().map(|r| r.1).max() {
        t.max_id_seen = Some(t.max_id_seen.map_or(m, |x| x.max(m)));
    }
    if ok {
        sink.oracle_ok()
    } else {
        sink.oracle_fail(None, "stable row ids are not unique / not stable / not fresh along the history", case.clone())
    }
    // ---- the stored sequences hold exactly the ids the scan reports, in physical order
    let frags = match t.frags().await {
        Ok(f) => f,
        Err(e) => {
            sink.oracle_fail(None, &format!("cannot read back the row id sequences: {e}"), case);
            return;
        }
    };
    let mut from_seqs: Vec<(u64, u64)> = vec![];
    for f in &frags {
        for (i, id) in crate::model::seq_ids(&f.segs).iter().enumerate() {
            if !f.deleted.contains(&(i as u32)) {
                from_seqs.push((*id, ((f.id as u64) << 32) + i as u64));
            }
        }
    }
    let from_scan: Vec<(u64, u64)> = rows.iter().map(|r| (r.1, r.2)).collect();
    if from_seqs == from_scan {
        sink.oracle_ok()
    } else {
        sink.oracle_fail(None, "the fragments' row id sequences (minus deletions) differ from the ids/addresses the scan reports", json!({"history": t.hist, "from_sequences": from_seqs.len(), "from_scan": from_scan.len()}))
    }
    sink.count(&format!("e2e:frags={}", frags.len().min(6)));
    for f in &frags {
        for s in &f.segs {
            sink.count(&format!("e2e:segment:{}", s.kind().split('/').next().unwrap()));
        }
    }
    // ---- RowIdIndex on the real layout: correspondence with the model + oracle against the scan
    let mut probes: Vec<u64> = rows.iter().map(|r| r.1).collect();
    probes.extend(t.born.values().copied()); // ids of deleted rows too: must resolve to None
    probes.push(t.max_id_seen.unwrap_or(0) + 1);
    probes.sort_unstable();
    probes.dedup();
    case_index(sink, st, &frags, &probes);
    // ---- take_rows through the public API
    if rows.is_empty() {
        return;
    }
    let mut ids: Vec<u64> = rows.iter().filter(|_| rng.chance(1, 3)).map(|r| r.1).collect();
    if ids.is_empty() {
        ids.push(rows[0].1);
    }
    crate::gen::shuffle(rng, &mut ids);
    let ds = t.ds.clone();
    let ids2 = ids.clone();
    let taken = tokio::task::spawn(async move { ds.take_rows(&ids2, lance::dataset::ProjectionRequest::from_columns(["k"], ds.schema())).await }).await;
    let expect: Vec<i64> = ids.iter().map(|i| seen[i]).collect();
    let _ = f18; // F18 is repaired (ac0e2db): strict oracle
    let cls: Option<&str> = None;
    match taken {
        Ok(Ok(b)) => {
            let k = b.column_by_name("k").unwrap().as_any().downcast_ref::<Int64Array>().unwrap();
            let got: Vec<i64> = (0..b.num_rows()).map(|i| k.value(i)).collect();
            if got == expect {
                sink.oracle_ok()
            } else {
                sink.oracle_fail(cls, "take_rows(row ids) returned other rows than the ones carrying those ids", json!({"history": t.hist, "ids": ids, "got": got, "expected": expect}))
            }
        }
        Ok(Err(e)) => sink.oracle_fail(cls, &format!("take_rows(row ids) failed: {e}"), json!({"history": t.hist, "ids": ids})),
        Err(_) => sink.oracle_fail(cls, "take_rows(row ids) panicked (RowIdIndex::new assertion)", json!({"history": t.hist, "ids": ids})),
    }
}

pub fn run(args: &Args, sink: &mut Sink, st: &mut Stream) {
    let rt = tokio::runtime::Builder::new_multi_thread().worker_threads(4).enable_all().build().unwrap();
    let mut rng = Rng::new(args.seed ^ 0xe2e);
    let prev = std::panic::take_hook();
    std::panic::set_hook(Box::new(|_| {}));
    rt.block_on(async {
        for h in 0..args.vol(4, 25) {
            let mrf = *rng.pick(&[4usize, 7, 10, 16]);
            let mut t = Tbl::create(rng.range(5, 40) as usize, mrf).await;
            observe(sink, st, &mut t, &mut rng, false).await;
            for _ in 0..rng.range(3, 6) {
                match rng.below(6) {
                    0 | 1 => t.append(rng.range(1, 25) as usize).await,
                    2 => {
                        let m = rng.range(2, 5);
                        t.delete(&format!("k % {m} = {}", rng.below(m))).await
                    }
                    3 => {
                        let a = rng.below(t.next_k.max(1) as u64);
                        t.delete(&format!("k >= {a} AND k < {}", a + rng.range(1, 12))).await
                    }
                    4 => t.compact(*rng.pick(&[8usize, 20, 1000])).await,
                    _ => {
                        // update the newest keys only: the moved ids stay above everything the old fragments keep
                        let from = t.next_k - rng.range(1, 3) as i64;
                        t.update(&format!("k >= {from}")).await
                    }
                }
                observe(sink, st, &mut t, &mut rng, false).await;
            }
            sink.count("e2e:history");
            let _ = h;
        }
        // F18 (DESIGN section 6): delete + update of rows in the middle, then take_rows
        let mut t = Tbl::create(45, 10).await;
        t.delete("k % 3 = 0 OR (k >= 20 AND k < 30)").await;
        t.update("k = 31 OR k = 7").await;
        observe(sink, st, &mut t, &mut rng, true).await;
        sink.count("e2e:history-f18");
    });
    std::panic::set_hook(prev);
    sink.notes.push("e2e: datasets with stable row ids (append/delete/compact/update-newest histories): stored sequences vs scan, RowIdIndex on the real fragment layouts vs model and vs _rowaddr, take_rows by row id; one F18 history (update in the middle of a fragment)".into());
}
