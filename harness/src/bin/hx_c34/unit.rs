//! C34 unit arm: U64Segment / RowIdSequence / rechunk / select against the Gallina model (streams) and
//! against brute-force list semantics (direct oracle).
use crate::gen::*;
use crate::model::*;
use hxlib::util::{catch, coq, Args, Rng, Sink, Stream};
use lance_core::utils::mask::{RowIdMask, RowIdTreeMap};
use lance_io::ReadBatchParams;
use lance_table::rowids::{rechunk_sequences, segment::U64Segment, select_row_ids, RowIdSequence};
use serde_json::{json, Value};

pub const REQ: &str = "Common.Base Core.Model_RowIds";
pub const CLASS_MAX: &str = "contains_u64_max";
pub const CLASS_SPAN: &str = "sorted_span_overflow";

pub struct Streams {
    pub build: Stream,
    pub query: Stream,
    pub segop: Stream,
    pub seqop: Stream,
    pub rechunk: Stream,
    /// the random (medium-sized) cases go to their own, smaller shards
    pub build_r: Stream,
    pub segop_r: Stream,
    pub seqop_r: Stream,
    pub random_phase: bool,
}

impl Streams {
    pub fn new() -> Self {
        // coqc start-up dominates the cost of a shard of tiny cases, so the exhaustive streams use big shards
        let mut s = Streams {
            build: Stream::new("build", REQ, "chk_from_slice", "list N", "outcome seg"),
            query: Stream::new("query", REQ, "chk_seg_query", "seg * list N * list N", "seg_query_out"),
            segop: Stream::new("segop", REQ, "chk_seg_op", "seg * segop", "outcome seg"),
            seqop: Stream::new("seqop", REQ, "chk_seq_op", "rseq * seqop", "outcome seqres"),
            rechunk: Stream::new("rechunk", REQ, "chk_rechunk", "list rseq * list N * bool", "outcome (list rseq)"),
            build_r: Stream::new("build_r", REQ, "chk_from_slice", "list N", "outcome seg"),
            segop_r: Stream::new("segop_r", REQ, "chk_seg_op", "seg * segop", "outcome seg"),
            seqop_r: Stream::new("seqop_r", REQ, "chk_seq_op", "rseq * seqop", "outcome seqres"),
            random_phase: false,
        };
        s.build.shard = 1500;
        s.query.shard = 250;
        s.segop.shard = 1500;
        s.seqop.shard = 1500;
        s.rechunk.shard = 150;
        s.build_r.shard = 400;
        s.segop_r.shard = 250;
        s.seqop_r.shard = 250;
        s
    }
}

/// Sanity-test switch (never set by ./check; values can be combined, e.g. `m2o,variant`): `C34_PLANT=m2o` makes the harness behave as if
/// mask_to_offset_ranges lost its last range on multi-segment sequences; `C34_PLANT=variant` records
/// SortedArray results of from_slice as Array (same ids, wrong representation).
pub fn plant() -> Option<String> {
    std::env::var("C34_PLANT").ok()
}

fn known_class(l: &[u64]) -> Option<&'static str> {
    if has_max(l) {
        Some(CLASS_MAX)
    } else if span_overflow(l) {
        Some(CLASS_SPAN)
    } else {
        None
    }
}

fn opt_n(x: Option<u64>) -> String {
    coq::opt(x.map(coq::n))
}

/// from_slice on one list: correspondence case + list-semantics oracle
pub fn case_build(sink: &mut Sink, st: &mut Streams, kind: &str, l: &[u64]) -> Option<Sg> {
    let r = catch(|| U64Segment::from_slice(l));
    let mut mirrored: Result<Result<Sg, String>, bool> = r.as_ref().map(Sg::of_real).map_err(|e| *e);
    if plant().map_or(false, |p| p.contains("variant")) {
        if let Ok(Ok(Sg::Sorted(a))) = &mirrored {
            mirrored = Ok(Ok(Sg::Array(a.clone())));
        }
    }
    let out: Result<String, bool> = match &mirrored {
        Ok(Ok(sg)) => Ok(sg.coq()),
        Ok(Err(_)) => Ok("(SRange 1 0)".into()), // ill-formed: never equal to a model output
        Err(_) => Err(true),
    };
    let variant = match &mirrored {
        Ok(Ok(sg)) => sg.kind(),
        Ok(Err(e)) => format!("ill-formed: {e}"),
        Err(_) => "panic".into(),
    };
    sink.count(&format!("build:{variant}"));
    sink.count(&format!("gen:{kind}"));
    sink.nontrivial(&format!("b{:?}", l));
    let case = json!({"from_slice": l, "result": variant});
    if st.random_phase { &mut st.build_r } else { &mut st.build }.push(coq::nlist(l.iter()), coq::outcome(&out), case.clone());
    // ---- oracle
    if !nodup(l) {
        return mirrored.ok().and_then(|x| x.ok());
    }
    let cls = known_class(l);
    let mut bad: Option<String> = None;
    match (&r, &mirrored) {
        (Ok(seg), Ok(Ok(_))) => {
            let it: Vec<u64> = seg.iter().collect();
            if it != l {
                bad = Some(format!("iter() = {:?}", &it[..it.len().min(20)]));
            } else if seg.len() != l.len() {
                bad = Some(format!("len() = {}", seg.len()));
            } else {
                for (i, v) in l.iter().enumerate() {
                    if seg.get(i) != Some(*v) || seg.position(*v) != Some(i) || !seg.contains(*v) {
                        bad = Some(format!("get/position/contains wrong at index {i}"));
                        break;
                    }
                }
                if bad.is_none() && seg.get(l.len()).is_some() {
                    bad = Some("get(len) is Some".into());
                }
                let rng_ = seg.range().map(|r| (*r.start(), *r.end()));
                let exp = l.iter().min().map(|mn| (*mn, *l.iter().max().unwrap()));
                if bad.is_none() && rng_ != exp {
                    bad = Some(format!("range() = {:?}", rng_));
                }
            }
        }
        (Ok(_), Ok(Err(e))) => bad = Some(format!("ill-formed segment: {e}")),
        _ => bad = Some("from_slice panicked".into()),
    }
    match bad {
        None => sink.oracle_ok(),
        Some(what) => sink.oracle_fail(cls, &format!("a segment built from a duplicate-free id list does not hold exactly those ids: {what}"), case),
    }
    mirrored.ok().and_then(|x| x.ok())
}

/// accessors of a well-formed segment
pub fn case_query(sink: &mut Sink, st: &mut Streams, sg: &Sg, probes: &[u64]) {
    if !sg.wf() {
        return;
    }
    // indices for get(): the probes that are plausible offsets (the model's nth is unary in the index)
    let bound = sg.len() + 3;
    let mut idxs: Vec<u64> = probes.iter().copied().filter(|p| *p <= bound).collect();
    if matches!(sg, Sg::Holes(..) | Sg::Bitmap(..)) && sg.len() > 60 && idxs.len() > 6 {
        // get() on these variants walks the whole range in the model: a handful of indices is enough
        let step = idxs.len() / 5;
        idxs = idxs.iter().copied().step_by(step.max(1)).collect();
    }
    let real = sg.to_real();
    let r = catch(|| {
        let len = real.len() as u64;
        let it: Vec<u64> = real.iter().collect();
        let rng_ = real.range().map(|r| (*r.start(), *r.end()));
        let gets: Vec<Option<u64>> = idxs.iter().map(|p| real.get(*p as usize)).collect();
        let poss: Vec<Option<u64>> = probes.iter().map(|p| real.position(*p).map(|x| x as u64)).collect();
        let conts: Vec<bool> = probes.iter().map(|p| real.contains(*p)).collect();
        (len, it, rng_, gets, poss, conts)
    });
    let case = json!({"segment": sg.json(), "probes": probes});
    sink.count(&format!("query:{}", sg.kind()));
    let Ok((len, it, rng_, gets, poss, conts)) = r else {
        sink.oracle_fail(None, "accessor of a well-formed segment panicked", case);
        return;
    };
    // oracle vs the brute-force list view
    let ids = sg.ids();
    let mut ok = len == ids.len() as u64 && it == ids;
    for (k, p) in idxs.iter().enumerate() {
        ok &= gets[k] == ids.get(*p as usize).copied();
    }
    for (k, p) in probes.iter().enumerate() {
        ok &= poss[k] == ids.iter().position(|x| x == p).map(|x| x as u64);
        ok &= conts[k] == ids.contains(p);
    }
    if ok {
        sink.oracle_ok();
    } else {
        sink.oracle_fail(None, "len/iter/get/position/contains of a segment disagree with its id list", case.clone());
    }
    sink.nontrivial(&format!("q{}{:?}", sg.coq(), probes));
    let out = format!(
        "({}, {}, {}, {}, {}, {})",
        len,
        coq::nlist(it.iter()),
        coq::opt(rng_.map(|(a, b)| format!("({}, {})", a, b))),
        coq::list(gets.iter().map(|x| opt_n(*x))),
        coq::list(poss.iter().map(|x| opt_n(*x))),
        coq::list(conts.iter().map(|b| coq::b(*b)))
    );
    st.query.push(format!("({}, {}, {})", sg.coq(), coq::nlist(idxs.iter()), coq::nlist(probes.iter())), out, case);
}

pub fn probes_for(rng: &mut Rng, ids: &[u64], sg: &Sg) -> Vec<u64> {
    let mut p: Vec<u64> = vec![0, 1, ids.len() as u64, ids.len() as u64 + 1];
    if let (Some(mn), Some(mx)) = (ids.iter().min(), ids.iter().max()) {
        p.extend([mn.wrapping_sub(1), *mn, mn + (mx - mn) / 2, *mx, mx.wrapping_add(1)]);
    }
    if let Sg::Holes(_, _, h) = sg {
        p.extend(h.ids().iter().take(3));
    }
    for _ in 0..4 {
        if !ids.is_empty() {
            let v = *rng.pick(ids);
            p.extend([v, v.wrapping_add(1)]);
            p.push(rng.below(ids.len() as u64 + 1));
        }
    }
    p.sort_unstable();
    p.dedup();
    p
}

#[derive(Clone, Debug)]
pub enum SegOp {
    Slice(u64, u64),
    Delete(Vec<u64>),
    Mask(Vec<u32>),
    NewHigh(u64),
}

/// one operation on a well-formed segment. `oracle`: whether the op's arguments satisfy the documented
/// preconditions (then list semantics must hold).
pub fn case_segop(sink: &mut Sink, st: &mut Streams, sg: &Sg, op: &SegOp, oracle: bool) {
    if !sg.wf() {
        return;
    }
    let real = sg.to_real();
    let ids = sg.ids();
    let (r, opc, opj, expect): (Result<Result<U64Segment, ()>, bool>, String, Value, Option<Vec<u64>>) = match op {
        SegOp::Slice(o, n) => (
            catch(|| Ok(real.slice(*o as usize, *n as usize))),
            format!("(OSlice {} {})", o, n),
            json!({"slice": [o, n]}),
            Some(ids.iter().skip(*o as usize).take(*n as usize).copied().collect()),
        ),
        SegOp::Delete(v) => (
            catch(|| Ok(real.delete(v))),
            format!("(ODelete {})", coq::nlist(v.iter())),
            json!({"delete": v}),
            Some(ids.iter().filter(|x| !v.contains(x)).copied().collect()),
        ),
        SegOp::Mask(p) => (
            catch(|| {
                let mut s = real.clone();
                s.mask(p);
                Ok(s)
            }),
            format!("(OMask {})", coq::list(p.iter().map(|x| x.to_string()))),
            json!({"mask": p}),
            Some(ids.iter().enumerate().filter(|(i, _)| !p.contains(&(*i as u32))).map(|(_, x)| *x).collect()),
        ),
        SegOp::NewHigh(v) => (
            catch(|| real.clone().with_new_high(*v).map_err(|_| ())),
            format!("(ONewHigh {})", v),
            json!({"with_new_high": v}),
            if ids.iter().all(|x| x < v) { Some(ids.iter().copied().chain([*v]).collect()) } else { None },
        ),
    };
    let mirrored: Result<Result<Sg, String>, bool> = match &r {
        Ok(Ok(s)) => Ok(Sg::of_real(s)),
        Ok(Err(())) => Err(false),
        Err(_) => Err(true),
    };
    let out: Result<String, bool> = match &mirrored {
        Ok(Ok(s)) => Ok(s.coq()),
        Ok(Err(_)) => Ok("(SRange 1 0)".into()),
        Err(e) => Err(*e),
    };
    let res_kind = match &mirrored {
        Ok(Ok(s)) => s.kind(),
        Ok(Err(e)) => format!("ill-formed: {e}"),
        Err(false) => "err".into(),
        Err(true) => "panic".into(),
    };
    let opname = opj.as_object().unwrap().keys().next().unwrap().clone();
    sink.count(&format!("segop:{}:{}->{}", opname, sg.kind().split('/').next().unwrap(), res_kind.split('/').next().unwrap()));
    let case = json!({"segment": sg.json(), "op": opj, "result": res_kind});
    sink.nontrivial(&format!("o{}{}", sg.coq(), opc));
    if st.random_phase { &mut st.segop_r } else { &mut st.segop }.push(format!("({}, {})", sg.coq(), opc), coq::outcome(&out), case.clone());
    if !oracle {
        return;
    }
    let cls = match op {
        SegOp::NewHigh(v) if *v == u64::MAX => Some(CLASS_MAX),
        SegOp::NewHigh(v) => {
            let mut l = ids.clone();
            l.push(*v);
            known_class(&l)
        }
        _ => known_class(&ids).or(if wide_span(&ids) { Some(CLASS_SPAN) } else { None }),
    };
    match (&r, expect) {
        (Ok(Ok(s)), Some(exp)) => {
            let got: Vec<u64> = s.iter().collect();
            if got == exp && s.len() == exp.len() && matches!(mirrored, Ok(Ok(_))) {
                sink.oracle_ok();
            } else {
                sink.oracle_fail(cls, &format!("segment {opname} does not commute with the list view"), case);
            }
        }
        (Ok(Err(())), None) => sink.oracle_ok(), // with_new_high refused a value that is not higher
        (Ok(Ok(_)), None) => sink.oracle_fail(cls, "with_new_high accepted a value that is not higher than the maximum", case),
        _ => sink.oracle_fail(cls, &format!("segment {opname} failed on arguments that satisfy its preconditions"), case),
    }
}

#[derive(Clone, Debug)]
pub enum Rbp {
    Indices(Vec<u32>),
    Range(u64, u64),
    Ranges(Vec<(u64, u64)>),
    Full,
    To(u64),
    From(u64),
}

#[derive(Clone, Debug)]
pub enum SeqOp {
    Info,
    Extend(Vec<Sg>),
    Delete(Vec<u64>),
    Mask(Vec<u32>),
    Slice(u64, u64),
    Get(Vec<u64>),
    Select(Vec<u64>),
    MaskToOffsets(Option<Vec<u64>>, Option<Vec<u64>>),
    SelectRowIds(Rbp),
}

fn ranges_coq(r: &[(u64, u64)]) -> String {
    coq::list(r.iter().map(|(a, b)| format!("({}, {})", a, b)))
}

pub fn build_mask(allow: &Option<Vec<u64>>, block: &Option<Vec<u64>>) -> RowIdMask {
    RowIdMask {
        allow_list: allow.as_ref().map(|a| RowIdTreeMap::from_iter(a.iter())),
        block_list: block.as_ref().map(|b| RowIdTreeMap::from_iter(b.iter())),
    }
}

enum SeqRes {
    Info(u64, Vec<u64>),
    Seq(RowIdSequence),
    Ids(Vec<u64>),
    Opts(Vec<Option<u64>>),
    Ranges(Vec<(u64, u64)>),
}

/// one operation on a sequence of well-formed segments. `pre`: documented preconditions hold.
pub fn case_seqop(sink: &mut Sink, st: &mut Streams, q: &[Sg], op: &SeqOp, pre: bool) {
    if !q.iter().all(|s| s.wf()) {
        return;
    }
    let real = seq_to_real(q);
    let ids = seq_ids(q);
    let n = ids.len() as u64;
    let (opc, opj): (String, Value) = match op {
        SeqOp::Info => ("QInfo".into(), json!("len+iter")),
        SeqOp::Extend(o) => (format!("(QExtend {})", seq_coq(o)), json!({"extend": seq_json(o)})),
        SeqOp::Delete(v) => (format!("(QDelete {})", coq::nlist(v.iter())), json!({"delete": v})),
        SeqOp::Mask(p) => (format!("(QMask {})", coq::list(p.iter().map(|x| x.to_string()))), json!({"mask": p})),
        SeqOp::Slice(a, b) => (format!("(QSlice {} {})", a, b), json!({"slice": [a, b]})),
        SeqOp::Get(i) => (format!("(QGet {})", coq::nlist(i.iter())), json!({"get": i})),
        SeqOp::Select(s) => (format!("(QSelect {})", coq::nlist(s.iter())), json!({"select": s})),
        SeqOp::MaskToOffsets(a, b) => (
            format!("(QMaskToOffsets {} {})", coq::opt(a.as_ref().map(|a| coq::nlist(a.iter()))), coq::nlist(b.clone().unwrap_or_default().iter())),
            json!({"mask_to_offset_ranges": {"allow": a, "block": b}}),
        ),
        SeqOp::SelectRowIds(p) => {
            let pc = match p {
                Rbp::Indices(i) => format!("(PIndices {})", coq::list(i.iter().map(|x| x.to_string()))),
                Rbp::Range(a, b) => format!("(PRange {} {})", a, b),
                Rbp::Ranges(r) => format!("(PRanges {})", ranges_coq(r)),
                Rbp::Full => "PFull".into(),
                Rbp::To(e) => format!("(PTo {})", e),
                Rbp::From(s) => format!("(PFrom {})", s),
            };
            (format!("(QSelectRowIds {})", pc), json!({"select_row_ids": format!("{:?}", p)}))
        }
    };
    let r: Result<Result<SeqRes, ()>, bool> = catch(|| match op {
        SeqOp::Info => Ok(SeqRes::Info(real.len(), real.iter().collect())),
        SeqOp::Extend(o) => {
            let mut s = real.clone();
            s.extend(seq_to_real(o));
            Ok(SeqRes::Seq(s))
        }
        SeqOp::Delete(v) => {
            let mut s = real.clone();
            s.delete(v.iter().copied());
            Ok(SeqRes::Seq(s))
        }
        SeqOp::Mask(p) => {
            let mut s = real.clone();
            s.mask(p.iter().copied()).map_err(|_| ())?;
            Ok(SeqRes::Seq(s))
        }
        SeqOp::Slice(a, b) => Ok(SeqRes::Ids(real.slice(*a as usize, *b as usize).iter().collect())),
        SeqOp::Get(i) => Ok(SeqRes::Opts(i.iter().map(|x| real.get(*x as usize)).collect())),
        SeqOp::Select(s) => Ok(SeqRes::Ids(real.select(s.iter().map(|x| *x as usize)).collect())),
        SeqOp::MaskToOffsets(a, b) => {
            let m = build_mask(a, b);
            let mut rs: Vec<(u64, u64)> = real.mask_to_offset_ranges(&m).into_iter().map(|r| (r.start, r.end)).collect();
            if plant().map_or(false, |p| p.contains("m2o")) && q.len() > 1 {
                rs.pop();
            }
            Ok(SeqRes::Ranges(rs))
        }
        SeqOp::SelectRowIds(p) => {
            let params = match p {
                Rbp::Indices(i) => ReadBatchParams::Indices(i.clone().into()),
                Rbp::Range(a, b) => ReadBatchParams::Range(*a as usize..*b as usize),
                Rbp::Ranges(r) => ReadBatchParams::Ranges(r.iter().map(|(a, b)| *a..*b).collect::<Vec<_>>().into()),
                Rbp::Full => ReadBatchParams::RangeFull,
                Rbp::To(e) => ReadBatchParams::RangeTo(..*e as usize),
                Rbp::From(s) => ReadBatchParams::RangeFrom(*s as usize..),
            };
            select_row_ids(&real, &params).map(SeqRes::Ids).map_err(|_| ())
        }
    });
    // print
    let mut ill: Option<String> = None;
    let out: Result<String, bool> = match &r {
        Ok(Ok(res)) => Ok(match res {
            SeqRes::Info(l, it) => format!("(RInfo {} {})", l, coq::nlist(it.iter())),
            SeqRes::Seq(s) => match seq_of_real(s) {
                Ok(m) => format!("(RSeq {})", seq_coq(&m)),
                Err(e) => {
                    ill = Some(e);
                    "(RSeq [SRange 1 0])".into()
                }
            },
            SeqRes::Ids(l) => format!("(RIds {})", coq::nlist(l.iter())),
            SeqRes::Opts(l) => format!("(ROpts {})", coq::list(l.iter().map(|x| opt_n(*x)))),
            SeqRes::Ranges(l) => format!("(RRanges {})", ranges_coq(l)),
        }),
        Ok(Err(())) => Err(false),
        Err(_) => Err(true),
    };
    let opname = opj.as_object().map(|o| o.keys().next().unwrap().clone()).unwrap_or("info".into());
    let status = match &r {
        Ok(Ok(_)) => "ok",
        Ok(Err(_)) => "err",
        Err(_) => "panic",
    };
    sink.count(&format!("seqop:{opname}:{status}"));
    let case = json!({"sequence": seq_json(q), "op": opj, "status": status});
    sink.nontrivial(&format!("s{}{}", seq_coq(q), opc));
    if st.random_phase { &mut st.seqop_r } else { &mut st.seqop }.push(format!("({}, {})", seq_coq(q), opc), coq::outcome(&out), case.clone());
    if !pre {
        return;
    }
    // ---- direct oracle: the same operation on the plain list
    let fail = |sink: &mut Sink, what: &str| sink.oracle_fail(None, what, case.clone());
    if let Some(e) = ill {
        fail(sink, &format!("operation produced an ill-formed segment: {e}"));
        return;
    }
    match (op, &r) {
        (SeqOp::Info, Ok(Ok(SeqRes::Info(l, it)))) => {
            if *l == n && *it == ids { sink.oracle_ok() } else { fail(sink, "len/iter of a sequence disagree with its segments' ids") }
            // serde round trip: write_row_ids / read_row_ids preserve every segment (variant, encoding, bits)
            let bytes = lance_table::rowids::write_row_ids(&real);
            match lance_table::rowids::read_row_ids(&bytes) {
                Ok(back) if back == real && seq_of_real(&back).as_deref() == Ok(q) => sink.oracle_ok(),
                _ => fail(sink, "write_row_ids / read_row_ids do not round trip the sequence"),
            }
        }
        (SeqOp::Extend(o), Ok(Ok(SeqRes::Seq(s)))) => {
            let mut e = ids.clone();
            e.extend(seq_ids(o));
            if s.iter().collect::<Vec<_>>() == e && s.len() == e.len() as u64 { sink.oracle_ok() } else { fail(sink, "extend is not list concatenation") }
        }
        (SeqOp::Delete(v), Ok(Ok(SeqRes::Seq(s)))) => {
            let e: Vec<u64> = ids.iter().filter(|x| !v.contains(x)).copied().collect();
            if s.iter().collect::<Vec<_>>() == e && s.len() == e.len() as u64 { sink.oracle_ok() } else { fail(sink, "delete does not remove exactly the given ids") }
        }
        (SeqOp::Mask(p), Ok(Ok(SeqRes::Seq(s)))) => {
            let e: Vec<u64> = ids.iter().enumerate().filter(|(i, _)| !p.contains(&(*i as u32))).map(|(_, x)| *x).collect();
            if s.iter().collect::<Vec<_>>() == e && s.len() == e.len() as u64 { sink.oracle_ok() } else { fail(sink, "mask does not remove exactly the given positions") }
        }
        (SeqOp::Slice(a, b), Ok(Ok(SeqRes::Ids(l)))) => {
            let e: Vec<u64> = ids.iter().skip(*a as usize).take(*b as usize).copied().collect();
            if *l == e { sink.oracle_ok() } else { fail(sink, "slice(offset,len) is not the sub-list") }
        }
        (SeqOp::Get(i), Ok(Ok(SeqRes::Opts(l)))) => {
            let e: Vec<Option<u64>> = i.iter().map(|x| ids.get(*x as usize).copied()).collect();
            if *l == e { sink.oracle_ok() } else { fail(sink, "get(i) is not the i-th id") }
        }
        (SeqOp::Select(sel), Ok(Ok(SeqRes::Ids(l)))) => {
            let e: Vec<u64> = sel.iter().filter_map(|x| ids.get(*x as usize).copied()).collect();
            if *l == e { sink.oracle_ok() } else { fail(sink, "select(sorted offsets) is not the ids at those offsets") }
        }
        (SeqOp::MaskToOffsets(a, b), Ok(Ok(SeqRes::Ranges(rs)))) => {
            let sel = |id: &u64| a.as_ref().map_or(true, |a| a.contains(id)) && !b.as_ref().map_or(false, |b| b.contains(id));
            let e: Vec<u64> = ids.iter().enumerate().filter(|(_, x)| sel(x)).map(|(i, _)| i as u64).collect();
            let got: Vec<u64> = rs.iter().flat_map(|(s, e)| *s..*e).collect();
            if got == e && rs.iter().all(|(s, e)| s < e) { sink.oracle_ok() } else { fail(sink, "mask_to_offset_ranges is not the offsets of the selected ids") }
        }
        (SeqOp::SelectRowIds(p), res) => {
            let e: Option<Vec<u64>> = match p {
                Rbp::Indices(i) => i.iter().map(|x| ids.get(*x as usize).copied()).collect(),
                Rbp::Range(a, b) => if *b <= n && a <= b { Some(ids[*a as usize..*b as usize].to_vec()) } else { None },
                Rbp::Ranges(rs) => rs.iter().map(|(a, b)| if *b <= n && a <= b { Some(ids[*a as usize..*b as usize].to_vec()) } else { None }).collect::<Option<Vec<_>>>().map(|v| v.concat()),
                Rbp::Full => Some(ids.clone()),
                Rbp::To(e) => if *e <= n { Some(ids[..*e as usize].to_vec()) } else { None },
                Rbp::From(s) => if *s <= n { Some(ids[*s as usize..].to_vec()) } else { None },
            };
            match (res, e) {
                (Ok(Ok(SeqRes::Ids(l))), Some(e)) if *l == e => sink.oracle_ok(),
                (Ok(Err(())), None) => sink.oracle_ok(),
                _ => fail(sink, "select_row_ids disagrees with indexing the id list"),
            }
        }
        _ => fail(sink, &format!("sequence {opname} failed on arguments that satisfy its preconditions")),
    }
}

pub fn case_rechunk(sink: &mut Sink, st: &mut Streams, seqs: &[Vec<Sg>], sizes: &[u64], allow: bool) {
    if !seqs.iter().all(|q| q.iter().all(|s| s.wf())) {
        return;
    }
    let reals: Vec<RowIdSequence> = seqs.iter().map(|q| seq_to_real(q)).collect();
    let r = catch(|| rechunk_sequences(reals.clone(), sizes.to_vec(), allow).map_err(|_| ()));
    let mut ill = None;
    let out: Result<String, bool> = match &r {
        Ok(Ok(chunks)) => Ok(coq::list(chunks.iter().map(|c| match seq_of_real(c) {
            Ok(m) => seq_coq(&m),
            Err(e) => {
                ill = Some(e);
                "[SRange 1 0]".into()
            }
        }))),
        Ok(Err(())) => Err(false),
        Err(_) => Err(true),
    };
    let status = match &r {
        Ok(Ok(_)) => "ok",
        Ok(Err(_)) => "err",
        Err(_) => "panic",
    };
    sink.count(&format!("rechunk:{status}"));
    let case = json!({"sequences": seqs.iter().map(|q| seq_json(q)).collect::<Vec<_>>(), "chunk_sizes": sizes, "allow_incomplete": allow, "status": status});
    let inp = format!("({}, {}, {})", coq::list(seqs.iter().map(|q| seq_coq(q))), coq::nlist(sizes.iter()), coq::b(allow));
    sink.nontrivial(&inp);
    st.rechunk.push(inp, coq::outcome(&out), case.clone());
    // oracle
    let all: Vec<u64> = seqs.iter().flat_map(|q| seq_ids(q)).collect();
    let total: u64 = sizes.iter().sum();
    let trailing_empty = seqs.iter().flat_map(|q| q.iter()).rev().take_while(|s| s.len() == 0).count() > 0;
    match &r {
        Ok(Ok(chunks)) => {
            let cat: Vec<u64> = chunks.iter().flat_map(|c| c.iter()).collect();
            let lens_ok = chunks.len() == sizes.len()
                && chunks.iter().zip(sizes).all(|(c, s)| if allow { c.len() <= *s } else { c.len() == *s })
                && chunks.iter().all(|c| c.len() == c.iter().count() as u64);
            if cat == all && lens_ok && ill.is_none() { sink.oracle_ok() } else { sink.oracle_fail(None, "rechunk_sequences changed the ids, their order or the chunk sizes", case) }
        }
        Ok(Err(())) => {
            // an error is legitimate unless the sizes exactly partition the ids
            if total == all.len() as u64 && !trailing_empty && !sizes.is_empty() {
                sink.oracle_fail(None, "rechunk_sequences refused chunk sizes that exactly partition the ids", case)
            } else {
                sink.oracle_ok()
            }
        }
        Err(_) => sink.oracle_fail(None, "rechunk_sequences panicked", case),
    }
}

// ------------------------------------------------------------------------------------------------

fn subsets_of<T: Clone>(l: &[T]) -> Vec<Vec<T>> {
    (0u32..(1 << l.len())).map(|m| sub_by_mask(l, m)).collect()
}

/// The fixed regression inputs (always first): F9a of DESIGN §6 and friends.
pub fn corpus(sink: &mut Sink, st: &mut Streams) {
    // F9a: [0..10] ++ holey(100..200 minus multiples of 3), mask = multiples of 5
    let holey: Vec<u64> = (100..200).filter(|x| x % 3 != 0).collect();
    let mult5: Vec<u64> = (0..200).filter(|x| x % 5 == 0).collect();
    let second = natural_seg(&holey).expect("segment");
    let q = vec![Sg::Range(0, 10), second.clone()];
    case_seqop(sink, st, &q, &SeqOp::MaskToOffsets(Some(mult5.clone()), None), true);
    case_seqop(sink, st, &q, &SeqOp::MaskToOffsets(None, Some(mult5.clone())), true);
    // the same ids in the other representations, not first in the sequence
    let holes_inside: Vec<u64> = (100..200).filter(|x| x % 3 == 0 && *x != 198).collect();
    let alts = vec![
        Sg::Holes(100, 200, EA::natural(&holes_inside)),
        Sg::Holes(100, 200, EA::U64(holes_inside.clone())),
        Sg::Sorted(EA::natural(&holey)),
        Sg::Array(EA::natural(&holey)),
    ];
    for alt in alts {
        let q = vec![Sg::Range(0, 10), alt.clone()];
        case_seqop(sink, st, &q, &SeqOp::MaskToOffsets(Some(mult5.clone()), None), true);
        case_seqop(sink, st, &q, &SeqOp::MaskToOffsets(Some(mult5.clone()), Some(vec![105, 110, 3])), true);
        let q = vec![Sg::Range(300, 310), Sg::Range(7, 7), alt, Sg::Range(0, 10)];
        case_seqop(sink, st, &q, &SeqOp::MaskToOffsets(None, Some(mult5.clone())), true);
    }
    // F15 consequence: an empty Range(0..0) segment left by delete must not report offset 0
    let q = vec![Sg::Range(0, 0), Sg::Range(0, 4)];
    case_seqop(sink, st, &q, &SeqOp::MaskToOffsets(None, None), true);
    case_seqop(sink, st, &q, &SeqOp::MaskToOffsets(Some(vec![0, 2]), None), true);
    // F9b witnesses
    for l in [vec![u64::MAX - 1, u64::MAX], vec![0, u64::MAX], vec![u64::MAX]] {
        case_build(sink, st, "corpus-u64max", &l);
    }
    // span overflow witnesses
    for l in [vec![0, 1u64 << 63], vec![0, (1u64 << 62) + 25], vec![0, (1u64 << 62) - 10], vec![7, 1u64 << 62]] {
        case_build(sink, st, "corpus-span", &l);
    }
    // the Rust unit-test inputs
    case_build(sink, st, "corpus-ut", &(0..1000).filter(|x| *x != 100).collect::<Vec<_>>());
    case_build(sink, st, "corpus-ut", &(0..1000).filter(|x| x % 2 == 0).collect::<Vec<_>>());
    case_build(sink, st, "corpus-ut", &[1, 7000, 24000]);
    case_build(sink, st, "corpus-ut", &[7000, 1, 24000]);
}

/// exhaustive small universe: every slice, deletion subset, position mask and allow-mask of every list
pub fn exhaustive_lists(sink: &mut Sink, st: &mut Streams, lists: &[Vec<u64>], max_id: u64, seq_level: bool, all_selects: bool) {
    for l in lists {
        let Some(sg) = case_build(sink, st, "exh-small", l) else { continue };
        let probes: Vec<u64> = (0..=max_id + 1).collect();
        case_query(sink, st, &sg, &probes);
        let n = l.len() as u64;
        for o in 0..=n {
            for k in 0..=(n - o) {
                case_segop(sink, st, &sg, &SegOp::Slice(o, k), true);
            }
        }
        let positions: Vec<u32> = (0..n as u32).collect();
        for m in 1u32..(1 << l.len()) {
            case_segop(sink, st, &sg, &SegOp::Delete(sub_by_mask(l, m)), true);
            case_segop(sink, st, &sg, &SegOp::Mask(sub_by_mask(&positions, m)), true);
        }
        case_segop(sink, st, &sg, &SegOp::NewHigh(max_id + 1), true);
        case_segop(sink, st, &sg, &SegOp::NewHigh(max_id + 3), true);
        case_segop(sink, st, &sg, &SegOp::NewHigh(max_id / 2), true);
        if !seq_level || l.is_empty() {
            continue;
        }
        // the same list split in two segments: sequence-level ops over all masks
        let mut cuts = vec![1usize.min(l.len()), l.len() - 1, l.len()];
        cuts.sort_unstable();
        cuts.dedup();
        for cut in cuts {
            let (a, b) = l.split_at(cut);
            let (Some(sa), Some(sb)) = (natural_seg(a), natural_seg(b)) else { continue };
            let q = vec![sa, sb];
            for m in 0u32..(1 << l.len()) {
                let sub = sub_by_mask(l, m);
                case_seqop(sink, st, &q, &SeqOp::MaskToOffsets(Some(sub.clone()), None), true);
                if m != 0 {
                    case_seqop(sink, st, &q, &SeqOp::Mask(sub_by_mask(&positions, m)), true);
                    let mut del = sub.clone();
                    del.reverse();
                    case_seqop(sink, st, &q, &SeqOp::Delete(del), true);
                }
            }
            case_seqop(sink, st, &q, &SeqOp::MaskToOffsets(None, Some(l.iter().step_by(2).copied().collect())), true);
            for o in 0..=n {
                for k in 0..=(n - o) {
                    case_seqop(sink, st, &q, &SeqOp::Slice(o, k), true);
                }
            }
            case_seqop(sink, st, &q, &SeqOp::Get((0..=n).collect()), true);
            if all_selects {
                for sel in subsets_of(&(0..=n).collect::<Vec<_>>()) {
                    case_seqop(sink, st, &q, &SeqOp::Select(sel), true);
                }
            } else {
                case_seqop(sink, st, &q, &SeqOp::Select((0..=n).collect()), true);
                case_seqop(sink, st, &q, &SeqOp::Select((0..=n + 1).step_by(2).collect()), true);
                case_seqop(sink, st, &q, &SeqOp::Select(vec![n.saturating_sub(1), n + 2]), true);
            }
        }
    }
}

/// all sorted subsets (any length) of 0..n, and their images under affine id maps
pub fn exhaustive_subsets(sink: &mut Sink, st: &mut Streams, sorted_n: u32, transforms: &[(u64, u64)]) {
    for l in subsets(sorted_n) {
        for (base, stride) in transforms {
            let Some(t) = affine(&l, *base, *stride) else { continue };
            if let Some(sg) = case_build(sink, st, "exh-subsets", &t) {
                if *stride == 1 && *base == 0 {
                    let probes: Vec<u64> = (0..=sorted_n as u64).collect();
                    case_query(sink, st, &sg, &probes);
                }
            }
        }
    }
}

fn rand_sub_sorted<T: Clone>(rng: &mut Rng, l: &[T], den: u64) -> Vec<T> {
    l.iter().filter(|_| rng.below(den) == 0).cloned().collect()
}

pub fn random(sink: &mut Sink, st: &mut Streams, rng: &mut Rng, n_lists: usize, n_seqs: usize, max_len: u64) {
    for _ in 0..n_lists {
        let (kind, l) = rand_list(rng, max_len);
        let Some(sg) = case_build(sink, st, kind, &l) else { continue };
        if !nodup(&l) || !sg.wf() {
            continue;
        }
        let mut variants = vec![sg.clone()];
        variants.extend(alt_encodings(rng, &sg).into_iter().filter(|s| s.wf() && s.ids() == l));
        for v in &variants {
            let probes = probes_for(rng, &l, v);
            case_query(sink, st, v, &probes);
        }
        let v = rng.pick(&variants).clone();
        let n = l.len() as u64;
        // slices
        for _ in 0..2 {
            let o = rng.below(n + 1);
            let k = rng.below(n - o + 2);
            case_segop(sink, st, &v, &SegOp::Slice(o, k), true);
        }
        // deletions (in order of appearance, as RowIdSequence::delete provides them)
        let den = rng.range(2, 6);
        let del = rand_sub_sorted(rng, &l, den);
        if !del.is_empty() {
            case_segop(sink, st, &v, &SegOp::Delete(del), true);
        }
        case_segop(sink, st, &v, &SegOp::Delete(vec![l[0]]), true);
        case_segop(sink, st, &v, &SegOp::Delete(vec![*l.last().unwrap()]), true);
        case_segop(sink, st, &v, &SegOp::Delete(l.clone()), true);
        // masks
        let positions: Vec<u32> = (0..n as u32).collect();
        let den = rng.range(2, 6);
        let pm = rand_sub_sorted(rng, &positions, den);
        if !pm.is_empty() {
            case_segop(sink, st, &v, &SegOp::Mask(pm), true);
        }
        if n >= 2 {
            case_segop(sink, st, &v, &SegOp::Mask(vec![0]), true);
            case_segop(sink, st, &v, &SegOp::Mask(vec![n as u32 - 1]), true);
            case_segop(sink, st, &v, &SegOp::Mask((0..n as u32 - 1).collect()), true);
            case_segop(sink, st, &v, &SegOp::Mask((1..n as u32).collect()), true);
        }
        case_segop(sink, st, &v, &SegOp::Mask(positions.clone()), true);
        // with_new_high
        let mx = *l.iter().max().unwrap();
        // far-away highs materialise every hole on the Range/Holes/Bitmap variants: keep those gaps small
        let dense = matches!(v, Sg::Range(..) | Sg::Holes(..) | Sg::Bitmap(..));
        let gap = if dense { rng.range(2, 300) } else { rng.range(2, 70000) };
        let mut highs = vec![mx.saturating_add(1), mx.saturating_add(gap), mx, l[0], u64::MAX];
        if !dense {
            highs.push(mx.saturating_add(1 << 33));
        }
        for hv in highs {
            if matches!(v, Sg::Holes(..)) && hv == u64::MAX && u64::MAX - mx > 300 {
                // RangeWithHoles collects the new holes (range.end..val) BEFORE computing val + 1: with a far
                // u64::MAX it would try to materialise ~2^64 holes instead of panicking - not executed.
                continue;
            }
            case_segop(sink, st, &v, &SegOp::NewHigh(hv), true);
        }
    }
    for _ in 0..n_seqs {
        let q = rand_sequence(rng, 5, max_len.min(120));
        let ids = seq_ids(&q);
        let n = ids.len() as u64;
        case_seqop(sink, st, &q, &SeqOp::Info, true);
        let other = rand_sequence(rng, 3, 40);
        // make adjacency likely: continue right after the last id sometimes
        let other = if rng.bool() { if let Some(Sg::Range(_, e)) = q.last() { let mut o = vec![Sg::Range(*e, e.saturating_add(rng.below(5)))]; o.extend(other); o } else { other } } else { other };
        case_seqop(sink, st, &q, &SeqOp::Extend(other), true);
        // delete: a random subset in random order, plus ids that are absent
        let den = rng.range(2, 5);
        let mut del = rand_sub_sorted(rng, &ids, den);
        shuffle(rng, &mut del);
        if rng.bool() {
            del.push(ids.iter().max().copied().unwrap_or(0).wrapping_add(7));
            del.insert(0, 3_000_000_007);
            del.retain(|x| !ids.contains(x) || true);
        }
        let del_pre = nodup(&del) && nodup(&ids);
        case_seqop(sink, st, &q, &SeqOp::Delete(del), del_pre);
        let positions: Vec<u32> = (0..n as u32).collect();
        let den = rng.range(2, 5);
        case_seqop(sink, st, &q, &SeqOp::Mask(rand_sub_sorted(rng, &positions, den)), true);
        // whole segments masked away
        let first_len = q[0].len() as u32;
        case_seqop(sink, st, &q, &SeqOp::Mask((0..first_len).collect()), true);
        case_seqop(sink, st, &q, &SeqOp::Mask(positions.clone()), true);
        for _ in 0..3 {
            let o = rng.below(n + 1);
            let k = rng.below(n - o + 1);
            case_seqop(sink, st, &q, &SeqOp::Slice(o, k), true);
        }
        case_seqop(sink, st, &q, &SeqOp::Slice(0, n), true);
        case_seqop(sink, st, &q, &SeqOp::Slice(n, 0), true);
        // out of bounds: panics in both worlds (correspondence only)
        case_seqop(sink, st, &q, &SeqOp::Slice(rng.below(n + 1), n + 1), false);
        let mut gi: Vec<u64> = (0..6).map(|_| rng.below(n + 3)).collect();
        gi.extend([0, n.saturating_sub(1), n]);
        case_seqop(sink, st, &q, &SeqOp::Get(gi), true);
        let mut sel: Vec<u64> = (0..rng.below(12)).map(|_| rng.below(n + 5)).collect();
        sel.sort_unstable();
        case_seqop(sink, st, &q, &SeqOp::Select(sel.clone()), true);
        if sel.len() >= 2 && sel[0] != sel[sel.len() - 1] {
            sel.reverse();
            case_seqop(sink, st, &q, &SeqOp::Select(sel), false); // unsorted: documented panic
        }
        // masks for mask_to_offset_ranges: subsets of the ids plus absent ids
        let den = rng.range(2, 4);
        let mut a = rand_sub_sorted(rng, &ids, den);
        a.push(4_000_000_000_123);
        let den = rng.range(2, 6);
        let b = rand_sub_sorted(rng, &ids, den);
        for (al, bl) in [(Some(a.clone()), None), (None, Some(b.clone())), (Some(a.clone()), Some(b.clone())), (None, None), (Some(vec![]), None)] {
            case_seqop(sink, st, &q, &SeqOp::MaskToOffsets(al, bl), n < (1 << 20));
        }
        // select_row_ids, all parameter forms, in and out of bounds
        let idx: Vec<u32> = (0..rng.below(8)).map(|_| rng.below(n.max(1)) as u32).collect();
        case_seqop(sink, st, &q, &SeqOp::SelectRowIds(Rbp::Indices(idx)), true);
        case_seqop(sink, st, &q, &SeqOp::SelectRowIds(Rbp::Indices(vec![0, n as u32 + 2])), true);
        let a0 = rng.below(n + 1);
        let b0 = rng.range(a0, n);
        case_seqop(sink, st, &q, &SeqOp::SelectRowIds(Rbp::Range(a0, b0)), true);
        case_seqop(sink, st, &q, &SeqOp::SelectRowIds(Rbp::Range(a0, n + 1)), true);
        case_seqop(sink, st, &q, &SeqOp::SelectRowIds(Rbp::Ranges(vec![(a0, b0), (0, a0), (b0, n)])), true);
        case_seqop(sink, st, &q, &SeqOp::SelectRowIds(Rbp::Ranges(vec![(0, a0), (a0, n + 3)])), true);
        case_seqop(sink, st, &q, &SeqOp::SelectRowIds(Rbp::Full), true);
        case_seqop(sink, st, &q, &SeqOp::SelectRowIds(Rbp::To(b0)), true);
        case_seqop(sink, st, &q, &SeqOp::SelectRowIds(Rbp::To(n + 1)), true);
        case_seqop(sink, st, &q, &SeqOp::SelectRowIds(Rbp::From(a0)), true);
        case_seqop(sink, st, &q, &SeqOp::SelectRowIds(Rbp::From(n)), true);

        // rechunk: the sequence (and a few more) into random chunk sizes
        let mut seqs = vec![q.clone()];
        for _ in 0..rng.below(3) {
            seqs.push(rand_sequence(rng, 3, 40));
        }
        let total: u64 = seqs.iter().map(|s| seq_ids(s).len() as u64).sum();
        let mut cuts: Vec<u64> = (0..rng.below(5)).map(|_| rng.below(total + 1)).collect();
        cuts.push(0);
        cuts.push(total);
        cuts.sort_unstable();
        let sizes: Vec<u64> = cuts.windows(2).map(|w| w[1] - w[0]).collect();
        case_rechunk(sink, st, &seqs, &sizes, false);
        case_rechunk(sink, st, &seqs, &sizes, true);
        let mut more = sizes.clone();
        more.push(rng.range(1, 5));
        case_rechunk(sink, st, &seqs, &more, false);
        case_rechunk(sink, st, &seqs, &more, true);
        if sizes.len() > 1 {
            case_rechunk(sink, st, &seqs, &sizes[..sizes.len() - 1], false);
        }
        // one chunk per original sequence (what compaction asks for)
        let own: Vec<u64> = seqs.iter().map(|s| seq_ids(s).len() as u64).collect();
        case_rechunk(sink, st, &seqs, &own, false);
    }
}

pub fn run(args: &Args, sink: &mut Sink, st: &mut Streams) {
    let mut rng = Rng::new(args.seed);
    corpus(sink, st);
    let transforms: Vec<(u64, u64)> = vec![
        (0, 1),
        ((1 << 16) - 6, 1),
        ((1 << 32) - 6, 1),
        (0, 16),
        (1000, 5500),
        (5, 1 << 28),
        (u64::MAX - 14, 1),
        (u64::MAX - 13, 1),
        (3, (1u64 << 62) / 8),
    ];
    let (max_id, max_len, sorted_n) = if args.thorough() { (5u64, 5usize, 13u32) } else { (4, 4, 9) };
    let lists = small_lists(max_id, max_len);
    sink.notes.push(format!(
        "exhaustive: all {} duplicate-free lists over ids 0..={} of length <= {}: from_slice, accessors, every slice, every deletion subset, every position mask, with_new_high; split in two segments: every allow-mask for mask_to_offset_ranges, every position mask, every deletion, every slice; all {} subsets of 0..{} under {} affine id maps (boundaries 2^16, 2^32, 2^62, 2^64): from_slice",
        lists.len(), max_id, max_len, 1u64 << sorted_n, sorted_n, transforms.len()
    ));
    exhaustive_lists(sink, st, &lists, max_id, true, false);
    if args.thorough() {
        // DESIGN X: ids <= 12, length <= 5, all masks - for the increasing lists (the unsorted ones are covered above up to id 5)
        let wide: Vec<Vec<u64>> = subsets(13).into_iter().filter(|l| l.len() <= 5 && l.iter().any(|x| *x > max_id)).collect();
        sink.notes.push(format!("exhaustive: all {} increasing lists over ids 0..=12 of length <= 5 not covered above: every slice/deletion/mask", wide.len()));
        exhaustive_lists(sink, st, &wide, 12, false, false);
    }
    exhaustive_subsets(sink, st, sorted_n, &transforms);
    st.random_phase = true;
    random(sink, st, &mut rng, args.vol(120, 1500), args.vol(50, 600), args.vol(100, 250) as u64);
}
