//! Input generators for C34: small exhaustive universes and boundary-aimed random lists.
use crate::model::{Sg, EA};
use hxlib::util::Rng;
use lance_table::rowids::segment::U64Segment;

/// every duplicate-free ordered list over ids 0..=max_id with at most max_len elements
pub fn small_lists(max_id: u64, max_len: usize) -> Vec<Vec<u64>> {
    let mut out = vec![vec![]];
    let mut frontier = vec![vec![]];
    for _ in 0..max_len {
        let mut next = vec![];
        for l in &frontier {
            for v in 0..=max_id {
                if !l.contains(&v) {
                    let mut m: Vec<u64> = l.clone();
                    m.push(v);
                    next.push(m);
                }
            }
        }
        out.extend(next.iter().cloned());
        frontier = next;
    }
    out
}

/// every sorted subset of 0..n (as increasing lists)
pub fn subsets(n: u32) -> Vec<Vec<u64>> {
    (0u32..(1 << n)).map(|m| (0..n as u64).filter(|i| m & (1 << i) != 0).collect()).collect()
}

pub fn sub_by_mask<T: Clone>(l: &[T], m: u32) -> Vec<T> {
    l.iter().enumerate().filter(|(i, _)| m & (1 << i) != 0).map(|(_, x)| x.clone()).collect()
}

pub fn affine(l: &[u64], base: u64, stride: u64) -> Option<Vec<u64>> {
    l.iter().map(|x| x.checked_mul(stride).and_then(|y| y.checked_add(base))).collect()
}

pub fn shuffle<T>(rng: &mut Rng, v: &mut [T]) {
    for i in (1..v.len()).rev() {
        let j = rng.below(i as u64 + 1) as usize;
        v.swap(i, j);
    }
}

pub fn nodup(l: &[u64]) -> bool {
    let mut s = l.to_vec();
    s.sort_unstable();
    s.windows(2).all(|w| w[0] != w[1])
}
/// the `sorted` flag compute_stats derives (non-decreasing)
pub fn nondecreasing(l: &[u64]) -> bool {
    l.windows(2).all(|w| w[0] <= w[1])
}
pub fn has_max(l: &[u64]) -> bool {
    l.contains(&u64::MAX)
}
/// sorted with holes, and 24 + 4 * n_holes does not fit u64 (segment.rs sorted_sequence_sizes)
pub fn span_overflow(l: &[u64]) -> bool {
    if l.is_empty() || !nondecreasing(l) {
        return false;
    }
    let mn = *l.first().unwrap() as u128;
    let mx = *l.last().unwrap() as u128;
    let slots = mx - mn + 1;
    if slots > u64::MAX as u128 || slots <= l.len() as u128 {
        return false;
    }
    let nh = slots - l.len() as u128;
    24 + 4 * nh > u64::MAX as u128
}
/// some increasing sub-list may overflow the hole count: max - min >= 2^62 - 5
pub fn wide_span(l: &[u64]) -> bool {
    match (l.iter().min(), l.iter().max()) {
        (Some(a), Some(b)) => b - a >= (1u64 << 62) - 5,
        _ => false,
    }
}
pub fn in_domain(l: &[u64]) -> bool {
    nodup(l) && !has_max(l) && !span_overflow(l)
}

const BASES: [u64; 12] = [
    0,
    1,
    (1 << 16) - 40,
    (1 << 16) - 1,
    1 << 16,
    (1 << 32) - 40,
    (1 << 32) - 1,
    1 << 32,
    (1 << 40) + 12345,
    (1 << 62) - 500,
    u64::MAX - 3000,
    u64::MAX - 700,
];

/// a random id list aimed at one representation / boundary; returns (kind, list)
pub fn rand_list(rng: &mut Rng, max_len: u64) -> (&'static str, Vec<u64>) {
    let base = *rng.pick(&BASES);
    let base = if base > 2000 && rng.chance(1, 3) { base - rng.below(2000) } else { base };
    let kind = rng.below(9);
    let n = rng.range(1, max_len);
    let (name, mut l): (&'static str, Vec<u64>) = match kind {
        0 => ("contiguous", (0..n).collect()),
        1 => {
            // dense, a few holes -> RangeWithHoles
            let n = rng.range(30, max_len.max(31));
            let holes: Vec<u64> = (0..rng.range(1, 4)).map(|_| rng.range(1, n - 2)).collect();
            ("dense-few-holes", (0..n).filter(|x| !holes.contains(x)).collect())
        }
        2 => {
            // dense, many holes -> RangeWithBitmap
            let den = rng.range(2, 6);
            ("dense-many-holes", (0..n).filter(|_| rng.below(den) != 0).collect())
        }
        3 => {
            // sparse sorted -> SortedArray, gaps scaled to hit the u16/u32/u64 encodings
            let scale = *rng.pick(&[16u64, 100, 1 << 12, 1 << 14, 1 << 20, 1 << 28, 1 << 31, 1 << 40]);
            let n = n.min(60);
            let mut cur = 0u64;
            let mut v = vec![];
            for _ in 0..n {
                cur = cur.saturating_add(rng.range(1, scale.max(2)));
                v.push(cur);
            }
            v.dedup();
            ("sparse-sorted", v)
        }
        4 => {
            // span exactly at an encoding threshold
            let span = *rng.pick(&[65534u64, 65535, 65536, 65537, (1 << 32) - 2, (1 << 32) - 1, 1 << 32, (1 << 32) + 1]);
            let mut v = vec![0];
            for _ in 0..rng.below(5) {
                v.push(rng.range(1, span - 1));
            }
            v.push(span);
            v.sort_unstable();
            v.dedup();
            ("encoding-threshold", v)
        }
        5 => {
            // window straddling the base (base - k .. base + k)
            let k = rng.range(1, 40);
            let den = rng.range(1, 4);
            let lo = base.saturating_sub(k);
            let v: Vec<u64> = (0..2 * k).filter(|_| den == 1 || rng.below(den) != 0).filter_map(|i| lo.checked_add(i)).collect();
            return ("straddle", maybe_shuffle(rng, v));
        }
        6 => {
            // huge spans: around the 2^62 hole-count limit and the full u64 range
            let hi = *rng.pick(&[(1u64 << 62) - 10, (1 << 62) - 5, 1 << 62, (1 << 62) + 20, 1 << 63, u64::MAX - 1, u64::MAX]);
            let lo = rng.below(12);
            let mut v = vec![lo, hi];
            if rng.bool() {
                v.insert(1, rng.range(lo + 1, hi - 1));
            }
            v.sort_unstable();
            v.dedup();
            return ("huge-span", maybe_shuffle(rng, v));
        }
        7 => {
            // ends exactly at u64::MAX or just below
            let k = rng.range(1, 30);
            let top = if rng.bool() { u64::MAX } else { u64::MAX - 1 };
            let den = rng.range(1, 3);
            let v: Vec<u64> = (0..k).filter(|i| *i == 0 || den == 1 || rng.below(den) != 0).map(|i| top - (k - 1) + i).collect();
            return ("top-of-u64", maybe_shuffle(rng, v));
        }
        _ => {
            // duplicates (outside the property's domain; correspondence only)
            let n = n.min(8);
            let v: Vec<u64> = (0..n).map(|_| rng.below(5)).collect();
            return ("with-duplicates", v);
        }
    };
    for x in l.iter_mut() {
        *x = x.saturating_add(base);
    }
    l.dedup();
    (name, maybe_shuffle(rng, l))
}

fn maybe_shuffle(rng: &mut Rng, mut v: Vec<u64>) -> Vec<u64> {
    if rng.chance(1, 4) {
        if rng.bool() {
            shuffle(rng, &mut v);
        } else if v.len() >= 2 {
            // one transposition: "almost sorted"
            let i = rng.below(v.len() as u64 - 1) as usize;
            v.swap(i, i + 1);
        }
    }
    v
}

/// a list inside the property's domain (no duplicates, no u64::MAX, no span overflow)
pub fn rand_domain_list(rng: &mut Rng, max_len: u64) -> (&'static str, Vec<u64>) {
    loop {
        let (k, l) = rand_list(rng, max_len);
        // sequences are operated on (sliced, masked, rechunked): keep every sub-list out of the known classes too
        if in_domain(&l) && !wide_span(&l) {
            return (k, l);
        }
    }
}

/// the segment the implementation builds for the list, mirrored; None if it panics or is ill-formed
pub fn natural_seg(l: &[u64]) -> Option<Sg> {
    let r = hxlib::util::catch(|| U64Segment::from_slice(l)).ok()?;
    Sg::of_real(&r).ok()
}

/// alternative well-formed encodings of the same id list (what with_new_high / serde can produce)
pub fn alt_encodings(rng: &mut Rng, sg: &Sg) -> Vec<Sg> {
    let mut out = vec![];
    let widen = |a: &EA| -> Vec<EA> {
        let ids = a.ids();
        let mut v = vec![EA::U64(ids.clone())];
        if let EA::U16(b, o) = a {
            v.push(EA::U32(*b, o.iter().map(|x| *x as u32).collect()));
        }
        v
    };
    match sg {
        Sg::Holes(s, e, h) => {
            for w in widen(h) {
                out.push(Sg::Holes(*s, *e, w));
            }
            // same ids as a bitmap
            let hs = h.ids();
            if e - s <= 2000 {
                out.push(Sg::Bitmap(*s, *e, (*s..*e).map(|v| !hs.contains(&v)).collect()));
            }
        }
        Sg::Bitmap(s, e, bm) => {
            let holes: Vec<u64> = (*s..*e).filter(|v| !bm[(v - s) as usize]).collect();
            if !holes.is_empty() {
                out.push(Sg::Holes(*s, *e, EA::natural(&holes)));
            }
            out.push(Sg::Sorted(EA::natural(&sg.ids())));
        }
        Sg::Sorted(a) => {
            for w in widen(a) {
                out.push(Sg::Sorted(w));
            }
            out.push(Sg::Array(a.clone()));
        }
        Sg::Array(a) => {
            for w in widen(a) {
                out.push(Sg::Array(w));
            }
        }
        Sg::Range(s, e) => {
            if e > s && e - s <= 300 {
                out.push(Sg::Sorted(EA::natural(&(*s..*e).collect::<Vec<_>>())));
                out.push(Sg::Bitmap(*s, *e, vec![true; (e - s) as usize]));
            }
        }
    }
    if out.len() > 2 {
        let keep = rng.below(out.len() as u64) as usize;
        out = vec![out.swap_remove(keep)];
    }
    out
}

/// a multi-segment sequence with pairwise distinct ids (each segment from its own id window)
pub fn rand_sequence(rng: &mut Rng, max_segs: u64, max_len: u64) -> Vec<Sg> {
    let nseg = rng.range(1, max_segs);
    let mut out: Vec<Sg> = vec![];
    let mut used: std::collections::HashSet<u64> = Default::default();
    let mut tries = 0;
    while (out.len() as u64) < nseg && tries < 50 {
        tries += 1;
        if rng.chance(1, 8) {
            let k = rng.below(100);
            out.push(Sg::Range(k, k));
            continue;
        }
        let (_, l) = if rng.chance(2, 3) {
            // small universes next to each other make adjacent/mergeable ranges likely
            let start = rng.below(60) + 100 * out.len() as u64 * rng.below(2);
            let n = rng.range(1, max_len.min(25));
            let den = rng.range(1, 4);
            let v: Vec<u64> = (0..n).filter(|_| den == 1 || rng.below(den) != 0).map(|i| start + i).collect();
            ("local", if rng.chance(1, 5) { let mut v = v; shuffle(rng, &mut v); v } else { v })
        } else {
            rand_domain_list(rng, max_len)
        };
        if l.is_empty() || l.iter().any(|x| used.contains(x)) || !in_domain(&l) {
            continue;
        }
        if let Some(sg) = natural_seg(&l) {
            let pick = if rng.chance(1, 3) { alt_encodings(rng, &sg).into_iter().next().unwrap_or(sg) } else { sg };
            if pick.wf() {
                used.extend(l.iter().copied());
                out.push(pick);
            }
        }
    }
    if out.is_empty() {
        out.push(Sg::Range(0, 5));
    }
    out
}
