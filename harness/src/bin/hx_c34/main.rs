//! hx_c34: row id sequences and the row id index (C34).
mod probe;

fn main() {
    let (sub, args) = hxlib::util::Args::parse();
    let code = match sub.as_str() {
        "probe" => probe::run(&args),
        _ => {
            eprintln!("unknown subcommand {sub}");
            2
        }
    };
    std::process::exit(code);
}
