//! hx_c34: row id sequences and the row id index (C34).
mod e2e;
mod gen;
mod index;
mod model;
mod probe;
mod unit;

use hxlib::util::{Args, Sink};

fn c34(args: &Args) -> i32 {
    let mut sink = Sink::new("C34", &args.out);
    let mut st = unit::Streams::new();
    unit::run(args, &mut sink, &mut st);
    let mut ix = index::new_stream();
    index::run(args, &mut sink, &mut ix);
    e2e::run(args, &mut sink, &mut ix);
    sink.add(st.build);
    sink.add(st.query);
    sink.add(st.segop);
    sink.add(st.seqop);
    sink.add(st.rechunk);
    sink.add(st.build_r);
    sink.add(st.segop_r);
    sink.add(st.seqop_r);
    sink.add(ix);
    sink.finish();
    0
}

fn main() {
    let (sub, args) = hxlib::util::Args::parse();
    let code = match sub.as_str() {
        "c34" => c34(&args),
        "probe" => probe::run(&args),
        _ => {
            eprintln!("unknown subcommand {sub}");
            2
        }
    };
    std::process::exit(code);
}
