//! Mirror of the segment types (for printing Coq terms and for brute-force list semantics), and the
//! conversions to/from the real types through the public protobuf messages of lance-table.
use hxlib::util::coq;
use lance_table::format::pb;
use lance_table::rowids::{read_row_ids, segment::U64Segment, write_row_ids, RowIdSequence};
use prost::Message;
use serde_json::{json, Value};

#[derive(Clone, Debug, PartialEq, Eq)]
pub enum EA {
    U16(u64, Vec<u16>),
    U32(u64, Vec<u32>),
    U64(Vec<u64>),
}

#[derive(Clone, Debug, PartialEq, Eq)]
pub enum Sg {
    Range(u64, u64),
    Holes(u64, u64, EA),
    Bitmap(u64, u64, Vec<bool>),
    Sorted(EA),
    Array(EA),
}

impl EA {
    pub fn ids(&self) -> Vec<u64> {
        match self {
            EA::U16(b, o) => o.iter().map(|x| b + *x as u64).collect(),
            EA::U32(b, o) => o.iter().map(|x| b + *x as u64).collect(),
            EA::U64(v) => v.clone(),
        }
    }
    pub fn coq(&self) -> String {
        match self {
            EA::U16(b, o) => format!("(EU16 {} {})", b, coq::list(o.iter().map(|x| x.to_string()))),
            EA::U32(b, o) => format!("(EU32 {} {})", b, coq::list(o.iter().map(|x| x.to_string()))),
            EA::U64(v) => format!("(EU64 {})", coq::nlist(v.iter())),
        }
    }
    pub fn kind(&self) -> &'static str {
        match self {
            EA::U16(..) => "u16",
            EA::U32(..) => "u32",
            EA::U64(..) => "u64",
        }
    }
    /// the choice EncodedU64Array::from(Vec) makes (used only to build inputs)
    pub fn natural(v: &[u64]) -> EA {
        if v.is_empty() {
            return EA::U64(vec![]);
        }
        let mn = *v.iter().min().unwrap();
        let mx = *v.iter().max().unwrap();
        if mx - mn <= u16::MAX as u64 {
            EA::U16(mn, v.iter().map(|x| (x - mn) as u16).collect())
        } else if mx - mn <= u32::MAX as u64 {
            EA::U32(mn, v.iter().map(|x| (x - mn) as u32).collect())
        } else {
            EA::U64(v.to_vec())
        }
    }
    fn to_pb(&self) -> pb::EncodedU64Array {
        use pb::encoded_u64_array as a;
        let array = match self {
            EA::U16(b, o) => a::Array::U16Array(a::U16Array { base: *b, offsets: o.iter().flat_map(|x| x.to_le_bytes()).collect() }),
            EA::U32(b, o) => a::Array::U32Array(a::U32Array { base: *b, offsets: o.iter().flat_map(|x| x.to_le_bytes()).collect() }),
            EA::U64(v) => a::Array::U64Array(a::U64Array { values: v.iter().flat_map(|x| x.to_le_bytes()).collect() }),
        };
        pb::EncodedU64Array { array: Some(array) }
    }
    fn from_pb(p: &pb::EncodedU64Array) -> Result<EA, String> {
        use pb::encoded_u64_array as a;
        match p.array.as_ref().ok_or("missing array")? {
            a::Array::U16Array(x) => {
                if x.offsets.len() % 2 != 0 {
                    return Err("odd u16 bytes".into());
                }
                Ok(EA::U16(x.base, x.offsets.chunks_exact(2).map(|c| u16::from_le_bytes([c[0], c[1]])).collect()))
            }
            a::Array::U32Array(x) => {
                if x.offsets.len() % 4 != 0 {
                    return Err("odd u32 bytes".into());
                }
                Ok(EA::U32(x.base, x.offsets.chunks_exact(4).map(|c| u32::from_le_bytes([c[0], c[1], c[2], c[3]])).collect()))
            }
            a::Array::U64Array(x) => {
                if x.values.len() % 8 != 0 {
                    return Err("odd u64 bytes".into());
                }
                Ok(EA::U64(x.values.chunks_exact(8).map(|c| u64::from_le_bytes(c.try_into().unwrap())).collect()))
            }
        }
    }
}

impl Sg {
    /// brute-force list view of the mirror (independent of lance and of the Coq model)
    pub fn ids(&self) -> Vec<u64> {
        match self {
            Sg::Range(s, e) => (*s..*e).collect(),
            Sg::Holes(s, e, h) => {
                let hs = h.ids();
                (*s..*e).filter(|v| !hs.contains(v)).collect()
            }
            Sg::Bitmap(s, e, bm) => (*s..*e).filter(|v| bm[(v - s) as usize]).collect(),
            Sg::Sorted(a) | Sg::Array(a) => a.ids(),
        }
    }
    pub fn len(&self) -> u64 {
        match self {
            Sg::Range(s, e) => e - s,
            _ => self.ids().len() as u64,
        }
    }
    pub fn kind(&self) -> String {
        match self {
            Sg::Range(..) => "Range".into(),
            Sg::Holes(_, _, h) => format!("RangeWithHoles/{}", h.kind()),
            Sg::Bitmap(..) => "RangeWithBitmap".into(),
            Sg::Sorted(a) => format!("SortedArray/{}", a.kind()),
            Sg::Array(a) => format!("Array/{}", a.kind()),
        }
    }
    pub fn coq(&self) -> String {
        match self {
            Sg::Range(s, e) => format!("(SRange {} {})", s, e),
            Sg::Holes(s, e, h) => format!("(SHoles {} {} {})", s, e, h.coq()),
            Sg::Bitmap(s, e, bm) => format!("(SBitmap {} {} {})", s, e, coq::list(bm.iter().map(|b| coq::b(*b)))),
            Sg::Sorted(a) => format!("(SSorted {})", a.coq()),
            Sg::Array(a) => format!("(SArray {})", a.coq()),
        }
    }
    pub fn json(&self) -> Value {
        match self {
            Sg::Range(s, e) => json!({"Range": [s, e]}),
            Sg::Holes(s, e, h) => json!({"RangeWithHoles": [s, e], "holes": h.ids(), "enc": h.kind()}),
            Sg::Bitmap(s, e, bm) => json!({"RangeWithBitmap": [s, e], "bits": bm.iter().map(|b| if *b { '1' } else { '0' }).collect::<String>()}),
            Sg::Sorted(a) => json!({"SortedArray": a.ids(), "enc": a.kind()}),
            Sg::Array(a) => json!({"Array": a.ids(), "enc": a.kind()}),
        }
    }
    pub fn to_pb(&self) -> pb::U64Segment {
        use pb::u64_segment as s;
        let segment = match self {
            Sg::Range(a, b) => s::Segment::Range(s::Range { start: *a, end: *b }),
            Sg::Holes(a, b, h) => s::Segment::RangeWithHoles(s::RangeWithHoles { start: *a, end: *b, holes: Some(h.to_pb()) }),
            Sg::Bitmap(a, b, bm) => {
                let mut data = vec![0u8; bm.len().div_ceil(8)];
                for (i, bit) in bm.iter().enumerate() {
                    if *bit {
                        data[i / 8] |= 1 << (i % 8);
                    }
                }
                s::Segment::RangeWithBitmap(s::RangeWithBitmap { start: *a, end: *b, bitmap: data })
            }
            Sg::Sorted(a) => s::Segment::SortedArray(a.to_pb()),
            Sg::Array(a) => s::Segment::Array(a.to_pb()),
        };
        pb::U64Segment { segment: Some(segment) }
    }
    /// Err(..) = the implementation produced a segment outside the well-formed domain
    pub fn from_pb(p: &pb::U64Segment) -> Result<Sg, String> {
        use pb::u64_segment as s;
        match p.segment.as_ref().ok_or("missing segment")? {
            s::Segment::Range(r) => Ok(Sg::Range(r.start, r.end)),
            s::Segment::RangeWithHoles(r) => Ok(Sg::Holes(r.start, r.end, EA::from_pb(r.holes.as_ref().ok_or("missing holes")?)?)),
            s::Segment::RangeWithBitmap(r) => {
                if r.end < r.start {
                    return Err("bitmap range end < start".into());
                }
                let n = (r.end - r.start) as usize;
                if r.bitmap.len() != n.div_ceil(8) {
                    return Err(format!("bitmap has {} bytes for {} bits", r.bitmap.len(), n));
                }
                let bits: Vec<bool> = (0..n).map(|i| r.bitmap[i / 8] & (1 << (i % 8)) != 0).collect();
                for i in n..r.bitmap.len() * 8 {
                    if r.bitmap[i / 8] & (1 << (i % 8)) != 0 {
                        return Err("bitmap padding bit set".into());
                    }
                }
                Ok(Sg::Bitmap(r.start, r.end, bits))
            }
            s::Segment::SortedArray(a) => Ok(Sg::Sorted(EA::from_pb(a)?)),
            s::Segment::Array(a) => Ok(Sg::Array(EA::from_pb(a)?)),
        }
    }
    pub fn of_real(seg: &U64Segment) -> Result<Sg, String> {
        Sg::from_pb(&pb::U64Segment::from(seg.clone()))
    }
    pub fn to_real(&self) -> U64Segment {
        U64Segment::try_from(self.to_pb()).expect("well-formed segment")
    }
    /// structural well-formedness (the declared domain of the model's accessors)
    pub fn wf(&self) -> bool {
        fn ea_ok(a: &EA) -> bool {
            match a {
                EA::U16(b, o) => o.iter().all(|x| b.checked_add(*x as u64).is_some()),
                EA::U32(b, o) => o.iter().all(|x| b.checked_add(*x as u64).is_some()),
                EA::U64(_) => true,
            }
        }
        fn strict(v: &[u64]) -> bool {
            v.windows(2).all(|w| w[0] < w[1])
        }
        match self {
            Sg::Range(s, e) => s <= e,
            Sg::Holes(s, e, h) => s < e && ea_ok(h) && strict(&h.ids()) && h.ids().iter().all(|x| s <= x && x < e),
            Sg::Bitmap(s, e, bm) => s < e && bm.len() as u64 == e - s,
            Sg::Sorted(a) => ea_ok(a) && strict(&a.ids()) && !a.ids().is_empty(),
            Sg::Array(a) => ea_ok(a) && !a.ids().is_empty(),
        }
    }
}

pub fn seq_coq(q: &[Sg]) -> String {
    coq::list(q.iter().map(|s| s.coq()))
}
pub fn seq_json(q: &[Sg]) -> Value {
    Value::Array(q.iter().map(|s| s.json()).collect())
}
pub fn seq_ids(q: &[Sg]) -> Vec<u64> {
    q.iter().flat_map(|s| s.ids()).collect()
}
/// real RowIdSequence with exactly these segments (through the public serde entry point)
pub fn seq_to_real(q: &[Sg]) -> RowIdSequence {
    let p = pb::RowIdSequence { segments: q.iter().map(|s| s.to_pb()).collect() };
    read_row_ids(&p.encode_to_vec()).expect("decodable sequence")
}
/// the segments of a real RowIdSequence (through write_row_ids)
pub fn seq_of_real(q: &RowIdSequence) -> Result<Vec<Sg>, String> {
    let bytes = write_row_ids(q);
    let p = pb::RowIdSequence::decode(bytes.as_slice()).map_err(|e| e.to_string())?;
    p.segments.iter().map(Sg::from_pb).collect()
}
