//! C34 index arm: RowIdIndex::new / get against the Gallina model and a brute-force id -> address map.
use crate::gen::*;
use crate::model::*;
use hxlib::util::{catch, coq, Args, Rng, Sink, Stream};
use lance_core::utils::deletion::DeletionVector;
use lance_table::rowids::{FragmentRowIdIndex, RowIdIndex};
use serde_json::json;
use std::collections::HashMap;
use std::sync::Arc;

pub const REQ: &str = "Common.Base Core.Model_RowIds Core.Model_RowIdIndex";

#[derive(Clone, Debug)]
pub struct Frag {
    pub id: u32,
    pub segs: Vec<Sg>,
    pub deleted: Vec<u32>,
}

pub fn new_stream() -> Stream {
    let mut s = Stream::new("index", REQ, "chk_index", "list frag * list N", "outcome (list (option N))");
    s.shard = 400;
    s
}

/// (min,max) of the live ids of every segment of every fragment: the chunk ranges RowIdIndex::new works on
fn chunk_ranges(frags: &[Frag]) -> Vec<(u64, u64)> {
    let mut out = vec![];
    for f in frags {
        let mut off = 0u32;
        for s in &f.segs {
            let ids = s.ids();
            let live: Vec<u64> = ids.iter().enumerate().filter(|(i, _)| !f.deleted.contains(&(off + *i as u32))).map(|(_, x)| *x).collect();
            off += ids.len() as u32;
            if let (Some(a), Some(b)) = (live.iter().min(), live.iter().max()) {
                out.push((*a, *b));
            }
        }
    }
    out
}
pub fn overlapping(frags: &[Frag]) -> bool {
    let r = chunk_ranges(frags);
    for i in 0..r.len() {
        for j in i + 1..r.len() {
            if r[i].0 <= r[j].1 && r[j].0 <= r[i].1 {
                return true;
            }
        }
    }
    false
}

pub fn case_index(sink: &mut Sink, st: &mut Stream, frags: &[Frag], probes: &[u64]) {
    if !frags.iter().all(|f| f.segs.iter().all(|s| s.wf())) {
        return;
    }
    let real: Vec<FragmentRowIdIndex> = frags
        .iter()
        .map(|f| FragmentRowIdIndex {
            fragment_id: f.id,
            row_id_sequence: Arc::new(seq_to_real(&f.segs)),
            deletion_vector: Arc::new(DeletionVector::from_iter(f.deleted.iter().copied())),
        })
        .collect();
    let r = catch(|| RowIdIndex::new(&real).map(|idx| probes.iter().map(|p| idx.get(*p).map(u64::from)).collect::<Vec<_>>()).map_err(|_| ()));
    let out: Result<String, bool> = match &r {
        Ok(Ok(v)) => Ok(coq::list(v.iter().map(|x| coq::opt(x.map(coq::n))))),
        Ok(Err(())) => Err(false),
        Err(_) => Err(true),
    };
    let status = match &r {
        Ok(Ok(_)) => "ok",
        Ok(Err(_)) => "err",
        Err(_) => "panic",
    };
    let ov = overlapping(frags);
    sink.count(&format!("index:{}:{}", if ov { "overlapping-ranges" } else { "disjoint-ranges" }, status));
    let fj: Vec<_> = frags.iter().map(|f| json!({"fragment_id": f.id, "row_ids": seq_json(&f.segs), "deleted_offsets": f.deleted})).collect();
    let case = json!({"fragments": fj, "probes": probes, "status": status});
    let inp = format!(
        "({}, {})",
        coq::list(frags.iter().map(|f| format!("({}, {}, {})", f.id, seq_coq(&f.segs), coq::list(f.deleted.iter().map(|x| x.to_string()))))),
        coq::nlist(probes.iter())
    );
    sink.nontrivial(&inp);
    st.push(inp, coq::outcome(&out), case.clone());
    // ---- oracle: brute-force map of the live rows
    let mut map: HashMap<u64, u64> = HashMap::new();
    let mut unique = true;
    for f in frags {
        for (i, id) in seq_ids(&f.segs).iter().enumerate() {
            if !f.deleted.contains(&(i as u32)) {
                unique &= map.insert(*id, ((f.id as u64) << 32) + i as u64).is_none();
            }
        }
    }
    if !unique || map.keys().any(|k| *k == u64::MAX) {
        return; // outside the property's domain (ids are unique); correspondence only
    }
    let cls: Option<&str> = None; // F18 (overlapping ranges) is repaired: strict oracle on every layout
    match &r {
        Ok(Ok(v)) => {
            if probes.iter().zip(v).all(|(p, got)| *got == map.get(p).copied()) {
                sink.oracle_ok()
            } else {
                sink.oracle_fail(cls, "RowIdIndex::get disagrees with the id -> address map of the live rows", case)
            }
        }
        _ => sink.oracle_fail(cls, "RowIdIndex::new failed on fragments with unique row ids", case),
    }
}

fn split_natural(rng: &mut Rng, ids: &[u64], max_parts: u64) -> Vec<Sg> {
    if ids.is_empty() {
        return vec![];
    }
    let parts = rng.range(1, max_parts.min(ids.len() as u64));
    let mut cuts: Vec<usize> = (0..parts - 1).map(|_| rng.range(1, ids.len() as u64 - 1).min(ids.len() as u64) as usize).collect();
    cuts.push(0);
    cuts.push(ids.len());
    cuts.sort_unstable();
    cuts.dedup();
    cuts.windows(2).filter_map(|w| natural_seg(&ids[w[0]..w[1]])).collect()
}

pub fn exhaustive(sink: &mut Sink, st: &mut Stream, n_ids: u32, with_deletions: bool) {
    // every assignment of ids 0..n_ids to {absent, fragment 3, fragment 5}
    let total = 3u32.pow(n_ids);
    sink.notes.push(format!("index exhaustive: all {} assignments of ids 0..{} to (absent | fragment 3 | fragment 5), each fragment's ids ascending{}", total, n_ids, if with_deletions { ", with every single-row deletion" } else { "" }));
    let probes: Vec<u64> = (0..=n_ids as u64).collect();
    for code in 0..total {
        let mut a = vec![];
        let mut b = vec![];
        let mut c = code;
        for id in 0..n_ids as u64 {
            match c % 3 {
                1 => a.push(id),
                2 => b.push(id),
                _ => {}
            }
            c /= 3;
        }
        let mut frags = vec![];
        if let Some(s) = natural_seg(&a) {
            frags.push(Frag { id: 3, segs: vec![s], deleted: vec![] });
        }
        if let Some(s) = natural_seg(&b) {
            frags.push(Frag { id: 5, segs: vec![s], deleted: vec![] });
        }
        case_index(sink, st, &frags, &probes);
        if with_deletions && !a.is_empty() {
            for d in 0..a.len() as u32 {
                let mut f2 = frags.clone();
                f2[0].deleted = vec![d];
                case_index(sink, st, &f2, &probes);
            }
        }
    }
}

pub fn random(sink: &mut Sink, st: &mut Stream, rng: &mut Rng, n: usize) {
    for _ in 0..n {
        let nfrag = rng.range(1, 5);
        let per = rng.range(1, 30);
        let base = *rng.pick(&[0u64, 0, 0, 1000, (1 << 16) - 20, (1 << 32) - 20]);
        let total = nfrag * per;
        let style = rng.below(5);
        // blocks[i] = ids of fragment i in physical order
        let mut blocks: Vec<Vec<u64>> = (0..nfrag).map(|i| (0..per).map(|k| base + i * per + k).collect()).collect();
        let style_name = match style {
            0 => "appends",
            1 => {
                // updates: some ids move to a new last fragment (F18 class when the old fragment keeps ids around them)
                let mut moved = vec![];
                for b in blocks.iter_mut() {
                    let keep: Vec<u64> = b.iter().copied().filter(|x| { let m = rng.chance(1, 6); if m { moved.push(*x); } !m }).collect();
                    *b = keep;
                }
                if !moved.is_empty() {
                    blocks.push(moved);
                }
                "updates"
            }
            2 => {
                // exact tiling: ids dealt round-robin
                let all: Vec<u64> = (0..total).map(|k| base + k).collect();
                blocks = (0..nfrag).map(|i| all.iter().copied().filter(|x| (x - base) % nfrag == i).collect()).collect();
                "round-robin"
            }
            3 => {
                for b in blocks.iter_mut() {
                    shuffle(rng, b);
                }
                "shuffled-inside"
            }
            _ => {
                // sparse ids with gaps between fragments
                for (i, b) in blocks.iter_mut().enumerate() {
                    let stride = rng.range(1, 40);
                    *b = (0..per).map(|k| base + (i as u64) * 5000 + k * stride).collect();
                }
                "sparse"
            }
        };
        sink.count(&format!("index-gen:{style_name}"));
        let mut frag_ids: Vec<u32> = (0..blocks.len() as u32).map(|i| i * rng.range(1, 3) as u32 + if rng.chance(1, 10) { 1 << 20 } else { 0 }).collect();
        frag_ids.sort_unstable();
        frag_ids.dedup();
        while frag_ids.len() < blocks.len() {
            let nx = frag_ids.last().copied().unwrap_or(0) + 1;
            frag_ids.push(nx);
        }
        if rng.chance(1, 4) {
            shuffle(rng, &mut frag_ids);
        }
        let mut frags = vec![];
        for (i, b) in blocks.iter().enumerate() {
            if b.is_empty() {
                continue;
            }
            let segs = split_natural(rng, b, 3);
            let nrows = b.len() as u32;
            let deleted: Vec<u32> = if rng.chance(1, 2) { (0..nrows).filter(|_| rng.chance(1, 5)).collect() } else { vec![] };
            frags.push(Frag { id: frag_ids[i], segs, deleted });
        }
        let mut probes: Vec<u64> = blocks.iter().flatten().copied().collect();
        probes.extend([base.wrapping_sub(1), base + total, base + total + 1, base + 5000 * 7]);
        probes.sort_unstable();
        probes.dedup();
        case_index(sink, st, &frags, &probes);
    }
}

pub fn corpus(sink: &mut Sink, st: &mut Stream) {
    // F18: old fragment keeps {1,2,4,5,8}, the updated row carries id 7 into a new fragment
    let f = |id: u32, ids: &[u64]| Frag { id, segs: vec![natural_seg(ids).unwrap()], deleted: vec![] };
    let probes: Vec<u64> = (0..=9).collect();
    case_index(sink, st, &[f(0, &[1, 2, 4, 5, 8]), f(1, &[7])], &probes);
    case_index(sink, st, &[f(0, &[1, 5]), f(1, &[3])], &probes);
    case_index(sink, st, &[f(0, &[1, 3, 5]), f(1, &[2, 4])], &probes);
    // the Rust unit test
    let t = vec![
        Frag { id: 10, segs: vec![Sg::Range(0, 10), Sg::Holes(10, 17, EA::natural(&[12, 15])), Sg::Sorted(EA::natural(&[20, 25, 30]))], deleted: vec![] },
        Frag { id: 20, segs: vec![Sg::Bitmap(17, 20, vec![true, false, true]), Sg::Array(EA::natural(&[40, 50, 60]))], deleted: vec![] },
    ];
    case_index(sink, st, &t, &[0, 15, 16, 17, 25, 40, 60, 61]);
}

pub fn run(args: &Args, sink: &mut Sink, st: &mut Stream) {
    let mut rng = Rng::new(args.seed ^ 0x1d3);
    corpus(sink, st);
    if args.thorough() {
        exhaustive(sink, st, 7, true);
    } else {
        exhaustive(sink, st, 6, false);
    }
    random(sink, st, &mut rng, args.vol(150, 2000));
}
