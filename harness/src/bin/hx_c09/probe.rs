//! Reproductions on the real code (not part of the check): F7 and the reserved-directory-name hazard.
use arrow_array::{Int32Array, RecordBatch, RecordBatchIterator};
use arrow_schema::{DataType, Field, Schema as ArrowSchema};
use hxlib::util::Args;
use lance::dataset::{WriteMode, WriteParams};
use lance::Dataset;
use std::sync::Arc;
use futures::TryStreamExt;

async fn scan_ids(ds: &Dataset) -> Result<Vec<i32>, String> {
    let st = ds.scan().try_into_stream().await.map_err(|e| e.to_string().chars().take(160).collect::<String>())?;
    let bs: Vec<RecordBatch> = st.try_collect().await.map_err(|e: lance::Error| e.to_string().chars().take(160).collect::<String>())?;
    let mut out = vec![];
    for b in bs {
        let a = b.column(0).as_any().downcast_ref::<Int32Array>().unwrap();
        out.extend(a.values().iter().copied());
    }
    out.sort();
    Ok(out)
}


fn batch(ids: Vec<i32>) -> (Arc<ArrowSchema>, RecordBatch) {
    let schema = Arc::new(ArrowSchema::new(vec![Field::new("id", DataType::Int32, false)]));
    let b = RecordBatch::try_new(schema.clone(), vec![Arc::new(Int32Array::from(ids))]).unwrap();
    (schema, b)
}
fn reader(ids: Vec<i32>) -> RecordBatchIterator<std::vec::IntoIter<Result<RecordBatch, arrow_schema::ArrowError>>> {
    let (s, b) = batch(ids);
    RecordBatchIterator::new(vec![Ok(b)].into_iter(), s)
}
fn ls(dir: &std::path::Path) -> Vec<String> {
    let mut out = vec![];
    fn walk(base: &std::path::Path, d: &std::path::Path, out: &mut Vec<String>) {
        if let Ok(rd) = std::fs::read_dir(d) {
            for e in rd.flatten() {
                let p = e.path();
                if p.is_dir() {
                    walk(base, &p, out);
                } else {
                    out.push(p.strip_prefix(base).unwrap().to_string_lossy().to_string());
                }
            }
        }
    }
    walk(dir, dir, &mut out);
    out.sort();
    out
}

async fn f7() {
    println!("== F7: cleanup on main after branching from an old version");
    let dir = tempfile::tempdir().unwrap();
    let uri = dir.path().join("ds").to_string_lossy().to_string();
    let mut ds = Dataset::write(reader(vec![1, 2]), &uri, None).await.unwrap();
    let bds = ds.create_branch("dev", 1u64, None).await.unwrap();
    println!("  branch dev rows {}", bds.count_rows(None).await.unwrap());
    let mut ds = Dataset::write(reader(vec![7]), &uri, Some(WriteParams { mode: WriteMode::Overwrite, ..Default::default() })).await.unwrap();
    let stats = ds.cleanup_old_versions(chrono::Duration::zero(), Some(false), Some(false)).await;
    println!("  cleanup stats {:?}", stats.map_err(|e| e.to_string()));
    match ds.checkout_branch("dev").await {
        Ok(b) => println!("  branch dev scan after main cleanup: {:?}", scan_ids(&b).await),
        Err(e) => println!("  branch dev unreadable: {}", e),
    }
}

async fn reserved(child: &str, force_unverified: bool) {
    println!("== reserved-dir: branches 'a' and 'a/{child}'");
    let dir = tempfile::tempdir().unwrap();
    let uri = dir.path().join("ds").to_string_lossy().to_string();
    let mut ds = Dataset::write(reader(vec![1, 2]), &uri, None).await.unwrap();
    let mut a = ds.create_branch("a", 1u64, None).await.unwrap();
    a.append(reader(vec![3]), None).await.unwrap();
    println!("  branch a rows {}", a.count_rows(None).await.unwrap());
    let name = format!("a/{child}");
    match ds.create_branch(&name, 1u64, None).await {
        Ok(mut c) => {
            c.append(reader(vec![4, 5]), None).await.unwrap();
            println!("  branch {name} rows {}", c.count_rows(None).await.unwrap());
        }
        Err(e) => {
            println!("  create {name} failed: {e}");
            return;
        }
    }
    println!("  files: {:?}", ls(&dir.path().join("ds").join("tree")));
    if force_unverified {
        // maintenance on branch a
        let mut a = ds.checkout_branch("a").await.unwrap();
        a.append(reader(vec![9]), None).await.unwrap();
        let st = a.cleanup_old_versions(chrono::Duration::zero(), Some(true), Some(false)).await;
        println!("  cleanup(delete_unverified) on branch a: {:?}", st.map_err(|e| e.to_string()));
        match ds.checkout_branch(&name).await {
            Ok(b) => println!("  branch {name} scan after cleanup on a: {:?}", scan_ids(&b).await),
            Err(e) => println!("  branch {name} unreadable: {}", e.to_string().chars().take(160).collect::<String>()),
        }
    } else {
        println!("  delete {name}: {:?}", ds.delete_branch(&name).await.map_err(|e| e.to_string()));
        println!("  files: {:?}", ls(&dir.path().join("ds").join("tree")));
        match ds.checkout_branch("a").await {
            Ok(b) => println!("  branch a scan after delete: {:?}", scan_ids(&b).await),
            Err(e) => println!("  branch a unreadable: {}", e.to_string().chars().take(160).collect::<String>()),
        }
    }
}

async fn cross() {
    println!("== cross: create branch from (a, v) through a handle on main / on another branch");
    let dir = tempfile::tempdir().unwrap();
    let uri = dir.path().join("ds").to_string_lossy().to_string();
    let mut ds = Dataset::write(reader(vec![1, 2]), &uri, None).await.unwrap();
    ds.append(reader(vec![100]), None).await.unwrap(); // main v2 = [1,2,100]
    let mut a = ds.create_branch("a", 1u64, None).await.unwrap();
    a.append(reader(vec![3]), None).await.unwrap(); // a v2 = [1,2,3]
    println!("  main v2 {:?}; a v{} {:?}", scan_ids(&ds).await, a.version().version, scan_ids(&a).await);
    match ds.create_branch("b", ("a", 2u64), None).await {
        Ok(b) => println!("  b := (a,2) via main handle: v{} {:?} (expected [1,2,3])", b.version().version, scan_ids(&b).await),
        Err(e) => println!("  create b failed: {e}"),
    }
    match a.create_branch("c", (None::<String>, Some(2u64)), None).await {
        Ok(b) => println!("  c := (main,2) via handle on a: v{} {:?} (expected [1,2,100])", b.version().version, scan_ids(&b).await),
        Err(e) => println!("  create c failed: {e}"),
    }
    let cl = dir.path().join("clone").to_string_lossy().to_string();
    match ds.shallow_clone(&cl, ("a", 2u64), None).await {
        Ok(b) => println!("  clone := (a,2) via main handle: v{} {:?} (expected [1,2,3])", b.version().version, scan_ids(&b).await),
        Err(e) => println!("  clone failed: {e}"),
    }
    println!("  branches: {:?}", ds.list_branches().await.map(|m| m.into_iter().map(|(k, v)| (k, v.parent_branch, v.parent_version)).collect::<Vec<_>>()).map_err(|e| e.to_string()));
}

async fn dependents() {
    println!("== dependents: x from main@1, write on x, c from (x,2) via x handle, delete x");
    let dir = tempfile::tempdir().unwrap();
    let uri = dir.path().join("ds").to_string_lossy().to_string();
    let mut ds = Dataset::write(reader(vec![1, 2]), &uri, None).await.unwrap();
    let mut x = ds.create_branch("x", 1u64, None).await.unwrap();
    x.append(reader(vec![3]), None).await.unwrap();
    let c = x.create_branch("c", ("x", 2u64), None).await.unwrap();
    println!("  c reads {:?}", scan_ids(&c).await);
    let cl = dir.path().join("clone").to_string_lossy().to_string();
    let k = x.shallow_clone(&cl, ("x", 2u64), None).await.unwrap();
    println!("  clone reads {:?}", scan_ids(&k).await);
    println!("  delete x: {:?}", ds.delete_branch("x").await.map_err(|e| e.to_string()));
    match ds.checkout_branch("c").await {
        Ok(b) => println!("  c after delete x: {:?}", scan_ids(&b).await),
        Err(e) => println!("  c unreadable: {}", e),
    }
    match Dataset::open(&cl).await {
        Ok(b) => println!("  clone after delete x: {:?}", scan_ids(&b).await),
        Err(e) => println!("  clone unreadable: {}", e),
    }
    println!("  create 'a/.': {:?}", ds.create_branch("a/.", 1u64, None).await.map(|_| ()).map_err(|e| e.to_string().chars().take(120).collect::<String>()));
    println!("  create '.': {:?}", ds.create_branch(".", 1u64, None).await.map(|_| ()).map_err(|e| e.to_string().chars().take(120).collect::<String>()));
}

async fn stale_commit() {
    use lance::dataset::{CommitBuilder, InsertBuilder};
    println!("== stale two-phase commit on a branch: uncommitted append at b@v2, b moves to v3, commit to b's uri");
    let dir = tempfile::tempdir().unwrap();
    let uri = dir.path().join("ds").to_string_lossy().to_string();
    let mut ds = Dataset::write(reader(vec![1, 2]), &uri, None).await.unwrap();
    ds.append(reader(vec![100]), None).await.unwrap(); // main v2
    ds.append(reader(vec![101]), None).await.unwrap(); // main v3
    let mut b = ds.create_branch("b", 1u64, None).await.unwrap();
    b.append(reader(vec![3]), None).await.unwrap(); // b v2
    let stale = Arc::new(b.clone());
    let (_, batch) = batch(vec![50]);
    let txn = InsertBuilder::new(stale.clone()).with_params(&WriteParams { mode: WriteMode::Append, ..Default::default() }).execute_uncommitted(vec![batch]).await.unwrap();
    println!("  txn read_version {}", txn.read_version);
    b.append(reader(vec![4]), None).await.unwrap(); // b v3
    let files_before = ls(&dir.path().join("ds"));
    let buri = b.uri().to_string();
    let r = CommitBuilder::new(buri.as_str()).execute(txn).await;
    match &r {
        Ok(d) => println!("  commit returned dataset uri {} branch {:?} version {} rows {:?}", d.uri(), d.manifest().branch, d.version().version, scan_ids(d).await),
        Err(e) => println!("  commit failed: {}", e.to_string().chars().take(200).collect::<String>()),
    }
    let files_after = ls(&dir.path().join("ds"));
    for f in files_after.iter().filter(|f| !files_before.contains(f)) {
        println!("  new file: {f}");
    }
    let main = Dataset::open(&uri).await.unwrap();
    println!("  main latest v{} rows {:?}", main.version().version, scan_ids(&main).await);
    let bb = main.checkout_branch("b").await.unwrap();
    println!("  b latest v{} rows {:?}", bb.version().version, scan_ids(&bb).await);
}

pub fn run(_args: &Args) -> i32 {
    let rt = tokio::runtime::Builder::new_multi_thread().worker_threads(4).enable_all().build().unwrap();
    rt.block_on(async {
        cross().await;
        stale_commit().await;
        dependents().await;
        f7().await;
        reserved("data", false).await;
        reserved("_versions", false).await;
        reserved("data", true).await;
        println!("hook abc: {:?}", lance::dataset::refs::verif_get_cleanup_path("abc", &["ab", "ab/c"]).map_err(|e| e.to_string()));
        println!("hook a_versions: {:?}", lance::dataset::refs::verif_get_cleanup_path("a_versions", &["a"]).map_err(|e| e.to_string()));
        println!("hook a/.: {:?}", lance::dataset::refs::verif_get_cleanup_path("a/.", &["a"]).map_err(|e| e.to_string()));
        println!("hook a//b: {:?}", lance::dataset::refs::verif_get_cleanup_path("a//b", &["a"]).map_err(|e| e.to_string()));
        println!("hook é: {:?}", lance::dataset::refs::verif_get_cleanup_path("é/x", &["a"]).map_err(|e| e.to_string()));
        println!("hook empty: {:?}", lance::dataset::refs::verif_get_cleanup_path("", &["a"]).map_err(|e| e.to_string()));
    });
    0
}
