//! Reproductions on the real code (not part of the check): F7 and the reserved-directory-name hazard.
use arrow_array::{Int32Array, RecordBatch, RecordBatchIterator};
use arrow_schema::{DataType, Field, Schema as ArrowSchema};
use hxlib::util::Args;
use lance::dataset::{WriteMode, WriteParams};
use lance::Dataset;
use std::sync::Arc;
use futures::TryStreamExt;

async fn scan_ids(ds: &Dataset) -> Result<Vec<i32>, String> {
    let st = ds.scan().try_into_stream().await.map_err(|e| e.to_string().chars().take(160).collect::<String>())?;
    let bs: Vec<RecordBatch> = st.try_collect().await.map_err(|e: lance::Error| e.to_string().chars().take(160).collect::<String>())?;
    let mut out = vec![];
    for b in bs {
        let a = b.column(0).as_any().downcast_ref::<Int32Array>().unwrap();
        out.extend(a.values().iter().copied());
    }
    out.sort();
    Ok(out)
}


fn batch(ids: Vec<i32>) -> (Arc<ArrowSchema>, RecordBatch) {
    let schema = Arc::new(ArrowSchema::new(vec![Field::new("id", DataType::Int32, false)]));
    let b = RecordBatch::try_new(schema.clone(), vec![Arc::new(Int32Array::from(ids))]).unwrap();
    (schema, b)
}
fn reader(ids: Vec<i32>) -> RecordBatchIterator<std::vec::IntoIter<Result<RecordBatch, arrow_schema::ArrowError>>> {
    let (s, b) = batch(ids);
    RecordBatchIterator::new(vec![Ok(b)].into_iter(), s)
}
fn ls(dir: &std::path::Path) -> Vec<String> {
    let mut out = vec![];
    fn walk(base: &std::path::Path, d: &std::path::Path, out: &mut Vec<String>) {
        if let Ok(rd) = std::fs::read_dir(d) {
            for e in rd.flatten() {
                let p = e.path();
                if p.is_dir() {
                    walk(base, &p, out);
                } else {
                    out.push(p.strip_prefix(base).unwrap().to_string_lossy().to_string());
                }
            }
        }
    }
    walk(dir, dir, &mut out);
    out.sort();
    out
}

async fn f7() {
    println!("== F7: cleanup on main after branching from an old version");
    let dir = tempfile::tempdir().unwrap();
    let uri = dir.path().join("ds").to_string_lossy().to_string();
    let mut ds = Dataset::write(reader(vec![1, 2]), &uri, None).await.unwrap();
    let bds = ds.create_branch("dev", 1u64, None).await.unwrap();
    println!("  branch dev rows {}", bds.count_rows(None).await.unwrap());
    let mut ds = Dataset::write(reader(vec![7]), &uri, Some(WriteParams { mode: WriteMode::Overwrite, ..Default::default() })).await.unwrap();
    let stats = ds.cleanup_old_versions(chrono::Duration::zero(), Some(false), Some(false)).await;
    println!("  cleanup stats {:?}", stats.map_err(|e| e.to_string()));
    match ds.checkout_branch("dev").await {
        Ok(b) => println!("  branch dev scan after main cleanup: {:?}", scan_ids(&b).await),
        Err(e) => println!("  branch dev unreadable: {}", e),
    }
}

async fn reserved(child: &str, force_unverified: bool) {
    println!("== reserved-dir: branches 'a' and 'a/{child}'");
    let dir = tempfile::tempdir().unwrap();
    let uri = dir.path().join("ds").to_string_lossy().to_string();
    let mut ds = Dataset::write(reader(vec![1, 2]), &uri, None).await.unwrap();
    let mut a = ds.create_branch("a", 1u64, None).await.unwrap();
    a.append(reader(vec![3]), None).await.unwrap();
    println!("  branch a rows {}", a.count_rows(None).await.unwrap());
    let name = format!("a/{child}");
    match ds.create_branch(&name, 1u64, None).await {
        Ok(mut c) => {
            c.append(reader(vec![4, 5]), None).await.unwrap();
            println!("  branch {name} rows {}", c.count_rows(None).await.unwrap());
        }
        Err(e) => {
            println!("  create {name} failed: {e}");
            return;
        }
    }
    println!("  files: {:?}", ls(&dir.path().join("ds").join("tree")));
    if force_unverified {
        // maintenance on branch a
        let mut a = ds.checkout_branch("a").await.unwrap();
        a.append(reader(vec![9]), None).await.unwrap();
        let st = a.cleanup_old_versions(chrono::Duration::zero(), Some(true), Some(false)).await;
        println!("  cleanup(delete_unverified) on branch a: {:?}", st.map_err(|e| e.to_string()));
        match ds.checkout_branch(&name).await {
            Ok(b) => println!("  branch {name} scan after cleanup on a: {:?}", scan_ids(&b).await),
            Err(e) => println!("  branch {name} unreadable: {}", e.to_string().chars().take(160).collect::<String>()),
        }
    } else {
        println!("  delete {name}: {:?}", ds.delete_branch(&name).await.map_err(|e| e.to_string()));
        println!("  files: {:?}", ls(&dir.path().join("ds").join("tree")));
        match ds.checkout_branch("a").await {
            Ok(b) => println!("  branch a scan after delete: {:?}", scan_ids(&b).await),
            Err(e) => println!("  branch a unreadable: {}", e.to_string().chars().take(160).collect::<String>()),
        }
    }
}

pub fn run(_args: &Args) -> i32 {
    let rt = tokio::runtime::Builder::new_multi_thread().worker_threads(4).enable_all().build().unwrap();
    rt.block_on(async {
        f7().await;
        reserved("data", false).await;
        reserved("_versions", false).await;
        reserved("data", true).await;
        println!("hook abc: {:?}", lance::dataset::refs::verif_get_cleanup_path("abc", &["ab", "ab/c"]).map_err(|e| e.to_string()));
        println!("hook a_versions: {:?}", lance::dataset::refs::verif_get_cleanup_path("a_versions", &["a"]).map_err(|e| e.to_string()));
        println!("hook a/.: {:?}", lance::dataset::refs::verif_get_cleanup_path("a/.", &["a"]).map_err(|e| e.to_string()));
        println!("hook a//b: {:?}", lance::dataset::refs::verif_get_cleanup_path("a//b", &["a"]).map_err(|e| e.to_string()));
        println!("hook é: {:?}", lance::dataset::refs::verif_get_cleanup_path("é/x", &["a"]).map_err(|e| e.to_string()));
        println!("hook empty: {:?}", lance::dataset::refs::verif_get_cleanup_path("", &["a"]).map_err(|e| e.to_string()));
    });
    0
}
